/- Helper lemmas for the cross-CRS half of C13 (parametric transformation); mechanical
generalisations of `Lemmas/C13.lean`. -/
import OdcGeo.Model.C13P
import OdcGeo.Lemmas.C13

namespace OdcGeo.C13
open OdcGeo

/-- cropping both geoboxes conjugates the pixel map by the two offsets, whatever the coordinate
transformation in between -/
theorem pixMapP_crop (proj : Proj) (S D : Aff) (hS : S.det ≠ 0) (ox oy tx ty : Rat) (q : Rat × Rat) :
    pixMapP proj (S * Aff.translation ox oy) (D * Aff.translation tx ty) q =
      ((pixMapP proj S D (q.1 + tx, q.2 + ty)).1 - ox, (pixMapP proj S D (q.1 + tx, q.2 + ty)).2 - oy) := by
  have hS' : (S * Aff.translation ox oy).det ≠ 0 := by
    rw [Aff.det_mul, det_translation, mul_one]; exact hS
  unfold pixMapP
  rw [Aff.apply_mul D, translation_apply]
  set w := proj (D.apply (q.1 + tx, q.2 + ty)) with hw
  set p' := (S * Aff.translation ox oy).inv.apply w with hp'
  have h1 : (S * Aff.translation ox oy).apply p' = w := by rw [hp', Aff.apply_inv_apply _ hS']
  rw [Aff.apply_mul, translation_apply] at h1
  have h2 : (p'.1 + ox, p'.2 + oy) = S.inv.apply w := by
    apply apply_injective S hS
    rw [h1, Aff.apply_inv_apply S hS]
  rw [← h2]
  ext <;> simp

/-- If the chunk-level pixel map `A'` is the full map `A` conjugated by the integer offsets of the
source window `(oy, ox)` (inside the source) and of the destination tile `(y0, x0)`, then the
chunk samples exactly the pixel the whole array samples, provided that pixel lies in the window,
and nothing otherwise. -/
theorem samplePixM_window (M M' : Rat × Rat → Rat × Rat) (H W h' w' oy ox y0 x0 : Int) (d : Int × Int)
    (hA : ∀ q : Rat × Rat, M' q =
      ((M (q.1 + x0, q.2 + y0)).1 - ox, (M (q.1 + x0, q.2 + y0)).2 - oy))
    (hwin : 0 ≤ oy ∧ oy + h' ≤ H ∧ 0 ≤ ox ∧ ox + w' ≤ W) :
    samplePixM M' h' w' d =
      match samplePixM M H W (d.1 + y0, d.2 + x0) with
      | none => none
      | some s =>
        if oy ≤ s.1 ∧ s.1 < oy + h' ∧ ox ≤ s.2 ∧ s.2 < ox + w' then some (s.1 - oy, s.2 - ox)
        else none := by
  obtain ⟨h1, h2, h3, h4⟩ := hwin
  have h1' : (0 : Rat) ≤ oy := by exact_mod_cast h1
  have h2' : (oy : Rat) + h' ≤ H := by exact_mod_cast h2
  have h3' : (0 : Rat) ≤ ox := by exact_mod_cast h3
  have h4' : (ox : Rat) + w' ≤ W := by exact_mod_cast h4
  unfold samplePixM
  simp only [hA]
  have e1 : (((d.2 + x0 : Int) : Rat) + 1 / 2) = (d.2 : Rat) + 1 / 2 + x0 := by push_cast; ring
  have e2 : (((d.1 + y0 : Int) : Rat) + 1 / 2) = (d.1 : Rat) + 1 / 2 + y0 := by push_cast; ring
  simp only [e1, e2]
  generalize M ((d.2 : Rat) + 1 / 2 + x0, (d.1 : Rat) + 1 / 2 + y0) = p
  by_cases hin : 0 ≤ p.1 ∧ p.1 < (W : Rat) ∧ 0 ≤ p.2 ∧ p.2 < (H : Rat)
  · rw [if_pos hin]
    simp only []
    have f1 : (oy ≤ p.2.floor) ↔ ((oy : Rat) ≤ p.2) := Rat.le_floor_iff
    have f2 : (p.2.floor < oy + h') ↔ (p.2 < ((oy + h' : Int) : Rat)) := Rat.floor_lt_iff
    have f3 : (ox ≤ p.1.floor) ↔ ((ox : Rat) ≤ p.1) := Rat.le_floor_iff
    have f4 : (p.1.floor < ox + w') ↔ (p.1 < ((ox + w' : Int) : Rat)) := Rat.floor_lt_iff
    push_cast at f2 f4
    by_cases hw : 0 ≤ p.1 - (ox : Rat) ∧ p.1 - (ox : Rat) < (w' : Rat) ∧ 0 ≤ p.2 - (oy : Rat) ∧ p.2 - (oy : Rat) < (h' : Rat)
    · rw [if_pos hw, if_pos]
      · rw [floor_sub_int, floor_sub_int]
      · obtain ⟨a, b, c, e⟩ := hw
        refine ⟨f1.2 (by linarith), f2.2 (by linarith), f3.2 (by linarith), f4.2 (by linarith)⟩
    · rw [if_neg hw, if_neg]
      rintro ⟨a, b, c, e⟩
      exact hw ⟨by linarith [f3.1 c], by linarith [f4.1 e], by linarith [f1.1 a], by linarith [f2.1 b]⟩
  · rw [if_neg hin]
    simp only []
    rw [if_neg]
    rintro ⟨a, b, c, e⟩
    exact hin ⟨by linarith, by linarith, by linarith, by linarith⟩


theorem rioPlaneP_eq (V : Variant) (G : Gdal) (k : DKind) (src : Img) (sh sw : Int) (buf : Img)
    (S D : Aff) (proj : Proj) (srcNd dstNd : Option Val) (d : Int × Int) (hb : (buf d).isSome) :
    rioReprojectPlaneP V G k src sh sw buf S D proj srcNd dstNd d =
      outPix V G k srcNd dstNd src (samplePixM (pixMapP proj S D) sh sw d) := by
  unfold rioReprojectPlaneP gdalNearestM outPix
  cases hbd : buf d with
  | none => simp [hbd] at hb
  | some v =>
    simp only [encImg, hbd, Option.map_some]
    cases samplePixM (pixMapP proj S D) sh sw d with
    | none => rfl
    | some s =>
      simp only []
      cases src s with
      | none => rfl
      | some v => simp only [Option.map_some]


/-- `_do_chunked_reproject` pixel by pixel: it succeeds, and every pixel of the chunk that
samples nothing, or samples a source pixel lying in one of the listed source tiles, holds
what `_rio_reproject` writes for that sampled pixel of the *whole* source. -/
theorem doChunkedP_pixel (c : Cfg) (proj : Proj) (G : Gdal) (src : Img) (idx : TIdx) (blocks : List Img)
    (hsy : Chain 0 c.sy c.srcH) (hsx : Chain 0 c.sx c.srcW) (hS : c.S.det ≠ 0)
    (hvalid : DepsValid c) (hne : lookupDeps c.deps idx ≠ [])
    (hblocks : mapOpt (srcBlock src c.sy c.sx) (lookupDeps c.deps idx) = some blocks)
    (ty tx : Span) (hty : c.dy[idx.1]? = some ty) (htx : c.dx[idx.2]? = some tx) :
    ∃ blk, doChunkedReprojectP c proj G idx blocks = some blk ∧
      ∀ d' : Int × Int, 0 ≤ d'.1 → d'.1 < ty.2 - ty.1 → 0 ≤ d'.2 → d'.2 < tx.2 - tx.1 →
        (match samplePixM (pixMapP proj c.S c.D) c.srcH c.srcW (d'.1 + ty.1, d'.2 + tx.1) with
          | none => True
          | some s => ∃ i ∈ lookupDeps c.deps idx, InTile c.sy i.1 s.1 ∧ InTile c.sx i.2 s.2) →
        blk d' = outPix c.variant G c.kind c.srcNd
          (chunkDstNodata c.variant c.kind c.srcNd c.dstNd) src
          (samplePixM (pixMapP proj c.S c.D) c.srcH c.srcW (d'.1 + ty.1, d'.2 + tx.1)) := by
  set sel := lookupDeps c.deps idx with hsel
  have hney : sel.map (·.1) ≠ [] := by simpa using hne
  have hnex : sel.map (·.2) ≠ [] := by simpa using hne
  obtain ⟨y1, y2, hmy⟩ := minMax_isSome hney
  obtain ⟨x1, x2, hmx⟩ := minMax_isSome hnex
  obtain ⟨hby, hy1, hy2⟩ := minMax_spec hmy
  obtain ⟨hbx, hx1, hx2⟩ := minMax_spec hmx
  -- the extreme indices are valid tile indices
  have valid_y : ∀ a ∈ sel.map (·.1), ∃ s, c.sy[a]? = some s := by
    intro a ha
    obtain ⟨i, hi, rfl⟩ := List.mem_map.1 ha
    have := (hvalid idx i hi).1
    exact ⟨c.sy[i.1], by simp [this]⟩
  have valid_x : ∀ a ∈ sel.map (·.2), ∃ s, c.sx[a]? = some s := by
    intro a ha
    obtain ⟨i, hi, rfl⟩ := List.mem_map.1 ha
    have := (hvalid idx i hi).2
    exact ⟨c.sx[i.2], by simp [this]⟩
  obtain ⟨ay, hay⟩ := valid_y y1 hy1
  obtain ⟨by_, hby_⟩ := valid_y y2 hy2
  obtain ⟨ax, hax⟩ := valid_x x1 hx1
  obtain ⟨bx, hbx_⟩ := valid_x x2 hx2
  obtain ⟨cy, hcy, hcyi⟩ := clipSpans_spec hay hby_
  obtain ⟨cx, hcx, hcxi⟩ := clipSpans_spec hax hbx_
  -- assemble
  obtain ⟨asm, hasm, hcov, _⟩ := assemble_spec src c.sy c.sx cy cx y1 x1 ay.1 ax.1 sel blocks
    (full (by_.2 - ay.1) (bx.2 - ax.1) (extractFill c.srcNd c.kind)) hblocks
    (by
      intro i hi
      have h1 := hby i.1 (List.mem_map.2 ⟨i, hi, rfl⟩)
      have h2 := hbx i.2 (List.mem_map.2 ⟨i, hi, rfl⟩)
      exact ⟨h1.1, h2.1, hcyi i.1 h1.1 h1.2, hcxi i.2 h2.1 h2.2⟩)
  refine ⟨_, by
    unfold doChunkedReprojectP
    simp only [← hsel, hmy, hmx, hcy, hcx, hty, htx, hasm, Option.bind_eq_bind, Option.bind_some,
      Option.pure_def]
    rfl, ?_⟩
  intro d' hd1 hd2 hd3 hd4 hcover
  -- window geometry
  have gy1 := Chain.get hsy hay
  have gy2 := Chain.get hsy hby_
  have gx1 := Chain.get hsx hax
  have gx2 := Chain.get hsx hbx_
  rw [rioPlaneP_eq _ _ _ _ _ _ _ _ _ _ _ _ _ (full_isSome _ _ _ _ ⟨hd1, hd2, hd3, hd4⟩)]
  have hA := pixMapP_crop proj c.S c.D hS (ax.1 : Int) (ay.1 : Int) (tx.1 : Int) (ty.1 : Int)
  rw [samplePixM_window (pixMapP proj c.S c.D) _ c.srcH c.srcW (by_.2 - ay.1) (bx.2 - ax.1) ay.1 ax.1 ty.1 tx.1 d'
    hA ⟨by omega, by omega, by omega, by omega⟩]
  cases hs : samplePixM (pixMapP proj c.S c.D) c.srcH c.srcW (d'.1 + ty.1, d'.2 + tx.1) with
  | none => simp [outPix]
  | some s =>
    rw [hs] at hcover
    obtain ⟨i, hi, ⟨s1, e1, a1, a2⟩, ⟨s2, e2, a3, a4⟩⟩ := hcover
    have h1 := hby i.1 (List.mem_map.2 ⟨i, hi, rfl⟩)
    have h2 := hbx i.2 (List.mem_map.2 ⟨i, hi, rfl⟩)
    have m1 := Chain.mono hsy h1.1 hay e1
    have m2 := Chain.mono hsy h1.2 e1 hby_
    have m3 := Chain.mono hsx h2.1 hax e2
    have m4 := Chain.mono hsx h2.2 e2 hbx_
    simp only []
    rw [if_pos (by omega)]
    have := hcov (s.1 - ay.1, s.2 - ax.1) ⟨i, hi, ⟨s1, e1, by simp; omega, by simp; omega⟩,
      ⟨s2, e2, by simp; omega, by simp; omega⟩⟩
    simp only [Int.sub_add_cancel] at this
    simp only [outPix, encImg, this]


theorem daskP_pixel (c : Cfg) (proj : Proj) (G : Gdal) (src : Img)
    (hsy : Chain 0 c.sy c.srcH) (hsx : Chain 0 c.sx c.srcW)
    (hdy : Chain 0 c.dy c.dstH) (hdx : Chain 0 c.dx c.dstW) (hS : c.S.det ≠ 0)
    (hvalid : DepsValid c) (d : Int × Int)
    (hd : 0 ≤ d.1 ∧ d.1 < c.dstH ∧ 0 ≤ d.2 ∧ d.2 < c.dstW) :
    ∃ iy ix, InTile c.dy iy d.1 ∧ InTile c.dx ix d.2 ∧
      (lookupDeps c.deps (iy, ix) = [] →
        daskResultP c proj G src d = some (resolveFill c.dstNd c.srcNd c.kind)) ∧
      (lookupDeps c.deps (iy, ix) ≠ [] →
        (match samplePixM (pixMapP proj c.S c.D) c.srcH c.srcW d with
          | none => True
          | some s => ∃ i ∈ lookupDeps c.deps (iy, ix), InTile c.sy i.1 s.1 ∧ InTile c.sx i.2 s.2) →
        daskResultP c proj G src d = outPix c.variant G c.kind c.srcNd
          (chunkDstNodata c.variant c.kind c.srcNd c.dstNd) src
          (samplePixM (pixMapP proj c.S c.D) c.srcH c.srcW d)) := by
  obtain ⟨h1, h2, h3, h4⟩ := hd
  obtain ⟨iy, hiy⟩ := Chain.locate_some hdy h1 h2
  obtain ⟨ix, hix⟩ := Chain.locate_some hdx h3 h4
  obtain ⟨ty, hty, t1, t2⟩ := locate_spec hiy
  obtain ⟨tx, htx, t3, t4⟩ := locate_spec hix
  obtain ⟨blocks, hblocks⟩ := mapOpt_isSome (f := srcBlock src c.sy c.sx)
    (l := lookupDeps c.deps (iy, ix)) (by
      intro i hi
      have := hvalid (iy, ix) i hi
      exact ⟨window src c.sy[i.1] c.sx[i.2], by simp [srcBlock, this.1, this.2]⟩)
  refine ⟨iy, ix, ⟨ty, hty, t1, t2⟩, ⟨tx, htx, t3, t4⟩, ?_, ?_⟩
  · intro he
    unfold daskResultP
    simp only [hiy, hix, hty, htx, Option.bind_eq_bind, Option.bind_some, dstBlockP, dstTaskP, he,
      List.isEmpty_nil, if_true, constBlock, Option.pure_def]
    simp only [mapOpt, Option.bind_some, full]
    rw [if_pos (by omega)]
  · intro hne hcov
    obtain ⟨blk, hblk, hpix⟩ := doChunkedP_pixel c proj G src (iy, ix) blocks hsy hsx hS hvalid hne hblocks
      ty tx hty htx
    have hne' : (lookupDeps c.deps (iy, ix)).isEmpty = false := by
      cases h : lookupDeps c.deps (iy, ix) with
      | nil => exact absurd h hne
      | cons a r => rfl
    unfold daskResultP
    simp only [hiy, hix, hty, htx, Option.bind_eq_bind, Option.bind_some, dstBlockP, hblocks, dstTaskP, hne',
      hblk]
    have e : (d.1 - ty.1 + ty.1, d.2 - tx.1 + tx.1) = d := by
      ext <;> simp
    have := hpix (d.1 - ty.1, d.2 - tx.1) (by simp; omega) (by simp; omega) (by simp; omega) (by simp; omega)
    simp only [e] at this
    simpa using this hcov


end OdcGeo.C13
