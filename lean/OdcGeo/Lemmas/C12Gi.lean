/- Helper lemmas for `Props/C12Gi.lean`. -/
import OdcGeo.Model.C12Gi
import OdcGeo.Props.C12
import Mathlib.Tactic.Linarith
import Mathlib.Tactic.Ring
import Mathlib.Algebra.Order.Field.Rat
namespace OdcGeo.C12
open OdcGeo OdcGeo.C17 OdcGeo.C04 OdcGeo.Spec

/-- `P` lies in the convex hull of the ring, by support functions: on every axis the projection
of `P` lies between the smallest and the largest vertex projection -/
def Quad.Contains (q : Quad) (P : Rat × Rat) : Prop :=
  ∀ ax : Rat × Rat,
    min4 (Convex.dot ax q.p1) (Convex.dot ax q.p2) (Convex.dot ax q.p4) (Convex.dot ax q.p3)
        ≤ Convex.dot ax P ∧
    Convex.dot ax P ≤
      max4 (Convex.dot ax q.p1) (Convex.dot ax q.p2) (Convex.dot ax q.p4) (Convex.dot ax q.p3)

theorem dot_apply (ax : Rat × Rat) (A : Aff) (x y : Rat) :
    Convex.dot ax (A.apply (x, y)) =
      (ax.1 * A.a + ax.2 * A.d) * x + (ax.1 * A.b + ax.2 * A.e) * y + (ax.1 * A.c + ax.2 * A.f) := by
  simp only [Convex.dot, Aff.apply]; ring

/-- the image of a box under an affine map contains the image of every point of the box -/
theorem ofBox_contains (A : Aff) (b : BBox) (u v : Rat) (hu : b.x1 ≤ u ∧ u ≤ b.x2)
    (hv : b.y1 ≤ v ∧ v ≤ b.y2) : (Quad.ofBox A b).Contains (A.apply (u, v)) := by
  intro ax
  simp only [Quad.ofBox, dot_apply]
  exact affine_form_between _ _ _ b.x1 b.x2 b.y1 b.y2 u v hu hv

theorem ofBBox_contains (b : BBox) (u v : Rat) (hu : b.x1 ≤ u ∧ u ≤ b.x2)
    (hv : b.y1 ≤ v ∧ v ≤ b.y2) : (Quad.ofBBox b).Contains (u, v) := by
  intro ax
  have h := affine_form_between ax.1 ax.2 0 b.x1 b.x2 b.y1 b.y2 u v hu hv
  simp only [add_zero] at h
  simpa only [Quad.ofBBox, Convex.dot] using h

/-- a contained point lies in the bounding box of the ring -/
theorem contains_bbox (q : Quad) (P : Rat × Rat) (h : q.Contains P) :
    (q.bbox.x1 ≤ P.1 ∧ P.1 ≤ q.bbox.x2) ∧ (q.bbox.y1 ≤ P.2 ∧ P.2 ≤ q.bbox.y2) := by
  have hx := h (1, 0)
  have hy := h (0, 1)
  simp only [Convex.dot, one_mul, zero_mul, add_zero, zero_add] at hx hy
  exact ⟨hx, hy⟩

theorem minL4 (a b c d : Rat) : Convex.minL [a, b, c, d] = some (min (min (min a b) c) d) := rfl
theorem maxL4 (a b c d : Rat) : Convex.maxL [a, b, c, d] = some (max (max (max a b) c) d) := rfl

theorem fold_min_le_min4 (a b c d : Rat) : min (min (min a b) c) d ≤ min4 a b d c := by
  unfold min4
  refine le_min (le_min ?_ ?_) (le_min ?_ ?_)
  · exact le_trans (min_le_left _ _) (le_trans (min_le_left _ _) (min_le_left _ _))
  · exact le_trans (min_le_left _ _) (le_trans (min_le_left _ _) (min_le_right _ _))
  · exact min_le_right _ _
  · exact le_trans (min_le_left _ _) (min_le_right _ _)

theorem max4_le_fold_max (a b c d : Rat) : max4 a b d c ≤ max (max (max a b) c) d := by
  unfold max4
  refine max_le (max_le ?_ ?_) (max_le ?_ ?_)
  · exact le_trans (le_trans (le_max_left _ _) (le_max_left _ _)) (le_max_left _ _)
  · exact le_trans (le_trans (le_max_right _ _) (le_max_left _ _)) (le_max_left _ _)
  · exact le_max_right _ _
  · exact le_trans (le_max_right _ _) (le_max_left _ _)

/-- no axis separates two rings that contain a common point -/
theorem not_separated_of_common (ax : Rat × Rat) (p q : Quad) (P : Rat × Rat)
    (hp : p.Contains P) (hq : q.Contains P) : Convex.separated ax p.toList q.toList = false := by
  have a1 := (hp ax).1
  have a2 := (hp ax).2
  have b1 := (hq ax).1
  have b2 := (hq ax).2
  have f1 := fold_min_le_min4 (Convex.dot ax p.p1) (Convex.dot ax p.p2) (Convex.dot ax p.p3) (Convex.dot ax p.p4)
  have f2 := max4_le_fold_max (Convex.dot ax p.p1) (Convex.dot ax p.p2) (Convex.dot ax p.p3) (Convex.dot ax p.p4)
  have g1 := fold_min_le_min4 (Convex.dot ax q.p1) (Convex.dot ax q.p2) (Convex.dot ax q.p3) (Convex.dot ax q.p4)
  have g2 := max4_le_fold_max (Convex.dot ax q.p1) (Convex.dot ax q.p2) (Convex.dot ax q.p3) (Convex.dot ax q.p4)
  simp only [Convex.separated, Quad.toList, List.map_cons, List.map_nil, minL4, maxL4, Bool.or_eq_false_iff,
    decide_eq_false_iff_not, not_lt]
  exact ⟨by linarith, by linarith⟩

/-- every valid tile index has a region -/
theorem Tiling.getItem_ok (t : Tiling) (hw : t.WF) (i : Int) (hi : 0 ≤ i ∧ i < t.count) :
    ∃ s, t.getItem (.idx i) = .ok s := by
  cases t with
  | reg N n => exact ⟨_, getItem_idx N n hw i hi⟩
  | var ch =>
    simp only [Tiling.count, vcount_eq] at hi
    have e := vgetItem_idx ch hw i.toNat (by omega)
    have c : ((i.toNat : Nat) : Int) = i := by omega
    rw [c] at e
    exact ⟨_, e⟩

/-- the region of a valid tile lies inside the image -/
theorem Tiling.getItem_within (t : Tiling) (hw : t.WF) (i : Int) (hi : 0 ≤ i ∧ i < t.count) (s : NSlice)
    (h : t.getItem (.idx i) = .ok s) : 0 ≤ s.start ∧ s.start ≤ s.stop ∧ s.stop ≤ t.base := by
  cases t with
  | reg N n =>
    simp only [Tiling.getItem, Tiling.count, Tiling.base] at *
    have hn : 0 < n := hw
    rw [getItem_idx N n hn i hi] at h
    cases h
    have h0 : 0 ≤ i * n := Int.mul_nonneg hi.1 (by omega)
    have hlt := (count_is_ceil N n hn).1
    have h1 : i * n ≤ (count N n - 1) * n := Int.mul_le_mul_of_nonneg_right (by omega) (by omega)
    have e : (i + 1) * n = i * n + n := by ring
    refine ⟨h0, ?_, ?_⟩ <;> simp only [] <;> omega
  | var ch =>
    simp only [Tiling.getItem, Tiling.count, Tiling.base, vcount_eq] at *
    have e := vgetItem_idx ch hw i.toNat (by omega)
    have c : ((i.toNat : Nat) : Int) = i := by omega
    rw [c] at e
    rw [e] at h
    cases h
    have m1 := pre_mono ch hw.1 0 i.toNat (by omega)
    have m2 := pre_mono ch hw.1 i.toNat (i.toNat + 1) (by omega)
    have m3 := pre_mono ch hw.1 (i.toNat + 1) ch.length (by omega)
    have hb : vbase ch = pre ch ch.length := by rw [vbase_eq_total ch hw, ← pre_length]
    have h0 : pre ch 0 = 0 := by cases ch <;> rfl
    refine ⟨by simp only []; omega, m2, by simp only []; omega⟩

/-! ### `snap_affine` on integer maps -/

theorem splitFloat_int (k : Int) : splitFloat (k : Rat) = ((k : Rat), 0) := by
  have hf : ((k : Rat)).floor = k := Rat.floor_intCast k
  have hf2 : (-(k : Rat)).floor = -k := by
    have : (-(k : Rat)) = ((-k : Int) : Rat) := by push_cast; rfl
    rw [this, Rat.floor_intCast]
  simp only [splitFloat, hf, hf2]
  split <;> simp <;> norm_num

theorem maybeInt_int (k : Int) (tol : Rat) (ht : 0 < tol) : (maybeInt (k : Rat) tol).1 = k := by
  simp only [maybeInt, splitFloat_int, rabs]
  norm_num [ht]

theorem snapScale_int (k : Int) (tol : Rat) (ht : 0 < tol) : snapScale (k : Rat) tol = k := by
  simp only [snapScale]
  split
  · exact maybeInt_int k tol ht
  · rename_i h
    split
    · rfl
    · rename_i h2
      exfalso
      -- |k| < 1 - tol and |k| ≥ tol: k = 0 contradicts the second
      have hk : k = 0 := by
        by_contra hne
        have : (1 : Rat) ≤ rabs k := by
          simp only [rabs]
          split
          · rename_i hneg
            have : k ≤ -1 := by
              have : (k : Rat) < 0 := hneg
              have : k < 0 := by exact_mod_cast this
              omega
            have : (k : Rat) ≤ -1 := by exact_mod_cast this
            linarith
          · rename_i hnn
            have : 1 ≤ k := by
              have : ¬ (k : Rat) < 0 := hnn
              have : 0 ≤ k := by
                by_contra hc
                exact this (by exact_mod_cast (by omega : k < 0))
              omega
            exact_mod_cast this
        exact h (by linarith)
      subst hk
      apply h2
      simp [rabs, ht]

/-- `snap_affine` leaves a scale + translation map with integer entries alone -/
theorem snapAffine_int (a c e f : Int) (ttol stol tol : Rat) (h1 : 0 < ttol) (h2 : 0 < stol)
    (h4 : 0 ≤ tol) : snapAffine ⟨a, 0, c, 0, e, f⟩ ttol stol tol = ⟨a, 0, c, 0, e, f⟩ := by
  simp only [snapAffine]
  rw [if_neg (by simp [rabs]; exact h4)]
  rw [snapScale_int a stol h2, snapScale_int e stol h2, maybeInt_int c ttol h1, maybeInt_int f ttol h1]

end OdcGeo.C12
