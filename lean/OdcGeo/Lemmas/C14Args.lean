/- Helper lemmas for the glue part of C14 (`Model/C14Args.lean`). -/
import OdcGeo.Model.C14Args
import OdcGeo.Lemmas.C14

namespace OdcGeo.C14

/-! ### `liftK`, normalisers -/

theorem liftK_ok_iff {α : Type} (r : Res α) (a : α) : liftK r = .ok a ↔ r = .ok a := by
  cases r <;> simp [liftK]

theorem liftK_error_iff {α : Type} (r : Res α) (e : PyErr) : liftK r = .error e ↔ ∃ e', r = .error e' ∧ e = .k e' := by
  cases r with
  | ok a => simp [liftK]
  | error e' =>
    simp only [liftK, Except.error.injEq]
    constructor
    · rintro rfl; exact ⟨e', rfl, rfl⟩
    · rintro ⟨e'', h, rfl⟩; rw [h]

theorem pyTrunc_int (n : Int) : pyTrunc (n : Rat) = n := by
  unfold pyTrunc
  split
  · rw [show (-(n : Rat)) = ((-n : Int) : Rat) by push_cast; rfl, Rat.floor_intCast]; omega
  · exact Rat.floor_intCast n

theorem pyTrunc_nonneg {x : Rat} (h : 0 ≤ x) : (pyTrunc x : Rat) ≤ x ∧ x < (pyTrunc x : Rat) + 1 := by
  unfold pyTrunc
  rw [if_neg (by linarith)]
  have h2 := Rat.lt_floor_add_one x
  push_cast at h2
  exact ⟨Rat.floor_le x, h2⟩

theorem pyTrunc_neg {x : Rat} (h : x < 0) : x ≤ (pyTrunc x : Rat) ∧ (pyTrunc x : Rat) - 1 < x := by
  unfold pyTrunc
  rw [if_pos h]
  have h1 := Rat.floor_le (-x)
  have h2 := Rat.lt_floor_add_one (-x)
  push_cast at h2 ⊢
  constructor <;> linarith

/-- the sentinel test is true only for spellings that `shape_` turns into `(-1, -1)` -/
theorem isSentinel_norm {s : ShapeArg} (h : s.isSentinel = true) : shapeNorm s = .ok (-1, -1) := by
  have hm : ∀ a : Num, a.isMinusOne = true → a.toInt = .ok (-1) := by
    intro a ha
    cases a with
    | int v => simp only [Num.isMinusOne, beq_iff_eq] at ha; subst ha; rfl
    | flt v =>
      simp only [Num.isMinusOne, beq_iff_eq] at ha; subst ha
      show Except.ok (pyTrunc (-1)) = Except.ok (-1)
      rw [show ((-1 : Rat)) = (((-1 : Int)) : Rat) by norm_num, pyTrunc_int]
    | nan => simp [Num.isMinusOne] at ha
    | pinf => simp [Num.isMinusOne] at ha
    | ninf => simp [Num.isMinusOne] at ha
  cases s with
  | shape2d ny nx =>
    simp only [ShapeArg.isSentinel, Bool.and_eq_true, beq_iff_eq] at h
    obtain ⟨rfl, rfl⟩ := h; rfl
  | tuple l =>
    match l, h with
    | [a, b], h =>
      simp only [ShapeArg.isSentinel, Bool.and_eq_true] at h
      simp only [shapeNorm, unpack2, hm a h.1, hm b h.2]
      rfl
  | xy x y => simp [ShapeArg.isSentinel] at h
  | list l => simp [ShapeArg.isSentinel] at h
  | other => simp [ShapeArg.isSentinel] at h

/-! ### `GridSpec.init` decomposes into the normalisers and the numeric constructor -/

theorem init_ok_decomp (fl : Rnd) (crs : CrsArg) (shape : ShapeArg) (res : ResArg) (origin : OriginArg)
    (fx fy : Bool) (g : GridSpec) :
    GridSpec.init fl crs shape res origin fx fy = .ok g ↔
      ∃ s r o, shapeNorm shape = .ok s ∧ resNorm fl res = .ok r ∧ originNorm origin = .ok o ∧ crs = .valid ∧
        GridSpec.new fl s.1 s.2 r.1 r.2 o.1 o.2 fx fy = .ok g := by
  unfold GridSpec.init
  cases hs : shapeNorm shape with
  | error e => simp [bind, Except.bind]
  | ok s =>
    cases hr : resNorm fl res with
    | error e => simp [bind, Except.bind]
    | ok r =>
      cases ho : originNorm origin with
      | error e => simp [bind, Except.bind]
      | ok o =>
        cases crs with
        | valid =>
          simp only [bind, Except.bind, crsNorm, liftK_ok_iff]
          constructor
          · intro h; exact ⟨s, r, o, rfl, rfl, rfl, by trivial, h⟩
          · rintro ⟨s', r', o', h1, h2, h3, _, h⟩
            cases h1; cases h2; cases h3; exact h
        | none => simp [bind, Except.bind, crsNorm]
        | invalid => simp [bind, Except.bind, crsNorm]
        | utm => simp [bind, Except.bind, crsNorm]

/-- the y tile size is checked first -/
theorem GridSpec.new_err_y {fl : Rnd} {ny nx : Int} {rx ry ox oy : Rat} {fx fy : Bool}
    (h : ¬ 0 < fl ((ny : Rat) * rabs ry)) : GridSpec.new fl ny nx rx ry ox oy fx fy = .error .assertion := by
  unfold GridSpec.new Bin1D.new
  have hd : dirOf fy = -1 ∨ dirOf fy = 1 := by cases fy <;> simp [dirOf]
  simp [hd, h, bind, Except.bind]

theorem neg_one_mul_rabs_not_pos (x : Rat) : ¬ 0 < ((-1 : Int) : Rat) * rabs x := by
  have := GridSpec.rabs_nonneg x
  push_cast; linarith

/-! ### generators -/

namespace GridSpec

/-- one `pull`: with a coherent cache the result is the first remaining tile that is not filtered out (with the
    geobox of its index); the cache stays coherent and gains exactly the keys of the tiles pulled, which are a
    prefix `pre` of the pending list. -/
theorem pull_spec (fl : Rnd) (g : GridSpec) (dj : GeoBox → Bool) :
    ∀ (ks : List (Int × Int)) (c : Cache), g.Coherent fl c →
      g.Coherent fl (g.pull fl dj ks c).2.2 ∧
      (∃ pre, ks = pre ++ (g.pull fl dj ks c).2.1 ∧
        ∀ k', ((g.pull fl dj ks c).2.2.lookup k').isSome ↔ ((c.lookup k').isSome ∨ k' ∈ pre)) ∧
      (ks.filter (fun k => !dj (g.tileGeobox fl k)) = [] →
        (g.pull fl dj ks c).1 = none ∧ (g.pull fl dj ks c).2.1 = []) ∧
      (∀ k r, ks.filter (fun k => !dj (g.tileGeobox fl k)) = k :: r →
        (g.pull fl dj ks c).1 = some (k, g.tileGeobox fl k) ∧
        (g.pull fl dj ks c).2.1.filter (fun k => !dj (g.tileGeobox fl k)) = r) := by
  intro ks
  induction ks with
  | nil =>
    intro c hc
    refine ⟨hc, ⟨[], rfl, fun k' => by simp [GridSpec.pull]⟩, fun _ => ⟨rfl, rfl⟩, fun k r h => by simp at h⟩
  | cons k ks ih =>
    intro c hc
    obtain ⟨h1, h2, h3⟩ := geoboxC_spec fl g c hc k
    by_cases hd : dj (g.tileGeobox fl k) = true
    · have e : g.pull fl dj (k :: ks) c = g.pull fl dj ks (g.geoboxC fl c k).2 := by
        simp only [GridSpec.pull, h1, hd, if_true]
      rw [e]
      obtain ⟨i1, ⟨pre, i2, i3⟩, i4, i5⟩ := ih _ h2
      refine ⟨i1, ⟨k :: pre, by rw [List.cons_append, ← i2], fun k' => ?_⟩, ?_, ?_⟩
      · rw [i3 k', h3 k']; simp only [List.mem_cons]; tauto
      · intro hf; apply i4; simpa [List.filter_cons, hd] using hf
      · intro k0 r hf; apply i5; simpa [List.filter_cons, hd] using hf
    · have hd' : dj (g.tileGeobox fl k) = false := by simpa using hd
      have e : g.pull fl dj (k :: ks) c = (some (k, g.tileGeobox fl k), ks, (g.geoboxC fl c k).2) := by
        simp only [GridSpec.pull, h1, hd']; rfl
      rw [e]
      refine ⟨h2, ⟨[k], rfl, fun k' => ?_⟩, ?_, ?_⟩
      · rw [h3 k']; simp
      · intro hf; simp [hd'] at hf
      · intro k0 r hf
        simp only [List.filter_cons, hd', Bool.not_false, if_true, List.cons.injEq] at hf
        obtain ⟨rfl, rfl⟩ := hf
        exact ⟨rfl, rfl⟩

end GridSpec

/-- one `next()` on a generator whose cache is coherent is one step of the cache-less iterator it stands for -/
theorem Gen.next_spec (fl : Rnd) (tol : Rat) (g : GridSpec) (s : Gen) (c : Cache) (hc : g.Coherent fl c) :
    (s.next fl tol g c).1 = (pureStep fl g (s.pure fl tol g)).1 ∧
    (s.next fl tol g c).2.1.pure fl tol g = (pureStep fl g (s.pure fl tol g)).2 ∧
    g.Coherent fl (s.next fl tol g c).2.2 := by
  obtain ⟨start, rest, dj⟩ := s
  -- the common part: pulling from a pending list `ks`
  have key : ∀ ks : List (Int × Int),
      let p := g.pull fl dj ks c
      let it : PureIt := (none, ks.filter (fun k => !dj (g.tileGeobox fl k)))
      (Except.ok p.1 : SOut) = (pureStep fl g it).1 ∧
      ((none, p.2.1.filter (fun k => !dj (g.tileGeobox fl k))) : PureIt) = (pureStep fl g it).2 ∧
      g.Coherent fl p.2.2 := by
    intro ks
    obtain ⟨h1, _, h3, h4⟩ := GridSpec.pull_spec fl g dj ks c hc
    cases hf : ks.filter (fun k => !dj (g.tileGeobox fl k)) with
    | nil =>
      obtain ⟨a, b⟩ := h3 hf
      simp only [pureStep, a, b, List.filter_nil]
      exact ⟨by trivial, by trivial, h1⟩
    | cons k r =>
      obtain ⟨a, b⟩ := h4 k r hf
      simp only [pureStep, a, b]
      exact ⟨by trivial, by trivial, h1⟩
  match start with
  | some (q, true) =>
    have := key (g.tiles fl tol q)
    simpa [Gen.next, Gen.pure, Gen.remaining] using this
  | some (q, false) =>
    simp only [Gen.next, Gen.pure, Gen.remaining, pureStep]
    exact ⟨rfl, by simp, hc⟩
  | none =>
    have := key rest
    simpa [Gen.next, Gen.pure, Gen.remaining] using this

theorem setAt_map {α β : Type} (f : α → β) : ∀ (l : List α) (i : Nat) (a : α),
    (setAt l i a).map f = setAt (l.map f) i (f a)
  | [], _, _ => rfl
  | _ :: _, 0, _ => rfl
  | x :: xs, n + 1, a => by simp [setAt, setAt_map f xs n a]

end OdcGeo.C14
