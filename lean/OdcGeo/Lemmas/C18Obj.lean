/-
Helper lemmas for `Props/C18Obj.lean`: frame properties of the cluster protocol with explicit names (`DistN`).
-/
import OdcGeo.Model.C18
import OdcGeo.Lemmas.C18

set_option linter.unusedVariables false
set_option linter.unusedSimpArgs false

namespace OdcGeo.C18
namespace DistN

/-- A step of a thread whose worker uses OTHER names than `(L, V)` touches neither the variable `V` nor the lock `L`,
nor any other thread's program point, nor any other worker's copy. -/
theorem step_frame (cfg : Cfg) (L V : Nat) (s : State) (t : Nat)
    (hV : cfg.varName (cfg.worker t) ≠ V) (hL : cfg.lockName (cfg.worker t) ≠ L) :
    (step cfg s t).vars V = s.vars V ∧ (step cfg s t).locks L = s.locks L ∧
      (∀ t', t' ≠ t → (step cfg s t).pc t' = s.pc t') ∧
      (∀ w, w ≠ cfg.worker t → (step cfg s t).wid w = s.wid w) := by
  have hV' : V ≠ cfg.varName (cfg.worker t) := fun e => hV e.symm
  have hL' : L ≠ cfg.lockName (cfg.worker t) := fun e => hL e.symm
  unfold step
  cases hpc : s.pc t <;> simp only []
  all_goals
    refine ⟨?_, ?_, ?_, ?_⟩
  all_goals (try split) <;> (try split) <;> (try split) <;> (try split) <;>
    simp_all [State.goto, State.setWid, State.setVar, State.setLock]

end DistN
end OdcGeo.C18
