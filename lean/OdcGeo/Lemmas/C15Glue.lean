/-
Helper lemmas for `Props/C15Glue.lean`: the algebra of keyword dictionaries (`get` after `set` / `update` / `without`).
-/
import OdcGeo.Model.C15Glue

namespace OdcGeo.C15

theorem Dict.get_cons (p : String × V) (d : Dict) (k : String) :
    Dict.get (p :: d) k = if p.1 = k then some p.2 else Dict.get d k := by
  unfold Dict.get
  by_cases h : p.1 = k <;> simp [h]

theorem Dict.get_nil (k : String) : Dict.get [] k = none := rfl

theorem Dict.get_append (d e : Dict) (k : String) :
    Dict.get (d ++ e) k = match Dict.get d k with | some v => some v | none => Dict.get e k := by
  induction d with
  | nil => simp [Dict.get_nil]
  | cons p d ih =>
    simp only [List.cons_append, Dict.get_cons]
    by_cases h : p.1 = k <;> simp [h, ih]

theorem Dict.has_false_iff (d : Dict) (k : String) : d.has k = false ↔ Dict.get d k = none := by
  induction d with
  | nil => simp [Dict.has, Dict.get_nil]
  | cons p d ih =>
    have ih' : (d.any fun x => x.1 == k) = false ↔ Dict.get d k = none := ih
    simp only [Dict.has, List.any_cons, Bool.or_eq_false_iff, Dict.get_cons]
    by_cases h : p.1 = k
    · simp [h]
    · simp [h, ih']

theorem Dict.get_mapset (d : Dict) (k : String) (v : V) (k' : String) :
    Dict.get (d.map fun p => if p.1 == k then (k, v) else p) k' =
      if k' = k then (if d.has k then some v else none) else Dict.get d k' := by
  induction d with
  | nil => simp [Dict.get_nil, Dict.has]
  | cons p d ih =>
    simp only [List.map_cons, Dict.get_cons, ih]
    by_cases h1 : p.1 = k
    · subst h1
      by_cases h2 : k' = p.1
      · subst h2; simp [Dict.has]
      · have : ¬ p.1 = k' := fun h => h2 h.symm
        simp [h2, this]
    · by_cases h2 : k' = k
      · subst h2
        have hb : (p.1 == k') = false := by simpa using h1
        simp only [Dict.has, List.any_cons, hb, Bool.false_or, h1, if_false, if_true, Bool.false_eq_true]
        first | rfl | congr
      · simp [h1, h2]

/-- `d[k] = v` then `d.get(k')` -/
theorem Dict.get_set (d : Dict) (k : String) (v : V) (k' : String) :
    Dict.get (d.set k v) k' = if k' = k then some v else Dict.get d k' := by
  unfold Dict.set
  by_cases hh : d.has k = true
  · rw [if_pos hh, Dict.get_mapset]
    by_cases h : k' = k <;> simp [h, hh]
  · have hf : d.has k = false := by simpa using hh
    rw [if_neg hh, Dict.get_append]
    have hn := (Dict.has_false_iff d k).mp hf
    by_cases h : k' = k
    · subst h; simp [hn, Dict.get_cons]
    · have : ¬ k = k' := fun e => h e.symm
      cases hg : Dict.get d k' <;> simp [Dict.get_cons, Dict.get_nil, h, this]

/-- `d.update(e)` / `{**d, **e}` then `.get(k)`: `e` wins -/
theorem Dict.get_update (d e : Dict) (k : String) :
    Dict.get (d.update e) k = match e.lastGet k with | some v => some v | none => Dict.get d k := by
  unfold Dict.update Dict.lastGet
  induction e generalizing d with
  | nil => simp [Dict.get_nil]
  | cons p e ih =>
    simp only [List.foldl_cons, List.reverse_cons]
    rw [ih, Dict.get_append, Dict.get_set]
    cases Dict.get e.reverse k with
    | some v => rfl
    | none =>
      by_cases h : k = p.1
      · subst h; simp [Dict.get_cons]
      · have : ¬ p.1 = k := fun e => h e.symm
        simp [Dict.get_cons, Dict.get_nil, h, this]

/-- `_without(d, *skip)` then `.get(k)` -/
theorem Dict.get_without (d : Dict) (skip : List String) (k : String) :
    Dict.get (d.without skip) k = if skip.contains k then none else Dict.get d k := by
  unfold Dict.without
  induction d with
  | nil => simp [Dict.get_nil]
  | cons p d ih =>
    simp only [List.filter_cons]
    by_cases hp : skip.contains p.1 = true
    · have hm : p.1 ∈ skip := by simpa using hp
      simp only [hp, Bool.not_true, Bool.false_eq_true, if_false, ih, Dict.get_cons]
      by_cases h : p.1 = k
      · subst h; simp [hm]
      · simp [h]
    · have hp' : skip.contains p.1 = false := by simpa using hp
      have hm : ¬ p.1 ∈ skip := by simpa using hp'
      simp only [hp', Bool.not_false, if_true, Dict.get_cons, ih]
      by_cases h : p.1 = k
      · subst h; simp [hm]
      · simp [h]

/-- with unique keys the last occurrence is the only one -/
theorem Dict.lastGet_of_get_none (e : Dict) (k : String) (h : Dict.get e k = none) : e.lastGet k = none := by
  unfold Dict.lastGet
  induction e with
  | nil => rfl
  | cons p e ih =>
    rw [Dict.get_cons] at h
    by_cases hp : p.1 = k
    · simp [hp] at h
    · simp only [hp, if_false] at h
      rw [List.reverse_cons, Dict.get_append, ih h]
      simp [Dict.get_cons, Dict.get_nil, hp]

theorem Dict.getNone_def (d : Dict) (k : String) : d.getNone k = (Dict.get d k).getD .none := rfl

end OdcGeo.C15
