/- Helper lemmas for C10 (paste shortcut). -/
import OdcGeo.Model.C10
import OdcGeo.Lemmas.C03
import OdcGeo.Props.C03

namespace OdcGeo.C10
open OdcGeo.C17 OdcGeo.C03

theorem ceil_intCast' (k : Int) : ((k : Rat)).ceil = k := by
  apply le_antisymm
  · rw [Rat.ceil_le_iff]
  · have := @Rat.le_ceil (k : Rat); exact_mod_cast this

/-- `compute_axis_overlap` body for the identity scale and a whole-pixel offset, in closed form -/
theorem axisPos_unit (Ns Nd t : Int) :
    axisPos Ns Nd 1 (t : Rat) =
      (⟨if t < 0 then 0 else min t Ns, if Nd + t ≤ Ns then max (Nd + t) 0 else Ns⟩,
       ⟨if t < 0 then min (-t) Nd else 0, if Nd + t ≤ Ns then Nd else max 0 (Ns - t)⟩) := by
  have e1 : (-(t : Rat) * (1 / 1)).floor = -t := by
    have : -(t : Rat) * (1 / 1) = ((-t : Int) : Rat) := by push_cast; ring
    rw [this, floor_intCast']
  have e2 : ((t : Rat)).floor = t := floor_intCast' t
  have e3 : ((Nd : Rat) * 1 + (t : Rat)).ceil = Nd + t := by
    have : (Nd : Rat) * 1 + (t : Rat) = ((Nd + t : Int) : Rat) := by push_cast; ring
    rw [this, ceil_intCast']
  have e4 : ((Ns : Rat) * (1 / 1) + -(t : Rat) * (1 / 1)).ceil = Ns - t := by
    have : (Ns : Rat) * (1 / 1) + -(t : Rat) * (1 / 1) = ((Ns - t : Int) : Rat) := by push_cast; ring
    rw [this, ceil_intCast']
  have e5 : ((t : Rat) < 0) ↔ t < 0 := by exact_mod_cast Iff.rfl
  simp only [axisPos, e1, e2, e3, e4, e5]
  by_cases h1 : t < 0 <;> by_cases h2 : Nd + t ≤ Ns <;> simp [h1, h2]

/-- Identity scale, whole-pixel offset `t`: the destination slice contains exactly the pixels that
map into the source, the source slice is the destination slice shifted by `t` (so the shapes are
equal). -/
theorem axis_unit_pos (Ns Nd t : Int) (hNs : 0 ≤ Ns) (hNd : 0 ≤ Nd) (r : NSlice × NSlice)
    (h : axisOverlap Ns Nd 1 (t : Rat) = .ok r) :
    (∀ d, (r.2.start ≤ d ∧ d < r.2.stop) ↔ (0 ≤ d ∧ d < Nd ∧ 0 ≤ d + t ∧ d + t < Ns)) ∧
    (r.2.start < r.2.stop → r.1.start - r.2.start = t) ∧
    r.1.stop - r.1.start = r.2.stop - r.2.start := by
  have hs : ¬ ((1 : Rat) < 0) := by norm_num
  have hs' : (1 : Rat) > 0 := by norm_num
  simp only [axisOverlap, hs, hs', if_true, if_false, Except.ok.injEq] at h
  rw [axisPos_unit] at h
  subst h
  simp only
  refine ⟨fun d => ?_, ?_, ?_⟩ <;> split_ifs <;> omega

/-- Mirrored axis (`s = -1`), whole-pixel offset `t` (`x_src = t - x_dst`): destination pixel `d`
reads source pixel `t - d - 1`. -/
theorem axis_unit_neg (Ns Nd t : Int) (hNs : 0 ≤ Ns) (hNd : 0 ≤ Nd) (r : NSlice × NSlice)
    (h : axisOverlap Ns Nd (-1) (t : Rat) = .ok r) :
    (∀ d, (r.2.start ≤ d ∧ d < r.2.stop) ↔ (0 ≤ d ∧ d < Nd ∧ 0 ≤ t - d - 1 ∧ t - d - 1 < Ns)) ∧
    (r.2.start < r.2.stop → r.1.stop + r.2.start = t) ∧
    r.1.stop - r.1.start = r.2.stop - r.2.start := by
  have hs : ((-1 : Rat) < 0) := by norm_num
  simp only [axisOverlap, hs, if_true, Except.ok.injEq] at h
  have e : (Ns : Rat) - (t : Rat) = ((Ns - t : Int) : Rat) := by push_cast; ring
  rw [neg_neg, e, axisPos_unit] at h
  subst h
  simp only
  refine ⟨fun d => ?_, ?_, ?_⟩ <;> split_ifs <;> omega


/-- One axis of "paste = nearest-neighbour warp": for the snapped transform `s = ±1`, whole-pixel
`t`, and a true source coordinate `y` of the centre of pixel `d` within half a pixel of the snapped
one, the nearest-neighbour source index of `y` is the paste index when `d` is in the destination
slice, and `y` is outside the source image otherwise. -/
theorem paste_axis (Ns Nd : Int) (s : Rat) (t : Int) (hs : s = 1 ∨ s = -1) (hNs : 0 ≤ Ns) (hNd : 0 ≤ Nd)
    (r : NSlice × NSlice) (h : axisOverlap Ns Nd s t = .ok r) (d : Int) (hd : 0 ≤ d ∧ d < Nd) (y : Rat)
    (hnear : rabs (y - (s * ((d : Rat) + 1 / 2) + t)) < 1 / 2) :
    Warp.nnIndex Ns y =
      if r.2.start ≤ d ∧ d < r.2.stop then some (pasteIndex (decide (s < 0)) r.1 r.2 d) else none := by
  obtain ⟨m, hm, hm'⟩ : ∃ m : Int, s * ((d : Rat) + 1 / 2) + t = (m : Rat) + 1 / 2 ∧
      ((s = 1 ∧ m = d + t) ∨ (s = -1 ∧ m = t - d - 1)) := by
    rcases hs with rfl | rfl
    · exact ⟨d + t, by push_cast; ring, Or.inl ⟨rfl, rfl⟩⟩
    · exact ⟨t - d - 1, by push_cast; ring, Or.inr ⟨rfl, rfl⟩⟩
  rw [hm] at hnear
  have hn : -(1 / 2) < y - ((m : Rat) + 1 / 2) ∧ y - ((m : Rat) + 1 / 2) < 1 / 2 := by
    unfold rabs at hnear
    split_ifs at hnear with c <;> constructor <;> linarith
  have hfy : y.floor = m := by
    apply le_antisymm
    · have := Rat.floor_le y
      have : (y.floor : Rat) < (m : Rat) + 1 := by linarith
      have : y.floor < m + 1 := by exact_mod_cast this
      omega
    · rw [Rat.le_floor_iff]; linarith
  have hin : (0 ≤ y ∧ y < Ns) ↔ (0 ≤ m ∧ m < Ns) := by
    constructor
    · rintro ⟨h0, h1⟩
      constructor
      · have : (-1 : Rat) < m := by linarith
        have : (-1 : Int) < m := by exact_mod_cast this
        omega
      · have : (m : Rat) < Ns := by linarith
        exact_mod_cast this
    · rintro ⟨h0, h1⟩
      have h0' : (0 : Rat) ≤ m := by exact_mod_cast h0
      have h1' : (m : Rat) + 1 ≤ Ns := by exact_mod_cast (by omega : m + 1 ≤ Ns)
      constructor <;> linarith
  unfold Warp.nnIndex
  rw [hfy]
  rcases hm' with ⟨rfl, rfl⟩ | ⟨rfl, rfl⟩
  · obtain ⟨u1, u2, _⟩ := axis_unit_pos Ns Nd t hNs hNd r h
    have hdec : decide ((1 : Rat) < 0) = false := by simp
    rw [hdec]
    by_cases hmem : r.2.start ≤ d ∧ d < r.2.stop
    · have := (u1 d).mp hmem
      have hoff := u2 (by omega)
      rw [if_pos hmem, if_pos (hin.mpr ⟨this.2.2.1, this.2.2.2⟩)]
      simp only [pasteIndex, Bool.false_eq_true, if_false]
      congr 1; omega
    · have : ¬ (0 ≤ d + t ∧ d + t < Ns) := fun hc => hmem ((u1 d).mpr ⟨hd.1, hd.2, hc.1, hc.2⟩)
      rw [if_neg hmem, if_neg (fun hc => this (hin.mp hc))]
  · obtain ⟨u1, u2, _⟩ := axis_unit_neg Ns Nd t hNs hNd r h
    have hdec : decide ((-1 : Rat) < 0) = true := by simp
    rw [hdec]
    by_cases hmem : r.2.start ≤ d ∧ d < r.2.stop
    · have := (u1 d).mp hmem
      have hoff := u2 (by omega)
      rw [if_pos hmem, if_pos (hin.mpr ⟨this.2.2.1, this.2.2.2⟩)]
      simp only [pasteIndex, if_true]
      congr 1; omega
    · have : ¬ (0 ≤ t - d - 1 ∧ t - d - 1 < Ns) := fun hc => hmem ((u1 d).mpr ⟨hd.1, hd.2, hc.1, hc.2⟩)
      rw [if_neg hmem, if_neg (fun hc => this (hin.mp hc))]

/-- a snapped paste transform: no rotation/shear, unit scale of either sign, whole-pixel shift -/
structure IsUnitST (S : Aff) (tx ty : Int) : Prop where
  b0 : S.b = 0
  d0 : S.d = 0
  a1 : S.a = 1 ∨ S.a = -1
  e1 : S.e = 1 ∨ S.e = -1
  c : S.c = tx
  f : S.f = ty


/-- the transform into the `rs`-fold overview: `Affine.scale(1/rs) * A` -/
def overviewTr (A : Aff) (rs : Int) : Aff := Aff.scale (1 / (rs : Rat)) (1 / (rs : Rat)) * A

/-- what `_can_paste` checks, as a proposition -/
structure PasteCond (A : Aff) (n stol ttol : Rat) (rs : Int) : Prop where
  st : isAffineST A = true
  scaleInt : isAlmostInt (min (scale2 A n).1 (scale2 A n).2) stol = true
  rs : pickReadScale (min (scale2 A n).1 (scale2 A n).2) = .ok rs
  sx : rabs (rabs (overviewTr A rs).a - 1) < stol
  sy : rabs (rabs (overviewTr A rs).e - 1) < stol
  tx : isAlmostInt (overviewTr A rs).c ttol = true
  ty : isAlmostInt (overviewTr A rs).f ttol = true

theorem canPaste_true_iff (A : Aff) (n stol ttol : Rat) :
    canPaste A n stol ttol = .ok true ↔ ∃ rs, PasteCond A n stol ttol rs := by
  unfold canPaste
  constructor
  · intro h
    by_cases h1 : isAffineST A = true
    · simp only [h1, not_true_eq_false, if_false] at h
      by_cases h2 : isAlmostInt (min (scale2 A n).1 (scale2 A n).2) stol = true
      · simp only [h2, not_true_eq_false, if_false] at h
        cases h3 : pickReadScale (min (scale2 A n).1 (scale2 A n).2) with
        | error e => simp [h3] at h
        | ok rs =>
          simp only [h3] at h
          split_ifs at h with c1 c2
          · simp at h
          · simp at h
          · push Not at c1 c2
            exact ⟨rs, ⟨h1, h2, h3, c1.1, c1.2, c2.1, c2.2⟩⟩
      · simp [h2] at h
    · simp [h1] at h
  · rintro ⟨rs, hc⟩
    have c1 : ¬ (rabs (rabs (Aff.scale (1 / (rs : Rat)) (1 / (rs : Rat)) * A).a - 1) ≥ stol ∨
        rabs (rabs (Aff.scale (1 / (rs : Rat)) (1 / (rs : Rat)) * A).e - 1) ≥ stol) := by
      rintro (h | h)
      · exact absurd hc.sx (not_lt.mpr h)
      · exact absurd hc.sy (not_lt.mpr h)
    have c2 : ¬¬ (isAlmostInt (Aff.scale (1 / (rs : Rat)) (1 / (rs : Rat)) * A).c ttol = true ∧
        isAlmostInt (Aff.scale (1 / (rs : Rat)) (1 / (rs : Rat)) * A).f ttol = true) := not_not.mpr ⟨hc.tx, hc.ty⟩
    simp only [hc.st, not_true_eq_false, if_false, hc.scaleInt, hc.rs]
    rw [if_neg c1, if_neg c2]

end OdcGeo.C10
