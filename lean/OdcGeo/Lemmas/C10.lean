/- Helper lemmas for C10 (paste shortcut). -/
import OdcGeo.Model.C10
import OdcGeo.Lemmas.C03
import OdcGeo.Props.C03

namespace OdcGeo.C10
open OdcGeo.C17 OdcGeo.C03

theorem ceil_intCast' (k : Int) : ((k : Rat)).ceil = k := by
  apply le_antisymm
  · rw [Rat.ceil_le_iff]
  · have := @Rat.le_ceil (k : Rat); exact_mod_cast this

/-- `compute_axis_overlap` body for the identity scale and a whole-pixel offset, in closed form -/
theorem axisPos_unit (Ns Nd t : Int) :
    axisPos Ns Nd 1 (t : Rat) =
      (⟨if t < 0 then 0 else min t Ns, if Nd + t ≤ Ns then max (Nd + t) 0 else Ns⟩,
       ⟨if t < 0 then min (-t) Nd else 0, if Nd + t ≤ Ns then Nd else max 0 (Ns - t)⟩) := by
  have e1 : (-(t : Rat) * (1 / 1)).floor = -t := by
    have : -(t : Rat) * (1 / 1) = ((-t : Int) : Rat) := by push_cast; ring
    rw [this, floor_intCast']
  have e2 : ((t : Rat)).floor = t := floor_intCast' t
  have e3 : ((Nd : Rat) * 1 + (t : Rat)).ceil = Nd + t := by
    have : (Nd : Rat) * 1 + (t : Rat) = ((Nd + t : Int) : Rat) := by push_cast; ring
    rw [this, ceil_intCast']
  have e4 : ((Ns : Rat) * (1 / 1) + -(t : Rat) * (1 / 1)).ceil = Ns - t := by
    have : (Ns : Rat) * (1 / 1) + -(t : Rat) * (1 / 1) = ((Ns - t : Int) : Rat) := by push_cast; ring
    rw [this, ceil_intCast']
  have e5 : ((t : Rat) < 0) ↔ t < 0 := by exact_mod_cast Iff.rfl
  simp only [axisPos, e1, e2, e3, e4, e5]
  by_cases h1 : t < 0 <;> by_cases h2 : Nd + t ≤ Ns <;> simp [h1, h2]

/-- Identity scale, whole-pixel offset `t`: the destination slice contains exactly the pixels that
map into the source, the source slice is the destination slice shifted by `t` (so the shapes are
equal). -/
theorem axis_unit_pos (Ns Nd t : Int) (hNs : 0 ≤ Ns) (hNd : 0 ≤ Nd) (r : NSlice × NSlice)
    (h : axisOverlap Ns Nd 1 (t : Rat) = .ok r) :
    (∀ d, (r.2.start ≤ d ∧ d < r.2.stop) ↔ (0 ≤ d ∧ d < Nd ∧ 0 ≤ d + t ∧ d + t < Ns)) ∧
    (r.2.start < r.2.stop → r.1.start - r.2.start = t) ∧
    r.1.stop - r.1.start = r.2.stop - r.2.start := by
  have hs : ¬ ((1 : Rat) < 0) := by norm_num
  have hs' : (1 : Rat) > 0 := by norm_num
  simp only [axisOverlap, hs, hs', if_true, if_false, Except.ok.injEq] at h
  rw [axisPos_unit] at h
  subst h
  simp only
  refine ⟨fun d => ?_, ?_, ?_⟩ <;> split_ifs <;> omega

/-- Mirrored axis (`s = -1`), whole-pixel offset `t` (`x_src = t - x_dst`): destination pixel `d`
reads source pixel `t - d - 1`. -/
theorem axis_unit_neg (Ns Nd t : Int) (hNs : 0 ≤ Ns) (hNd : 0 ≤ Nd) (r : NSlice × NSlice)
    (h : axisOverlap Ns Nd (-1) (t : Rat) = .ok r) :
    (∀ d, (r.2.start ≤ d ∧ d < r.2.stop) ↔ (0 ≤ d ∧ d < Nd ∧ 0 ≤ t - d - 1 ∧ t - d - 1 < Ns)) ∧
    (r.2.start < r.2.stop → r.1.stop + r.2.start = t) ∧
    r.1.stop - r.1.start = r.2.stop - r.2.start := by
  have hs : ((-1 : Rat) < 0) := by norm_num
  simp only [axisOverlap, hs, if_true, Except.ok.injEq] at h
  have e : (Ns : Rat) - (t : Rat) = ((Ns - t : Int) : Rat) := by push_cast; ring
  rw [neg_neg, e, axisPos_unit] at h
  subst h
  simp only
  refine ⟨fun d => ?_, ?_, ?_⟩ <;> split_ifs <;> omega


/-- One axis of "paste = nearest-neighbour warp": for the snapped transform `s = ±1`, whole-pixel
`t`, and a true source coordinate `y` of the centre of pixel `d` within half a pixel of the snapped
one, the nearest-neighbour source index of `y` is the paste index when `d` is in the destination
slice, and `y` is outside the source image otherwise. -/
theorem paste_axis (Ns Nd : Int) (s : Rat) (t : Int) (hs : s = 1 ∨ s = -1) (hNs : 0 ≤ Ns) (hNd : 0 ≤ Nd)
    (r : NSlice × NSlice) (h : axisOverlap Ns Nd s t = .ok r) (d : Int) (hd : 0 ≤ d ∧ d < Nd) (y : Rat)
    (hnear : rabs (y - (s * ((d : Rat) + 1 / 2) + t)) < 1 / 2) :
    Warp.nnIndex Ns y =
      if r.2.start ≤ d ∧ d < r.2.stop then some (pasteIndex (decide (s < 0)) r.1 r.2 d) else none := by
  obtain ⟨m, hm, hm'⟩ : ∃ m : Int, s * ((d : Rat) + 1 / 2) + t = (m : Rat) + 1 / 2 ∧
      ((s = 1 ∧ m = d + t) ∨ (s = -1 ∧ m = t - d - 1)) := by
    rcases hs with rfl | rfl
    · exact ⟨d + t, by push_cast; ring, Or.inl ⟨rfl, rfl⟩⟩
    · exact ⟨t - d - 1, by push_cast; ring, Or.inr ⟨rfl, rfl⟩⟩
  rw [hm] at hnear
  have hn : -(1 / 2) < y - ((m : Rat) + 1 / 2) ∧ y - ((m : Rat) + 1 / 2) < 1 / 2 := by
    unfold rabs at hnear
    split_ifs at hnear with c <;> constructor <;> linarith
  have hfy : y.floor = m := by
    apply le_antisymm
    · have := Rat.floor_le y
      have : (y.floor : Rat) < (m : Rat) + 1 := by linarith
      have : y.floor < m + 1 := by exact_mod_cast this
      omega
    · rw [Rat.le_floor_iff]; linarith
  have hin : (0 ≤ y ∧ y < Ns) ↔ (0 ≤ m ∧ m < Ns) := by
    constructor
    · rintro ⟨h0, h1⟩
      constructor
      · have : (-1 : Rat) < m := by linarith
        have : (-1 : Int) < m := by exact_mod_cast this
        omega
      · have : (m : Rat) < Ns := by linarith
        exact_mod_cast this
    · rintro ⟨h0, h1⟩
      have h0' : (0 : Rat) ≤ m := by exact_mod_cast h0
      have h1' : (m : Rat) + 1 ≤ Ns := by exact_mod_cast (by omega : m + 1 ≤ Ns)
      constructor <;> linarith
  unfold Warp.nnIndex
  rw [hfy]
  rcases hm' with ⟨rfl, rfl⟩ | ⟨rfl, rfl⟩
  · obtain ⟨u1, u2, _⟩ := axis_unit_pos Ns Nd t hNs hNd r h
    have hdec : decide ((1 : Rat) < 0) = false := by simp
    rw [hdec]
    by_cases hmem : r.2.start ≤ d ∧ d < r.2.stop
    · have := (u1 d).mp hmem
      have hoff := u2 (by omega)
      rw [if_pos hmem, if_pos (hin.mpr ⟨this.2.2.1, this.2.2.2⟩)]
      simp only [pasteIndex, Bool.false_eq_true, if_false]
      congr 1; omega
    · have : ¬ (0 ≤ d + t ∧ d + t < Ns) := fun hc => hmem ((u1 d).mpr ⟨hd.1, hd.2, hc.1, hc.2⟩)
      rw [if_neg hmem, if_neg (fun hc => this (hin.mp hc))]
  · obtain ⟨u1, u2, _⟩ := axis_unit_neg Ns Nd t hNs hNd r h
    have hdec : decide ((-1 : Rat) < 0) = true := by simp
    rw [hdec]
    by_cases hmem : r.2.start ≤ d ∧ d < r.2.stop
    · have := (u1 d).mp hmem
      have hoff := u2 (by omega)
      rw [if_pos hmem, if_pos (hin.mpr ⟨this.2.2.1, this.2.2.2⟩)]
      simp only [pasteIndex, if_true]
      congr 1; omega
    · have : ¬ (0 ≤ t - d - 1 ∧ t - d - 1 < Ns) := fun hc => hmem ((u1 d).mpr ⟨hd.1, hd.2, hc.1, hc.2⟩)
      rw [if_neg hmem, if_neg (fun hc => this (hin.mp hc))]

/-- a snapped paste transform: no rotation/shear, unit scale of either sign, whole-pixel shift -/
structure IsUnitST (S : Aff) (tx ty : Int) : Prop where
  b0 : S.b = 0
  d0 : S.d = 0
  a1 : S.a = 1 ∨ S.a = -1
  e1 : S.e = 1 ∨ S.e = -1
  c : S.c = tx
  f : S.f = ty


/-- the transform into the `rs`-fold overview: `Affine.scale(1/rs) * A` -/
def overviewTr (A : Aff) (rs : Int) : Aff := Aff.scale (1 / (rs : Rat)) (1 / (rs : Rat)) * A

/-- what `_can_paste` checks, as a proposition -/
structure PasteCond (A : Aff) (n stol ttol : Rat) (rs : Int) : Prop where
  st : isAffineST A = true
  scaleInt : isAlmostInt (min (scale2 A n).1 (scale2 A n).2) stol = true
  hrs : pickReadScale (min (scale2 A n).1 (scale2 A n).2) = .ok rs
  sx : rabs (rabs (overviewTr A rs).a - 1) < stol
  sy : rabs (rabs (overviewTr A rs).e - 1) < stol
  tx : isAlmostInt (overviewTr A rs).c ttol = true
  ty : isAlmostInt (overviewTr A rs).f ttol = true

theorem canPaste_true_iff (A : Aff) (n stol ttol : Rat) :
    canPaste A n stol ttol = .ok true ↔ ∃ rs, PasteCond A n stol ttol rs := by
  unfold canPaste
  constructor
  · intro h
    by_cases h1 : isAffineST A = true
    · simp only [h1, not_true_eq_false, if_false] at h
      by_cases h2 : isAlmostInt (min (scale2 A n).1 (scale2 A n).2) stol = true
      · simp only [h2, not_true_eq_false, if_false] at h
        cases h3 : pickReadScale (min (scale2 A n).1 (scale2 A n).2) with
        | error e => simp [h3] at h
        | ok rs =>
          simp only [h3] at h
          split_ifs at h with c1 c2
          · simp at h
          · have c1' := not_or.mp c1
            exact ⟨rs, ⟨h1, h2, h3, not_le.mp c1'.1, not_le.mp c1'.2, c2.1, c2.2⟩⟩
          · simp at h
      · simp [h2] at h
    · simp [h1] at h
  · rintro ⟨rs, hc⟩
    have c1 : ¬ (rabs (rabs (Aff.scale (1 / (rs : Rat)) (1 / (rs : Rat)) * A).a - 1) ≥ stol ∨
        rabs (rabs (Aff.scale (1 / (rs : Rat)) (1 / (rs : Rat)) * A).e - 1) ≥ stol) := by
      rintro (h | h)
      · exact absurd hc.sx (not_lt.mpr h)
      · exact absurd hc.sy (not_lt.mpr h)
    have c2 : ¬¬ (isAlmostInt (Aff.scale (1 / (rs : Rat)) (1 / (rs : Rat)) * A).c ttol = true ∧
        isAlmostInt (Aff.scale (1 / (rs : Rat)) (1 / (rs : Rat)) * A).f ttol = true) := not_not.mpr ⟨hc.tx, hc.ty⟩
    simp only [hc.st, not_true_eq_false, if_false, hc.scaleInt, hc.hrs]
    rw [if_neg c1, if_neg c2]


/-! ### `split_float`, `maybe_int`, `is_almost_int`, `snap_scale` -/

/-- distance to the nearest integer as `is_almost_int` computes it -/
def nearMeasure (x : Rat) : Rat :=
  let p := rabs (fmod1 x)
  if p > 1 / 2 then 1 - p else p

theorem isAlmostInt_eq (x tol : Rat) : isAlmostInt x tol = decide (nearMeasure x < tol) := rfl

theorem fmod1_bounds (x : Rat) : -1 < fmod1 x ∧ fmod1 x < 1 ∧ (0 ≤ x → 0 ≤ fmod1 x) ∧ (x < 0 → fmod1 x ≤ 0) := by
  unfold fmod1 trunc
  have f1 := Rat.floor_le x
  have f2 : x < (x.floor : Rat) + 1 := by have := Rat.lt_floor_add_one x; push_cast at this; exact this
  have c1 := @Rat.le_ceil x
  have c2 : (x.ceil : Rat) < x + 1 := Rat.ceil_lt
  split_ifs with h
  · refine ⟨by linarith, by linarith, fun _ => by linarith, fun h' => by linarith⟩
  · refine ⟨by linarith, by linarith, fun h' => absurd h' h, fun _ => by linarith⟩

/-- `split_float x = (k, x - k)` for an integer `k` with `|x - k|` the distance `is_almost_int` uses -/
theorem splitFloat_spec (x : Rat) :
    ∃ k : Int, (splitFloat x).1 = (k : Rat) ∧ (splitFloat x).2 = x - k ∧ rabs (x - k) = nearMeasure x := by
  obtain ⟨b1, b2, _, _⟩ := fmod1_bounds x
  have hT : x - fmod1 x = ((trunc x : Int) : Rat) := by unfold fmod1; ring
  unfold splitFloat nearMeasure
  simp only
  by_cases h1 : fmod1 x > 1 / 2
  · refine ⟨trunc x + 1, ?_, ?_, ?_⟩
    · simp only [h1, if_true]; rw [hT]; push_cast; ring
    · simp only [h1, if_true]; push_cast; rw [← hT]; ring
    · have e : x - ((trunc x + 1 : Int) : Rat) = fmod1 x - 1 := by push_cast; rw [← hT]; ring
      have hp : rabs (fmod1 x) = fmod1 x := by unfold rabs; rw [if_neg (by linarith)]
      rw [e, hp, if_pos h1]
      unfold rabs; rw [if_pos (by linarith)]; ring
  · by_cases h2 : fmod1 x < -(1 / 2)
    · refine ⟨trunc x - 1, ?_, ?_, ?_⟩
      · simp only [h1, h2, if_true, if_false]; rw [hT]; push_cast; ring
      · simp only [h1, h2, if_true, if_false]; push_cast; rw [← hT]; ring
      · have e : x - ((trunc x - 1 : Int) : Rat) = fmod1 x + 1 := by push_cast; rw [← hT]; ring
        have hp : rabs (fmod1 x) = -fmod1 x := by unfold rabs; rw [if_pos (by linarith)]
        rw [e, hp, if_pos (by linarith)]
        unfold rabs; rw [if_neg (by linarith)]; ring
    · refine ⟨trunc x, ?_, ?_, ?_⟩
      · simp only [h1, h2, if_false]; rw [hT]
      · simp only [h1, h2, if_false]; rw [← hT]; ring
      · have e : x - ((trunc x : Int) : Rat) = fmod1 x := by rw [← hT]; ring
        rw [e]
        have : ¬ rabs (fmod1 x) > 1 / 2 := by
          unfold rabs; split_ifs <;> linarith
        rw [if_neg this]

/-- `is_almost_int x tol` ⇒ `x` is within `tol` of an integer, and `maybe_int` returns that integer -/
theorem isAlmostInt_spec (x tol : Rat) (h : isAlmostInt x tol = true) :
    ∃ k : Int, rabs (x - k) < tol ∧ maybeInt x tol = (k : Rat) := by
  obtain ⟨k, e1, e2, e3⟩ := splitFloat_spec x
  rw [isAlmostInt_eq, decide_eq_true_eq] at h
  refine ⟨k, by rw [e3]; exact h, ?_⟩
  unfold maybeInt
  simp only [e2, e3, h, if_true, e1]

theorem floor_eq_of (x : Rat) (k : Int) (h1 : (k : Rat) ≤ x) (h2 : x < (k : Rat) + 1) : x.floor = k := by
  apply le_antisymm
  · have := Rat.floor_le x
    have : (x.floor : Rat) < (k : Rat) + 1 := by linarith
    have : x.floor < k + 1 := by exact_mod_cast this
    omega
  · rw [Rat.le_floor_iff]; exact h1

theorem ceil_eq_of (x : Rat) (k : Int) (h1 : (k : Rat) - 1 < x) (h2 : x ≤ (k : Rat)) : x.ceil = k := by
  apply le_antisymm
  · rw [Rat.ceil_le_iff]; exact h2
  · have := @Rat.le_ceil x
    have : (k : Rat) - 1 < (x.ceil : Rat) := by linarith
    have : k - 1 < x.ceil := by exact_mod_cast this
    omega

theorem nearMeasure_le_half (x : Rat) : nearMeasure x ≤ 1 / 2 := by
  obtain ⟨b1, b2, _, _⟩ := fmod1_bounds x
  unfold nearMeasure
  simp only
  split_ifs with h
  · linarith
  · exact not_lt.mp h

theorem rabs_lt_iff (x b : Rat) : rabs x < b ↔ (-b < x ∧ x < b) := by
  unfold rabs
  split_ifs with c
  · constructor
    · intro h; constructor <;> linarith
    · rintro ⟨h1, h2⟩; linarith
  · constructor
    · intro h; constructor <;> linarith
    · rintro ⟨h1, h2⟩; linarith

theorem rabs_le_iff (x b : Rat) : rabs x ≤ b ↔ (-b ≤ x ∧ x ≤ b) := by
  unfold rabs
  split_ifs with c
  · constructor
    · intro h; constructor <;> linarith
    · rintro ⟨h1, h2⟩; linarith
  · constructor
    · intro h; constructor <;> linarith
    · rintro ⟨h1, h2⟩; linarith

/-- `maybe_int` of a number within `tol ≤ ½` of the integer `j` is `j` -/
theorem maybeInt_of_near (x tol : Rat) (j : Int) (htol : tol ≤ 1 / 2) (h : rabs (x - j) < tol) :
    maybeInt x tol = (j : Rat) := by
  obtain ⟨k, e1, e2, e3⟩ := splitFloat_spec x
  have hk : rabs (x - k) ≤ 1 / 2 := by rw [e3]; exact nearMeasure_le_half x
  have h' := (rabs_lt_iff _ _).mp h
  have hk' := (rabs_le_iff _ _).mp hk
  have hkj : k = j := by
    have a1 : (k : Rat) - j < 1 := by linarith [h'.1, hk'.2]
    have a2 : (j : Rat) - k < 1 := by linarith [h'.2, hk'.1]
    have a1' : k - j < 1 := by exact_mod_cast a1
    have a2' : j - k < 1 := by exact_mod_cast a2
    omega
  subst hkj
  unfold maybeInt
  simp only [e2, e1, h, if_true]

/-- a scale within `tol ≤ ½` of `±1` is snapped to exactly `±1` (sign kept) -/
theorem snapScale_unit (s tol : Rat) (htol : tol ≤ 1 / 2) (h : rabs (rabs s - 1) < tol) :
    snapScale s tol = if s < 0 then -1 else 1 := by
  have habs : 1 - tol < rabs s ∧ rabs s < 1 + tol := by
    generalize rabs s = r at h ⊢
    unfold rabs at h
    split_ifs at h <;> constructor <;> linarith
  unfold snapScale
  rw [if_pos (by linarith [habs.1])]
  by_cases hs : s < 0
  · have hr : rabs s = -s := by unfold rabs; rw [if_pos hs]
    rw [hr] at habs
    rw [if_pos hs]
    have := maybeInt_of_near s tol (-1) htol (by rw [rabs_lt_iff]; push_cast; constructor <;> linarith [habs.1, habs.2])
    rw [this]; push_cast; ring
  · have hr : rabs s = s := by unfold rabs; rw [if_neg hs]
    rw [hr] at habs
    rw [if_neg hs]
    have := maybeInt_of_near s tol 1 htol (by rw [rabs_lt_iff]; push_cast; constructor <;> linarith [habs.1, habs.2])
    rw [this]; push_cast; ring


/-! ### composition helpers (C10 ∘ C03) -/

theorem rabs_nonneg (x : Rat) : 0 ≤ rabs x := by unfold rabs; split_ifs <;> linarith
theorem le_rabs (x : Rat) : x ≤ rabs x := by unfold rabs; split_ifs <;> linarith
theorem neg_rabs_le (x : Rat) : -rabs x ≤ x := by unfold rabs; split_ifs <;> linarith

/-- entries of the transform into the `rs`-fold overview -/
theorem overviewTr_entries (A : Aff) (rs : Int) :
    (overviewTr A rs).a = A.a / rs ∧ (overviewTr A rs).b = A.b / rs ∧ (overviewTr A rs).c = A.c / rs ∧
    (overviewTr A rs).d = A.d / rs ∧ (overviewTr A rs).e = A.e / rs ∧ (overviewTr A rs).f = A.f / rs := by
  refine ⟨?_, ?_, ?_, ?_, ?_, ?_⟩ <;> simp only [overviewTr, Aff.scale, Aff.mul_def, Aff.mul] <;> ring

theorem rabs_div_le (v : Rat) (rs : Int) (h : 1 ≤ rs) : rabs (v / rs) ≤ rabs v := by
  have hrq : (1 : Rat) ≤ rs := by exact_mod_cast h
  have hpos : (0 : Rat) < rs := by linarith
  rw [rabs_le_iff]
  have hv0 := rabs_nonneg v
  have a1 := le_rabs v
  have a2 := neg_rabs_le v
  constructor
  · rw [le_div_iff₀ hpos]; nlinarith
  · rw [div_le_iff₀ hpos]; nlinarith

/-- Under the conditions `_can_paste` checks (and `stol ≤ ½`) the snapped overview transform is a unit
scale + whole-pixel shift with the signs of `A`, and its offsets are within `ttol` of those of the overview transform. -/
theorem snapAffine_overview_unit (A : Aff) (n stol ttol : Rat) (rs : Int) (hc : PasteCond A n stol ttol rs)
    (hstol : stol ≤ 1 / 2) :
    ∃ tx ty : Int, IsUnitST (snapAffine (overviewTr A rs) ttol stol) tx ty ∧
      ((snapAffine (overviewTr A rs) ttol stol).a = if (overviewTr A rs).a < 0 then -1 else 1) ∧
      ((snapAffine (overviewTr A rs) ttol stol).e = if (overviewTr A rs).e < 0 then -1 else 1) ∧
      rabs ((overviewTr A rs).c - tx) < ttol ∧ rabs ((overviewTr A rs).f - ty) < ttol ∧
      rabs (overviewTr A rs).b < tol1em10 ∧ rabs (overviewTr A rs).d < tol1em10 := by
  obtain ⟨ea, eb, ec, ed, ee, ef⟩ := overviewTr_entries A rs
  have hst := hc.st
  simp only [isAffineST, Bool.and_eq_true, decide_eq_true_eq] at hst
  have hrs := read_shrink_pos_int _ _ _ hc.hrs
  have hb : rabs (overviewTr A rs).b < tol1em10 := by rw [eb]; exact lt_of_le_of_lt (rabs_div_le _ _ hrs) hst.1
  have hd : rabs (overviewTr A rs).d < tol1em10 := by rw [ed]; exact lt_of_le_of_lt (rabs_div_le _ _ hrs) hst.2
  have htol : tol1em10 < tol1em8 := by decide +kernel
  obtain ⟨kx, hkx, mkx⟩ := isAlmostInt_spec _ _ hc.tx
  obtain ⟨ky, hky, mky⟩ := isAlmostInt_spec _ _ hc.ty
  have hsnap : snapAffine (overviewTr A rs) ttol stol =
      ⟨if (overviewTr A rs).a < 0 then -1 else 1, 0, (kx : Rat), 0, if (overviewTr A rs).e < 0 then -1 else 1, (ky : Rat)⟩ := by
    unfold snapAffine
    rw [if_neg (by
      rintro (hh | hh)
      · exact absurd (lt_trans hb htol) (not_lt.mpr (le_of_lt hh))
      · exact absurd (lt_trans hd htol) (not_lt.mpr (le_of_lt hh)))]
    rw [snapScale_unit _ stol hstol hc.sx, snapScale_unit _ stol hstol hc.sy, mkx, mky]
  refine ⟨kx, ky, ?_, by rw [hsnap], by rw [hsnap], hkx, hky, hb, hd⟩
  rw [hsnap]
  refine ⟨rfl, rfl, ?_, ?_, rfl, rfl⟩
  · simp only; split_ifs <;> simp
  · simp only; split_ifs <;> simp

/-- half-pixel budget ⇒ the true image of a pixel centre is within half a pixel of the snapped one (one axis):
`|(a − σ)·u + b·v + (c − t)| < ½` for `0 < u < nx`, `0 < v < ny`, when `||a|−1|·nx + |b|·ny + ttol ≤ ½`. -/
theorem close_of_budget (a b c : Rat) (t : Int) (ttol : Rat) (nx ny : Int) (u v : Rat)
    (hu : 0 < u ∧ u < nx) (hv : 0 < v ∧ v < ny) (hc : rabs (c - t) < ttol)
    (hbud : rabs (rabs a - 1) * nx + rabs b * ny + ttol ≤ 1 / 2) :
    rabs (a * u + b * v + c - ((if a < 0 then -1 else 1) * u + (t : Rat))) < 1 / 2 := by
  have hc' := (rabs_lt_iff _ _).mp hc
  have hb1 := le_rabs b
  have hb2 := neg_rabs_le b
  have hb0 := rabs_nonneg b
  have hd0 := rabs_nonneg (rabs a - 1)
  have hbv : -(rabs b * ny) ≤ b * v ∧ b * v ≤ rabs b * ny := by
    have : (v : Rat) ≤ ny := le_of_lt hv.2
    constructor <;> nlinarith
  -- (a − σ)·u is bounded by δ·nx
  have hau : -(rabs (rabs a - 1) * nx) ≤ (a - (if a < 0 then -1 else 1)) * u ∧
      (a - (if a < 0 then -1 else 1)) * u ≤ rabs (rabs a - 1) * nx := by
    have hun : (u : Rat) ≤ nx := le_of_lt hu.2
    have k1 := le_rabs (rabs a - 1)
    have k2 := neg_rabs_le (rabs a - 1)
    generalize rabs (rabs a - 1) = D at k1 k2 hd0 ⊢
    have hu0 : 0 ≤ u := le_of_lt hu.1
    have hDu : D * u ≤ D * nx := mul_le_mul_of_nonneg_left hun hd0
    by_cases ha : a < 0
    · have e : rabs a = -a := by unfold rabs; rw [if_pos ha]
      rw [e] at k1 k2
      rw [if_pos ha]
      have h1 : (a - -1) * u ≤ D * u := mul_le_mul_of_nonneg_right (by linarith) hu0
      have h2 : -(D * u) ≤ (a - -1) * u := by
        have := mul_le_mul_of_nonneg_right (show -D ≤ a - -1 by linarith) hu0
        linarith
      constructor <;> linarith
    · have e : rabs a = a := by unfold rabs; rw [if_neg ha]
      rw [e] at k1 k2
      rw [if_neg ha]
      have h1 : (a - 1) * u ≤ D * u := mul_le_mul_of_nonneg_right (by linarith) hu0
      have h2 : -(D * u) ≤ (a - 1) * u := by
        have := mul_le_mul_of_nonneg_right (show -D ≤ a - 1 by linarith) hu0
        linarith
      constructor <;> linarith
  rw [rabs_lt_iff]
  have key : a * u + b * v + c - ((if a < 0 then -1 else 1) * u + (t : Rat)) =
      (a - (if a < 0 then -1 else 1)) * u + b * v + (c - t) := by ring
  rw [key]
  constructor <;> linarith [hau.1, hau.2, hbv.1, hbv.2, hc'.1, hc'.2]

end OdcGeo.C10
