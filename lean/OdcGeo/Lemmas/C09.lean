/- Helper lemmas for C09 (arithmetic progressions of labels, slice index ranges, coordinate lists). -/
import OdcGeo.Model.C09
import OdcGeo.Lemmas.Affine
import Mathlib.Tactic.Linarith
import Mathlib.Tactic.Ring
import Mathlib.Tactic.FieldSimp
import Mathlib.Tactic.Push
import Mathlib.Algebra.Order.Field.Rat

namespace OdcGeo.C09
open OdcGeo OdcGeo.PySliceStep

/-- arithmetic progression of `n` labels `c, c+d, …` -/
def ap (c d : Rat) (n : Nat) : List Rat := (List.range n).map (fun (k : Nat) => c + (k : Rat) * d)

theorem ap_length (c d : Rat) (n : Nat) : (ap c d n).length = n := by simp [ap]

theorem ap_getElem? (c d : Rat) (n k : Nat) (h : k < n) : (ap c d n)[k]? = some (c + (k : Rat) * d) := by
  simp [ap, h]

theorem pixelLabels_eq_ap (n : Nat) : pixelLabels n = ap (1 / 2) 1 n := by
  unfold pixelLabels ap
  apply List.map_congr_left
  intro k _
  ring

theorem axisLabels_eq_ap (n : Nat) (r t : Rat) : axisLabels n r t = ap (t + r / 2) r n := by
  unfold axisLabels ap
  apply List.map_congr_left
  intro k _
  ring

/-! ### `slice.indices` stays inside the axis -/

theorem adjust_bounds (n lower upper dflt : Int) (x : Option Int)
    (hd : lower ≤ dflt ∧ dflt ≤ upper) (hlu : lower ≤ upper) (hl0 : lower ≤ 0) (hn : upper ≤ n)
    (hn' : n - 1 ≤ upper) :
    lower ≤ adjust n lower upper dflt x ∧ adjust n lower upper dflt x ≤ upper := by
  cases x with
  | none => simpa [adjust] using hd
  | some v =>
    show lower ≤ (if v < 0 then max (v + n) lower else min v upper) ∧
      (if v < 0 then max (v + n) lower else min v upper) ≤ upper
    split <;> omega

theorem filterMap_eq_map_of {α β} (f : α → Option β) (g : α → β) (l : List α)
    (h : ∀ x ∈ l, f x = some (g x)) : l.filterMap f = l.map g := by
  induction l with
  | nil => rfl
  | cons a t ih =>
    rw [List.filterMap_cons, h a List.mem_cons_self, List.map_cons,
      ih (fun x hx => h x (List.mem_cons_of_mem _ hx))]

/-- every selected position is a valid index -/
theorem indices_in_range (n : Nat) (start stop : Option Int) (step : Int) (hs : step ≠ 0)
    (k : Nat) (hk : k < (indices n start stop step).2) :
    0 ≤ (indices n start stop step).1 + (k : Int) * step ∧
      (indices n start stop step).1 + (k : Int) * step < n := by
  unfold indices at hk ⊢
  by_cases hpos : 0 < step
  · simp only [hpos, if_true] at hk ⊢
    have hlo := adjust_bounds n 0 n 0 start (by omega) (by omega) (by omega) (by omega) (by omega)
    have hhi := adjust_bounds n 0 n n stop (by omega) (by omega) (by omega) (by omega) (by omega)
    generalize adjust n 0 n 0 start = lo at *
    generalize adjust n 0 n n stop = hi at *
    by_cases hlt : lo < hi
    · simp only [hlt, if_true] at hk
      have hq : (0 : Int) ≤ (hi - lo - 1) / step := Int.ediv_nonneg (by omega) (by omega)
      have hk' : (k : Int) ≤ (hi - lo - 1) / step := by omega
      have hmul : (k : Int) * step ≤ hi - lo - 1 := (Int.le_ediv_iff_mul_le hpos).mp hk'
      have hnn : 0 ≤ (k : Int) * step := Int.mul_nonneg (by omega) (by omega)
      constructor <;> omega
    · simp [hlt] at hk
  · simp only [hpos, if_false] at hk ⊢
    have hneg : 0 < -step := by omega
    have hlo := adjust_bounds n (-1) (n - 1) (n - 1) start (by omega) (by omega) (by omega) (by omega) (by omega)
    have hhi := adjust_bounds n (-1) (n - 1) (-1) stop (by omega) (by omega) (by omega) (by omega) (by omega)
    generalize adjust n (-1) (n - 1) (n - 1) start = lo at *
    generalize adjust n (-1) (n - 1) (-1) stop = hi at *
    by_cases hlt : hi < lo
    · simp only [hlt, if_true] at hk
      have hq : (0 : Int) ≤ (lo - hi - 1) / (-step) := Int.ediv_nonneg (by omega) (by omega)
      have hk' : (k : Int) ≤ (lo - hi - 1) / (-step) := by omega
      have hmul : (k : Int) * (-step) ≤ lo - hi - 1 := (Int.le_ediv_iff_mul_le hneg).mp hk'
      have hnn : 0 ≤ (k : Int) * (-step) := Int.mul_nonneg (by omega) (by omega)
      have : (k : Int) * (-step) = -((k : Int) * step) := by ring
      constructor <;> omega
    · simp [hlt] at hk

/-- numpy selection of an arithmetic progression is an arithmetic progression -/
theorem pick_ap (c d : Rat) (n : Nat) (start stop : Option Int) (step : Int) (hs : step ≠ 0) :
    pick (ap c d n) start stop step =
      ap (c + ((indices n start stop step).1 : Rat) * d) ((step : Rat) * d) (indices n start stop step).2 := by
  unfold pick sel
  rw [ap_length]
  generalize hI : indices n start stop step = I
  obtain ⟨s0, len⟩ := I
  simp only
  rw [List.filterMap_map]
  show List.filterMap _ (List.range len) = List.map _ (List.range len)
  apply filterMap_eq_map_of
  intro k hk
  have hk' : k < len := List.mem_range.mp hk
  have hr := indices_in_range n start stop step hs k (by rw [hI]; exact hk')
  rw [hI] at hr
  simp only at hr
  simp only [Function.comp]
  have htn : (s0 + (k : Int) * step).toNat < n := by omega
  rw [ap_getElem? c d n (s0 + (k : Int) * step).toNat htn]
  congr 1
  have hcast : (((s0 + (k : Int) * step).toNat : Nat) : Rat) = (s0 : Rat) + (k : Rat) * (step : Rat) := by
    have h1 : (((s0 + (k : Int) * step).toNat : Nat) : Int) = s0 + (k : Int) * step := Int.toNat_of_nonneg hr.1
    have h2 : ((((s0 + (k : Int) * step).toNat : Nat) : Int) : Rat) = ((s0 + (k : Int) * step : Int) : Rat) := by
      rw [h1]
    push_cast at h2
    exact_mod_cast h2
  rw [hcast]
  ring

/-! ### `data_resolution_and_offset` on an arithmetic progression -/

theorem dataResOff_ap_ge2 (c d : Rat) (n : Nat) (hn : 2 ≤ n) (fb : Option Rat) :
    dataResOff (ap c d n) fb = .ok (d, c - (1 / 2) * d) := by
  obtain ⟨m, rfl⟩ : ∃ m, n = m + 2 := ⟨n - 2, by omega⟩
  have hl : ap c d (m + 2) = c :: (c + d) :: ((List.range m).map (fun (k : Nat) => c + ((k : Rat) + 2) * d)) := by
    unfold ap
    rw [List.range_succ_eq_map, List.map_cons, List.map_map, List.range_succ_eq_map, List.map_cons, List.map_map]
    simp only [Nat.cast_zero, zero_mul, add_zero, Function.comp, Nat.cast_succ,
      List.cons.injEq, true_and]
    refine ⟨by ring, ?_⟩
    apply List.map_congr_left
    intro k _
    simp only [Function.comp, Nat.succ_eq_add_one, Nat.cast_add, Nat.cast_one]
    ring
  rw [hl]
  simp only [dataResOff, List.length_map, List.length_range]
  have hlast : ((c + d) :: (List.range m).map (fun (k : Nat) => c + ((k : Rat) + 2) * d)).getLast (by simp)
      = c + ((m : Rat) + 1) * d := by
    cases m with
    | zero => simp
    | succ j =>
      rw [List.getLast_cons (by simp)]
      rw [List.getLast_eq_getElem]
      simp
      first | ring1 | exact Or.inl (by ring)
  rw [hlast]
  have hne : ((m + 2 : Nat) : Rat) - 1 ≠ 0 := by
    push_cast
    have : (0 : Rat) ≤ (m : Rat) := Nat.cast_nonneg m
    linarith
  have hres : (c + ((m : Rat) + 1) * d - c) / (((m + 2 : Nat) : Rat) - 1) = d := by
    rw [div_eq_iff hne]
    push_cast
    ring
  rw [hres]

theorem dataResOff_ap_one (c d : Rat) (fb : Option Rat) :
    dataResOff (ap c d 1) fb = match fb with
      | none => .error .valueError
      | some r => .ok (r, c - (1 / 2) * r) := by
  cases fb <;> simp [ap, dataResOff]

theorem dataResOff_ap_zero (c d : Rat) (fb : Option Rat) :
    dataResOff (ap c d 0) fb = .error .valueError := by
  simp [ap, dataResOff]

/-! ### coordinate lists -/

theorem lookup_mapCoord_ne (nm k : String) (f : Coord → Coord) (cs : List (String × Coord)) (h : k ≠ nm) :
    (mapCoord nm f cs).lookup k = cs.lookup k := by
  induction cs with
  | nil => rfl
  | cons hd tl ih =>
    obtain ⟨k', c⟩ := hd
    simp only [mapCoord]
    by_cases hk : k' = nm
    · subst hk
      simp only [if_true, List.lookup_cons]
      have : (k == k') = false := by simpa using h
      simp [this, ih]
    · simp only [hk, if_false, List.lookup_cons]
      split <;> simp_all

theorem lookup_mapCoord_eq (nm : String) (f : Coord → Coord) (cs : List (String × Coord)) :
    (mapCoord nm f cs).lookup nm = (cs.lookup nm).map f := by
  induction cs with
  | nil => rfl
  | cons hd tl ih =>
    obtain ⟨k', c⟩ := hd
    simp only [mapCoord]
    by_cases hk : k' = nm
    · subst hk
      simp [List.lookup_cons]
    · have : (nm == k') = false := by simpa using fun h => hk h.symm
      simp [hk, List.lookup_cons, this, ih]

theorem crsScan_mapCoord (nm : String) (f : Coord → Coord) (cs : List (String × Coord))
    (hf : ∀ k c, (k, c) ∈ cs → k = nm →
      (match f c with | Coord.crs c' => some c' | _ => none) = (match c with | Coord.crs c' => some c' | _ => none)) :
    crsScan (mapCoord nm f cs) = crsScan cs := by
  induction cs with
  | nil => rfl
  | cons hd tl ih =>
    obtain ⟨k', c⟩ := hd
    have ih' := ih (fun k c hm hk => hf k c (List.mem_cons_of_mem _ hm) hk)
    simp only [mapCoord]
    by_cases hk : k' = nm
    · have h1 := hf k' c (List.mem_cons_self) hk
      simp only [hk, if_true, crsScan, List.filterMap_cons] at ih' ⊢
      cases hfc : f c <;> cases hc : c <;> simp_all
    · simp only [hk, if_false, crsScan, List.filterMap_cons] at ih' ⊢
      cases hc : c <;> simp_all

/-! ### the transform recovered from two arithmetic progressions -/

/-- the 1-D resolution the code ends up with: from the labels when there are at least two -/
def resOf (n : Nat) (d fb : Rat) : Rat := if 2 ≤ n then d else fb

theorem dataResOff_ap (c d : Rat) (n : Nat) (hn : 1 ≤ n) (fb : Rat) :
    dataResOff (ap c d n) (some fb) = .ok (resOf n d fb, c - (1 / 2) * resOf n d fb) := by
  by_cases h2 : 2 ≤ n
  · simp [resOf, h2, dataResOff_ap_ge2 c d n h2]
  · have : n = 1 := by omega
    subst this
    simp [resOf, dataResOff_ap_one]

theorem affineFromAxis_ap_some (cx dx cy dy : Rat) (nx ny : Nat) (hx : 1 ≤ nx) (hy : 1 ≤ ny) (fb : Rat × Rat) :
    affineFromAxis (ap cx dx nx) (ap cy dy ny) (some fb) =
      .ok (Aff.translation (cx - (1 / 2) * resOf nx dx fb.1) (cy - (1 / 2) * resOf ny dy fb.2) *
            Aff.scale (resOf nx dx fb.1) (resOf ny dy fb.2)) := by
  simp [affineFromAxis, dataResOff_ap _ _ _ hx, dataResOff_ap _ _ _ hy, bind, Except.bind, pure, Except.pure]

theorem affineFromAxis_ap_none_ge2 (cx dx cy dy : Rat) (nx ny : Nat) (hx : 2 ≤ nx) (hy : 2 ≤ ny) :
    affineFromAxis (ap cx dx nx) (ap cy dy ny) none =
      .ok (Aff.translation (cx - (1 / 2) * dx) (cy - (1 / 2) * dy) * Aff.scale dx dy) := by
  simp [affineFromAxis, dataResOff_ap_ge2 _ _ _ hx, dataResOff_ap_ge2 _ _ _ hy, bind, Except.bind, pure, Except.pure]

theorem affineFromAxis_ap_none_short (cx dx cy dy : Rat) (nx ny : Nat) (hx : 1 ≤ nx) (hy : 1 ≤ ny)
    (h : ¬ (2 ≤ nx ∧ 2 ≤ ny)) :
    ∃ e, affineFromAxis (ap cx dx nx) (ap cy dy ny) none = .error e := by
  by_cases h2 : 2 ≤ nx
  · have : ny = 1 := by omega
    subst this
    exact ⟨.valueError, by
      simp [affineFromAxis, dataResOff_ap_ge2 _ _ _ h2, dataResOff_ap_one, bind, Except.bind]⟩
  · have : nx = 1 := by omega
    subst this
    exact ⟨.valueError, by simp [affineFromAxis, dataResOff_ap_one, bind, Except.bind]⟩

/-- `_extract_transform` on arithmetic-progression labels: explicit result. -/
theorem extractTransform_ap (cx dx cy dy : Rat) (nx ny : Nat) (hx : 1 ≤ nx) (hy : 1 ≤ ny)
    (xf : Option Aff) (cc : Option CrsCoord) (gcp : Bool) (fb : Rat × Rat)
    (hfb : (2 ≤ nx ∧ 2 ≤ ny) ∨ fallbackRes (if gcp then none else xf) cc gcp = .ok (some fb)) :
    extractTransform (ap cx dx nx) (ap cy dy ny) xf cc gcp =
      .ok (some (composeP2W (if gcp then none else xf)
        (Aff.translation (cx - (1 / 2) * resOf nx dx fb.1) (cy - (1 / 2) * resOf ny dy fb.2) *
          Aff.scale (resOf nx dx fb.1) (resOf ny dy fb.2)))) := by
  unfold extractTransform
  by_cases h2 : 2 ≤ nx ∧ 2 ≤ ny
  · simp [affineFromAxis_ap_none_ge2 _ _ _ _ _ _ h2.1 h2.2, resOf, h2.1, h2.2]
  · obtain ⟨e, he⟩ := affineFromAxis_ap_none_short cx dx cy dy nx ny hx hy h2
    have hfb' := hfb.resolve_left h2
    simp only [he, hfb', affineFromAxis_ap_some _ _ _ _ _ _ hx hy]

/-- the recovered pixel transform sends the centre of pixel `(i, j)` to the labels `(x_j, y_i)`,
whatever fallback resolution was used for a one-element axis -/
theorem centre_to_labels (cx dx cy dy : Rat) (nx ny : Nat) (fb : Rat × Rat) (i j : Nat) (hi : i < ny) (hj : j < nx) :
    (Aff.translation (cx - (1 / 2) * resOf nx dx fb.1) (cy - (1 / 2) * resOf ny dy fb.2) *
        Aff.scale (resOf nx dx fb.1) (resOf ny dy fb.2)).apply (centre i j) =
      (cx + (j : Rat) * dx, cy + (i : Rat) * dy) := by
  have hxj : (j : Rat) * resOf nx dx fb.1 = (j : Rat) * dx := by
    unfold resOf
    split
    · rfl
    · have : j = 0 := by omega
      subst this
      simp
  have hyi : (i : Rat) * resOf ny dy fb.2 = (i : Rat) * dy := by
    unfold resOf
    split
    · rfl
    · have : i = 0 := by omega
      subst this
      simp
  simp only [Aff.mul_def, Aff.mul, Aff.apply, Aff.translation, Aff.scale, centre]
  ext
  · simp only [Int.cast_natCast]
    linear_combination hxj
  · simp only [Int.cast_natCast]
    linear_combination hyi

theorem ap_one (c d : Rat) : ap c d 1 = [c] := by simp [ap]

/-- `GeoBox.coordinates` of the recovered axis-aligned box are the labels -/
theorem axisLabels_recovered (c d : Rat) (n : Nat) (hn : 1 ≤ n) (fb : Rat) :
    axisLabels n (resOf n d fb) (c - (1 / 2) * resOf n d fb) = ap c d n := by
  rw [axisLabels_eq_ap]
  by_cases h2 : 2 ≤ n
  · simp only [resOf, h2, if_true]
    congr 1
    ring
  · have : n = 1 := by omega
    subst this
    rw [ap_one, ap_one]
    congr 1
    ring

/-! ### history bookkeeping: which original index is result index `k` -/

/-- result index `k` of an axis is original index `off + stride * k`; `len` results -/
structure AxMap where
  off : Int
  stride : Int
  len : Nat

def AxMap.ident (n : Nat) : AxMap := ⟨0, 1, n⟩

def AxMap.orig (m : AxMap) (k : Nat) : Int := m.off + m.stride * (k : Int)

/-- composition with a further positional slice of the current axis (numpy semantics) -/
def AxMap.slice (m : AxMap) (start stop : Option Int) (step : Int) : AxMap :=
  ⟨m.off + m.stride * (indices m.len start stop step).1, m.stride * step, (indices m.len start stop step).2⟩

def trackOp (yd xd : String) (m : AxMap × AxMap) : Op → AxMap × AxMap
  | .isel d (.slc a b st) =>
    if d = yd then (m.1.slice a b (st.getD 1), m.2)
    else if d = xd then (m.1, m.2.slice a b (st.getD 1)) else m
  | _ => m

/-- `origIndex`: the index maps of both spatial axes after a history of operations -/
def track (yd xd : String) (m : AxMap × AxMap) (ops : List Op) : AxMap × AxMap := ops.foldl (trackOp yd xd) m

/-- labels of an axis whose original labels were `c0 + k * r` -/
def labelsFor (c0 r : Rat) (m : AxMap) : List Rat :=
  ap (c0 + (m.off : Rat) * r) ((m.stride : Rat) * r) m.len

theorem ap_congr {c c' d d' : Rat} (n : Nat) (hc : c = c') (hd : d = d') : ap c d n = ap c' d' n := by
  subst hc; subst hd; rfl

theorem pick_labelsFor (c0 r : Rat) (m : AxMap) (a b : Option Int) (st : Int) (hs : st ≠ 0) :
    pick (labelsFor c0 r m) a b st = labelsFor c0 r (m.slice a b st) := by
  unfold labelsFor
  rw [pick_ap _ _ _ _ _ _ hs]
  unfold AxMap.slice
  apply ap_congr
  · push_cast; ring
  · push_cast; ring

theorem labelsFor_ident (c0 r : Rat) (n : Nat) : labelsFor c0 r (AxMap.ident n) = ap c0 r n := by
  unfold labelsFor AxMap.ident
  apply ap_congr <;> simp

theorem resOf_same (n : Nat) (d : Rat) : resOf n d d = d := by unfold resOf; split <;> rfl

theorem guessDims_filter (dims : List String) (d : String) (hd : d = "time" ∨ d = "band") :
    guessDims (dims.filter (· ≠ d)) = guessDims dims := by
  have h : ∀ s : String, s ≠ "time" → s ≠ "band" → (dims.filter (· ≠ d)).contains s = dims.contains s := by
    intro s h1 h2
    have hsd : s ≠ d := by rcases hd with rfl | rfl <;> assumption
    rw [Bool.eq_iff_iff]
    simp [List.mem_filter, hsd]
  unfold guessDims
  rw [h "y" (by decide) (by decide), h "x" (by decide) (by decide), h "latitude" (by decide) (by decide),
    h "longitude" (by decide) (by decide), h "lat" (by decide) (by decide), h "lon" (by decide) (by decide)]

theorem spatialDims_of_guess (dims : List String) (p : String × String) (h : guessDims dims = some p) :
    spatialDims dims = some p := by
  simp [spatialDims, h]

theorem mem_mapCoord (nm : String) (f : Coord → Coord) (cs : List (String × Coord)) (k : String) (c : Coord)
    (h : (k, c) ∈ mapCoord nm f cs) : ∃ c0, (k, c0) ∈ cs ∧ (c = c0 ∨ (k = nm ∧ c = f c0)) := by
  induction cs with
  | nil => simp [mapCoord] at h
  | cons hd tl ih =>
    obtain ⟨k', c'⟩ := hd
    simp only [mapCoord, List.mem_cons] at h
    rcases h with h | h
    · by_cases hk : k' = nm
      · simp only [hk, if_true, Prod.mk.injEq] at h
        exact ⟨c', by simp [h.1, hk], Or.inr ⟨h.1, h.2⟩⟩
      · simp only [hk, if_false, Prod.mk.injEq] at h
        exact ⟨c', by simp [h.1], Or.inl h.2⟩
    · obtain ⟨c0, hm, hc⟩ := ih h
      exact ⟨c0, List.mem_cons_of_mem _ hm, hc⟩

end OdcGeo.C09
