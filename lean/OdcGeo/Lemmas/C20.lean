/- Helper lemmas for C20 / C08 (numeric helpers of odc/geo/math.py). -/
import OdcGeo.Model.C20
import OdcGeo.Lemmas.Affine
import Mathlib.Tactic.Linarith
import Mathlib.Tactic.Ring
import Mathlib.Tactic.FieldSimp
import Mathlib.Tactic.Positivity
import Mathlib.Tactic.ByContra
import Mathlib.Tactic.LinearCombination
import Mathlib.Algebra.Order.Field.Rat
import Mathlib.Algebra.Order.AbsoluteValue.Basic

namespace OdcGeo.C20

theorem rabs_eq_abs (x : Rat) : rabs x = |x| := by
  unfold rabs
  split
  · rw [abs_of_neg ‹_›]
  · rw [abs_of_nonneg (not_lt.mp ‹_›)]

/-! ### truncation, `fmod(x, 1)` -/

theorem trunc_intCast (k : Int) : trunc (k : Rat) = k := by
  unfold trunc; split
  · exact Rat.floor_intCast k
  · exact Rat.ceil_intCast k

theorem fmod1_nonneg {x : Rat} (h : 0 ≤ x) : 0 ≤ fmod1 x ∧ fmod1 x < 1 := by
  unfold fmod1 trunc; rw [if_pos h]
  have h1 := Rat.floor_le x
  have h2 := Rat.lt_floor_add_one x
  push_cast at h2
  constructor <;> linarith

theorem fmod1_neg {x : Rat} (h : x < 0) : -1 < fmod1 x ∧ fmod1 x ≤ 0 := by
  unfold fmod1 trunc; rw [if_neg (not_le.mpr h)]
  have h1 := @Rat.le_ceil x
  have h2 := @Rat.ceil_lt x
  constructor <;> linarith

theorem fmod1_bounds (x : Rat) : -1 < fmod1 x ∧ fmod1 x < 1 := by
  rcases le_or_gt 0 x with h | h
  · have := fmod1_nonneg h; constructor <;> linarith [this.1, this.2]
  · have := fmod1_neg h; constructor <;> linarith [this.1, this.2]

/-- the sign of `fmod(x, 1)` follows `x` -/
theorem fmod1_sign (x : Rat) : (0 ≤ x → 0 ≤ fmod1 x) ∧ (x ≤ 0 → fmod1 x ≤ 0) := by
  constructor
  · intro h; exact (fmod1_nonneg h).1
  · intro h
    rcases lt_or_eq_of_le h with h | h
    · exact (fmod1_neg h).2
    · subst h
      have : trunc (0 : Rat) = 0 := by simpa using trunc_intCast 0
      simp [fmod1, this]

/-! ### `split_float` -/

/-- whole part is an integer, the parts sum to `x`, the fraction lies in `[-1/2, 1/2]`. -/
theorem splitFloat_spec (x : Rat) :
    (∃ k : Int, (splitFloat x).1 = (k : Rat)) ∧ (splitFloat x).1 + (splitFloat x).2 = x ∧
      -(1 / 2) ≤ (splitFloat x).2 ∧ (splitFloat x).2 ≤ 1 / 2 := by
  have hb := fmod1_bounds x
  have hw : x - fmod1 x = (trunc x : Rat) := by unfold fmod1; ring
  unfold splitFloat
  simp only
  split
  · refine ⟨⟨trunc x + 1, by rw [hw]; push_cast; ring⟩, by ring, ?_, ?_⟩ <;> dsimp only <;> linarith [hb.1, hb.2]
  · split
    · refine ⟨⟨trunc x - 1, by rw [hw]; push_cast; ring⟩, by ring, ?_, ?_⟩ <;> dsimp only <;> linarith [hb.1, hb.2]
    · refine ⟨⟨trunc x, hw⟩, by ring, ?_, ?_⟩ <;> dsimp only <;> linarith

/-- `|x_part|` is the `min(f, 1-f)` that `is_almost_int` computes. -/
theorem splitFloat_abs_part (x : Rat) :
    |(splitFloat x).2| = if |fmod1 x| > 1 / 2 then 1 - |fmod1 x| else |fmod1 x| := by
  have hb := fmod1_bounds x
  unfold splitFloat
  simp only
  split
  · rename_i h
    have h0 : 0 < fmod1 x := by linarith
    rw [abs_of_pos h0, if_pos h, abs_of_neg (by dsimp only; linarith)]; ring
  · split
    · rename_i h1 h2
      have h0 : fmod1 x < 0 := by linarith
      rw [abs_of_neg h0, if_pos (by linarith), abs_of_pos (by dsimp only; linarith)]; ring
    · rename_i h1 h2
      have : ¬ |fmod1 x| > 1 / 2 := by
        rw [not_lt, abs_le]; constructor <;> linarith
      rw [if_neg this]

/-! ### `maybe_int`, `is_almost_int` -/

theorem maybeInt?_some {x tol : Rat} {k : Int} (h : maybeInt? x tol = some k) :
    (k : Rat) = (splitFloat x).1 ∧ |x - k| < tol ∧ |x - k| ≤ 1 / 2 := by
  obtain ⟨⟨j, hj⟩, hsum, hlo, hhi⟩ := splitFloat_spec x
  unfold maybeInt? at h
  simp only at h
  split at h
  · rename_i hlt
    rw [rabs_eq_abs] at hlt
    have hk : k = j := by
      have := Option.some.inj h
      rw [hj, trunc_intCast] at this; exact this.symm
    subst hk
    have hp : x - (k : Rat) = (splitFloat x).2 := by rw [← hj]; linarith
    refine ⟨hj.symm, by rw [hp]; exact hlt, by rw [hp, abs_le]; exact ⟨hlo, hhi⟩⟩
  · exact absurd h (by simp)

/-- Not snapped: no integer at all is closer than `tol`. -/
theorem maybeInt?_none {x tol : Rat} (h : maybeInt? x tol = none) (n : Int) : tol ≤ |x - n| := by
  obtain ⟨⟨j, hj⟩, hsum, hlo, hhi⟩ := splitFloat_spec x
  unfold maybeInt? at h
  simp only at h
  split at h
  · exact absurd h (by simp)
  · rename_i hlt
    rw [rabs_eq_abs, not_lt] at hlt
    have hp : x - (j : Rat) = (splitFloat x).2 := by rw [← hj]; linarith
    by_cases hn : n = j
    · subst hn; rw [hp]; exact hlt
    · have hhalf : |(splitFloat x).2| ≤ 1 / 2 := abs_le.mpr ⟨hlo, hhi⟩
      have h1 : (1 : Rat) ≤ |(j : Rat) - n| := by
        have : (1 : Int) ≤ |j - n| := Int.one_le_abs (by omega)
        have : ((1 : Int) : Rat) ≤ ((|j - n| : Int) : Rat) := by exact_mod_cast this
        simpa using this
      have h2 : |(j : Rat) - n| ≤ |x - n| + |(splitFloat x).2| := by
        have : (j : Rat) - n = (x - n) - (splitFloat x).2 := by rw [← hp]; ring
        rw [this]; exact abs_sub _ _
      linarith

theorem maybeInt?_isSome_iff (x tol : Rat) :
    (maybeInt? x tol).isSome = true ↔ ∃ n : Int, |x - n| < tol := by
  constructor
  · intro h
    obtain ⟨k, hk⟩ := Option.isSome_iff_exists.mp h
    exact ⟨k, (maybeInt?_some hk).2.1⟩
  · rintro ⟨n, hn⟩
    cases hm : maybeInt? x tol with
    | some k => rfl
    | none => exact absurd hn (not_lt.mpr (maybeInt?_none hm n))

theorem isAlmostInt_eq (x tol : Rat) : isAlmostInt x tol = (maybeInt? x tol).isSome := by
  unfold isAlmostInt maybeInt?
  simp only [rabs_eq_abs]
  rw [splitFloat_abs_part]
  generalize (if |fmod1 x| > 1 / 2 then 1 - |fmod1 x| else |fmod1 x|) = f
  by_cases h : f < tol
  · rw [if_pos h]; simp [h]
  · rw [if_neg h]; simp [h]

theorem maybeInt_of_some {x tol : Rat} {k : Int} (h : maybeInt? x tol = some k) : maybeInt x tol = k := by
  unfold maybeInt; rw [h]
theorem maybeInt_of_none {x tol : Rat} (h : maybeInt? x tol = none) : maybeInt x tol = x := by
  unfold maybeInt; rw [h]

/-- The value of `maybe_int` moves by less than `tol` (not at all for `tol ≤ 0`). -/
theorem maybeInt_close (x tol : Rat) : maybeInt x tol = x ∨ |x - maybeInt x tol| < tol := by
  cases h : maybeInt? x tol with
  | none => left; exact maybeInt_of_none h
  | some k => right; rw [maybeInt_of_some h]; exact (maybeInt?_some h).2.1

/-- An integer is returned as that integer whenever `0 < tol`. -/
theorem maybeInt?_intCast (k : Int) {tol : Rat} (ht : 0 < tol) : maybeInt? (k : Rat) tol = some k := by
  cases h : maybeInt? (k : Rat) tol with
  | none =>
    have := maybeInt?_none h k
    simp at this; linarith
  | some j =>
    have hj := (maybeInt?_some h).2.2
    have : |(k - j : Int)| < 1 := by
      have : |((k - j : Int) : Rat)| < 1 := by push_cast; linarith
      exact_mod_cast this
    have : k = j := by
      have := Int.abs_lt_one_iff.mp this; omega
    rw [this]

/-- `floor(maybe_int(u, tol))` and `ceil(maybe_int(u, tol))` bracket `u` up to `tol`, and move by less
than one. -/
theorem floor_maybeInt (u tol : Rat) (ht : 0 ≤ tol) :
    ((maybeInt u tol).floor : Rat) ≤ u + tol ∧ u - 1 < (maybeInt u tol).floor ∧
      (0 < tol → ((maybeInt u tol).floor : Rat) < u + tol) := by
  cases h : maybeInt? u tol with
  | none =>
    rw [maybeInt_of_none h]
    have h1 := Rat.floor_le u
    have h2 := Rat.lt_floor_add_one u
    push_cast at h2
    refine ⟨by linarith, by linarith, fun _ => by linarith⟩
  | some k =>
    rw [maybeInt_of_some h, Rat.floor_intCast]
    obtain ⟨_, h1, h2⟩ := maybeInt?_some h
    rw [abs_lt] at h1
    rw [abs_le] at h2
    refine ⟨by linarith, by linarith, fun _ => by linarith⟩

theorem ceil_maybeInt (u tol : Rat) (ht : 0 ≤ tol) :
    u - tol ≤ ((maybeInt u tol).ceil : Rat) ∧ ((maybeInt u tol).ceil : Rat) < u + 1 := by
  cases h : maybeInt? u tol with
  | none =>
    rw [maybeInt_of_none h]
    have h1 := @Rat.le_ceil u
    have h2 := @Rat.ceil_lt u
    constructor <;> linarith
  | some k =>
    rw [maybeInt_of_some h, Rat.ceil_intCast]
    obtain ⟨_, h1, h2⟩ := maybeInt?_some h
    rw [abs_lt] at h1
    rw [abs_le] at h2
    constructor <;> linarith

/-- With `tol < 1/2` the snapped floor of the lower end never exceeds the snapped ceiling of the
upper end. -/
theorem floor_le_ceil_maybeInt {u0 u1 tol : Rat} (h : u0 ≤ u1) (ht : 0 ≤ tol) (ht2 : tol < 1 / 2) :
    (maybeInt u0 tol).floor ≤ (maybeInt u1 tol).ceil := by
  have hf := floor_maybeInt u0 tol ht
  have hc := ceil_maybeInt u1 tol ht
  have : ((maybeInt u0 tol).floor : Rat) < ((maybeInt u1 tol).ceil : Rat) + 1 := by linarith [hf.1, hc.1]
  have : (maybeInt u0 tol).floor < (maybeInt u1 tol).ceil + 1 := by exact_mod_cast this
  omega

/-! ### one-axis snapping, in pixel units -/

/-- The arithmetic core of `_snap_edge_pos` in pixel units: `i = floor(maybe_int(u0))`,
`n = max(1, ceil(maybe_int(u1)) - i)`. -/
theorem snap_core {u0 u1 tol : Rat} (hu : u0 ≤ u1) (ht : 0 ≤ tol) (ht2 : tol < 1 / 2)
    (i n : Int) (hi : i = (maybeInt u0 tol).floor)
    (hn : n = max 1 ((maybeInt u1 tol).ceil - (maybeInt u0 tol).floor)) :
    1 ≤ n ∧ (i : Rat) ≤ u0 + tol ∧ u0 - i < 1 ∧ u1 - tol ≤ (i : Rat) + n ∧
      (i : Rat) + n - u1 ≤ 1 + tol ∧ ((0 < tol ∨ u0 < u1) → (i : Rat) + n - u1 < 1 + tol) ∧
      (1 ≤ u1 - u0 → (i : Rat) + n - u1 < 1) := by
  obtain ⟨f1, f2, f3⟩ := floor_maybeInt u0 tol ht
  obtain ⟨c1, c2⟩ := ceil_maybeInt u1 tol ht
  have hij := floor_le_ceil_maybeInt hu ht ht2
  rw [← hi] at f1 f2 f3 hij hn
  generalize (maybeInt u1 tol).ceil = j at c1 c2 hij hn
  rcases le_or_gt 1 (j - i) with h | h
  · have hn' : n = j - i := by rw [hn]; exact max_eq_right h
    have hj : (i : Rat) + n = j := by rw [hn']; push_cast; ring
    rw [hj]
    refine ⟨by omega, f1, by linarith, c1, by linarith, fun _ => by linarith, fun _ => by linarith⟩
  · have hn' : n = 1 := by rw [hn]; exact max_eq_left (by omega)
    have hji : j = i := by omega
    subst hji
    rw [hn']
    have e : ((1 : Int) : Rat) = 1 := by norm_num
    rw [e]
    refine ⟨le_refl 1, f1, by linarith, by linarith, by linarith, ?_, ?_⟩
    · rintro (h0 | h0)
      · have := f3 h0; linarith
      · linarith
    · intro hw; linarith

theorem mul_le_of_le_div {a u r : Rat} (hr : 0 < r) (h : a ≤ u) : a * r ≤ u * r :=
  mul_le_mul_of_nonneg_right h hr.le

/-- `_snap_edge_pos` evaluated. -/
theorem snapEdgePos_eq {x0 x1 res tol : Rat} (hr : 0 < res) (hx : x0 ≤ x1) :
    snapEdgePos x0 x1 res tol =
      .ok (((maybeInt (x0 / res) tol).floor : Rat) * res,
           max 1 ((maybeInt (x1 / res) tol).ceil - (maybeInt (x0 / res) tol).floor)) := by
  unfold snapEdgePos
  rw [if_neg (not_not.mpr hr), if_neg (not_not.mpr hx)]

/-- Specification of `_snap_edge_pos` in world units. -/
theorem snapEdgePos_spec {x0 x1 res tol : Rat} (hr : 0 < res) (hx : x0 ≤ x1) (ht : 0 ≤ tol)
    (ht2 : tol < 1 / 2) :
    ∃ i n : Int, snapEdgePos x0 x1 res tol = .ok ((i : Rat) * res, n) ∧ 1 ≤ n ∧
      (i : Rat) * res ≤ x0 + tol * res ∧ x0 - i * res < res ∧
      x1 - tol * res ≤ ((i : Rat) + n) * res ∧
      ((i : Rat) + n) * res - x1 ≤ res * (1 + tol) ∧
      ((0 < tol ∨ x0 < x1) → ((i : Rat) + n) * res - x1 < res * (1 + tol)) ∧
      (res ≤ x1 - x0 → ((i : Rat) + n) * res - x1 < res) := by
  have hu : x0 / res ≤ x1 / res := div_le_div_of_nonneg_right hx hr.le
  obtain ⟨h1, h2, h3, h4, h5, h6, h7⟩ :=
    snap_core hu ht ht2 _ _ rfl rfl
  have e0 : x0 = x0 / res * res := by field_simp
  have e1 : x1 = x1 / res * res := by field_simp
  refine ⟨_, _, snapEdgePos_eq hr hx, h1, ?_, ?_, ?_, ?_, ?_, ?_⟩
  · have := mul_le_mul_of_nonneg_right h2 hr.le
    nlinarith
  · have := mul_lt_mul_of_pos_right h3 hr
    nlinarith
  · have := mul_le_mul_of_nonneg_right h4 hr.le
    nlinarith
  · have := mul_le_mul_of_nonneg_right h5 hr.le
    nlinarith
  · intro h
    have hh : 0 < tol ∨ x0 / res < x1 / res := by
      rcases h with h | h
      · exact Or.inl h
      · exact Or.inr (div_lt_div_of_pos_right h hr)
    have := mul_lt_mul_of_pos_right (h6 hh) hr
    nlinarith
  · intro hw
    have hw' : 1 ≤ x1 / res - x0 / res := by
      rw [← sub_div, le_div_iff₀ hr]; linarith
    have := mul_lt_mul_of_pos_right (h7 hw') hr
    nlinarith

/-- `_snap_edge` evaluated for a negative resolution. -/
theorem snapEdge_neg {x0 x1 res tol : Rat} (hr : res < 0) (hx : x0 ≤ x1) (i n : Int)
    (h : snapEdgePos x0 x1 (-res) tol = .ok ((i : Rat) * -res, n)) :
    snapEdge x0 x1 res tol = .ok ((i : Rat) * -res + (n : Rat) * -res, n) := by
  unfold snapEdge
  rw [if_neg (not_not.mpr hx), if_neg (not_lt.mpr hr.le), h]
  rfl

theorem snapEdge_pos {x0 x1 res tol : Rat} (hr : 0 < res) (hx : x0 ≤ x1) :
    snapEdge x0 x1 res tol = snapEdgePos x0 x1 res tol := by
  unfold snapEdge
  rw [if_neg (not_not.mpr hx), if_pos hr]

theorem snapGrid_some_eq {x0 x1 res op tol : Rat} (hop : 0 ≤ op ∧ op < 1) (t : Rat) (n : Int)
    (h : snapEdge (x0 - op * rabs res) (x1 - op * rabs res) res tol = .ok (t, n)) :
    snapGrid x0 x1 res (some op) tol = .ok (t + op * rabs res, n) := by
  unfold snapGrid
  simp only
  rw [if_neg (not_not.mpr hop), h]
  rfl

/-- Specification of `snap_grid` with an anchor fraction `op`: the grid edges are
`(i + op)·|res|` and `(i + n + op)·|res|` for integers `i`, `n ≥ 1`, they cover `[x0, x1]`
up to `tol·|res|` and exceed it by less than a pixel (plus `tol`). -/
theorem snapGrid_some_spec {x0 x1 res op tol : Rat} (hr : res ≠ 0) (hx : x0 ≤ x1)
    (hop : 0 ≤ op ∧ op < 1) (ht : 0 ≤ tol) (ht2 : tol < 1 / 2) :
    ∃ (i n : Int) (tx : Rat), snapGrid x0 x1 res (some op) tol = .ok (tx, n) ∧ 1 ≤ n ∧
      gridLo res tx n = ((i : Rat) + op) * |res| ∧ gridHi res tx n = ((i : Rat) + n + op) * |res| ∧
      gridLo res tx n ≤ x0 + tol * |res| ∧ x0 - gridLo res tx n < |res| ∧
      x1 - tol * |res| ≤ gridHi res tx n ∧ gridHi res tx n - x1 ≤ |res| * (1 + tol) ∧
      ((0 < tol ∨ x0 < x1) → gridHi res tx n - x1 < |res| * (1 + tol)) ∧
      (|res| ≤ x1 - x0 → gridHi res tx n - x1 < |res|) := by
  have hx' : x0 - op * rabs res ≤ x1 - op * rabs res := by linarith
  have hstrict : (0 < tol ∨ x0 < x1) → (0 < tol ∨ x0 - op * rabs res < x1 - op * rabs res) := by
    rintro (h | h)
    · exact Or.inl h
    · exact Or.inr (by linarith)
  rcases lt_or_gt_of_ne hr with hneg | hpos
  · -- res < 0
    have hr' : 0 < -res := by linarith
    have habs : |res| = -res := abs_of_neg hneg
    have hrabs : rabs res = -res := by rw [rabs_eq_abs, habs]
    obtain ⟨i, n, heq, hn, h1, h2, h3, h4, h5, h6⟩ := snapEdgePos_spec hr' hx' ht ht2
    have hg := snapGrid_some_eq hop _ _ (snapEdge_neg hneg hx' i n heq)
    refine ⟨i, n, _, hg, hn, ?_, ?_, ?_, ?_, ?_, ?_, ?_, ?_⟩
    all_goals simp only [gridLo, gridHi, if_neg (not_lt.mpr hneg.le), habs, hrabs] at *
    · ring
    · ring
    · linarith
    · linarith
    · linarith
    · linarith
    · intro h; have := h5 (hstrict h); linarith
    · intro h; have := h6 (by linarith); linarith
  · have habs : |res| = res := abs_of_pos hpos
    have hrabs : rabs res = res := by rw [rabs_eq_abs, habs]
    obtain ⟨i, n, heq, hn, h1, h2, h3, h4, h5, h6⟩ := snapEdgePos_spec hpos hx' ht ht2
    rw [← snapEdge_pos hpos hx'] at heq
    have hg := snapGrid_some_eq hop _ _ heq
    refine ⟨i, n, _, hg, hn, ?_, ?_, ?_, ?_, ?_, ?_, ?_, ?_⟩
    all_goals simp only [gridLo, gridHi, if_pos hpos, habs, hrabs] at *
    · ring
    · ring
    · linarith
    · linarith
    · linarith
    · linarith
    · intro h; have := h5 (hstrict h); linarith
    · intro h; have := h6 (by linarith); linarith

/-- pixel-unit core of the non-snapping branch: `n = max(1, ceil(maybe_int(u)))`, `u ≥ 0`. -/
theorem nosnap_core {u tol : Rat} (hu : 0 ≤ u) (ht : 0 ≤ tol) (n : Int)
    (hn : n = max 1 (maybeInt u tol).ceil) :
    1 ≤ n ∧ u - tol ≤ (n : Rat) ∧ (n : Rat) - u ≤ 1 + tol ∧ ((0 < tol ∨ 0 < u) → (n : Rat) - u < 1 + tol) := by
  obtain ⟨c1, c2⟩ := ceil_maybeInt u tol ht
  generalize (maybeInt u tol).ceil = c at c1 c2 hn
  rcases le_or_gt 1 c with h | h
  · have : n = c := by rw [hn]; exact max_eq_right h
    subst this
    refine ⟨h, c1, by linarith, fun _ => by linarith⟩
  · have : n = 1 := by rw [hn]; exact max_eq_left (by omega)
    subst this
    have hc : (c : Rat) ≤ 0 := by exact_mod_cast (by omega : c ≤ 0)
    have e : ((1 : Int) : Rat) = 1 := by norm_num
    rw [e]
    refine ⟨le_refl 1, by linarith, by linarith, ?_⟩
    rintro (h0 | h0) <;> linarith

/-- Specification of `snap_grid` without snapping (`off_pix = None`). -/
theorem snapGrid_none_spec {x0 x1 res tol : Rat} (hr : res ≠ 0) (hx : x0 ≤ x1)
    (ht : 0 ≤ tol) :
    ∃ (n : Int) (tx : Rat), snapGrid x0 x1 res none tol = .ok (tx, n) ∧ 1 ≤ n ∧
      tx = (if 0 < res then x0 else x1) ∧
      gridLo res tx n ≤ x0 + tol * |res| ∧ x1 - tol * |res| ≤ gridHi res tx n ∧
      x0 - gridLo res tx n ≤ |res| * (1 + tol) ∧ gridHi res tx n - x1 ≤ |res| * (1 + tol) ∧
      ((0 < tol ∨ x0 < x1) →
        x0 - gridLo res tx n < |res| * (1 + tol) ∧ gridHi res tx n - x1 < |res| * (1 + tol)) := by
  rcases lt_or_gt_of_ne hr with hneg | hpos
  · have hr' : 0 < -res := by linarith
    have habs : |res| = -res := abs_of_neg hneg
    have hu : 0 ≤ (x1 - x0) / -res := div_nonneg (by linarith) hr'.le
    obtain ⟨h1, h2, h3, h4⟩ := nosnap_core hu ht _ rfl
    have e : x1 - x0 = (x1 - x0) / -res * -res := by field_simp
    have hg : snapGrid x0 x1 res none tol = .ok (x1, max 1 (maybeInt ((x1 - x0) / -res) tol).ceil) := by
      unfold snapGrid
      simp only
      rw [if_neg (not_lt.mpr hneg.le), if_neg hr, max_comm]
    refine ⟨_, _, hg, h1, by rw [if_neg (not_lt.mpr hneg.le)], ?_, ?_, ?_, ?_, ?_⟩
    all_goals simp only [gridLo, gridHi, if_neg (not_lt.mpr hneg.le), habs]
    · have := mul_le_mul_of_nonneg_right h2 hr'.le; nlinarith
    · nlinarith
    · have := mul_le_mul_of_nonneg_right h3 hr'.le; nlinarith
    · nlinarith
    · intro h
      have hh : 0 < tol ∨ 0 < (x1 - x0) / -res := by
        rcases h with h | h
        · exact Or.inl h
        · exact Or.inr (div_pos (by linarith) hr')
      have := mul_lt_mul_of_pos_right (h4 hh) hr'
      constructor <;> nlinarith
  · have habs : |res| = res := abs_of_pos hpos
    have hu : 0 ≤ (x1 - x0) / res := div_nonneg (by linarith) hpos.le
    obtain ⟨h1, h2, h3, h4⟩ := nosnap_core hu ht _ rfl
    have e : x1 - x0 = (x1 - x0) / res * res := by field_simp
    have hg : snapGrid x0 x1 res none tol = .ok (x0, max 1 (maybeInt ((x1 - x0) / res) tol).ceil) := by
      unfold snapGrid
      simp only
      rw [if_pos hpos]
    refine ⟨_, _, hg, h1, by rw [if_pos hpos], ?_, ?_, ?_, ?_, ?_⟩
    all_goals simp only [gridLo, gridHi, if_pos hpos, habs]
    · nlinarith
    · have := mul_le_mul_of_nonneg_right h2 hpos.le; nlinarith
    · nlinarith
    · have := mul_le_mul_of_nonneg_right h3 hpos.le; nlinarith
    · intro h
      have hh : 0 < tol ∨ 0 < (x1 - x0) / res := by
        rcases h with h | h
        · exact Or.inl h
        · exact Or.inr (div_pos (by linarith) hpos)
      have := mul_lt_mul_of_pos_right (h4 hh) hpos
      constructor <;> nlinarith

end OdcGeo.C20
