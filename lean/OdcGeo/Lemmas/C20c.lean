/- Helper lemmas for C20, part 3: snap_affine, Bin1D, Poly2d, least squares. -/
import OdcGeo.Lemmas.C20b

namespace OdcGeo.C20

/-! ### `maybe_int` is idempotent -/

theorem maybeInt_idem (x tol : Rat) : maybeInt (maybeInt x tol) tol = maybeInt x tol := by
  cases h : maybeInt? x tol with
  | none => rw [maybeInt_of_none h, maybeInt_of_none h]
  | some k =>
    have ht : 0 < tol := lt_of_le_of_lt (abs_nonneg _) (maybeInt?_some h).2.1
    rw [maybeInt_of_some h, maybeInt_intCast k ht]

/-! ### `snap_affine` inversion -/

theorem snapAffine_inv {A B : Aff} {ttol stol tol : Rat} (hr : ¬ (tol < |A.b| ∨ tol < |A.d|))
    (h : snapAffine A ttol stol tol = .ok B) :
    ∃ sx sy, snapScale A.a stol = .ok sx ∧ snapScale A.e stol = .ok sy ∧
      B = ⟨sx, 0, maybeInt A.c ttol, 0, sy, maybeInt A.f ttol⟩ := by
  unfold snapAffine at h
  rw [if_neg (by simpa [rabs_eq_abs] using hr)] at h
  cases h1 : snapScale A.a stol with
  | error e => rw [h1] at h; exact absurd h (by simp [bind, Except.bind])
  | ok sx =>
    cases h2 : snapScale A.e stol with
    | error e => rw [h1, h2] at h; exact absurd h (by simp [bind, Except.bind])
    | ok sy =>
      rw [h1, h2] at h
      simp only [bind, Except.bind, pure, Except.pure] at h
      exact ⟨sx, sy, rfl, rfl, (Except.ok.inj h).symm⟩

/-! ### sums of squares -/

theorem sqResidual_nonneg (M : Aff) (XY : List ((Rat × Rat) × (Rat × Rat))) : 0 ≤ sqResidual M XY := by
  unfold sqResidual
  induction XY with
  | nil => simp
  | cons q qs ih =>
    simp only [List.map_cons, List.sum_cons]
    have h1 := mul_self_nonneg ((M.apply q.1).1 - q.2.1)
    have h2 := mul_self_nonneg ((M.apply q.1).2 - q.2.2)
    linarith

theorem sqResidual_eq_zero_iff (M : Aff) (XY : List ((Rat × Rat) × (Rat × Rat))) :
    sqResidual M XY = 0 ↔ ∀ q ∈ XY, M.apply q.1 = q.2 := by
  induction XY with
  | nil => simp [sqResidual]
  | cons q qs ih =>
    have hq : sqResidual M (q :: qs) =
        ((M.apply q.1).1 - q.2.1) * ((M.apply q.1).1 - q.2.1) +
          ((M.apply q.1).2 - q.2.2) * ((M.apply q.1).2 - q.2.2) + sqResidual M qs := by
      simp [sqResidual]
    have h1 := mul_self_nonneg ((M.apply q.1).1 - q.2.1)
    have h2 := mul_self_nonneg ((M.apply q.1).2 - q.2.2)
    have h3 := sqResidual_nonneg M qs
    rw [hq]
    constructor
    · intro h
      have e1 : ((M.apply q.1).1 - q.2.1) * ((M.apply q.1).1 - q.2.1) = 0 := by linarith
      have e2 : ((M.apply q.1).2 - q.2.2) * ((M.apply q.1).2 - q.2.2) = 0 := by linarith
      have e3 : sqResidual M qs = 0 := by linarith
      intro r hr
      rcases List.mem_cons.mp hr with rfl | hr
      · have a1 := mul_self_eq_zero.mp e1
        have a2 := mul_self_eq_zero.mp e2
        exact Prod.ext (by linarith) (by linarith)
      · exact (ih.mp e3) r hr
    · intro h
      have a := h q (List.mem_cons_self ..)
      have b := ih.mpr (fun r hr => h r (List.mem_cons_of_mem _ hr))
      rw [a, b]; ring

/-- An affine map is determined by its values on three non-collinear points. -/
theorem aff_eq_of_three {M A : Aff} {p q r : Rat × Rat}
    (hp : M.apply p = A.apply p) (hq : M.apply q = A.apply q) (hr : M.apply r = A.apply r)
    (hnc : (q.1 - p.1) * (r.2 - p.2) - (q.2 - p.2) * (r.1 - p.1) ≠ 0) : M = A := by
  obtain ⟨a, b, c, d, e, f⟩ := M
  obtain ⟨a', b', c', d', e', f'⟩ := A
  simp only [Aff.apply, Prod.mk.injEq] at hp hq hr
  obtain ⟨hp1, hp2⟩ := hp
  obtain ⟨hq1, hq2⟩ := hq
  obtain ⟨hr1, hr2⟩ := hr
  have ha : (a - a') * ((q.1 - p.1) * (r.2 - p.2) - (q.2 - p.2) * (r.1 - p.1)) = 0 := by
    linear_combination (r.2 - p.2) * (hq1 - hp1) - (q.2 - p.2) * (hr1 - hp1)
  have hb : (b - b') * ((q.1 - p.1) * (r.2 - p.2) - (q.2 - p.2) * (r.1 - p.1)) = 0 := by
    linear_combination (q.1 - p.1) * (hr1 - hp1) - (r.1 - p.1) * (hq1 - hp1)
  have hd : (d - d') * ((q.1 - p.1) * (r.2 - p.2) - (q.2 - p.2) * (r.1 - p.1)) = 0 := by
    linear_combination (r.2 - p.2) * (hq2 - hp2) - (q.2 - p.2) * (hr2 - hp2)
  have he : (e - e') * ((q.1 - p.1) * (r.2 - p.2) - (q.2 - p.2) * (r.1 - p.1)) = 0 := by
    linear_combination (q.1 - p.1) * (hr2 - hp2) - (r.1 - p.1) * (hq2 - hp2)
  have ha' : a = a' := by
    rcases mul_eq_zero.mp ha with h | h
    · linarith
    · exact absurd h hnc
  have hb' : b = b' := by
    rcases mul_eq_zero.mp hb with h | h
    · linarith
    · exact absurd h hnc
  have hd' : d = d' := by
    rcases mul_eq_zero.mp hd with h | h
    · linarith
    · exact absurd h hnc
  have he' : e = e' := by
    rcases mul_eq_zero.mp he with h | h
    · linarith
    · exact absurd h hnc
  subst ha' hb' hd' he'
  have hc : c = c' := by linarith
  have hf : f = f' := by linarith
  subst hc hf
  rfl

/-! ### polynomial evaluation -/

theorem polyval_nil (x : Rat) : polyval [] x = 0 := rfl
theorem polyval_cons (c : Rat) (cs : List Rat) (x : Rat) : polyval (c :: cs) x = c + x * polyval cs x := rfl

/-- `polyval` is linear in the coefficients: scaling. -/
theorem polyval_map_mul (cs : List Rat) (s x : Rat) : polyval (cs.map (· * s)) x = polyval cs x * s := by
  induction cs with
  | nil => simp [polyval_nil]
  | cons c cs ih => simp only [List.map_cons, polyval_cons, ih]; ring

end OdcGeo.C20
