import OdcGeo.Drv.C03Top
def main : IO Unit := OdcGeo.driverMain OdcGeo.C03.Drv.runAll
