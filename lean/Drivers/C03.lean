import OdcGeo.Drv.C03
def main : IO Unit := OdcGeo.driverMain OdcGeo.C03.Drv.run
