import OdcGeo.Drv.C09
def main : IO Unit := OdcGeo.driverMain OdcGeo.C09.Drv.run
