import OdcGeo.Drv.C14
import OdcGeo.Drv.C14Args
def main : IO Unit := OdcGeo.driverMain OdcGeo.C14.Drv.runAll
