import OdcGeo.Drv.C14
def main : IO Unit := OdcGeo.driverMain OdcGeo.C14.Drv.run
