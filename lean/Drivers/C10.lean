import OdcGeo.Drv.C10
def main : IO Unit := OdcGeo.driverMain OdcGeo.C10.Drv.run
