import OdcGeo.Drv.C12
def main : IO Unit := OdcGeo.driverMain OdcGeo.C12.Drv.run
