import OdcGeo.Drv.C17
def main : IO Unit := OdcGeo.driverMain OdcGeo.C17.Drv.run
