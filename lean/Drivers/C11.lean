import OdcGeo.Drv.C11
def main : IO Unit := OdcGeo.driverMain OdcGeo.C11.Drv.run
