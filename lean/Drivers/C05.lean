import OdcGeo.Drv.C05
def main : IO Unit := OdcGeo.driverMain OdcGeo.C05.Drv.run
