import OdcGeo.Drv.C01
def main : IO Unit := OdcGeo.driverMain OdcGeo.C01.Drv.run
