import OdcGeo.Drv.C18
def main : IO Unit := OdcGeo.driverMain OdcGeo.C18.Drv.run
