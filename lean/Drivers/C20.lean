import OdcGeo.Drv.C20
def main : IO Unit := OdcGeo.driverMain OdcGeo.C20.Drv.run
