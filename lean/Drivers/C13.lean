import OdcGeo.Drv.C13
def main : IO Unit := OdcGeo.driverMain OdcGeo.C13.Drv.run
