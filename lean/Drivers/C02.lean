import OdcGeo.Drv.C02
def main : IO Unit := OdcGeo.driverMain OdcGeo.C02.Drv.run
