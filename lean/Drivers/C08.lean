import OdcGeo.Drv.C08
def main : IO Unit := OdcGeo.driverMain OdcGeo.C08.Drv.run
