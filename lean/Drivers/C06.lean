import OdcGeo.Drv.C06
def main : IO Unit := OdcGeo.driverMain OdcGeo.C06.Drv.run
