import OdcGeo.Drv.C16
def main : IO Unit := OdcGeo.driverMain OdcGeo.C16.Drv.run
