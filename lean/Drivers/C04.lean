import OdcGeo.Drv.C04
def main : IO Unit := OdcGeo.driverMain OdcGeo.C04.Drv.run
