import OdcGeo.Drv.C07
def main : IO Unit := OdcGeo.driverMain OdcGeo.C07.Drv.run
