import OdcGeo.Drv.C19Glue
def main : IO Unit := OdcGeo.driverMain OdcGeo.C19.Drv.runAll
