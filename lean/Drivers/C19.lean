import OdcGeo.Drv.C19
def main : IO Unit := OdcGeo.driverMain OdcGeo.C19.Drv.run
