import OdcGeo.Drv.C15
def main : IO Unit := OdcGeo.driverMain OdcGeo.C15.Drv.run
