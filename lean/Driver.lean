/-
Line-protocol driver: one operation per input line (`<prop> <fn> <args...>`), one
canonical output line per input line.  Imports models only (no Mathlib) so that it links
as a native executable.
-/
import OdcGeo.Model.IO
import OdcGeo.Drv.C17

open OdcGeo

def dispatch (line : String) : String :=
  match line.trimAscii.toString.splitOn " " with
  | "c17" :: rest => (C17.Drv.run rest).getD "bad-op"
  | _ => "bad-op"

partial def loop (hin : IO.FS.Stream) (hout : IO.FS.Stream) : IO Unit := do
  let line ← hin.getLine
  if line.isEmpty then return ()
  hout.putStrLn (dispatch line)
  loop hin hout

def main : IO Unit := do
  let hin ← IO.getStdin
  let hout ← IO.getStdout
  loop hin hout
  hout.flush
