"""C08 — GeoBox built from a region covers it and is snapped as requested."""
from __future__ import annotations

import math
from fractions import Fraction as F

from .common import Run, bool_s, frac_s, guarded, list_s, opt_s, run_driver
from .c20 import NONDY, TOL2, TOL6, grid_oracle, isx, near, ref_snap_grid, ref_snap_grid_float, ulp3

META = {
    "claimed": True,
    "text": "Lean 4 theorems (all coordinates, spans, resolutions of either sign per axis, anchors edge / centre / "
    "arbitrary fraction / per-axis / floating, tight, tolerances 0 <= tol < 1/2, all shapes) about a hand model of "
    "_norm_anchor, GeoBox.from_bbox (resolution branch, (ny,nx) shape branch, single-number shape branch) and "
    "from_geopolygon (align -> anchor, bounding box of the vertices) on top of the one-axis snapping model of C20: "
    "exact pixel size and orientation, cover up to tol*|res| per side, less than one pixel (+tol) of excess per "
    "side, pixel edges at exactly the anchor fraction, floating origin exact, n >= 1; shape branch: exact shape, "
    "pixel size span/shape, the box is the region translated by less than one pixel (not at all when "
    "floating/tight); from_geopolygon reduces to from_bbox of the vertex bounds and contains every vertex up to tol.  "
    "Growth round: the ARGUMENT GLUE in front of that core is modelled too (Model/C08Args.lean, Props/C08Args.lean): res_ "
    "(number -> (r,-r) also for negative r, Resolution as is, other types ValueError), shape_ (Shape2d, XY and sequences "
    "through int() truncation, wrong length / other types ValueError), the number-shape dispatch (any int/float/bool, "
    "overrides resolution= before it is validated), resolution= given means shape= is not even validated, _norm_anchor on "
    "unknown / unhashable values (KeyError / TypeError, before anything else), _norm_bbox (tuple / list / CRS-less "
    "BoundingBox / BoundingBox with CRS, wrong tuple length; crs None / falsy / 'utm*' / given) and which CRS the result "
    "reports (a BoundingBox with CRS wins over the crs argument, also over 'utm'), from_geopolygon's crs argument (None / "
    "Unset keep the polygon's CRS, lon/lat for a CRS-less polygon; given CRS projects the vertices; CRS-less polygon + crs "
    "is a ValueError after the align handling); every public spelling is proved to reduce to the numeric core, and an "
    "end-to-end theorem (from_bbox_public_res) goes from the public arguments to cover / minimal / pixel size / CRS with "
    "no hypothesis in between.  Compositions with C02 (Props/C08C02.lean): the result's public accessors -- .boundingbox "
    "covers the region up to tol and is minimal, .alignment IS the anchor fraction times the pixel size (and the "
    "deprecated align= of from_geopolygon is what .alignment reports), .resolution is the requested one.  "
    "Second increment: regions / resolutions / tolerances that are nan or +-inf through the resolution branch "
    "(Props/C08NonFinite.lean over Model/C20NonFinite.lean): a region with a non-finite coordinate is never turned into a "
    "GeoBox (AssertionError / ValueError / OverflowError as the code raises them), on finite arguments the extended model is "
    "C08's own branch; an infinite resolution with a floating anchor yields a 1x1 box (as found, replayed).  "
    "Third increment: the shape-driven branches on non-finite values (snapped: always rejected; floating / tight: NOTHING is "
    "checked and a GeoBox with nan / inf in its transform comes back -- pinned as found; single number: rejected), non-finite "
    "anchor fractions (AssertionError); round trips with C02: from_bbox(..., resolution=r).zoom_to(resolution=r) is the same "
    "geobox, .pad(k) grows the covered region by k pixels per side (theorems + oracles on the real objects).  "
    "Model and /repo are compared exactly on every run (quotient-constructed dyadic operands, exhaustive at the "
    "tolerance edges, spans from sub-pixel to 2^20 pixels; every argument spelling incl. rejected ones with the "
    "projection substituted at the public to_crs methods; accessors .alignment/.boundingbox of the real object against "
    "C02's model of them) and the predicates are re-evaluated with Fractions on arbitrary doubles (1e-6..1e8), on the "
    "accessors, and two-sided against the canonical object spelling of the same call.",
    "note": "Trusted: Lean kernel + {propext, Classical.choice, Quot.sound}; IEEE rounding in x0/res is not modelled "
    "(theorems over exact rationals, doubles sampled with 1e-9 relative slack); the projection itself (pyproj) and which "
    "CRS a 'utm*' string resolves to (norm_crs, C11) are parameters of the model; the strict 'less than one pixel + tol' bound "
    "excludes the degenerate zero-width region with tol = 0 (equality there, proved and replayed).  Direct comparisons of "
    "the private helper _norm_anchor are soft (a difference is a note; the public entry points decide).",
    "observations": "OBSERVATION (decided against the property text: its quantifier is regions with finite coordinates, so this is not a finding): "
    "from_bbox(region, shape=(ny, nx), tight=True / anchor='floating') performs no check at all on the region -- a nan / inf "
    "coordinate comes back as a GeoBox with nan / inf in its transform (theorem from_bbox_shape_x_floating_accepts_nonfinite, "
    "replayed by the bboxshapex stream); every other branch rejects non-finite regions (proved).  Fourth increment: from_geopolygon "
    "end to end through C07's to_crs model (Props/C08C07.lean: any geometry kind, holes and parts, CRS comparison, CRS-less "
    "geometry, covers every re-projected vertex).",
    "inventory_not_modelled": "geobox.py / math.py / types.py parts of the anchors without a Lean mirror in Model/C08*: the real "
    "projection (pyproj) behind crs='utm*' and from_geopolygon(crs=other) -- parameter of the model, exact correspondence with a "
    "substituted affine projection, real pyproj by the independent-projection oracle; the UTM zone choice (C11); densification "
    "options of to_crs; float() coercions of numpy scalars / 0-d arrays in bbox, anchor and tol (oracle only: "
    "result-depends-on-numeric-spelling); empty geometries (their boundingbox) in from_geopolygon; a str given as shape is iterated digit by digit (driven as the sequence it amounts to); CRS "
    "objects whose truth value is False; zoom_out / zoom_to(shape) live in Model/C02 (zoom_to(resolution=) is linked to "
    "C08.fromBbox by theorem zoom_to_resolution_is_from_bbox).",
    "technique": "Lean 4 proof over hand model + exhaustive/random differential correspondence with real code",
    "design_ref": "DESIGN.md §4 C08",
}

META["note"] += "  " + META["observations"]      # the manifest copies `note`

CRS = "epsg:3857"
TOLS = [F(1, 4), F(0.01), F(1e-3), F(1e-4), TOL6, F(0)]


def _import():
    from odc.geo import geobox as GB
    from odc.geo import geom, resxy_, xy_
    from odc.geo.geobox import GeoBox

    # private helper: used directly only when it exists under this name (otherwise the from_bbox streams cover it)
    _norm_anchor = getattr(GB, "_norm_anchor", None)
    return GB, GeoBox, _norm_anchor, geom, resxy_, xy_


# ------------------------------------------------------------------ argument encodings
class Anch:
    """one anchor argument in its three views: python value, driver token, normalised (sx, sy) or None"""

    def __init__(self, kind, val=None):
        self.kind, self.val = kind, val

    def py(self, GB, xy_):
        if self.kind == "e":
            return {"edge": GB.AnchorEnum.EDGE, "center": GB.AnchorEnum.CENTER, "floating": GB.AnchorEnum.FLOATING}[self.val]
        if self.kind == "x":
            return xy_(float(self.val[0]), float(self.val[1]))
        if self.kind == "n":
            v = self.val
            return int(v) if v.denominator == 1 and v in (0, 1) else float(v)
        return self.val

    def tok(self):
        if self.kind == "x":
            return f"x:{frac_s(self.val[0])};{frac_s(self.val[1])}"
        if self.kind == "n":
            return f"n:{frac_s(self.val)}"
        return f"{self.kind}:{self.val}"

    def snap(self, tight):
        if tight:
            return None
        if self.kind == "x":
            return tuple(self.val)
        if self.kind == "n":
            return (self.val, self.val)
        return {"edge": (F(0), F(0)), "default": (F(0), F(0)), "center": (F(1, 2), F(1, 2)),
                "centre": (F(1, 2), F(1, 2)), "floating": None}[self.val]


def rnd_anchor(rng, fb=8):
    r = rng.random()
    if r < 0.3:
        return Anch("s", rng.choice(["default", "edge", "center", "centre", "floating"]))
    if r < 0.45:
        return Anch("e", rng.choice(["edge", "center", "floating"]))
    if r < 0.7:
        return Anch("n", rng.choice([F(0), F(1, 2), F(1, 4), F(rng.randint(0, 2**fb - 1), 2**fb)]))
    return Anch("x", (F(rng.randint(0, 2**fb - 1), 2**fb), rng.choice([F(0), F(1, 2), F(rng.randint(0, 2**fb - 1), 2**fb)])))


def gb_s(gb) -> str:
    return f"{gb.shape[0]} {gb.shape[1]} " + ";".join(frac_s(float(v)) for v in tuple(gb.affine)[:6])


def shape_tok(shape):
    if shape is None:
        return "N"
    if isinstance(shape, int):
        return f"i:{shape}"
    return f"yx:{shape[0]};{shape[1]}"


def res_tok(res):
    if res is None:
        return "N"
    if isinstance(res, tuple):
        return f"xy:{frac_s(res[0])};{frac_s(res[1])}"
    return f"s:{frac_s(res)}"


def axis_exact(x0: F, x1: F, res: F, off) -> bool:
    """every float operation snap_grid performs on this axis is exact"""
    r = abs(res)
    if r == 0:
        return all(isx(v) for v in (x0, x1))
    o = F(0) if off is None else off * r
    vals = [x0, x1, res, o, x0 - o, x1 - o, (x0 - o) / r, (x1 - o) / r, (x1 - x0) / r, x1 - x0]
    return all(isx(v) for v in vals)



def ref_from_bbox(bb, tight, shape, res, snap, tol: F):
    """exact-arithmetic re-computation of GeoBox.from_bbox (independent of the Lean model):
    (ny, nx, [a, b, c, d, e, f]) or 'ERR' where the code raises"""
    l, b, r, t = bb
    if isinstance(shape, int):
        if t - b == 0 or shape == 0:
            return "ERR"
        rr = (r - l) / shape if (r - l) / (t - b) > 1 else (t - b) / shape
        res, shape = rr, None
    if res is not None:
        rx, ry = res if isinstance(res, tuple) else (res, -res)
        gx = ref_snap_grid(l, r, rx, None if snap is None else snap[0], tol)
        if gx == "ERR":
            return "ERR"
        gy = ref_snap_grid(b, t, ry, None if snap is None else snap[1], tol)
        if gy == "ERR":
            return "ERR"
        return gy[1], gx[1], [rx, F(0), gx[0], F(0), ry, gy[0]]
    if shape is None:
        return "ERR"
    ny, nx = shape
    if nx == 0 or ny == 0:
        return "ERR"
    rx, ry = (r - l) / nx, -(t - b) / ny
    if snap is None:
        return ny, nx, [rx, F(0), l, F(0), ry, t]
    gx = ref_snap_grid(l, r, rx, snap[0], tol)
    if gx == "ERR":
        return "ERR"
    gy = ref_snap_grid(b, t, ry, snap[1], tol)
    if gy == "ERR":
        return "ERR"
    return ny, nx, [rx, F(0), gx[0], F(0), ry, gy[0]]

# ------------------------------------------------------------------ the property predicates
def bbox_oracle(R: Run, gb, bb, rxy, snap, tol: F, slack_rel: F, case, prefix: str):
    """resolution-driven construction: the five predicates per axis + exact pixel size"""
    A = gb.affine
    rx, ry = rxy
    R.oracle(F(A.a) == rx and F(A.e) == ry and A.b == 0 and A.d == 0, f"{prefix}-pixel-size", case,
             f"affine {tuple(A)[:6]} does not have the requested pixel size ({float(rx)},{float(ry)})", sig="pixel-size")
    if rx == 0 or ry == 0:
        return
    l, b, r, t = bb
    ny, nx = gb.shape
    sc = max(abs(l), abs(r), abs(rx)) * slack_rel
    grid_oracle(R, l, r, rx, None if snap is None else snap[0], tol, F(A.c), int(nx), sc, key_prefix=f"{prefix}-x", extra=case)
    sc = max(abs(b), abs(t), abs(ry)) * slack_rel
    grid_oracle(R, b, t, ry, None if snap is None else snap[1], tol, F(A.f), int(ny), sc, key_prefix=f"{prefix}-y", extra=case)
    accessor_oracle(R, gb, bb, rxy, snap, tol, slack_rel, case, prefix)


def accessor_oracle(R: Run, gb, bb, rxy, snap, tol: F, slack_rel: F, case, prefix: str):
    """the same guarantees read off the public accessors of the returned object (Props/C08C02.lean): `.resolution` is the
    requested one, `.boundingbox` covers the region up to tol and exceeds it by at most a pixel (+tol), `.alignment` is
    the anchor fraction times the pixel size (circular distance on the float stream)"""
    rx, ry = rxy
    l, b, r, t = bb
    try:
        rs, B = gb.resolution, gb.boundingbox
        al = gb.alignment if snap is not None else None
    except Exception as ex:  # pylint: disable=broad-except
        R.oracle(False, f"{prefix}-accessor-raises", case, repr(ex), sig="accessor")
        return
    R.oracle(F(rs.x) == rx and F(rs.y) == ry, f"{prefix}-resolution-accessor", case,
             f".resolution = ({rs.x!r},{rs.y!r}), requested ({float(rx)!r},{float(ry)!r})", sig="accessor-resolution")
    ax, ay = abs(rx), abs(ry)
    ex_, ey_ = max(abs(l), abs(r), ax) * slack_rel, max(abs(b), abs(t), ay) * slack_rel
    Bl, Bb, Br, Bt = F(B.left), F(B.bottom), F(B.right), F(B.top)
    # the accessor computes the far edge as fl(tx + n*res): a few ulps of the coordinates even when from_bbox itself is exact
    ex_ += max(abs(Bl), abs(Br)) * ULP
    ey_ += max(abs(Bb), abs(Bt)) * ULP
    ok = (Bl <= l + tol * ax + ex_ and r - tol * ax - ex_ <= Br and Bb <= b + tol * ay + ey_ and t - tol * ay - ey_ <= Bt
          and l - Bl <= ax * (1 + tol) + ex_ and Br - r <= ax * (1 + tol) + ex_
          and b - Bb <= ay * (1 + tol) + ey_ and Bt - t <= ay * (1 + tol) + ey_)
    R.oracle(ok, f"{prefix}-boundingbox-accessor", case,
             f".boundingbox = {tuple(B.bbox)} for region {tuple(map(float, bb))}, pixel ({float(rx)!r},{float(ry)!r}), tol {float(tol)!r}",
             sig="accessor-boundingbox")
    if rx != 0 and ry != 0 and R.rng.random() < 0.1:
        # round trips (Props/C08C02.lean): re-gridding at the own resolution gives the same geobox back; padding by k pixels
        # moves every edge of the bounding box outwards by k pixels
        try:
            z = gb.zoom_to(resolution=rs)
            R.oracle(tuple(z.shape) == tuple(gb.shape) and tuple(z.affine)[:6] == tuple(gb.affine)[:6], f"{prefix}-zoom-to-own-resolution-changes-geobox", case,
                     f"zoom_to(resolution={rs}) of {gb_s(gb)} gives {gb_s(z)}", sig="roundtrip-zoom")
            k = R.rng.randint(0, 5)
            Bp = gb.pad(k).boundingbox
            okp = (F(Bp.left) <= Bl - k * ax + ex_ * (k + 2) and F(Bp.right) >= Br + k * ax - ex_ * (k + 2)
                   and F(Bp.bottom) <= Bb - k * ay + ey_ * (k + 2) and F(Bp.top) >= Bt + k * ay - ey_ * (k + 2)
                   and tuple(gb.pad(k).shape) == (gb.shape[0] + 2 * k, gb.shape[1] + 2 * k))
            R.oracle(okp, f"{prefix}-pad-does-not-grow-by-k-pixels", case,
                     f"pad({k}).boundingbox = {tuple(Bp.bbox)} vs boundingbox {tuple(B.bbox)}, pixel ({float(rx)},{float(ry)})", sig="roundtrip-pad")
        except Exception as ex:  # pylint: disable=broad-except
            R.oracle(False, f"{prefix}-accessor-raises", case, repr(ex), sig="roundtrip")
    if al is not None:
        def circ(a, want, m, e):
            d = (F(a) - want) % m
            return min(d, m - d) <= e and (slack_rel > 0 or F(a) == want)
        ok = circ(al.x, snap[0] * ax, ax, ex_) and circ(al.y, snap[1] * ay, ay, ey_)
        R.oracle(ok, f"{prefix}-alignment-accessor", case,
                 f".alignment = ({al.x!r},{al.y!r}) but anchor*pixel = ({float(snap[0] * ax)!r},{float(snap[1] * ay)!r})",
                 sig="accessor-alignment")


ULP = F(1, 2**50)      # a few ulps, relative: the only error a correctly rounded span/shape may carry


def shape_oracle(R: Run, gb, bb, shape, snap, slack_rel: F, case, prefix: str):
    """shape-driven construction: exact shape, pixel size == span/shape (exactly on the exact stream, to a few
    ulps on doubles), origin and FAR edge: not displaced at all when floating/tight, by less than a pixel when
    snapped; the far edge moves exactly as the origin does (the size of the box is the size of the region)"""
    l, b, r, t = bb
    ny, nx = shape
    A = gb.affine
    fl = slack_rel > 0
    R.oracle(tuple(gb.shape) == (ny, nx), f"{prefix}-wrong-shape", case, f"shape {tuple(gb.shape)} requested {(ny, nx)}", sig="shape-exact")
    rx, ry = (r - l) / nx, -(t - b) / ny
    ps = ULP if fl else F(0)
    ok = (abs(F(A.a) - rx) <= abs(rx) * ps and abs(F(A.e) - ry) <= abs(ry) * ps and A.b == 0 and A.d == 0)
    R.oracle(ok, f"{prefix}-pixel-size-not-span-over-shape", case,
             f"pixel size ({A.a!r},{A.e!r}) but span/shape = ({float(rx)!r},{float(ry)!r}): relative difference "
             f"({float(abs(F(A.a) - rx) / abs(rx)) if rx else 0:.3g},{float(abs(F(A.e) - ry) / abs(ry)) if ry else 0:.3g})",
             sig="shape-pixel-size")
    # far corner of the box in exact arithmetic from the returned affine
    far_x, far_y = F(A.c) + nx * F(A.a), F(A.f) + ny * F(A.e)
    ex = (max(abs(l), abs(r)) + (r - l)) * ULP * 4 if fl else F(0)      # rounding of nx * fl(span/nx) and of the corner itself
    ey = (max(abs(b), abs(t)) + (t - b)) * ULP * 4 if fl else F(0)
    if snap is None:
        R.oracle(F(A.c) == l and F(A.f) == t, f"{prefix}-floating-displaced", case,
                 f"origin ({A.c},{A.f}) differs from the region corner ({float(l)},{float(t)})", sig="shape-floating")
        R.oracle(abs(far_x - r) <= ex and abs(far_y - b) <= ey, f"{prefix}-floating-far-edge-displaced", case,
                 f"far corner ({float(far_x)!r},{float(far_y)!r}) is ({float((far_x - r) / abs(rx)) if rx else 0:+.4g},"
                 f"{float((far_y - b) / abs(ry)) if ry else 0:+.4g}) px away from the region's ({float(r)!r},{float(b)!r})", sig="shape-far-floating")
    else:
        sx = max(abs(l), abs(r)) * slack_rel
        sy = max(abs(b), abs(t)) * slack_rel
        ok = abs(F(A.c) - l) < abs(rx) + sx and abs(F(A.f) - t) < abs(ry) + sy
        R.oracle(ok, f"{prefix}-displaced-a-pixel-or-more", case,
                 f"origin ({A.c},{A.f}) vs region corner ({float(l)},{float(t)}), pixel ({float(rx)},{float(ry)})", sig="shape-displacement")
        ok = (abs((far_x - r) - (F(A.c) - l)) <= ex and abs((far_y - b) - (F(A.f) - t)) <= ey
              and abs(far_x - r) < abs(rx) + sx and abs(far_y - b) < abs(ry) + sy)
        R.oracle(ok, f"{prefix}-far-edge-displaced", case,
                 f"far corner moved by ({float((far_x - r) / abs(rx)):+.4g},{float((far_y - b) / abs(ry)):+.4g}) px but the origin by "
                 f"({float((F(A.c) - l) / abs(rx)):+.4g},{float((F(A.f) - t) / abs(ry)):+.4g}) px", sig="shape-far-snapped")
        for (o, res, op, sl, nm) in ((F(A.c), rx, snap[0], sx, "x"), (F(A.f), ry, snap[1], sy, "y")):
            q = (o - op * abs(res)) / abs(res)
            R.oracle(abs(q - round(q)) * abs(res) <= sl, f"{prefix}-{nm}-not-aligned", case,
                     f"(origin - off*|res|)/|res| = {float(q)!r} is not an integer", sig="shape-aligned")


# ------------------------------------------------------------------ numeric spelling, cross-CRS polygons, utm shortcuts
SPELLINGS = ["f32", "f64", "0d32", "0d64", "i"]


def spell(kind: str, v: float):
    """the same VALUE spelled as another numeric type (v must be exactly representable in it)"""
    import numpy as np
    if kind == "f32":
        return np.float32(v)
    if kind == "f64":
        return np.float64(v)
    if kind == "0d32":
        return np.asarray(v, dtype="float32")
    if kind == "0d64":
        return np.asarray(v, dtype="float64")
    if kind == "i":
        return int(v) if float(v).is_integer() else v
    return v


def f32v(v: float) -> float:
    """nearest value representable in float32, as a python float (exactly representable as a double too)"""
    import numpy as np
    return float(np.float32(v))


def sec_spelling(R: Run):
    """every numeric argument of from_bbox / from_geopolygon / zoom_to spelled as python float, numpy float32 / float64
    / 0-d arrays / ints: the result must be EXACTLY the result for the same values spelled as python floats (a float32
    value is a double, so the expected answer is well defined).  A spelling may be rejected with an exception, it must
    not silently change the grid."""
    import numpy as np
    GB, GeoBox, _norm_anchor, geom, resxy_, xy_ = _import()
    from odc.geo.geom import BoundingBox
    from odc.geo.types import Resolution
    rng = R.rng

    def show(g):
        return gb_s(g)

    for _ in range(R.pick(250, 2500)):
        mag = rng.choice([0.0, 100.0, 5e5, 6e6, 1e7])
        px = f32v(rng.choice([0.1, 0.25, 0.3, 1.0, 10.0, 30.0, 0.01, 2.5]))
        sgx, sgy = rng.choice([1, -1]), rng.choice([1, -1])
        rx, ry = sgx * px, sgy * f32v(rng.choice([px, 0.1, 0.3, 20.0]))
        l = f32v(mag + rng.uniform(-50, 50))
        b = f32v(mag * 1.2 + rng.uniform(-50, 50))
        r = f32v(l + px * rng.randint(1, 400) + rng.uniform(0, 1) * px)
        t = f32v(b + abs(ry) * rng.randint(1, 400) + rng.uniform(0, 1) * abs(ry))
        if not (l < r and b < t):
            continue
        ax, ay = f32v(rng.choice([0.0, 0.5, 0.25, 0.1, 0.3])), f32v(rng.choice([0.0, 0.5, 0.7]))
        tol = f32v(rng.choice([0.01, 1e-3, 0.25, 0.0]))
        mode = rng.choice(["res", "res", "res-scalar", "shape", "int-shape", "poly", "zoom-res", "zoom-shape"])
        tight = rng.random() < 0.15
        anchor_kind = rng.choice(["xy", "num", "name"])
        ny, nx = rng.randint(1, 300), rng.randint(1, 300)

        def build(sp):
            """sp: dict group -> spelling kind ('py' = python float)"""
            c = lambda grp, v: spell(sp.get(grp, "py"), v) if sp.get(grp, "py") != "py" else v
            if anchor_kind == "xy":
                anchor = xy_(c("anchor", ax), c("anchor", ay))
            elif anchor_kind == "num":
                anchor = c("anchor", ax)
            else:
                anchor = "center"
            box = tuple(c("bbox", v) for v in (l, b, r, t))
            kw = dict(anchor=anchor, tol=c("tol", tol), tight=tight)
            bbox_arg = BoundingBox(*box, crs=CRS) if sp.get("bbox-as") == "BoundingBox" else box
            crs_arg = None if sp.get("bbox-as") == "BoundingBox" else CRS
            if mode == "res":
                ctor = rng_ctor[0]
                res = ctor(c("res", rx), c("res", ry))
                return GeoBox.from_bbox(bbox_arg, crs_arg, resolution=res, **kw)
            if mode == "res-scalar":
                return GeoBox.from_bbox(bbox_arg, crs_arg, resolution=c("res", abs(rx)), **kw)
            if mode == "shape":
                shp = (c("shape", ny), c("shape", nx)) if sp.get("shape", "py") != "py" else (ny, nx)
                return GeoBox.from_bbox(bbox_arg, crs_arg, shape=shp, **kw)
            if mode == "int-shape":
                return GeoBox.from_bbox(bbox_arg, crs_arg, shape=(c("shape", nx) if sp.get("shape", "py") != "py" else nx), **kw)
            if mode == "poly":
                poly = geom.polygon([(l, b), (r, b), (r, t), (l, b)], CRS)
                return GeoBox.from_geopolygon(poly, resxy_(c("res", rx), c("res", ry)), **kw)
            src = GeoBox.from_bbox((l, b, r, t), CRS, resolution=resxy_(rx, ry), tight=True)
            if mode == "zoom-res":
                return src.zoom_to(resolution=resxy_(c("res", rx * 2), c("res", ry * 2)))
            return src.zoom_to((c("shape", ny), c("shape", nx)) if sp.get("shape", "py") != "py" else (ny, nx))

        rng_ctor = [rng.choice([resxy_, lambda x, y: Resolution(x, y)])]
        try:
            base = show(build({}))
        except Exception as ex:  # pylint: disable=broad-except
            R.oracle(False, "from-bbox-raises", {"mode": mode, "args": repr((l, b, r, t, rx, ry, ax, ay, tol, ny, nx))}, repr(ex), sig="raises")
            continue
        groups = ["bbox", "res", "anchor", "tol", "shape"]
        trials = []
        for grp in groups:
            for kind in SPELLINGS:
                if kind == "i" and grp != "shape":
                    continue
                if grp == "shape" and kind in ("f32", "0d32", "0d64", "f64"):
                    kind2 = {"f32": "i32", "f64": "i64", "0d32": "0di", "0d64": "f64"}[kind]
                else:
                    kind2 = kind
                trials.append({grp: kind2})
                if grp == "bbox":
                    trials.append({grp: kind2, "bbox-as": "BoundingBox"})
        trials.append({g_: "f32" for g_ in ("bbox", "res", "anchor", "tol")})
        for sp in rng.sample(trials, R.pick(6, 12)):
            # shape spellings are integers
            sp2 = dict(sp)
            if "shape" in sp2:
                k_ = sp2["shape"]
                sp2["shape"] = k_
            case = {"fn": "GeoBox.from_bbox/from_geopolygon/zoom_to", "mode": mode, "spelling": sp, "tight": tight, "anchor_kind": anchor_kind,
                    "values": repr({"bbox": (l, b, r, t), "res": (rx, ry), "anchor": (ax, ay), "tol": tol, "shape": (ny, nx)})}
            try:
                got = show(build(sp2))
            except Exception:  # pylint: disable=broad-except
                R.count("spelling:rejected|" + ",".join(f"{a}={b_}" for a, b_ in sp.items()))
                continue
            R.oracle(got == base, "result-depends-on-numeric-spelling", case,
                     f"{mode}: with {sp} the result is {got} but the same values as python floats give {base}",
                     sig="spelling|" + mode + "|" + ",".join(sorted(sp)))


_spell_np = spell


def spell(kind: str, v):  # noqa: F811  (adds the integer spellings used for shapes)
    import numpy as np
    if kind == "i32":
        return np.int32(v)
    if kind == "i64":
        return np.int64(v)
    if kind == "0di":
        return np.asarray(v, dtype="int64")
    return _spell_np(kind, v)


def _transformer(src: str, dst: str):
    import pyproj
    key = (src, dst)
    if key not in _TR:
        _TR[key] = pyproj.Transformer.from_crs(pyproj.CRS.from_user_input(src), pyproj.CRS.from_user_input(dst), always_xy=True)
    return _TR[key]


_TR: dict = {}


def sec_cross_crs(R: Run):
    """from_geopolygon(poly, ..., crs=other): non-rectangular polygons (triangles, diagonal strips, L-shapes) and
    non-separable projection pairs.  The vertices are projected independently (fresh pyproj transformer, float64);
    the result must equal from_bbox of their envelope for the same options (two-sided), cover every projected vertex
    up to tol and be less than a pixel (+tol) larger than the envelope per side."""
    GB, GeoBox, _norm_anchor, geom, resxy_, xy_ = _import()
    from odc.geo.geom import BoundingBox
    rng = R.rng
    pairs = [("epsg:4326", "epsg:32755", (147.0, -36.0), 1.0), ("epsg:4326", "epsg:3577", (133.0, -25.0), 10.0),
             ("epsg:4326", "epsg:3857", (10.0, 55.0), 5.0), ("epsg:32755", "epsg:3577", (5e5, 6e6), 1e5),
             ("epsg:3577", "epsg:4326", (0.0, -3e6), 5e5), ("epsg:4326", "epsg:32633", (15.0, 70.0), 2.0)]
    for _ in range(R.pick(250, 2500)):
        src, dst, (cx, cy), ext = rng.choice(pairs)
        e = ext * 10 ** rng.uniform(-2, 0)
        kind = rng.choice(["triangle", "strip", "L", "quad"])
        x0, y0 = cx + rng.uniform(-ext, ext), cy + rng.uniform(-ext, ext)
        if kind == "triangle":
            pts = [(x0, y0), (x0 + e, y0 + rng.uniform(0, 0.3) * e), (x0 + rng.uniform(0, 0.3) * e, y0 + e)]
        elif kind == "strip":
            w = e * 0.02
            pts = [(x0, y0), (x0 + w, y0), (x0 + e + w, y0 + e), (x0 + e, y0 + e)]
        elif kind == "L":
            pts = [(x0, y0), (x0 + e, y0), (x0 + e, y0 + 0.2 * e), (x0 + 0.2 * e, y0 + 0.2 * e), (x0 + 0.2 * e, y0 + e), (x0, y0 + e)]
        else:
            pts = [(x0, y0), (x0 + e, y0 + 0.1 * e), (x0 + 0.9 * e, y0 + e), (x0 - 0.1 * e, y0 + 0.8 * e)]
        tr = _transformer(src, dst)
        px_, py_ = tr.transform([p[0] for p in pts], [p[1] for p in pts])
        if not all(map(lambda v: abs(v) < 1e12, list(px_) + list(py_))):
            continue
        env = (min(px_), min(py_), max(px_), max(py_))
        span = max(env[2] - env[0], env[3] - env[1])
        npx = rng.choice([3, 30, 300, 3000])
        resv = span / npx
        if dst != "epsg:4326":
            resv = max(float(round(resv)), rng.choice([0.25, 1.0, 10.0]))
        rxy = (resv, -resv) if rng.random() < 0.8 else (-resv, resv * 0.5)
        anch = rng.choice([Anch("s", "default"), Anch("s", "center"), Anch("e", "floating"), Anch("n", F(0.25))])
        tight = rng.random() < 0.15
        tolf = rng.choice([0.01, 1e-3, 0.0, 0.25])
        sn = anch.snap(tight)
        kw = dict(anchor=anch.py(GB, xy_), tol=tolf, tight=tight)
        case = {"fn": "GeoBox.from_geopolygon(crs=)", "src": src, "dst": dst, "pts": [list(p) for p in pts], "res": list(rxy),
                "anchor": anch.tok(), "tol": tolf, "tight": tight}
        try:
            poly = geom.polygon(pts + [pts[0]], src)
            g = GeoBox.from_geopolygon(poly, resxy_(*rxy), crs=dst, **kw)
        except Exception as ex:  # pylint: disable=broad-except
            R.oracle(False, "from-geopolygon-cross-crs-raises", case, repr(ex), sig="raises")
            continue
        want = guarded(lambda: gb_s(GeoBox.from_bbox(BoundingBox(*env, crs=dst), resolution=resxy_(*rxy), **kw)))
        R.oracle(gb_s(g) == want and str(g.crs) == str(GeoBox.from_bbox(BoundingBox(*env, crs=dst), resolution=resxy_(*rxy), **kw).crs),
                 "from-geopolygon-cross-crs-differs-from-projected-vertices", case,
                 f"from_geopolygon(crs={dst}) = {gb_s(g)} but from_bbox of the envelope {env} of the independently projected vertices = {want}",
                 sig=f"cross-crs-2sided|{kind}")
        bbox_oracle(R, g, tuple(F(v) for v in env), (F(rxy[0]), F(rxy[1])), sn, F(tolf), F(1, 10**9), case, "from-geopolygon-cross-crs")


def sec_utm_shortcut(R: Run):
    """the crs='utm' / 'utm-n' / 'utm-s' shortcuts of from_bbox with a lon/lat tuple / list / CRS-less BoundingBox, fine
    pixels (1 m .. 1 cm): the four lon/lat corners are projected independently in float64 (fresh pyproj transformer into
    the CRS the result reports); two-sided against from_bbox of their envelope, plus the covering predicates"""
    GB, GeoBox, _norm_anchor, geom, resxy_, xy_ = _import()
    from odc.geo.geom import BoundingBox
    rng = R.rng
    for _ in range(R.pick(90, 900)):          # CRS.utm() lookups are slow (~70 ms)
        lon, lat = rng.uniform(-179, 179), rng.uniform(-79, 83)
        if rng.random() < 0.3:
            lon, lat = rng.choice([(147.3, -36.7), (10.7, 59.9), (-122.4, 37.8), (31.2, -1.3)])
            lon, lat = lon + rng.uniform(-0.5, 0.5), lat + rng.uniform(-0.5, 0.5)
        resv = rng.choice([1.0, 0.25, 0.1, 0.01, 10.0, 30.0])
        size_m = resv * rng.choice([10, 100, 1000, 5000])
        dlat = size_m / 111000.0
        dlon = dlat / max(0.2, abs(math.cos(math.radians(lat))))
        box = (lon, lat, lon + dlon * rng.uniform(0.5, 1.5), lat + dlat * rng.uniform(0.5, 1.5))
        crs_s = rng.choice(["utm", "utm", "UTM", "utm-n", "utm-s"])
        how = rng.choice(["tuple", "list", "BoundingBox-nocrs"])
        anch = rng.choice([Anch("s", "default"), Anch("s", "center"), Anch("e", "floating")])
        tight = rng.random() < 0.15
        tolf = rng.choice([0.01, 1e-3, 0.0])
        kw = dict(resolution=resv, anchor=anch.py(GB, xy_), tol=tolf, tight=tight)
        case = {"fn": "GeoBox.from_bbox(crs='utm*')", "bbox": list(box), "crs": crs_s, "bbox_as": how, "res": resv,
                "anchor": anch.tok(), "tol": tolf, "tight": tight}
        arg = box if how == "tuple" else list(box) if how == "list" else BoundingBox(*box, crs=None)
        try:
            g = GeoBox.from_bbox(arg, crs_s, **kw)
        except Exception as ex:  # pylint: disable=broad-except
            R.oracle(False, "from-bbox-utm-shortcut-raises", case, repr(ex), sig="raises")
            continue
        epsg = g.crs.epsg
        north = epsg is not None and 32601 <= epsg <= 32660
        south = epsg is not None and 32701 <= epsg <= 32760
        ok_zone = (north or south) and not (crs_s == "utm-n" and south) and not (crs_s == "utm-s" and north)
        R.oracle(ok_zone, "from-bbox-utm-shortcut-wrong-crs", case, f"result CRS {g.crs} (epsg {epsg}) for crs={crs_s!r}", sig="utm-crs")
        if not (north or south):
            continue
        tr = _transformer("epsg:4326", f"epsg:{epsg}")
        cx_, cy_ = tr.transform([box[0], box[0], box[2], box[2]], [box[1], box[3], box[1], box[3]])
        env = (min(cx_), min(cy_), max(cx_), max(cy_))
        want = guarded(lambda: gb_s(GeoBox.from_bbox(BoundingBox(*env, crs=f"epsg:{epsg}"), **kw)))
        R.oracle(gb_s(g) == want, "from-bbox-utm-shortcut-differs-from-projected-corners", case,
                 f"from_bbox(lonlat, crs={crs_s!r}) = {gb_s(g)} but from_bbox of the envelope {env} of the four corners projected "
                 f"independently in float64 to epsg:{epsg} = {want}", sig=f"utm-2sided|{how}")
        bbox_oracle(R, g, tuple(F(v) for v in env), (F(resv), F(-resv)), anch.snap(tight), F(tolf), F(1, 10**9), case, "from-bbox-utm-shortcut")


class UtmHook:
    """substitute the projection behind crs='utm…' by the affine map `Af` reporting CRS `crs_name`, at the two public
    methods the branch can go through (BoundingBox.to_crs, and Geometry.to_crs for a 'utm…' target); counts the calls so
    that a code path that reaches pyproj some other way is noticed (the stream is then skipped with a note, not judged)"""

    def __init__(self, Af, crs_name):
        from odc.geo.geom import BoundingBox, Geometry
        self.BB, self.G, self.Af, self.crs_name, self.calls = BoundingBox, Geometry, Af, crs_name, 0
        self.orig_bb, self.orig_g = BoundingBox.to_crs, Geometry.to_crs

    def _map(self, x, y):
        Af = self.Af
        return (Af[0] * x + Af[1] * y + Af[2], Af[3] * x + Af[4] * y + Af[5])

    def __enter__(self):
        hook = self

        def bb_to_crs(self_, crs, **kw):
            hook.calls += 1
            pts_ = [hook._map(x, y) for x, y in self_.polygon.exterior.points[:4]]
            xs, ys = [p[0] for p in pts_], [p[1] for p in pts_]
            return hook.BB(min(xs), min(ys), max(xs), max(ys), crs=hook.crs_name)

        def g_to_crs(self_, crs, *a, **kw):
            if isinstance(crs, str) and crs.lower().startswith("utm"):
                from odc.geo import geom as _geom
                hook.calls += 1
                return _geom.polygon([hook._map(x, y) for x, y in self_.exterior.points], hook.crs_name)
            return hook.orig_g(self_, crs, *a, **kw)

        self.BB.to_crs, self.G.to_crs = bb_to_crs, g_to_crs
        return self

    def __exit__(self, *exc):
        self.BB.to_crs, self.G.to_crs = self.orig_bb, self.orig_g
        return False


def hook_bypassed_note(R: Run, what: str):
    msg = f"{what}: the projection hook was not reached (crs='utm…' no longer goes through BoundingBox.to_crs / Geometry.to_crs); stream skipped"
    if msg not in R.notes:
        R.notes.append(msg)
    R.count("hook-bypassed:" + what)


def sec_utm_branch_exact(R: Run):
    """the crs='utm' branch of from_bbox (_norm_bbox) with the projection substituted from the harness by a rotated dyadic
    affine map (BoundingBox.to_crs is replaced for the duration of the call), so that the branch -- project the four
    corners, take their envelope, then from_bbox as usual -- is compared exactly with the model's `fromBboxUtm`"""
    GB, GeoBox, _norm_anchor, geom, resxy_, xy_ = _import()
    from odc.geo.geom import BoundingBox
    rng = R.rng
    orig = BoundingBox.to_crs
    for _ in range(R.pick(400, 4000)):
        Av = [F(rng.randint(-16, 16), 8) * 1024, F(rng.randint(-16, 16), 8) * 1024, F(rng.randint(-64, 64)) * 16,
              F(rng.randint(-16, 16), 8) * 1024, F(rng.randint(-16, 16), 8) * 1024, F(rng.randint(-64, 64)) * 16]
        if Av[0] * Av[4] - Av[1] * Av[3] == 0:
            continue
        l, b = F(rng.randint(-64, 64), 8), F(rng.randint(-64, 64), 8)
        r, t = l + F(rng.randint(1, 32), 8), b + F(rng.randint(1, 32), 8)
        rx = F(rng.choice([-1, 1])) * F(2) ** rng.randint(0, 6)
        ry = F(rng.choice([-1, 1])) * F(2) ** rng.randint(0, 6)
        anch = rng.choice([Anch("s", "default"), Anch("s", "center"), Anch("e", "floating"), Anch("n", F(1, 4))])
        tight = rng.random() < 0.15
        tol = rng.choice(TOLS)
        sn = anch.snap(tight)
        corners = [(l, b), (l, t), (r, t), (r, b)]
        pc = [(Av[0] * x + Av[1] * y + Av[2], Av[3] * x + Av[4] * y + Av[5]) for x, y in corners]
        env = (min(p[0] for p in pc), min(p[1] for p in pc), max(p[0] for p in pc), max(p[1] for p in pc))
        mode = rng.choice(["res", "res", "shape"])
        shape = None
        if mode == "shape":
            shape = (2 ** rng.randint(0, 5), 2 ** rng.randint(0, 5))
            px, py = (env[2] - env[0]) / shape[1], (env[3] - env[1]) / shape[0]
            ok = px > 0 and py > 0 and axis_exact(env[0], env[2], px, None if sn is None else sn[0]) and axis_exact(
                env[1], env[3], -py, None if sn is None else sn[1])
        else:
            ok = axis_exact(env[0], env[2], rx, None if sn is None else sn[0]) and axis_exact(env[1], env[3], ry, None if sn is None else sn[1])
        if not ok:
            R.count("utm-branch:skipped-inexact")
            continue
        Af = [float(v) for v in Av]

        out = []

        def f():
            with UtmHook(Af, "epsg:32755") as hk:
                g = GeoBox.from_bbox((float(l), float(b), float(r), float(t)), "utm", tight=tight, shape=shape,
                                     resolution=None if mode == "shape" else resxy_(float(rx), float(ry)),
                                     anchor=anch.py(GB, xy_), tol=float(tol))
            if hk.calls == 0:
                return "HOOK-BYPASSED"
            out.append(g)
            return gb_s(g)

        line = (f"c08 bboxutm {frac_s(l)} {frac_s(b)} {frac_s(r)} {frac_s(t)} {';'.join(frac_s(v) for v in Av)} {bool_s(tight)} "
                f"{shape_tok(shape)} {res_tok(None if mode == 'shape' else (rx, ry))} {anch.tok()} {frac_s(tol)}")
        o_ = guarded(f)
        if o_ == "HOOK-BYPASSED":
            hook_bypassed_note(R, "utm-branch")
            continue
        R.corr(line, lambda: o_, sig=f"bboxutm|{mode}|{'float' if sn is None else 'snap'}")
        if out and mode == "res":
            bbox_oracle(R, out[0], env, (rx, ry), sn, tol, F(0), {"fn": "GeoBox.from_bbox(crs='utm')", "line": line}, "from-bbox-utm-branch")
    assert BoundingBox.to_crs is orig


def sec_nonfinite(R: Run):
    """nan / +-inf as region coordinates, resolution components and tol of from_bbox (resolution branch), every position,
    against the non-finite model of Model/C20NonFinite.lean (`fromBboxResX`): shape and origin or the exception KIND;
    oracle: a region with a non-finite coordinate is never turned into a GeoBox"""
    from .c20 import xf_s, NONFIN
    GB, GeoBox, _norm_anchor, geom, resxy_, xy_ = _import()
    rng = R.rng
    fin = [0.0, 4.0, 2.5, -3.0, 7.25]
    snaps = [None, (F(0), F(0)), (F(1, 2), F(1, 2)), (F(1, 4), F(3, 4))]
    tols = [0.01, 0.0, 0.25] + NONFIN
    combos = []
    for l in fin[:3] + NONFIN:
        for b in fin[:2] + NONFIN:
            for r in fin[1:] + NONFIN:
                for t in fin[1:4] + NONFIN:
                    for rx in [1.0, -0.5] + NONFIN:
                        for ry in [-1.0, 0.5] + NONFIN:
                            for sn in snaps:
                                for tol in tols:
                                    if not all(math.isfinite(v) for v in (l, b, r, t, rx, ry, tol)):
                                        combos.append((l, b, r, t, rx, ry, sn, tol))
    if R.quick:
        combos = rng.sample(combos, 2500)
    for (l, b, r, t, rx, ry, sn, tol) in combos:
        anchor = GB.AnchorEnum.FLOATING if sn is None else xy_(float(sn[0]), float(sn[1]))

        def f():
            g = GeoBox.from_bbox((l, b, r, t), CRS, resolution=resxy_(rx, ry), anchor=anchor, tol=tol)
            return f"{g.shape[0]} {g.shape[1]} {xf_s(g.affine.c)} {xf_s(g.affine.f)}"

        where = sorted({n for n, v in (("region", l), ("region", b), ("region", r), ("region", t), ("res", rx), ("res", ry), ("tol", tol)) if not math.isfinite(v)})
        line = (f"c08 bboxresx {xf_s(l)} {xf_s(b)} {xf_s(r)} {xf_s(t)} {xf_s(rx)} {xf_s(ry)} "
                f"{'N' if sn is None else frac_s(sn[0]) + ';' + frac_s(sn[1])} {xf_s(tol)}")
        o = R.corr(line, f, sig=f"bboxresx|{'float' if sn is None else 'snap'}|nonfinite={'+'.join(where)}")
        if not all(math.isfinite(v) for v in (l, b, r, t)):
            R.oracle(o.startswith("ERR:"), "from-bbox-accepts-nonfinite-region", {"fn": "GeoBox.from_bbox", "line": line},
                     f"from_bbox(({l!r},{b!r},{r!r},{t!r}), resolution=({rx!r},{ry!r}), tol={tol!r}) returned {o}", sig="bboxresx-reject")
    # shape-driven branches (ny, nx) and single number, non-finite region / anchor fractions / tol / number
    asn = [None, (0.0, 0.0), (0.5, 0.5), (0.25, 0.75), (float("nan"), 0.5), (0.5, float("inf")), (float("-inf"), 0.0)]
    combos = []
    for l in fin[:2] + NONFIN:
        for b in fin[:2] + NONFIN:
            for r in fin[1:3] + NONFIN:
                for t in fin[1:3] + NONFIN:
                    for sn in asn:
                        for tol in [0.01, float("nan"), float("inf")]:
                            if not all(math.isfinite(v) for v in (l, b, r, t, tol) + (sn or ())):
                                combos.append((l, b, r, t, sn, tol))
    if R.quick:
        combos = rng.sample(combos, 1500)
    for (l, b, r, t, sn, tol) in combos:
        anchor = GB.AnchorEnum.FLOATING if sn is None else xy_(sn[0], sn[1])
        sn_tok = "N" if sn is None else xf_s(sn[0]) + ";" + xf_s(sn[1])
        ny, nx = rng.choice([(2, 4), (1, 1), (4, 2), (-2, 4), (0, 3)])
        q = rng.choice([4.0, 2.0, 0.5, float("nan"), float("inf"), 0.0, -2.0])

        def gs(g):
            A = g.affine
            return f"{g.shape[0]} {g.shape[1]} {xf_s(A.a)} {xf_s(A.e)} {xf_s(A.c)} {xf_s(A.f)}"

        line = f"c08 bboxshapex {xf_s(l)} {xf_s(b)} {xf_s(r)} {xf_s(t)} {ny} {nx} {sn_tok} {xf_s(tol)}"
        o = R.corr(line, lambda: gs(GeoBox.from_bbox((l, b, r, t), CRS, shape=(ny, nx), anchor=anchor, tol=tol)),
                   sig=f"bboxshapex|{'float' if sn is None else 'snap'}")
        if sn is not None and not all(math.isfinite(v) for v in (l, b, r, t)):
            R.oracle(o.startswith("ERR:"), "from-bbox-accepts-nonfinite-region", {"fn": "GeoBox.from_bbox", "line": line},
                     f"from_bbox(({l!r},{b!r},{r!r},{t!r}), shape=({ny},{nx}), anchor={anchor}) returned {o}", sig="bboxshapex-reject")
        line = f"c08 bboxnumx {xf_s(l)} {xf_s(b)} {xf_s(r)} {xf_s(t)} {xf_s(q)} {sn_tok} {xf_s(tol)}"
        o = R.corr(line, lambda: gs(GeoBox.from_bbox((l, b, r, t), CRS, shape=q, anchor=anchor, tol=tol)),
                   sig=f"bboxnumx|{'float' if sn is None else 'snap'}")
        if not all(math.isfinite(v) for v in (l, b, r, t)):
            R.oracle(o.startswith("ERR:"), "from-bbox-accepts-nonfinite-region", {"fn": "GeoBox.from_bbox", "line": line},
                     f"from_bbox(({l!r},{b!r},{r!r},{t!r}), shape={q!r}, anchor={anchor}) returned {o}", sig="bboxnumx-reject")


def sec_crs_invariance(R: Run):
    """from_bbox is CRS-independent arithmetic (theorem from_bbox_crs_of_tuple): the SAME region / resolution / anchor / tol
    through geographic CRSs (EPSG:4326, EPSG:4283, crs=None -> lon/lat), projected ones and a BoundingBox carrying the CRS,
    with regions at the limits of the geographic domain -- latitude edges within a pixel of +-90 (inside, on and just
    beyond), longitudes near +-180 -- where a snapped grid has to reach past the pole / antimeridian to cover the region.
    Dyadic operands: exact correspondence with the (CRS-free) model for every CRS, the cover / minimal / aligned predicates,
    and the result must not depend on the CRS; plus a float stream (0.1, 0.7, 0.25 degree pixels) judged by the predicates."""
    GB, GeoBox, _norm_anchor, geom, resxy_, xy_ = _import()
    from odc.geo.geom import BoundingBox
    rng = R.rng
    crss = ["epsg:4326", "epsg:4283", None, "epsg:3857", "epsg:32755", "bbox:epsg:4326", "bbox:epsg:3577"]
    anchors = [Anch("s", "default"), Anch("s", "center"), Anch("e", "floating"), Anch("n", F(1, 4)), Anch("x", (F(0), F(1, 2)))]

    def build(crs, bb, **kw):
        if isinstance(crs, str) and crs.startswith("bbox:"):
            return GeoBox.from_bbox(BoundingBox(*bb, crs=crs[5:]), **kw)
        return GeoBox.from_bbox(bb, crs, **kw)

    def near_limit(lim: F, px: F, exact: bool):
        """an edge within a pixel of +-lim: inside, exactly on it, a hair inside"""
        d = rng.choice([F(0), px / 4, px / 2, px * 3 / 4, px / 8, F(3, 100) if not exact else px / 16, px])
        return lim - d

    for it in range(R.pick(300, 3000)):
        exact = it % 3 != 0
        if exact:
            px, py = F(2) ** rng.randint(-3, 1), F(2) ** rng.randint(-3, 1)
        else:
            px, py = F(rng.choice([0.1, 0.7, 0.25, 0.3, 1.0])), F(rng.choice([0.1, 0.7, 0.25, 0.3, 1.0]))
        sx, sy = rng.choice([1, 1, -1]), rng.choice([-1, -1, 1])
        rx, ry = sx * px, sy * py
        pole = rng.choice(["N", "S", "both", "none"])
        span_y = py * rng.choice([1, 3, 10, 37]) + rng.choice([F(0), py / 4, py / 2])
        if pole == "N":
            t = near_limit(F(90), py, exact); b = t - span_y
        elif pole == "S":
            b = -near_limit(F(90), py, exact); t = b + span_y
        elif pole == "both":
            t, b = near_limit(F(90), py, exact), -near_limit(F(90), py, exact)
        else:
            b = F(rng.randint(-60, 40)); t = b + span_y
        am = rng.choice(["E", "W", "both", "none"])
        span_x = px * rng.choice([1, 4, 20]) + rng.choice([F(0), px / 2])
        if am == "E":
            r = near_limit(F(180), px, exact); l = r - span_x
        elif am == "W":
            l = -near_limit(F(180), px, exact); r = l + span_x
        elif am == "both":
            r, l = near_limit(F(180), px, exact), -near_limit(F(180), px, exact)
        else:
            l = F(rng.randint(-100, 100)); r = l + span_x
        if not exact:
            l, b, r, t = (F(float(v)) for v in (l, b, r, t))
        anch = rng.choice(anchors)
        tight = rng.random() < 0.1
        tol = rng.choice([TOL2, TOL2, F(0), F(1, 128)])
        sn = anch.snap(tight)
        bb = (l, b, r, t)
        if exact and not (axis_exact(l, r, rx, None if sn is None else sn[0]) and axis_exact(b, t, ry, None if sn is None else sn[1])):
            R.count("crs-invariance:skipped-inexact")
            continue
        fbb = tuple(float(v) for v in bb)
        kw = dict(resolution=resxy_(float(rx), float(ry)), anchor=anch.py(GB, xy_), tol=float(tol), tight=tight)
        line = (f"c08 bbox {frac_s(l)} {frac_s(b)} {frac_s(r)} {frac_s(t)} {bool_s(tight)} N {res_tok((rx, ry))} {anch.tok()} {frac_s(tol)}")
        results = {}
        for crs in (crss if exact else rng.sample(crss, 3) + ["epsg:4326"]):
            out = []

            def f():
                g = build(crs, fbb, **kw)
                out.append(g)
                return gb_s(g)

            case = {"fn": "GeoBox.from_bbox", "line": line, "crs": crs, "floats": repr((fbb, float(rx), float(ry), anch.tok(), tight, float(tol)))}
            if exact:
                o = R.corr(line + f" # crs={crs}" if False else line, f, sig=f"crs-invariance|{'geographic' if crs in ('epsg:4326', 'epsg:4283', None, 'bbox:epsg:4326') else 'projected'}|pole={pole}|am={am}")
            else:
                o = guarded(f)
            results[crs] = o
            if out:
                bbox_oracle(R, out[0], bb, (rx, ry), sn, tol, F(0) if exact else F(1, 10**9), case,
                            "from-bbox-near-domain-limit" if exact else "from-bbox-near-domain-limit-float")
            else:
                R.oracle(False, "from-bbox-raises", case, o, sig="raises")
        vals = set(results.values())
        R.oracle(len(vals) == 1, "from-bbox-result-depends-on-crs", {"fn": "GeoBox.from_bbox", "line": line, "floats": repr((fbb, float(rx), float(ry), anch.tok(), tight, float(tol)))},
                 f"the same region / resolution / anchor / tol gives different grids in different CRSs: {results}", sig=f"crs-invariance-same|pole={pole}")


# ------------------------------------------------------------------ public argument forms (Model/C08Args.lean)
CRS_CODES = {0: "epsg:4326", 1: "epsg:3857", 2: "epsg:32755", 3: "epsg:3577"}
EPSG_TO_CODE = {4326: 0, 3857: 1, 32755: 2, 3577: 3}


def crs_code(crs) -> str:
    if crs is None:
        return "NOCRS"
    return str(EPSG_TO_CODE.get(crs.epsg, f"epsg{crs.epsg}"))


def sec_forms(R: Run):
    """every public spelling of the arguments of GeoBox.from_bbox / from_geopolygon: region as tuple / list / BoundingBox
    with and without CRS / wrong length; crs None / '' / 'utm*' (projection substituted by a dyadic affine) / string / CRS
    object / epsg int; shape None / int / float / bool / numpy float64 / Shape2d / XY / tuple / list / float pairs
    (int() truncation) / str of digits / wrong length / numpy integer / ndarray; resolution None / int / float / bool /
    Resolution / tuple / XY / numpy float32 / numpy int; anchor every accepted kind plus unknown hashable / unhashable
    values.  Dyadic operands with power-of-two pixels (every float operation exact): result (shape, affine, reported CRS)
    or exception kind compared with the Lean model `fromBboxCrs` / `fromGeopolygonArgs`; on accepted calls the property
    predicates are evaluated on the real result against the values the spelling stands for."""
    import numpy as np
    GB, GeoBox, _norm_anchor, geom, resxy_, xy_ = _import()
    from odc.geo.crs import CRS as OCRS
    from odc.geo.geom import BoundingBox
    from odc.geo.types import Resolution, Unset, shape_, wh_
    rng = R.rng
    orig_to_crs = BoundingBox.to_crs
    IDA = "1;0;0;0;1;0"

    def rnd_anchor_form():
        r = rng.random()
        if r < 0.04:
            v = rng.choice(["x", None, (0, 0), np.float32(0.5), "CENTER", "Edge", b"edge"])
            return v, "k", "bad", None
        if r < 0.07:
            return rng.choice([[0, 0], {}, [0.5]]), "u", "bad", None
        if r < 0.2:
            b_ = rng.choice([True, False])
            return b_, f"n:{int(b_)}", "bool", (F(int(b_)), F(int(b_)))
        if r < 0.27:
            v = F(rng.randint(0, 7), 8)
            return np.float64(float(v)), f"n:{frac_s(v)}", "np.float64", (v, v)
        a = rnd_anchor(rng, 3)
        return a.py(GB, xy_), a.tok(), a.kind, a.snap(False)

    def rnd_shape_form(ny, nx):
        """(python value, token, tag, normalised: ('num', q) | ('yx', ny, nx) | 'ERR' | None)"""
        k = rng.choice(["none", "none", "int", "float", "bool", "np.float64", "Shape2d", "wh_", "XY", "XYf", "tuple", "list",
                        "tuplef", "str", "len1", "len3", "np.int64", "ndarray", "neg", "zero", "half", "negnum", "dict"])
        n = max(nx, ny)
        if k == "none":
            return None, "N", k, None
        if k == "int":
            return n, f"n:{n}", k, ("num", F(n))
        if k == "float":
            return float(n), f"n:{n}", k, ("num", F(n))
        if k == "bool":
            return True, "n:1", k, ("num", F(1))
        if k == "np.float64":
            return np.float64(n), f"n:{n}", k, ("num", F(n))
        if k == "half":
            return 0.5, "n:1/2", k, ("num", F(1, 2))
        if k == "negnum":
            return -n, f"n:{-n}", k, ("num", F(-n))
        if k == "zero":
            z = rng.choice([0, 0.0, False])
            return z, "n:0", k, ("num", F(0))
        if k == "Shape2d":
            return shape_((ny, nx)), f"s2:{ny};{nx}", k, ("yx", ny, nx)
        if k == "wh_":
            return wh_(nx, ny), f"s2:{ny};{nx}", k, ("yx", ny, nx)
        if k == "XY":
            return xy_(nx, ny), f"xy:{nx};{ny}", k, ("yx", ny, nx)
        if k == "XYf":
            fx, fy = F(rng.randint(0, 7), 8), F(rng.randint(0, 7), 8)
            return xy_(float(nx + fx), float(ny + fy)), f"xy:{frac_s(nx + fx)};{frac_s(ny + fy)}", k, ("yx", ny, nx)
        if k == "tuple":
            return (ny, nx), f"q:[{ny},{nx}]", k, ("yx", ny, nx)
        if k == "list":
            return [ny, nx], f"q:[{ny},{nx}]", k, ("yx", ny, nx)
        if k == "tuplef":
            fx, fy = F(rng.randint(0, 7), 8), F(rng.randint(0, 7), 8)
            sg = rng.choice([1, 1, -1])
            return ((float(sg * (ny + fy)), float(nx + fx)), f"q:[{frac_s(sg * (ny + fy))},{frac_s(nx + fx)}]", k,
                    ("yx", sg * ny, nx))
        if k == "str" and ny < 10 and nx < 10:
            return f"{ny}{nx}", f"q:[{ny},{nx}]", k, ("yx", ny, nx)      # a str is a Sequence: map(int, "24") == (2, 4)
        if k == "len1":
            return (ny,), f"q:[{ny}]", k, "ERR"
        if k == "len3":
            return (ny, nx, 1), f"q:[{ny},{nx},1]", k, "ERR"
        if k == "np.int64":
            return np.int64(n), "o", k, "ERR"
        if k == "ndarray":
            return np.asarray([ny, nx]), "o", k, "ERR"
        if k == "dict":
            return {ny: nx}, "o", k, "ERR"
        if k == "neg":
            return (-ny, nx), f"q:[{-ny},{nx}]", k, ("yx", -ny, nx)
        return None, "N", "none", None

    def rnd_res_form(px, py):
        k = rng.choice(["none"] * 9 + ["int", "negint", "float", "float", "bool", "np.float64", "np.float64neg", "resxy", "resxy", "resyx",
                                       "Resolution1", "ResolutionNeg", "res_", "res_neg", "tuple", "XY", "np.float32", "np.int64", "str",
                                       "negfloat", "negfloat", "zero"])
        if k == "none":
            return None, "N", k, None
        if k == "int":
            v = max(1, int(px))
            return v, f"n:{v}", k, (F(v), F(-v))
        if k == "negint":
            v = -max(1, int(px))
            return v, f"n:{v}", k, (F(v), F(-v))
        if k == "np.float64neg":
            return np.float64(float(-px)), f"n:{frac_s(-px)}", k, (-px, px)
        if k == "resyx":
            from odc.geo import resyx_
            sx, sy = rng.choice([1, -1]), rng.choice([1, -1])
            return resyx_(float(sy * py), float(sx * px)), f"r:{frac_s(sx * px)};{frac_s(sy * py)}", k, (sx * px, sy * py)
        if k == "ResolutionNeg":
            return Resolution(float(-px)), f"r:{frac_s(-px)};{frac_s(px)}", k, (-px, px)
        if k == "res_neg":
            from odc.geo import res_
            return res_(float(-px)), f"r:{frac_s(-px)};{frac_s(px)}", k, (-px, px)
        if k == "float":
            return float(px), f"n:{frac_s(px)}", k, (px, -px)
        if k == "negfloat":
            return float(-px), f"n:{frac_s(-px)}", k, (-px, px)
        if k == "zero":
            return 0.0, "n:0", k, (F(0), F(0))
        if k == "bool":
            return True, "n:1", k, (F(1), F(-1))
        if k == "np.float64":
            return np.float64(float(px)), f"n:{frac_s(px)}", k, (px, -px)
        if k == "resxy":
            sx, sy = rng.choice([1, -1]), rng.choice([1, -1])
            return resxy_(float(sx * px), float(sy * py)), f"r:{frac_s(sx * px)};{frac_s(sy * py)}", k, (sx * px, sy * py)
        if k == "Resolution1":
            return Resolution(float(px)), f"r:{frac_s(px)};{frac_s(-px)}", k, (px, -px)
        if k == "res_":
            from odc.geo import res_
            return res_(float(px)), f"r:{frac_s(px)};{frac_s(-px)}", k, (px, -px)
        if k == "tuple":
            return (float(px), float(-py)), "o", k, "ERR"
        if k == "XY":
            return xy_(float(px), float(-py)), "o", k, "ERR"
        if k == "np.float32":
            return np.float32(float(px)), "o", k, "ERR"
        if k == "np.int64":
            return np.int64(1), "o", k, "ERR"
        return "1", "o", "str", "ERR"

    n_ok = n_err = 0
    for _ in range(R.pick(1500, 15000)):
        px, py = F(2) ** rng.randint(-1, 1), F(2) ** rng.randint(-1, 1)
        nx0, ny0 = 2 ** rng.randint(0, 3), 2 ** rng.randint(0, 3)
        l, b = F(rng.randint(-32, 32), 4), F(rng.randint(-32, 32), 4)
        r, t = l + nx0 * px, b + ny0 * py
        if rng.random() < 0.05:
            t = b            # zero height: bbox.aspect divides by zero for a number shape
        vals = [l, b, r, t]
        a_py, a_tok, a_tag, snap0 = rnd_anchor_form()
        s_py, s_tok, s_tag, s_norm = rnd_shape_form(ny0 * rng.choice([1, 1, 2]), nx0 * rng.choice([1, 1, 2]))
        r_py, r_tok, r_tag, r_norm = rnd_res_form(px, py)
        tight = rng.random() < 0.15
        tol = rng.choice([TOL2, F(1, 128), F(0)])
        # region / crs forms
        rk = rng.choice(["tuple", "tuple", "list", "bbox-nocrs", "bbox-crs", "bbox-crs"] * 4 + ["len3", "len5", "len0"])
        ck = rng.choice(["none", "empty", "utm", "UTM-N", "utmost", "str", "str", "CRS", "epsg-int"])
        ccode = rng.choice([1, 2, 3])
        crs_py = {"none": None, "empty": "", "utm": "utm", "UTM-N": "UTM-N", "utmost": "utmost", "str": CRS_CODES[ccode],
                  "CRS": OCRS(CRS_CODES[ccode]), "epsg-int": int(CRS_CODES[ccode].split(":")[1])}[ck]
        c_tok = {"none": "N", "empty": "F", "utm": "U", "UTM-N": "U", "utmost": "U"}.get(ck, f"c:{ccode}")
        bcode = rng.choice([1, 2, 3])
        fvals = [float(v) for v in vals]
        if rk in ("tuple", "list"):
            reg_py = tuple(fvals) if rk == "tuple" else list(fvals)
            reg_tok = "t:" + list_s(vals, frac_s)
        elif rk == "bbox-nocrs":
            reg_py, reg_tok = BoundingBox(*fvals, crs=None), f"b:{list_s(vals, frac_s)}:N"
        elif rk == "bbox-crs":
            reg_py, reg_tok = BoundingBox(*fvals, crs=CRS_CODES[bcode]), f"b:{list_s(vals, frac_s)}:{bcode}"
        else:
            sub = {"len3": vals[:3], "len5": vals + [F(1)], "len0": []}[rk]
            reg_py, reg_tok = tuple(float(v) for v in sub), "t:" + list_s(sub, frac_s)
        is_utm = c_tok == "U" and rk != "bbox-crs"
        Av = [F(rng.randint(-16, 16), 8) * 64, F(rng.randint(-16, 16), 8) * 64, F(rng.randint(-64, 64)),
              F(rng.randint(-16, 16), 8) * 64, F(rng.randint(-16, 16), 8) * 64, F(rng.randint(-64, 64))]
        if Av[0] * Av[4] - Av[1] * Av[3] == 0:
            continue
        Af = [float(v) for v in Av]
        ucode = rng.choice([2, 3])

        # what the spelling stands for (independent normalisation, for the exactness guard and the property oracle)
        if rk in ("len3", "len5", "len0"):
            bbn = None
        elif is_utm:
            pc = [(Av[0] * x + Av[1] * y + Av[2], Av[3] * x + Av[4] * y + Av[5]) for x, y in ((l, b), (l, t), (r, t), (r, b))]
            bbn = (min(p[0] for p in pc), min(p[1] for p in pc), max(p[0] for p in pc), max(p[1] for p in pc))
        else:
            bbn = (l, b, r, t)
        want_crs = (bcode if rk == "bbox-crs" else None if bbn is None else ucode if is_utm
                    else 0 if ck in ("none", "empty") else ccode)
        snap = None if (tight or snap0 is None) else snap0
        branch, rxy, shp = None, None, None
        if a_tag != "bad" and bbn is not None:
            sn_, rn_ = s_norm, r_norm
            if isinstance(sn_, tuple) and sn_[0] == "num":
                q = sn_[1]
                if bbn[3] - bbn[1] == 0 or q == 0:
                    branch = "err"
                else:
                    rr = (bbn[2] - bbn[0]) / q if (bbn[2] - bbn[0]) / (bbn[3] - bbn[1]) > 1 else (bbn[3] - bbn[1]) / q
                    branch, rxy = "res", (rr, -rr)
            elif rn_ is not None:
                branch, rxy = ("err", None) if rn_ == "ERR" else ("res", rn_)
            elif sn_ is None or sn_ == "ERR":
                branch = "err"
            else:
                branch, shp = "shape", (sn_[1], sn_[2])
        exact = True
        if branch == "res" and rxy[0] != 0 and rxy[1] != 0:
            exact = (axis_exact(bbn[0], bbn[2], rxy[0], None if snap is None else snap[0])
                     and axis_exact(bbn[1], bbn[3], rxy[1], None if snap is None else snap[1]))
        elif branch == "shape" and shp[0] != 0 and shp[1] != 0:
            qx, qy = (bbn[2] - bbn[0]) / shp[1], -(bbn[3] - bbn[1]) / shp[0]
            exact = isx(qx) and isx(qy) and (qx == 0 or qy == 0 or (
                axis_exact(bbn[0], bbn[2], qx, None if snap is None else snap[0])
                and axis_exact(bbn[1], bbn[3], qy, None if snap is None else snap[1])))
        if not exact:
            R.count("forms:skipped-inexact")
            continue
        out = []

        def f():
            if c_tok == "U":
                with UtmHook(Af, CRS_CODES[ucode]) as hk:
                    g = GeoBox.from_bbox(reg_py, crs_py, tight=tight, shape=s_py, resolution=r_py, anchor=a_py, tol=float(tol))
                if is_utm and hk.calls == 0:
                    return "HOOK-BYPASSED"
            else:
                g = GeoBox.from_bbox(reg_py, crs_py, tight=tight, shape=s_py, resolution=r_py, anchor=a_py, tol=float(tol))
            out.append(g)
            return f"{gb_s(g)} {crs_code(g.crs)}"

        line = (f"c08 forms {reg_tok} {c_tok} {';'.join(frac_s(v) for v in Av) if c_tok == 'U' else IDA} {ucode} {bool_s(tight)} "
                f"{s_tok} {r_tok} {a_tok} {frac_s(tol)}")
        o_ = guarded(f)
        if o_ == "HOOK-BYPASSED":
            hook_bypassed_note(R, "forms-utm")
            continue
        R.corr(line, lambda: o_, sig=f"forms|{branch}|region={rk}|crs={'utm' if c_tok == 'U' else ck}")
        for dim, tag in (("shape", s_tag), ("res", r_tag), ("anchor", a_tag)):
            R.count(f"forms:{dim}={tag}|{branch}")
        case = {"fn": "GeoBox.from_bbox (argument forms)", "line": line,
                "python": repr((reg_py, crs_py, dict(tight=tight, shape=s_py, resolution=r_py, anchor=a_py, tol=float(tol))))}
        if not out:
            n_err += 1
            # a call that a well-formed spelling stands for must not be rejected
            wellformed = (branch == "res" and rxy[0] != 0 and rxy[1] != 0 and bbn[0] <= bbn[2] and bbn[1] <= bbn[3]
                          and (snap is None or all(0 <= v < 1 for v in snap)))
            R.oracle(not wellformed, "from-bbox-forms-rejects-wellformed-call", case,
                     "a region / resolution / anchor spelling the documentation allows was rejected", sig="forms-accept")
            continue
        n_ok += 1
        g = out[0]
        R.oracle(crs_code(g.crs) == str(want_crs), "from-bbox-forms-wrong-crs", case,
                 f"result reports CRS {g.crs} but the region/crs arguments stand for {CRS_CODES.get(want_crs)}", sig=f"forms-crs|{rk}|{ck}")
        valid = bbn is not None and bbn[0] <= bbn[2] and bbn[1] <= bbn[3] and (snap is None or all(0 <= v < 1 for v in snap))
        if branch == "res" and valid and rxy[0] != 0 and rxy[1] != 0:
            bbox_oracle(R, g, bbn, rxy, snap, tol, F(0), case, "from-bbox-forms-res")
            # the same call in its canonical object spelling: BoundingBox with CRS, Resolution object, XY / enum anchor
            can_anchor = GB.AnchorEnum.FLOATING if snap is None else xy_(float(snap[0]), float(snap[1]))
            can = guarded(lambda: gb_s(GeoBox.from_bbox(BoundingBox(*[float(v) for v in bbn], crs=CRS_CODES[want_crs]),
                                                        resolution=resxy_(float(rxy[0]), float(rxy[1])), anchor=can_anchor,
                                                        tight=tight, tol=float(tol))))
            R.oracle(can == gb_s(g), "from-bbox-forms-differs-from-canonical-spelling", case,
                     f"this spelling gives {gb_s(g)}, the canonical spelling (BoundingBox with CRS, resxy_({float(rxy[0])}, {float(rxy[1])}), "
                     f"anchor {can_anchor}) gives {can}", sig=f"forms-canonical|res={r_tag}|shape={s_tag}")
        elif branch == "shape" and valid and shp[0] > 0 and shp[1] > 0 and bbn[0] < bbn[2] and bbn[1] < bbn[3]:
            shape_oracle(R, g, bbn, shp, snap, F(0), case, "from-bbox-forms-shape")
            can_anchor = GB.AnchorEnum.FLOATING if snap is None else xy_(float(snap[0]), float(snap[1]))
            can = guarded(lambda: gb_s(GeoBox.from_bbox(BoundingBox(*[float(v) for v in bbn], crs=CRS_CODES[want_crs]),
                                                        shape=wh_(shp[1], shp[0]), anchor=can_anchor, tight=tight, tol=float(tol))))
            R.oracle(can == gb_s(g), "from-bbox-forms-differs-from-canonical-spelling", case,
                     f"this spelling gives {gb_s(g)}, the canonical spelling (BoundingBox with CRS, Shape2d {shp}, anchor {can_anchor}) gives {can}",
                     sig=f"forms-canonical|shape={s_tag}")
    R.count("forms:accepted", n_ok)
    R.count("forms:rejected", n_err)
    assert BoundingBox.to_crs is orig_to_crs

    # ---- from_geopolygon: crs None / Unset() / same / other (projection substituted), polygons with and without CRS
    from odc.geo.geom import Geometry
    orig_geom_to_crs = Geometry.to_crs
    for _ in range(R.pick(500, 5000)):
        px, py = F(2) ** rng.randint(-1, 1), F(2) ** rng.randint(-1, 1)
        k = rng.randint(3, 5)
        pts = [(F(rng.randint(-32, 32), 2), F(rng.randint(-32, 32), 2)) for _ in range(k)]
        if len({p[0] for p in pts}) < 2 or len({p[1] for p in pts}) < 2:
            continue
        pcode = rng.choice([None, None, 0, 1, 2])
        ck = rng.choice(["none", "none", "unset", "given", "given", "same"])
        if ck == "same" and pcode is None:
            ck = "given"
        ccode = pcode if ck == "same" else rng.choice([1, 2, 3])
        Av = [F(rng.randint(-4, 4)), F(rng.randint(-4, 4)), F(rng.randint(-64, 64)), F(rng.randint(-4, 4)), F(rng.randint(-4, 4)), F(rng.randint(-64, 64))]
        if ck == "same":
            Av = [F(1), F(0), F(0), F(0), F(1), F(0)]
        if Av[0] * Av[4] - Av[1] * Av[3] == 0:
            continue
        Af = [float(v) for v in Av]
        anch = rnd_anchor(rng, 2)
        tight = rng.random() < 0.15
        tol = rng.choice([TOL2, F(0)])
        mode = rng.choice(["res", "res", "align", "align-nores", "shape"])
        sx, sy = rng.choice([1, -1]), rng.choice([1, -1])
        res = None if mode in ("shape", "align-nores") else (sx * px, sy * py)
        shape = (2 ** rng.randint(0, 3), 2 ** rng.randint(0, 3)) if mode in ("shape", "align-nores") else None
        align = (F(rng.randint(0, 1), 2) * px, F(rng.randint(0, 1), 2) * py) if mode.startswith("align") else None
        if shape is not None:
            # vertex bounds an exact multiple of the shape; projection (if any) an axis-aligned power-of-two scaling
            x0, y0 = pts[0]
            w, hgt = shape[1] * px, shape[0] * py
            pts = [(x0, y0), (x0 + w, y0 + hgt)] + [(x0 + F(rng.randint(0, 4), 4) * w, y0 + F(rng.randint(0, 4), 4) * hgt) for _ in range(k - 2)]
            if ck != "same":
                Av = [rng.choice([-1, 1]) * F(2) ** rng.randint(-1, 2), F(0), F(rng.randint(-64, 64)),
                      F(0), rng.choice([-1, 1]) * F(2) ** rng.randint(-1, 2), F(rng.randint(-64, 64))]
                Af = [float(v) for v in Av]
        projected = ck in ("given", "same") and pcode is not None
        ppts = [(Av[0] * x + Av[1] * y + Av[2], Av[3] * x + Av[4] * y + Av[5]) for x, y in pts] if projected else pts
        bbn = (min(p[0] for p in ppts), min(p[1] for p in ppts), max(p[0] for p in ppts), max(p[1] for p in ppts))
        if align is not None and align != (0, 0) and res is not None:
            sn = None if tight else (align[0] / abs(res[0]), align[1] / abs(res[1]))
        elif align is not None and align == (0, 0):
            sn = None if tight else (F(0), F(0))
        else:
            sn = anch.snap(tight)
        if res is not None:
            ok = axis_exact(bbn[0], bbn[2], res[0], None if sn is None else sn[0]) and axis_exact(bbn[1], bbn[3], res[1], None if sn is None else sn[1])
        else:
            qx, qy = (bbn[2] - bbn[0]) / shape[1], -(bbn[3] - bbn[1]) / shape[0]
            ok = isx(qx) and isx(qy) and axis_exact(bbn[0], bbn[2], qx, None if sn is None else sn[0]) and axis_exact(
                bbn[1], bbn[3], qy, None if sn is None else sn[1])
        if not ok:
            R.count("polyargs:skipped-inexact")
            continue
        out = []

        gcalls = [0]

        def fake_geom_to_crs(self, crs, *a, **kw):
            gcalls[0] += 1
            if self.crs is None:
                raise ValueError("Cannot project geometries without CRS")
            return geom.polygon([(Af[0] * x + Af[1] * y + Af[2], Af[3] * x + Af[4] * y + Af[5]) for x, y in self.exterior.points], CRS_CODES[ccode])

        def fp():
            poly = geom.polygon([(float(x), float(y)) for x, y in pts] + [(float(pts[0][0]), float(pts[0][1]))],
                                None if pcode is None else CRS_CODES[pcode])
            kw = dict(shape=shape, tight=tight, tol=float(tol), anchor=anch.py(GB, xy_))
            if align is not None:
                kw["align"] = xy_(float(align[0]), float(align[1]))
            crs_arg = None if ck == "none" else Unset() if ck == "unset" else CRS_CODES[ccode]
            if ck != "same":
                Geometry.to_crs = fake_geom_to_crs
            res_py = None if res is None else resxy_(float(res[0]), float(res[1]))
            if res is not None and res[1] == -res[0] and rng.random() < 0.7:
                # the bare-number spelling of a square north-up (r > 0) / mirrored (r < 0) pixel
                res_py = rng.choice([float(res[0]), int(res[0]) if res[0].denominator == 1 else float(res[0]), np.float64(float(res[0]))])
            try:
                if rng.random() < 0.5:
                    g = GeoBox.from_geopolygon(poly, res_py, crs_arg, **kw)
                else:
                    g = GeoBox.from_geopolygon(poly, resolution=res_py, crs=crs_arg, **kw)
            finally:
                Geometry.to_crs = orig_geom_to_crs
            if ck == "given" and gcalls[0] == 0:
                return "HOOK-BYPASSED"
            out.append(g)
            return f"{gb_s(g)} {crs_code(g.crs)}"

        line = (f"c08 polyargs {list_s(pts, lambda q: frac_s(q[0]) + ';' + frac_s(q[1]))} {'N' if pcode is None else pcode} "
                f"{'N' if ck in ('none', 'unset') else 'c:' + str(ccode)} {';'.join(frac_s(v) for v in Av)} {res_tok(res)} "
                f"{'N' if align is None else frac_s(align[0]) + ';' + frac_s(align[1])} {shape_tok(shape)} {bool_s(tight)} {anch.tok()} {frac_s(tol)}")
        o_ = guarded(fp)
        if o_ == "HOOK-BYPASSED":
            hook_bypassed_note(R, "polyargs-crs")
            continue
        R.corr(line, lambda: o_, sig=f"polyargs|poly-crs={'none' if pcode is None else 'some'}|crs={ck}|{mode}")
        case = {"fn": "GeoBox.from_geopolygon (crs argument)", "line": line}
        if out:
            g = out[0]
            want_crs = (0 if pcode is None else pcode) if ck in ("none", "unset") else ccode
            R.oracle(crs_code(g.crs) == str(want_crs), "from-geopolygon-args-wrong-crs", case,
                     f"result reports CRS {g.crs}, expected {CRS_CODES.get(want_crs)}", sig=f"polyargs-crs|{ck}")
            if res is not None and (sn is None or all(0 <= v < 1 for v in sn)):
                bbox_oracle(R, g, bbn, res, sn, tol, F(0), case, "from-geopolygon-args")
    assert Geometry.to_crs is orig_geom_to_crs

    # ---- from_geopolygon end to end through C07's to_crs model (Props/C08C07.lean): polygons WITH HOLES and multipolygons
    # (the bounding box is the envelope of the vertices of every ring and part), crs None / same / other / CRS-less geometry
    for _ in range(R.pick(250, 2500)):
        px, py = F(2) ** rng.randint(-1, 1), F(2) ** rng.randint(-1, 1)
        nparts = rng.choice([1, 1, 2, 3])
        parts = []
        for _p in range(nparts):
            ox, oy = F(rng.randint(-40, 40), 2), F(rng.randint(-40, 40), 2)
            w, h_ = F(rng.randint(4, 24), 2), F(rng.randint(4, 24), 2)
            ext = [(ox, oy), (ox + w, oy), (ox + w, oy + h_), (ox, oy + h_), (ox, oy)]
            rings = [ext]
            if rng.random() < 0.5:
                hx0, hy0 = ox + w / 4, oy + h_ / 4
                rings.append([(hx0, hy0), (hx0, hy0 + h_ / 4), (hx0 + w / 4, hy0 + h_ / 4), (hx0, hy0)])
            parts.append(rings)
        pcode = rng.choice([None, 0, 1, 2])
        ck = rng.choice(["none", "unset", "given", "given", "same"])
        if ck == "same" and pcode is None:
            ck = "given"
        ccode = pcode if ck == "same" else rng.choice([c for c in (1, 2, 3) if c != pcode])
        Av = [rng.choice([-1, 1]) * F(2) ** rng.randint(-1, 1), F(rng.randint(-2, 2)), F(rng.randint(-64, 64)),
              F(rng.randint(-2, 2)), rng.choice([-1, 1]) * F(2) ** rng.randint(-1, 1), F(rng.randint(-64, 64))]
        if ck in ("none", "unset", "same"):
            Av = [F(1), F(0), F(0), F(0), F(1), F(0)]
        Af = [float(v) for v in Av]
        sx, sy = rng.choice([1, -1]), rng.choice([1, -1])
        res = (sx * px, sy * py)
        anch = rnd_anchor(rng, 2)
        tight = rng.random() < 0.15
        tol = rng.choice([TOL2, F(0)])
        allpts = [q for rings in parts for ring in rings for q in ring]
        projected = ck == "given" and pcode is not None
        ppts = [(Av[0] * x + Av[1] * y + Av[2], Av[3] * x + Av[4] * y + Av[5]) for x, y in allpts] if projected else allpts
        bbn = (min(p_[0] for p_ in ppts), min(p_[1] for p_ in ppts), max(p_[0] for p_ in ppts), max(p_[1] for p_ in ppts))
        sn = anch.snap(tight)
        if not (axis_exact(bbn[0], bbn[2], res[0], None if sn is None else sn[0]) and axis_exact(bbn[1], bbn[3], res[1], None if sn is None else sn[1])):
            R.count("polyvia:skipped-inexact")
            continue
        gcalls = [0]

        def fake_to_crs(self, crs, *a, **kw):
            gcalls[0] += 1
            if self.crs is None:
                raise ValueError("Cannot project geometries without CRS")
            import shapely.ops
            mapped = shapely.ops.transform(lambda x, y, z=None: (Af[0] * x + Af[1] * y + Af[2], Af[3] * x + Af[4] * y + Af[5]), self.geom)
            return Geometry(mapped, CRS_CODES[ccode])

        out = []

        def fv():
            fl = lambda ring: [(float(x), float(y)) for x, y in ring]
            crs_geom = None if pcode is None else CRS_CODES[pcode]
            if len(parts) == 1:
                poly = geom.polygon(fl(parts[0][0]), crs_geom, *[fl(r_) for r_ in parts[0][1:]])
            else:
                poly = geom.multipolygon([[fl(r_) for r_ in rings] for rings in parts], crs_geom)
            crs_arg = None if ck == "none" else Unset() if ck == "unset" else CRS_CODES[ccode]
            if ck == "given":
                Geometry.to_crs = fake_to_crs
            try:
                g = GeoBox.from_geopolygon(poly, resxy_(float(res[0]), float(res[1])), crs_arg, tight=tight, tol=float(tol), anchor=anch.py(GB, xy_))
            finally:
                Geometry.to_crs = orig_geom_to_crs
            if ck == "given" and gcalls[0] == 0:
                return "HOOK-BYPASSED"
            out.append(g)
            return f"{gb_s(g)} {crs_code(g.crs)}"

        gspec = "@".join("|".join(",".join(frac_s(x) + ";" + frac_s(y) for x, y in ring) for ring in rings) for rings in parts)
        line = (f"c08 polyvia {gspec} {'N' if pcode is None else pcode} {'N' if ck in ('none', 'unset') else 'c:' + str(ccode)} "
                f"{';'.join(frac_s(v) for v in Av)} {res_tok(res)} N N {bool_s(tight)} {anch.tok()} {frac_s(tol)}")
        o_ = guarded(fv)
        if o_ == "HOOK-BYPASSED":
            hook_bypassed_note(R, "polyvia-crs")
            continue
        R.corr(line, lambda: o_, sig=f"polyvia|parts{min(len(parts), 2)}|poly-crs={'none' if pcode is None else 'some'}|crs={ck}")
        if out and (sn is None or all(0 <= v < 1 for v in sn)):
            bbox_oracle(R, out[0], bbn, res, sn, tol, F(0), {"fn": "GeoBox.from_geopolygon (holes / parts)", "line": line}, "from-geopolygon-via")
    assert Geometry.to_crs is orig_geom_to_crs


def run(R: Run):
    GB, GeoBox, _norm_anchor, geom, resxy_, xy_ = _import()
    rng = R.rng

    # ---------------- _norm_anchor
    def anchor_s(a):
        if isinstance(a, GB.AnchorEnum):
            return {GB.AnchorEnum.EDGE: "edge", GB.AnchorEnum.CENTER: "center", GB.AnchorEnum.FLOATING: "floating"}[a]
        return f"xy:{frac_s(a.x)};{frac_s(a.y)}"

    anchors = ([Anch("s", n) for n in ("default", "edge", "center", "centre", "floating")]
               + [Anch("e", n) for n in ("edge", "center", "floating")]
               + [Anch("n", v) for v in (F(0), F(1, 2), F(1, 4), F(1), F(3, 8), F(-1, 2), F(127, 128))]
               + [Anch("x", v) for v in ((F(0), F(0)), (F(1, 2), F(1, 2)), (F(1, 4), F(3, 4)), (F(0), F(1, 2)))])
    if _norm_anchor is None:
        R.notes.append("private helper geobox._norm_anchor not found: its direct stream is skipped (from_bbox / forms streams cover anchors)")
    else:
        # internal step: compared softly (a difference is a note, the public from_bbox streams decide)
        a_lines = [f"c08 anchor {a.tok()}" for a in anchors] + ["c08 anchor n:0"]
        a_real = [guarded(lambda: anchor_s(_norm_anchor(a.py(GB, xy_)))) for a in anchors] + [guarded(lambda: anchor_s(_norm_anchor(0.0)))]
        a_model = run_driver("C08", a_lines)
        R.count("anchor:private-helper-steps-compared", len(a_lines))
        a_diff = [(l_, r_, m_) for l_, r_, m_ in zip(a_lines, a_real, a_model) if r_ != m_]
        if a_diff:
            R.notes.append("private _norm_anchor differs from the model's normAnchor (not a violation by itself): " + repr(a_diff[:3]))

    # ---------------- from_bbox
    def call(bb, tight, shape, res, anch: Anch, tol: F, tag: str, exact: bool, slack_rel: F):
        l, b, r, t = bb
        if isinstance(res, tuple):
            res_py = resxy_(float(res[0]), float(res[1]))
        else:
            res_py = None if res is None else float(res)
        out = []

        def f():
            gb = GeoBox.from_bbox((float(l), float(b), float(r), float(t)), CRS, tight=tight, shape=shape,
                                  resolution=res_py, anchor=anch.py(GB, xy_), tol=float(tol))
            out.append(gb)
            return gb_s(gb)

        line = (f"c08 bbox {frac_s(l)} {frac_s(b)} {frac_s(r)} {frac_s(t)} {bool_s(tight)} {shape_tok(shape)} "
                f"{res_tok(res)} {anch.tok()} {frac_s(tol)}")
        snap = anch.snap(tight)
        if exact:
            R.corr(line, f, sig=f"bbox|{tag}|{'float' if snap is None else 'snap'}|{'tight' if tight else ''}")
            A_ = out[0].affine if out else None
            if out and isx(F(A_.c) + out[0].shape[1] * F(A_.a)) and isx(F(A_.f) + out[0].shape[0] * F(A_.e)):
                # the public accessors of the returned object against C02's model of them on the C08 model's result
                def facc():
                    g_ = out[0]
                    try:
                        al_ = g_.alignment
                        al_s = f"{frac_s(al_.x)} {frac_s(al_.y)}"
                    except ZeroDivisionError:
                        al_s = "ERR:ZeroDivisionError"
                    B_ = g_.boundingbox
                    return f"{al_s} | {frac_s(B_.left)} {frac_s(B_.bottom)} {frac_s(B_.right)} {frac_s(B_.top)}"

                R.corr(line.replace("c08 bbox ", "c08 bboxacc ", 1), facc, sig=f"bboxacc|{tag}|{'float' if snap is None else 'snap'}")
            want = ref_from_bbox(bb, tight, shape, res, snap, tol)
            if out or want != "ERR":
                got = "ERR" if not out else (int(out[0].shape[0]), int(out[0].shape[1]), [F(float(v)) for v in tuple(out[0].affine)[:6]])
                R.oracle(got == want, "from-bbox-differs-from-exact-recomputation", {"fn": "GeoBox.from_bbox", "line": line},
                         f"from_bbox = {gb_s(out[0]) if out else 'raised'} but exact arithmetic gives "
                         f"{want if want == 'ERR' else (want[0], want[1], [float(v) for v in want[2]])}", sig="bbox-2sided")
        else:
            o = guarded(f)
            if not out:
                R.oracle(False, "from-bbox-raises", {"line": line}, o, sig="raises")
        if not out:
            return
        gb = out[0]
        valid = l <= r and b <= t and 0 <= tol < F(1, 2) and (snap is None or all(0 <= s < 1 for s in snap))
        if not valid:
            return
        case = {"fn": "GeoBox.from_bbox", "line": line}
        if isinstance(shape, int):
            # single-number shape: the resolution is derived from the longest side, then as the resolution branch
            if l < r and b < t and shape > 0:
                rr = (r - l) / shape if (r - l) > (t - b) else (t - b) / shape
                if exact:
                    bbox_oracle(R, gb, bb, (rr, -rr), snap, tol, slack_rel, case, "from-bbox-int-shape")
                else:
                    rr = F(gb.affine.a)     # the rounded quotient the code actually used
                    bbox_oracle(R, gb, bb, (rr, -rr), snap, tol, slack_rel, case, "from-bbox-int-shape-float")
        elif res is not None:
            rxy = res if isinstance(res, tuple) else (res, -res)
            bbox_oracle(R, gb, bb, rxy, snap, tol, slack_rel, case, "from-bbox-res" if exact else "from-bbox-res-float")
        elif shape is not None and shape[0] > 0 and shape[1] > 0 and l < r and b < t:
            shape_oracle(R, gb, bb, shape, snap, slack_rel, case, "from-bbox-shape" if exact else "from-bbox-shape-float")

    deltas = [F(0), F(1, 256), F(-1, 256), F(1, 128), F(-1, 128), F(1, 64), F(-1, 64), F(1, 2), F(3, 8)]
    qs = sorted({F(i) + d for i in range(-1, 3) for d in deltas})
    # exhaustive-ish small domain: near-integer quotients on both sides of tol, both signs, all anchor kinds
    small_anchors = [Anch("s", "default"), Anch("s", "center"), Anch("s", "floating"), Anch("n", F(1, 4)),
                     Anch("x", (F(1, 2), F(127, 128)))]
    for rx, ry in ((F(1), F(-1)), (F(-3, 2), F(3, 4)), (F(10), F(10)), (F(-1, 8), F(-2))):
        for anch in small_anchors:
            for tol in (TOL2, F(1, 128), F(0))[: R.pick(2, 3)]:
                for _ in range(R.pick(120, 600)):
                    q = sorted(rng.sample(qs, 2))
                    p = sorted(rng.sample(qs, 2))
                    if rng.random() < 0.1:
                        q[1] = q[0]
                    bb = (q[0] * abs(rx), p[0] * abs(ry), q[1] * abs(rx), p[1] * abs(ry))
                    sn = anch.snap(False)
                    if axis_exact(bb[0], bb[2], rx, None if sn is None else sn[0]) and axis_exact(bb[1], bb[3], ry, None if sn is None else sn[1]):
                        call(bb, rng.random() < 0.15, None, (rx, ry), anch, tol, "small", True, F(0))
    # quotients a hair (1e-6 ... 1 ulp) away from integers / half-integers / the tolerance threshold, power-of-two pixels
    for _ in range(R.pick(2500, 25000)):
        rx = F(rng.choice([-1, 1])) * F(2) ** rng.randint(-6, 5)
        ry = F(rng.choice([-1, 1])) * F(2) ** rng.randint(-6, 5)
        anch = rng.choice([Anch("s", "default"), Anch("s", "center"), Anch("s", "floating"), Anch("n", F(1, 4)), Anch("x", (F(0), F(1, 2)))])
        tight = rng.random() < 0.1
        sn = anch.snap(tight)
        tol = rng.choice([TOL2, F(0), TOL6, F(1e-10)])

        def hair(off):
            k0 = rng.randint(-50, 50) + rng.choice([0, 0, 0.5])
            k1 = k0 + rng.randint(0, 40)
            c0 = near(float(k0)) + near(float(k0) + float(tol)) + near(float(k0) - float(tol))
            c1 = near(float(k1)) + near(float(k1) + float(tol)) + near(float(k1) - float(tol))
            q0, q1 = F(rng.choice(c0)) + off, F(rng.choice(c1)) + off
            return (q0, q1) if q0 <= q1 else (q1, q0)

        ql, qr = hair(F(0) if sn is None else sn[0])
        qb, qt = hair(F(0) if sn is None else sn[1])
        bb = (ql * abs(rx), qb * abs(ry), qr * abs(rx), qt * abs(ry))
        if axis_exact(bb[0], bb[2], rx, None if sn is None else sn[0]) and axis_exact(bb[1], bb[3], ry, None if sn is None else sn[1]):
            call(bb, tight, None, (rx, ry), anch, tol, "near-int", True, F(0))
        else:
            R.count("bbox:skipped-inexact")
    # random large (quotient construction), resolution branch
    for _ in range(R.pick(3000, 30000)):
        def rres():
            return F(rng.choice([-1, 1]) * rng.choice([1, 3, 5, 10, 25, 30, 1000, rng.randint(1, 1023)])) * F(2) ** rng.randint(-12, 6)
        scalar = rng.random() < 0.3
        rx = abs(rres()) if scalar else rres()
        ry = -rx if scalar else rres()
        fb = rng.choice([2, 7, 8])
        anch = rnd_anchor(rng, fb)
        tight = rng.random() < 0.15
        sn = anch.snap(tight)

        def span(res):
            q0 = F(rng.randint(-2**22, 2**22)) + rng.choice([0, 0, 1, -1]) * F(rng.randint(0, 2**fb), 2**fb)
            q1 = q0 + F(rng.randint(0, 2 ** rng.randint(0, 20))) + rng.choice([0, 0, 1, -1]) * F(rng.randint(0, 2**fb), 2**fb)
            q0, q1 = min(q0, q1), max(q0, q1)
            return q0 * abs(res), q1 * abs(res)

        l, r = span(rx)
        b, t = span(ry)
        tol = rng.choice(TOLS + [TOL2, F(1, 128)])
        if axis_exact(l, r, rx, None if sn is None else sn[0]) and axis_exact(b, t, ry, None if sn is None else sn[1]):
            call((l, b, r, t), tight, None, rx if scalar else (rx, ry), anch, tol, "rnd-res", True, F(0))
        else:
            R.count("bbox:skipped-inexact")
    # shape branch (ny, nx) and single-number shape
    for _ in range(R.pick(2500, 25000)):
        fb = rng.choice([2, 7])
        anch = rnd_anchor(rng, fb)
        tight = rng.random() < 0.15
        sn = anch.snap(tight)
        nx, ny = rng.randint(1, 2 ** rng.randint(0, 12)), rng.randint(1, 2 ** rng.randint(0, 12))
        px = F(rng.choice([1, 3, 5, 30, rng.randint(1, 255)])) * F(2) ** rng.randint(-10, 4)
        py = F(rng.choice([1, 3, 5, 30, rng.randint(1, 255)])) * F(2) ** rng.randint(-10, 4)
        l = (F(rng.randint(-2**20, 2**20)) + rng.choice([0, 0, 1, -1]) * F(rng.randint(0, 2**fb), 2**fb)) * px
        b = (F(rng.randint(-2**20, 2**20)) + rng.choice([0, 0, 1, -1]) * F(rng.randint(0, 2**fb), 2**fb)) * py
        r, t = l + nx * px, b + ny * py
        tol = rng.choice(TOLS + [TOL2, F(1, 128)])
        if rng.random() < 0.3:
            n = nx if (r - l) > (t - b) else ny
            rr = (r - l) / n if (r - l) > (t - b) else (t - b) / n
            ok = (axis_exact(l, r, rr, None if sn is None else sn[0]) and axis_exact(b, t, -rr, None if sn is None else sn[1])
                  and (r - l) != (t - b))
            if ok:
                call((l, b, r, t), tight, n, None, anch, tol, "int-shape", True, F(0))
        else:
            ok = axis_exact(l, r, px, None if sn is None else sn[0]) and axis_exact(b, t, -py, None if sn is None else sn[1])
            if ok:
                call((l, b, r, t), tight, (ny, nx), None, anch, tol, "shape", True, F(0))
    # argument errors / odd inputs, exact
    Z = Anch("s", "default")
    for (bb, tight, shape, res, anch, tol) in [
        ((0, 0, 1, 1), False, None, None, Z, TOL2), ((0, 0, 1, 1), False, (0, 3), None, Z, TOL2),
        ((0, 0, 1, 1), False, (3, 0), None, Z, TOL2), ((0, 0, 1, 1), False, 0, None, Z, TOL2),
        ((0, 0, 1, 0), False, 4, None, Z, TOL2), ((0, 0, 0, 1), False, 4, None, Z, TOL2),
        ((0, 0, 0, 1), False, (2, 2), None, Z, TOL2), ((0, 0, 0, 1), True, (2, 2), None, Z, TOL2),
        ((0, 0, 1, 1), False, None, F(0), Z, TOL2), ((0, 0, 1, 1), True, None, F(0), Z, TOL2),
        ((2, 0, 1, 1), False, None, F(1), Z, TOL2), ((2, 0, 1, 1), True, None, F(1), Z, TOL2),
        ((0, 0, 4, 4), False, None, F(1), Anch("n", F(1)), TOL2), ((0, 0, 4, 4), False, None, F(1), Anch("n", F(-1, 2)), TOL2),
        ((0, 0, 4, 4), False, None, F(1), Anch("x", (F(1, 4), F(3, 2))), TOL2),
        ((0, 0, 4, 2), False, 4, F(7), Z, TOL2), ((0, 0, 2, 4), False, 4, (F(7), F(7)), Z, TOL2),
        ((0, 0, 4, 4), False, 4, None, Z, TOL2), ((0, 0, 4, 4), False, (4, 4), F(2), Z, TOL2),
        ((0, 0, 0, 0), False, None, F(1), Z, TOL2), ((F(1, 2), F(1, 2), F(1, 2), F(1, 2)), False, None, F(1), Anch("s", "center"), TOL2),
    ]:
        call(tuple(F(v) for v in bb), tight, shape, res, anch, tol, "edge-case", True, F(0))

    # ---------------- from_geopolygon (exact): reduces to the bounding box of the vertices
    def poly_case(pts, rx, ry, res, align, shape, tight, anch, tol, mode, exact=True):
        xs, ys = [p[0] for p in pts], [p[1] for p in pts]
        bb = (min(xs), min(ys), max(xs), max(ys))
        if align is not None and align != (0, 0):
            sn = None if tight else (align[0] / abs(rx), align[1] / abs(ry))
        elif align is not None:
            sn = None if tight else (F(0), F(0))
        else:
            sn = anch.snap(tight)
        if shape is None:
            ok = axis_exact(bb[0], bb[2], rx, None if sn is None else sn[0]) and axis_exact(bb[1], bb[3], ry, None if sn is None else sn[1])
        else:
            px, py = (bb[2] - bb[0]) / shape[1], (bb[3] - bb[1]) / shape[0]
            ok = isx(px) and isx(py) and axis_exact(bb[0], bb[2], px, None if sn is None else sn[0]) and axis_exact(
                bb[1], bb[3], -py, None if sn is None else sn[1])
        if exact and (not ok or not all(isx(v) for q in pts for v in q)):
            R.count("poly:skipped-inexact")
            return
        out = []
        kw = dict(shape=shape, tight=tight, tol=float(tol))
        res_py = None if res is None else resxy_(float(res[0]), float(res[1]))

        def fpoly():
            poly = geom.polygon([(float(x), float(y)) for x, y in pts] + [(float(pts[0][0]), float(pts[0][1]))], CRS)
            kw2 = dict(kw, anchor=anch.py(GB, xy_))
            if align is not None:
                kw2["align"] = xy_(float(align[0]), float(align[1]))
            gb = GeoBox.from_geopolygon(poly, res_py, **kw2)
            out.append((gb, poly))
            return gb_s(gb)

        line = (f"c08 poly {list_s(pts, lambda q: frac_s(q[0]) + ';' + frac_s(q[1]))} {res_tok(res)} "
                f"{'N' if align is None else frac_s(align[0]) + ';' + frac_s(align[1])} {shape_tok(shape)} {bool_s(tight)} {anch.tok()} {frac_s(tol)}")
        case = {"fn": "GeoBox.from_geopolygon", "line": line}
        if exact:
            R.corr(line, fpoly, sig=f"poly|{mode}|{'float' if sn is None else 'snap'}")
        else:
            o_ = guarded(fpoly)
            if not out:
                R.oracle(False, "from-geopolygon-raises", case, o_, sig="raises")
        # two-sided: exact re-computation on the vertex bounds with the SAME options (incl. tol)
        want = ref_from_bbox(bb, tight, shape, res, sn, tol) if exact else "ERR"
        if exact and (out or want != "ERR"):
            got = "ERR" if not out else (int(out[0][0].shape[0]), int(out[0][0].shape[1]), [F(float(v)) for v in tuple(out[0][0].affine)[:6]])
            R.oracle(got == want, "from-geopolygon-differs-from-exact-recomputation", case,
                     f"from_geopolygon = {gb_s(out[0][0]) if out else 'raised'} but exact arithmetic on the vertex bounds gives "
                     f"{want if want == 'ERR' else (want[0], want[1], [float(v) for v in want[2]])}", sig="poly-2sided")
        if out:
            gb, poly = out[0]
            # equivalence: the same options through from_bbox on the polygon's bounding box
            if align is None or align == (0, 0):
                an = GB.AnchorEnum.EDGE if align is not None else anch.py(GB, xy_)
            else:
                an = xy_(float(align[0] / abs(rx)), float(align[1] / abs(ry)))
            eq = guarded(lambda: gb_s(GeoBox.from_bbox(poly.boundingbox, resolution=res_py, anchor=an, **kw)))
            R.oracle(eq == gb_s(gb), "from-geopolygon-differs-from-from-bbox", case,
                     f"from_geopolygon = {gb_s(gb)} but from_bbox(poly.boundingbox, same options) = {eq}", sig="poly-equiv")
            if shape is None:
                sl_ = F(0) if exact else F(1, 10**9)
                bbox_oracle(R, gb, bb, (rx, ry), sn, tol, sl_, case, "from-geopolygon" if exact else "from-geopolygon-float")
                A, (ny, nx) = gb.affine, gb.shape
                xlo, xhi = sorted([F(A.c), F(A.c) + nx * F(A.a)])
                ylo, yhi = sorted([F(A.f), F(A.f) + ny * F(A.e)])
                sxx, syy = max(abs(bb[0]), abs(bb[2]), abs(rx)) * sl_, max(abs(bb[1]), abs(bb[3]), abs(ry)) * sl_
                inside = all(xlo - tol * abs(rx) - sxx <= x <= xhi + tol * abs(rx) + sxx
                             and ylo - tol * abs(ry) - syy <= y <= yhi + tol * abs(ry) + syy for x, y in pts)
                R.oracle(inside, "from-geopolygon-vertex-outside", case, f"extent x[{float(xlo)},{float(xhi)}] y[{float(ylo)},{float(yhi)}]",
                         sig="poly-covers")
            else:
                shape_oracle(R, gb, bb, shape, sn, F(0) if exact else F(1, 10**9), case,
                             "from-geopolygon-shape" if exact else "from-geopolygon-shape-float")

    for _ in range(R.pick(800, 8000)):
        rx = F(rng.choice([-1, 1]) * rng.choice([1, 3, 10, 30])) * F(2) ** rng.randint(-6, 4)
        ry = F(rng.choice([-1, 1]) * rng.choice([1, 3, 10, 30])) * F(2) ** rng.randint(-6, 4)
        k = rng.randint(3, 6)
        pts = [(F(rng.randint(-2**12, 2**12), 4) * abs(rx), F(rng.randint(-2**12, 2**12), 4) * abs(ry)) for _ in range(k)]
        if len({p[0] for p in pts}) < 2 or len({p[1] for p in pts}) < 2:
            continue
        anch = rnd_anchor(rng, 2)
        tight = rng.random() < 0.15
        mode = rng.choice(["res", "res", "align", "align0", "shape"])
        align = None
        res, shape = (rx, ry), None
        if mode == "align":
            align = (F(rng.randint(0, 3), 4) * abs(rx), F(rng.randint(0, 3), 4) * abs(ry))
        elif mode == "align0":
            align = (F(0), F(0))
        elif mode == "shape":
            res, shape = None, (rng.randint(1, 64), rng.randint(1, 64))
            # make the vertex bounds an exact multiple of the shape: two extreme vertices, the rest inside
            x0, y0 = pts[0]
            w, hgt = shape[1] * abs(rx), shape[0] * abs(ry)
            pts = [(x0, y0), (x0 + w, y0 + hgt)] + [(x0 + F(rng.randint(0, 4), 4) * w, y0 + F(rng.randint(0, 4), 4) * hgt)
                                                     for _ in range(k - 2)]
        tol = rng.choice(TOLS)
        poly_case(pts, rx, ry, res, align, shape, tight, anch, tol, mode)

    # ---------------- full option matrix through every forwarding entry point
    # from_bbox, from_geopolygon (-> from_bbox) and zoom_to(resolution=) (-> from_bbox(tight=True)) are driven with
    # every tolerance (also non-default), every anchor kind, both signs per axis, and region edges placed
    # tol*{0.5, 2} and 0.01*{0.5, 2} of a pixel on either side of a grid line (quotient construction with
    # power-of-two pixels, so every float operation is exact); judged by the model correspondence, the two-sided
    # exact re-computation and the equivalence from_geopolygon(poly, ..) == from_bbox(poly.boundingbox, ..)
    m_anchors = [Anch("s", "default"), Anch("s", "center"), Anch("e", "floating"), Anch("n", F(1, 4)), Anch("x", (F(0), F(1, 2)))]

    def edge_q(tol, k, force=None):
        """post-anchor quotient k + delta, delta in {0, +-tol*0.5, +-tol*2, +-0.005, +-0.02} pixels"""
        ds = [0.0]
        for m in (0.5, 2.0):
            ds += [float(tol) * m, -float(tol) * m, 0.01 * m, -0.01 * m]
        d = ds[force % len(ds)] if force is not None else rng.choice(ds)
        return F(float(k) + d)

    n_matrix = 0
    for tol in TOLS:
        for anch in m_anchors:
            for tight in (False, True):
                if tight and anch.val not in ("default", "center"):
                    continue
                sn = anch.snap(tight)
                for sweep in range(R.pick(36, 144)):      # 36 = 4 edges x 9 offsets: one full systematic sweep
                    rx = F(rng.choice([-1, 1])) * F(2) ** rng.randint(-5, 4)
                    ry = F(rng.choice([-1, 1])) * F(2) ** rng.randint(-5, 4)
                    kx0, ky0 = rng.randint(-30, 30), rng.randint(-30, 30)
                    kx1, ky1 = kx0 + rng.randint(1, 12), ky0 + rng.randint(1, 12)
                    edge = sweep % 4          # the edge swept systematically through the nine offsets
                    us = [edge_q(tol, k, force=(sweep // 4) if i == edge else None) for i, k in enumerate((kx0, ky0, kx1, ky1))]
                    ax, ay = (F(0), F(0)) if sn is None else sn
                    l, b, r, t = (us[0] + ax) * abs(rx), (us[1] + ay) * abs(ry), (us[2] + ax) * abs(rx), (us[3] + ay) * abs(ry)
                    if not (axis_exact(l, r, rx, None if sn is None else sn[0]) and axis_exact(b, t, ry, None if sn is None else sn[1])):
                        R.count("matrix:skipped-inexact")
                        continue
                    n_matrix += 1
                    scalar = rx > 0 and ry == -rx
                    call((l, b, r, t), tight, None, rx if scalar else (rx, ry), anch, tol, "matrix", True, F(0))
                    # polygon with exactly these bounds (each side touched by one vertex)
                    pts = rng.choice([[(l, b), (r, b), (r, t)], [(l, b), (r, t), (l, t)], [(l, t), (r, b), (r, t), (l, b)]])
                    if all(isx(v) for q in pts for v in q):
                        poly_case(pts, rx, ry, (rx, ry), None, None, tight, anch, tol, "matrix")
                        if anch.kind == "x" or anch.kind == "n":
                            # the deprecated align= spelling of the same anchor
                            poly_case(pts, rx, ry, (rx, ry), (sn[0] * abs(rx), sn[1] * abs(ry)) if sn else (F(0), F(0)), None,
                                      tight, Anch("s", "default"), tol, "matrix-align")
                    # shape-driven with the same corner: span is an exact multiple of the pixel
                    nxs, nys = rng.randint(1, 40), rng.randint(1, 40)
                    r2, t2 = l + nxs * abs(rx), b + nys * abs(ry)
                    if axis_exact(l, r2, abs(rx), None if sn is None else sn[0]) and axis_exact(b, t2, -abs(ry), None if sn is None else sn[1]):
                        call((l, b, r2, t2), tight, (nys, nxs), None, anch, tol, "matrix-shape", True, F(0))
                        pts2 = [(l, b), (r2, t2), (l, t2)]
                        poly_case(pts2, rx, ry, None, None, (nys, nxs), tight, anch, tol, "matrix-shape")
    R.count("matrix:cases", n_matrix)

    # ---------------- shape-driven branches with span/shape a hair away from an integer or a unit fraction
    # pixel size k*(1 +- eps) and (1/k)*(1 +- eps), eps in {1e-6 .. 1e-12} (and the dyadic 2^-20 .. 2^-40, for which
    # every operation is exact so the model is compared too), LARGE shapes (2e4 .. 1e6 px: nothing is allocated),
    # through from_bbox (ny,nx), from_bbox single-number shape, from_geopolygon and zoom_to(shape)
    big_shapes = [20000, 30000, 40000, 2**15, 2**16, 100000, 2**17, 250000, 2**18, 500000, 2**20, 1000000]
    n_anchors = [Anch("s", "default"), Anch("s", "center"), Anch("e", "floating"), Anch("n", F(1, 4))]
    eps_list = [F(1e-6), F(1e-7), F(1e-9), F(1e-12), F(1, 2**20), F(1, 2**23), F(1, 2**30), F(1, 2**40)]
    for rep in range(R.pick(3, 12)):
        for k in (1, 2, 3, 10, 30, 100):
            for inv in (False, True):
                for sg in (1, -1):
                    for eps in eps_list:
                        base = 1.0 / k if inv else float(k)
                        px = F(base * float(1 + sg * eps))             # the double pixel size actually aimed at
                        py = F((1.0 / rng.choice([1, 2, 3, 10]) if rng.random() < 0.5 else float(rng.choice([1, 2, 3, 10, 30])))
                               * float(1 + rng.choice([1, -1]) * rng.choice(eps_list)))
                        nx, ny = rng.choice(big_shapes), rng.choice(big_shapes)
                        anch = rng.choice(n_anchors)
                        tight = rng.random() < 0.4
                        sn = anch.snap(tight)
                        tol = rng.choice(TOLS)
                        l = F(float(rng.choice([0, 500000, -7, rng.randint(-10**6, 10**6)]) * px)) if rng.random() < 0.7 else F(500000.0)
                        b = F(float(rng.choice([0, 6000000, 13, rng.randint(-10**6, 10**6)]) * py))
                        if eps.denominator <= 2**40 and (not inv or k in (1, 2)) and rng.random() < 0.8:
                            # dyadic pixel size: choose operands so that every float operation is exact (model compared too)
                            nx, ny = 2 ** rng.randint(15, 20), 2 ** rng.randint(15, 20)
                            py = F(2) ** rng.randint(-2, 3) * (1 + rng.choice([1, -1]) * F(1, 2 ** rng.choice([20, 23, 30])))
                            l, b = rng.choice([0, 3, -7, 500]) * px, rng.choice([0, 5, -11, 6000]) * py
                        r, t = F(float(l) + float(nx * px)), F(float(b) + float(ny * py))
                        bb = (l, b, r, t)
                        ex = (isx((r - l) / nx) and isx((t - b) / ny) and isx(r - l) and isx(t - b)
                              and axis_exact(l, r, (r - l) / nx, None if sn is None else sn[0])
                              and axis_exact(b, t, -(t - b) / ny, None if sn is None else sn[1]))
                        tag = "shape-near-int" + ("" if ex else "-float")
                        sl = F(0) if ex else F(1, 10**9)
                        call(bb, tight, (ny, nx), None, anch, tol, tag, ex, sl)
                        poly_case(rng.choice([[(l, b), (r, b), (r, t)], [(l, t), (r, b), (r, t), (l, b)]]), None, None, None, None,
                                  (ny, nx), tight, anch, tol, tag, exact=ex)
                        # single-number shape: square pixels from the longest side
                        if (r - l) != (t - b):
                            n = nx if (r - l) > (t - b) else ny
                            rr = (r - l) / n if (r - l) > (t - b) else (t - b) / n
                            ex1 = (isx(rr) and axis_exact(l, r, rr, None if sn is None else sn[0]) and axis_exact(b, t, -rr, None if sn is None else sn[1]))
                            call(bb, tight, n, None, anch, tol, "int-" + ("shape-near-int" if ex1 else "shape-near-int-float"), ex1,
                                 F(0) if ex1 else F(1, 10**9))
                        # zoom_to(shape): same region, new shape; pixel = old pixel * N/n, origin kept, far edge kept
                        Nx0, Ny0 = rng.choice([1, 7, 100, 4096]), rng.choice([1, 7, 100, 4096])
                        if rng.random() < 0.6:
                            # integer shape ratios N/n a hair away from k or 1/k (needs > 1e6 px on the larger side)
                            big = rng.choice([2000000, 3000000, 5000000, 10000000])
                            d1, d2 = rng.choice([1, -1, 2, -3]), rng.choice([1, -1, 2, -3])
                            if inv:
                                Nx0, Ny0, nx, ny = big, big, k * big + d1, k * big + d2        # N/n = (1/k)(1 -+ ~1/(k N))
                            else:
                                Nx0, Ny0, nx, ny = k * big + d1, k * big + d2, big, big        # N/n = k +- d/n
                            r, t = F(float(l) + float(nx * px)), F(float(b) + float(ny * py))
                        a0, e0 = float((r - l) / Nx0), -float((t - b) / Ny0)
                        from affine import Affine as _Aff
                        src = GeoBox((Ny0, Nx0), _Aff(a0, 0, float(l), 0, e0, float(t)), CRS)
                        case = {"fn": "GeoBox.zoom_to(shape)", "src": gb_s(src), "shape": [ny, nx]}
                        try:
                            z = src.zoom_to((ny, nx))
                            wx, wy = F(a0) * Nx0 / nx, F(e0) * Ny0 / ny
                            zx, zy = F(z.affine.a), F(z.affine.e)
                            ok = (tuple(z.shape) == (ny, nx) and abs(zx - wx) <= abs(wx) * ULP and abs(zy - wy) <= abs(wy) * ULP
                                  and z.affine.b == 0 and z.affine.d == 0)
                            R.oracle(ok, "zoom-to-shape-pixel-size", case,
                                     f"zoom_to({(ny, nx)}) has shape {tuple(z.shape)} pixel ({z.affine.a!r},{z.affine.e!r}); "
                                     f"old pixel * N/n = ({float(wx)!r},{float(wy)!r})", sig="zoom-shape-pixel")
                            fx0, fy0 = F(a0) * Nx0 + l, F(e0) * Ny0 + t
                            fx1, fy1 = zx * nx + F(z.affine.c), zy * ny + F(z.affine.f)
                            ok = (F(z.affine.c) == l and F(z.affine.f) == t
                                  and abs(fx1 - fx0) <= (abs(fx0) + abs(l)) * ULP * 4 and abs(fy1 - fy0) <= (abs(fy0) + abs(t)) * ULP * 4)
                            R.oracle(ok, "zoom-to-shape-region-changed", case,
                                     f"origin ({z.affine.c!r},{z.affine.f!r}) far corner ({float(fx1)!r},{float(fy1)!r}); the source covers "
                                     f"({float(l)!r},{float(t)!r})..({float(fx0)!r},{float(fy0)!r}): far corner off by "
                                     f"({float((fx1 - fx0) / abs(wx)):+.4g},{float((fy1 - fy0) / abs(wy)):+.4g}) new px", sig="zoom-shape-region")
                            # single number: longest side
                            nmax = max(Nx0, Ny0)
                            m = rng.choice(big_shapes)
                            zi = src.zoom_to(m)
                            wxi, wyi = F(a0) * nmax / m, F(e0) * nmax / m
                            ok = (max(zi.shape) == m and abs(F(zi.affine.a) - wxi) <= abs(wxi) * ULP * 2
                                  and abs(F(zi.affine.e) - wyi) <= abs(wyi) * ULP * 2
                                  and F(zi.affine.c) == l and F(zi.affine.f) == t)
                            cov = (F(zi.affine.a) * zi.shape[1] + l >= fx0 - (abs(fx0) + abs(l)) * ULP * 4
                                   and F(zi.affine.e) * zi.shape[0] + t <= fy0 + (abs(fy0) + abs(t)) * ULP * 4)
                            R.oracle(ok and cov, "zoom-to-int-shape-contract", dict(case, shape=m),
                                     f"zoom_to({m}) -> shape {tuple(zi.shape)} pixel ({zi.affine.a!r},{zi.affine.e!r}), "
                                     f"expected pixel ({float(wxi)!r},{float(wyi)!r}), covers={cov}", sig="zoom-int-shape")
                        except Exception as exn:  # pylint: disable=broad-except
                            R.oracle(False, "zoom-to-shape-raises", case, repr(exn), sig="raises")

    # zoom_to(resolution=) forwards to from_bbox(self.boundingbox, resolution=, tight=True) with the default tol
    from affine import Affine
    for _ in range(R.pick(1500, 15000)):
        rx = F(rng.choice([-1, 1])) * F(2) ** rng.randint(-5, 4)
        ry = F(rng.choice([-1, 1])) * F(2) ** rng.randint(-5, 4)
        nx0, ny0 = 2 ** rng.randint(0, 8), 2 ** rng.randint(0, 8)
        ux, uy = edge_q(TOL2, rng.randint(1, 40)), edge_q(TOL2, rng.randint(1, 40))      # new span in new pixels
        a0, e0 = ux * abs(rx) / nx0, -(uy * abs(ry) / ny0)
        l0, t0 = F(rng.randint(-64, 64)) * abs(rx), F(rng.randint(-64, 64)) * abs(ry)
        if not all(isx(v) for v in (a0, e0, l0 + nx0 * a0, t0 + ny0 * e0)):
            continue
        src = GeoBox((ny0, nx0), Affine(float(a0), 0, float(l0), 0, float(e0), float(t0)), CRS)
        bbr = src.boundingbox
        bb = tuple(F(float(v)) for v in (bbr.left, bbr.bottom, bbr.right, bbr.top))
        if not (axis_exact(bb[0], bb[2], rx, None) and axis_exact(bb[1], bb[3], ry, None)):
            R.count("zoom:skipped-inexact")
            continue
        zo = []

        def fz():
            g = src.zoom_to(resolution=resxy_(float(rx), float(ry)))
            zo.append(g)
            return gb_s(g)

        line = (f"c08 bbox {frac_s(bb[0])} {frac_s(bb[1])} {frac_s(bb[2])} {frac_s(bb[3])} T N {res_tok((rx, ry))} s:default {frac_s(TOL2)}")
        R.corr(line, fz, sig="zoom-to-resolution")
        if zo:
            case = {"fn": "GeoBox.zoom_to(resolution=)", "line": line, "src": gb_s(src)}
            want = ref_from_bbox(bb, True, None, (rx, ry), None, TOL2)
            got = (int(zo[0].shape[0]), int(zo[0].shape[1]), [F(float(v)) for v in tuple(zo[0].affine)[:6]])
            R.oracle(got == want, "zoom-to-resolution-differs-from-exact-recomputation", case,
                     f"zoom_to(resolution=) = {gb_s(zo[0])} but from_bbox(boundingbox, tight=True, tol=0.01) in exact arithmetic gives "
                     f"{want if want == 'ERR' else (want[0], want[1], [float(v) for v in want[2]])}", sig="zoom-2sided")
            eq = guarded(lambda: gb_s(GeoBox.from_bbox(bbr, resolution=resxy_(float(rx), float(ry)), tight=True)))
            R.oracle(eq == gb_s(zo[0]), "zoom-to-resolution-differs-from-from-bbox", case,
                     f"zoom_to(resolution=) = {gb_s(zo[0])} but from_bbox(boundingbox, resolution=, tight=True) = {eq}", sig="zoom-equiv")
            bbox_oracle(R, zo[0], bb, (rx, ry), None, TOL2, F(0), case, "zoom-to-resolution")

    # ---------------- non-dyadic pixel sizes, region edges EXACTLY on k*|res| (+ anchor) as doubles and one ulp either side
    # (float stream): two-sided against the documented formula evaluated in binary64 in the code's operation order,
    # the property predicates with slack, and from_geopolygon == from_bbox(poly.boundingbox) for the same options
    fl_anchors = [Anch("s", "default"), Anch("s", "center"), Anch("e", "floating"), Anch("n", F(0.25)), Anch("x", (F(0.1), F(0.5)))]
    for _ in range(R.pick(2500, 25000)):
        rxf, ryf = rng.choice([-1, 1]) * rng.choice(NONDY), rng.choice([-1, 1]) * rng.choice(NONDY)
        anch = rng.choice(fl_anchors)
        tight = rng.random() < 0.15
        sn = anch.snap(tight)
        tolf = rng.choice([0.0, 0.0, 1e-6, 0.01, 1e-3])

        def ends(rf, offp):
            r_ = abs(rf)
            o = 0.0 if offp is None else float(offp) * r_
            k0 = rng.choice([0, 1, 3, 10, 49, -7, rng.randint(-2000, 2000)])
            k1 = k0 + rng.choice([1, 2, 10, 100, rng.randint(1, 5000)])
            a = rng.choice(ulp3(k0 * r_ + o) + ulp3(k0 * r_))
            c = rng.choice(ulp3(k1 * r_ + o) + ulp3(k1 * r_))
            return (a, c) if a <= c else (c, a)

        l, r = ends(rxf, None if sn is None else sn[0])
        b, t = ends(ryf, None if sn is None else sn[1])
        bbF = tuple(F(v) for v in (l, b, r, t))
        gx = ref_snap_grid_float(l, r, rxf, None if sn is None else float(sn[0]), tolf)
        gy = ref_snap_grid_float(b, t, ryf, None if sn is None else float(sn[1]), tolf)
        want = "ERR" if "ERR" in (gx, gy) else (gy[1], gx[1], (rxf, 0.0, gx[0], 0.0, ryf, gy[0]))
        try:
            g = GeoBox.from_bbox((l, b, r, t), CRS, tight=tight, resolution=resxy_(rxf, ryf), anchor=anch.py(GB, xy_), tol=tolf)
            got = (int(g.shape[0]), int(g.shape[1]), tuple(float(v) for v in tuple(g.affine)[:6]))
        except Exception:  # pylint: disable=broad-except
            got = "ERR"
        R.oracle(got == want, "from-bbox-differs-from-float-reference",
                 {"fn": "GeoBox.from_bbox", "floats": repr(((l, b, r, t), (rxf, ryf), anch.tok(), tight, tolf))},
                 f"from_bbox = {got} but the documented formula in binary64 gives {want}", sig="bbox-float-ref")
        call(bbF, tight, None, (F(rxf), F(ryf)), anch, F(tolf), "nondyadic-float", False, F(1, 10**9))
        if rng.random() < 0.3:
            poly_case([(bbF[0], bbF[1]), (bbF[2], bbF[1]), (bbF[2], bbF[3])], F(rxf), F(ryf), (F(rxf), F(ryf)), None, None, tight, anch,
                      F(tolf), "nondyadic-float", exact=False)

    # ---------------- float stream: arbitrary doubles, Fraction oracle only
    for _ in range(R.pick(3000, 30000)):
        mag = 10.0 ** rng.uniform(-6, 8)
        def fres():
            return rng.choice([-1, 1]) * rng.choice([mag, 30.0, 0.00025, 1 / 3, 10.0, 0.1, 100.0, mag * rng.uniform(0.5, 2)])
        scalar = rng.random() < 0.3
        rx = abs(fres()) if scalar else fres()
        ry = -rx if scalar else fres()
        tolf = rng.choice([0.01, 0.01, 1e-6, 1e-3, 0.1, 0.0])

        def fspan(res):
            rr = abs(res)
            npx = rng.choice([0, 1, 2, 5, 100, 10 ** rng.randint(1, 6)])
            base = rng.choice([0.0, rng.uniform(-1e3, 1e3) * rr, rng.randint(-10**6, 10**6) * rr])
            d0, d1 = (rng.choice([0, 0, 1, -1]) * tolf * rng.choice([0.0, 0.5, 0.99, 1.01, 2.0]) * rr + rng.choice([0, 0, rng.random() * rr])
                      for _ in range(2))
            a, b_ = base + d0, base + npx * rr + d1
            return (a, b_) if a <= b_ else (b_, a)

        l, r = fspan(rx)
        b, t = fspan(ry)
        anch = rnd_anchor(rng, 8) if rng.random() < 0.7 else Anch("x", (F(rng.random()), F(rng.random())))
        tight = rng.random() < 0.15
        bbF = tuple(F(v) for v in (l, b, r, t))
        mode = rng.random()
        if mode < 0.6:
            call(bbF, tight, None, F(rx) if scalar else (F(rx), F(ry)), anch, F(tolf), "float-res", False, F(1, 10**9))
        elif l < r and b < t:
            if mode < 0.85:
                call(bbF, tight, (rng.randint(1, 5000), rng.randint(1, 5000)), None, anch, F(tolf), "float-shape", False, F(1, 10**9))
            else:
                call(bbF, tight, rng.randint(1, 5000), None, anch, F(tolf), "float-int-shape", False, F(1, 10**9))
    sec_utm_branch_exact(R)
    sec_forms(R)
    sec_crs_invariance(R)
    sec_nonfinite(R)
    sec_spelling(R)
    sec_cross_crs(R)
    sec_utm_shortcut(R)
    R.exhaustive = False


def replay(R: Run, rec) -> int:
    GB, GeoBox, _norm_anchor, geom, resxy_, xy_ = _import()
    case = rec.get("case") or {}
    key = rec.get("key", "")
    print("replay key:", key)
    print("replay case:", case)
    line = case.get("line")
    if line:
        print("model:", run_driver("C08", [line]))
    # re-run the generators with the recorded seed/tier and look for the same case
    R2 = Run("C08", rec.get("tier", "quick"), int(rec.get("seed", 0)))
    run(R2)
    bad = [f for f in R2.oracle_failures if f["key"] == key and (line is None or f["case"].get("line") == line)]
    if not bad:
        bad = [f for f in R2.oracle_failures if f["key"] == key]
    for f in bad[:3]:
        print("FAILS:", f["key"], f["case"], f["what"])
    return 1 if bad else 0
