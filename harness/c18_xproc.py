"""
Cross-process stage of C18.

The cluster protocol of `DelayedS3Writer` coordinates *independent interpreter processes*
through names: the shared `Variable` ("MPUpload-…") and the `Lock` ("MPULock-…") are found by
name on the scheduler, so every identifier must be a pure function of the writer's value,
identical in every interpreter (whatever its hash salt, however the writer got there).  A
single process cannot see a violation of that, so this module is run as a child process with
distinct PYTHONHASHSEED values; each child reports, for several ways of obtaining the writer
(unpickled as shipped by the client - prepared and not prepared -, rebuilt from the same
arguments), the names the REAL code asks the (fake, recording) scheduler for during a first
write, `_build_name` for every prefix and the dask tokens.

Mode "realcluster" runs a first write, a second write through a pickled copy and a finalise
through a deep copy on a REAL in-process `distributed` cluster (real Variable, real Lock),
sequentially - no race, only the library's API - with a fake S3 client.
"""
from __future__ import annotations

import base64
import json
import os
import pickle
import subprocess
import sys
from typing import Any, Dict, List, Optional

PREFIXES = ["MPUpload", "MPULock"]


def names_of(writer) -> Dict[str, Any]:
    from dask.base import tokenize

    from .c18_sched import build_name

    out = {p: build_name(writer, p) for p in PREFIXES}
    out["token"] = tokenize(writer)
    out["mpu_token"] = tokenize(writer.mpu)
    v = getattr(writer, "_shared_var", None)
    out["shipped_var"] = None if v is None else v.name
    return out


def first_write_names(writer) -> Dict[str, Any]:
    """run the real first write of this process against recording fakes; which Variable / Lock
    names did it ask for?"""
    import distributed
    from odc.geo.cog import _s3

    from . import c18_sched as S

    cl = S.CURRENT["cluster"]
    saved = (distributed.get_client, distributed.Variable, distributed.Lock, _s3.MultiPartUpload.s3_client)
    distributed.get_client, distributed.Variable, distributed.Lock = S.fake_get_client, S.FakeVariable, S.FakeDLock
    _s3.MultiPartUpload.s3_client = lambda self: S.CURRENT["s3"]
    try:
        writer(1, b"x")
        err = None
    except Exception as e:  # pylint: disable=broad-except
        err = f"{type(e).__name__}: {e}"
    finally:
        distributed.get_client, distributed.Variable, distributed.Lock, _s3.MultiPartUpload.s3_client = saved
    # the names the real code asked the (recording) scheduler for - read at the external boundary, not off the writer
    return {
        "var": (list(cl.var_names) or [None])[-1],
        "lock": (list(cl.locks) or [None])[-1],
        "error": err,
    }


def _fresh_world():
    from . import c18_sched as S

    S.CURRENT.update(sched=S.Sched(), s3=S.FakeS3(), cluster=S.Cluster(), local=False, xnames=None)


def child_names(req) -> Dict[str, Any]:
    from odc.geo.cog import _s3

    res: Dict[str, Any] = {"hashseed": os.environ.get("PYTHONHASHSEED"), "pid": os.getpid(), "objects": []}
    for ob in req["objects"]:
        one: Dict[str, Any] = {}
        for nm, b64 in ob["pickles"].items():
            _fresh_world()
            w = pickle.loads(base64.b64decode(b64))
            one[nm] = {**names_of(w), **first_write_names(w)}
        _fresh_world()
        w = _s3.DelayedS3Writer(_s3.MultiPartUpload(ob["bucket"], ob["key"]), dict(ob["kw"]))
        one["rebuilt"] = {**names_of(w), **first_write_names(w)}
        res["objects"].append(one)
    return res


def child_realcluster(req) -> Dict[str, Any]:
    import copy
    import warnings

    warnings.filterwarnings("ignore")
    import distributed
    from distributed import Client

    from odc.geo.cog import _s3

    class PatientVariable(distributed.Variable):
        """the real Variable; only the 0.1 s patience of `_safe_get` is stretched so that a loaded
        machine cannot fake a lost update (all variables read here are set)"""

        def get(self, timeout=None):
            return super().get(timeout=max(float(timeout or 0), 20.0))

    calls: List[Any] = []

    class S3:
        n = 0

        def create_multipart_upload(self, **kw):
            S3.n += 1
            calls.append(["create", f"id{S3.n}"])
            return {"UploadId": f"id{S3.n}"}

        def upload_part(self, **kw):
            calls.append(["upload", kw["PartNumber"], kw["UploadId"]])
            return {"ETag": f"etag{kw['PartNumber']}"}

        def complete_multipart_upload(self, **kw):
            calls.append(["complete", kw["UploadId"]])
            return {"ETag": "final"}

    fake = S3()
    res: Dict[str, Any] = {"calls": calls, "error": None, "cluster": None}
    try:
        client = Client(processes=False, n_workers=1, threads_per_worker=2, dashboard_address=None)
    except Exception as e:  # pylint: disable=broad-except
        res["cluster"] = f"unavailable: {type(e).__name__}: {e}"
        return res
    res["cluster"] = "inproc"
    try:
        distributed.Variable = PatientVariable
        _s3.MultiPartUpload.s3_client = lambda self: fake
        mpu = _s3.MultiPartUpload(req["bucket"], req["key"])
        w = mpu.writer(dict(req["kw"]))  # the real `_dask_client` finds the client, `prep_client` runs
        p1 = w(1, b"x" * 10)
        p2 = pickle.loads(pickle.dumps(w))(2, b"y")
        res["final"] = repr(copy.deepcopy(w).finalise([p1, p2]))
    except Exception as e:  # pylint: disable=broad-except
        res["error"] = f"{type(e).__name__}: {e}"
    finally:
        try:
            client.close()
        except Exception:  # pylint: disable=broad-except
            pass
    return res


def child_main():
    req = json.load(sys.stdin)
    sys.path[:0] = req["path"]
    import warnings

    warnings.filterwarnings("ignore")
    res = child_names(req) if req["mode"] == "names" else child_realcluster(req)
    print("RESULT " + json.dumps(res))


# --------------------------------------------------------------------------- parent side
def spawn(req: Dict[str, Any], hashseed: Optional[str]) -> subprocess.Popen:
    verif = os.path.dirname(os.path.dirname(os.path.abspath(__file__)))
    path = [verif] + ([os.environ["ODC_GEO_REPO"]] if os.environ.get("ODC_GEO_REPO") else [])
    # the odc-geo tree under test must come first, exactly as in check.py
    req = dict(req, path=list(reversed(path)))
    env = dict(os.environ)
    if hashseed is None:
        env.pop("PYTHONHASHSEED", None)
    else:
        env["PYTHONHASHSEED"] = hashseed
    code = ("import sys, json; sys.path[:0] = %r; from harness.c18_xproc import child_main; child_main()"
            % (list(reversed(path)),))
    p = subprocess.Popen([sys.executable, "-c", code], stdin=subprocess.PIPE, stdout=subprocess.PIPE,
                         stderr=subprocess.PIPE, text=True, env=env, cwd="/")
    p.stdin.write(json.dumps(req))
    p.stdin.close()
    return p


def collect(p: subprocess.Popen, timeout: float) -> Dict[str, Any]:
    try:
        p.wait(timeout=timeout)
    except subprocess.TimeoutExpired:
        p.kill()
        return {"infra": "timeout"}
    out = p.stdout.read()
    for ln in out.splitlines():
        if ln.startswith("RESULT "):
            return json.loads(ln[7:])
    return {"infra": f"no result (rc={p.returncode}): {p.stderr.read()[-600:]}"}


def make_objects() -> List[Dict[str, Any]]:
    """the writers the client would ship: not prepared (graph built before a client existed) and
    prepared (`mpu.writer(kw, client=...)`, carries the Variable)"""
    import distributed
    from odc.geo.cog import _s3

    from . import c18_sched as S

    objs = []
    for bucket, key, kw in (("bucket", "some/key.tif", {"ContentType": "image/tiff"}),
                            ("bücket-2", "a/very/long/key/" + "x" * 80 + ".tif", {}),
                            # minimal differences from the first object: a longer key, another bucket
                            ("bucket", "some/key.tif.ovr", {"ContentType": "image/tiff"}),
                            ("bucket2", "some/key.tif", {"ContentType": "image/tiff"})):
        S.CURRENT.update(sched=S.Sched(), s3=S.FakeS3(), cluster=S.Cluster(), local=False, xnames=None)
        saved = (distributed.get_client, distributed.Variable, distributed.Lock)
        distributed.get_client, distributed.Variable, distributed.Lock = S.fake_get_client, S.FakeVariable, S.FakeDLock
        try:
            plain = _s3.DelayedS3Writer(_s3.MultiPartUpload(bucket, key), dict(kw))
            prepared = _s3.MultiPartUpload(bucket, key).writer(dict(kw))
            here = {"prepared": {**names_of(prepared), **first_write_names(pickle.loads(pickle.dumps(prepared)))}}
            S.CURRENT.update(s3=S.FakeS3(), cluster=S.Cluster())
            here["unprepared"] = {**names_of(plain), **first_write_names(pickle.loads(pickle.dumps(plain)))}
            S.CURRENT.update(s3=S.FakeS3(), cluster=S.Cluster())
            rebuilt = _s3.DelayedS3Writer(_s3.MultiPartUpload(bucket, key), dict(kw))
            here["rebuilt"] = {**names_of(rebuilt), **first_write_names(rebuilt)}
        finally:
            distributed.get_client, distributed.Variable, distributed.Lock = saved
        objs.append({
            "bucket": bucket, "key": key, "kw": kw, "parent": here,
            "pickles": {"unprepared": base64.b64encode(pickle.dumps(plain)).decode(),
                        "prepared": base64.b64encode(pickle.dumps(prepared)).decode()},
        })
    return objs


if __name__ == "__main__":
    child_main()
