"""C16, growth round 2 — the glue between the modelled core and the public entry points.

Correspondence for Model/C16Ext.lean (GeoBox.enclosing entry with its dispatch on the region type, GeoBox.project in
both directions with pyproj as a table, GeoBox.boundingbox, BoundingBox value/sequence protocol, split_translation,
non-finite branches of the numeric helpers, argument forms of the n-ary operations) and the world-coordinate
end-to-end oracles that go with Props/C16World.lean.
"""
from __future__ import annotations

import math
from fractions import Fraction as Fr

from .common import Run, bool_s, frac_s, guarded, list_s


def enc_pts(pts) -> str:
    return list_s(pts, lambda q: f"{frac_s(q[0])};{frac_s(q[1])}")


def coords_of(geom):
    """coordinate sequence of a Geometry as shapely stores it (no odc-geo code)"""
    import shapely

    return [tuple(map(float, c)) for c in shapely.get_coordinates(geom.geom)]


def enc_region(H, region) -> str:
    from odc.geo.geom import BoundingBox

    if isinstance(region, BoundingBox):
        return "B=" + H.enc_bb(region)
    return f"G={H.tag_of(region.crs)}=" + enc_pts(coords_of(region))


_FRESH = {}


def fresh_reproject(src_crs, dst_crs, pts):
    """pyproj, asked directly (trusted): always a new Transformer per CRS pair, independent of Geometry.to_crs"""
    import pyproj

    k = (str(src_crs), str(dst_crs))
    if k not in _FRESH:
        _FRESH[k] = pyproj.Transformer.from_crs(pyproj.CRS.from_user_input(k[0]), pyproj.CRS.from_user_input(k[1]),
                                                always_xy=True)
    out = []
    for x, y in pts:
        X, Y = _FRESH[k].transform(x, y)
        out.append((float(X), float(Y)))
    return out


def enc_table(src_pts, dst_pts) -> str:
    seen, rows = set(), []
    for p, q in zip(src_pts, dst_pts):
        if p in seen:
            continue
        seen.add(p)
        rows.append(";".join(frac_s(v) for v in (p[0], p[1], q[0], q[1])))
    return "[" + ",".join(rows) + "]"


def region_input_pts(region):
    """the coordinates `enclosing` sees after `region.polygon`: for a BoundingBox the ring of odc.geo.geom.box"""
    from odc.geo.geom import BoundingBox

    if isinstance(region, BoundingBox):
        l, b, r, t = (float(v) for v in region.bbox)
        return [(l, b), (l, t), (r, t), (r, b), (l, b)]
    return coords_of(region)


def bb_fr(bb):
    return tuple(Fr(v) for v in bb.bbox)


def bb_within(a, c, slack=Fr(0)):
    """a within c, edge-wise (tuples of Fractions)"""
    return c[0] - slack <= a[0] and c[1] - slack <= a[1] and a[2] <= c[2] + slack and a[3] <= c[3] + slack


def exact_footprint(H, g):
    """bounding box of the four corner images, exact, from the real affine only"""
    A = H.fa(g.affine)
    ny, nx = int(g.shape[0]), int(g.shape[1])
    cs = [H.fa_apply(A, q) for q in ((0, 0), (0, ny), (nx, ny), (nx, 0))]
    return (min(c[0] for c in cs), min(c[1] for c in cs), max(c[0] for c in cs), max(c[1] for c in cs))


def axis_aligned(g) -> bool:
    return g.affine.b == 0 and g.affine.d == 0


def world_bbox_oracles(R: Run, H, a, b, sl, sig, flt=False):
    """end-to-end in world coordinates (theorems union_boundingbox_* / inter_boundingbox_*):
    (a | b).boundingbox contains a.boundingbox | b.boundingbox (equal on an axis-aligned grid);
    (a & b).boundingbox lies within a.boundingbox & b.boundingbox when a pixel is shared (equal when axis-aligned)"""
    if a.is_empty() or b.is_empty():
        return
    case = {"op": "world-bbox", "a": H.gb_dict(a), "b": H.gb_dict(b)}
    if flt:
        case["float"] = True
    try:
        u, i = a | b, a & b
        ub, ib = bb_fr(u.boundingbox), bb_fr(i.boundingbox)
        wa, wb = bb_fr(a.boundingbox), bb_fr(b.boundingbox)
        wu = bb_fr(a.boundingbox | b.boundingbox)
        wi = bb_fr(a.boundingbox & b.boundingbox)
    except Exception as e:  # pylint: disable=broad-except
        R.oracle(False, "common-grid-op-raises", case, f"world bounding boxes: raised {e!r}")
        return
    # the real boundingbox property against the exact footprint (two-sided)
    for g_, got in ((a, wa), (u, ub)):
        want = exact_footprint(H, g_)
        R.oracle(all(abs(x - y) <= sl * max(1, abs(y)) for x, y in zip(got, want)), "geobox-boundingbox-not-footprint",
                 {"op": "gbbox", "g": H.gb_dict(g_)},
                 f"{g_!r}.boundingbox = {tuple(map(float, got))}, corners span {tuple(map(float, want))}", sig="gbbox|" + sig)
    res = max(abs(Fr(v)) for v in tuple(a.affine)[:6][0:2] + tuple(a.affine)[3:5])
    s_ = sl * res
    ok = bb_within(wu, ub, s_)
    what = f"(a | b).boundingbox = {tuple(map(float, ub))} does not contain a.boundingbox | b.boundingbox = {tuple(map(float, wu))}"
    if ok and axis_aligned(a):
        ok = bb_within(ub, wu, s_)
        what = f"axis-aligned grid: (a | b).boundingbox = {tuple(map(float, ub))} != a.boundingbox | b.boundingbox = {tuple(map(float, wu))}"
    R.oracle(ok, "union-world-bbox", case, what, sig="world-union|" + sig)
    if not i.is_empty():
        ok = bb_within(ib, wi, s_)
        what = f"(a & b).boundingbox = {tuple(map(float, ib))} not within a.boundingbox & b.boundingbox = {tuple(map(float, wi))}"
        if ok and axis_aligned(a):
            ok = bb_within(wi, ib, s_)
            what = f"axis-aligned grid: (a & b).boundingbox = {tuple(map(float, ib))} != a.boundingbox & b.boundingbox = {tuple(map(float, wi))}"
        R.oracle(ok, "inter-world-bbox", case, what, sig="world-inter|" + sig)


def enclosing_world_oracle(R: Run, H, g, region, res, sl, sig, flt=False):
    """g.enclosing(bbox).boundingbox contains the bbox (same CRS); on an axis-aligned grid by < 1 pixel size per side
    (theorems enclosing_bbox_world, enclosing_bbox_world_tight)"""
    from odc.geo.geom import BoundingBox

    if not isinstance(region, BoundingBox) or region.crs != g.crs:
        return
    l, b, r, t = bb_fr(region)
    if l > r or b > t:
        return
    case = {"op": "encl-world", "g": H.gb_dict(g), "bbox": [float(v) for v in region.bbox], "crs": str(region.crs)}
    if flt:
        case["float"] = True
    rb = bb_fr(res.boundingbox)
    res_ = max(abs(Fr(v)) for v in tuple(g.affine)[0:2] + tuple(g.affine)[3:5])
    s_ = sl * res_
    ok = bb_within((l, b, r, t), rb, s_)
    what = f"enclosing({region!r}).boundingbox = {tuple(map(float, rb))} does not contain the region"
    if ok and axis_aligned(g):
        px, py = abs(Fr(g.affine.a)), abs(Fr(g.affine.e))
        nx, ny = int(res.shape[1]), int(res.shape[0])
        # < 1 px per side, except the documented degenerate case (zero extent on a grid line -> one pixel)
        okx = (l - rb[0] < px + s_ and rb[2] - r < px + s_) or (nx == 1 and r - l <= s_)
        oky = (b - rb[1] < py + s_ and rb[3] - t < py + s_) or (ny == 1 and t - b <= s_)
        ok = okx and oky
        what = (f"enclosing({region!r}).boundingbox = {tuple(map(float, rb))} exceeds the region by a pixel size "
                f"({float(px)}, {float(py)}) or more")
    R.oracle(ok, "enclosing-world-bbox", case, what, sig="world-encl|" + sig)


def enclosing_followup(H, g, res, sl):
    """r = g.enclosing(region) is on g's grid: g | r, r | g, g & r, r & g, g.overlap_roi(r) all work; & is exactly the
    shared pixels, | the smallest containing GeoBox, the ROI the shared window of g"""
    try:
        u, u2, i, i2, roi = g | res, res | g, g & res, res & g, g.overlap_roi(res)
    except Exception as e:  # pylint: disable=broad-except
        return False, f"a set operation between g and g.enclosing(region) = {res!r} raised {e!r}"
    for ok, what in (H.chk_union([g, res], u, sl), H.chk_inter([g, res], i, sl), H.chk_roi(g, res, roi, sl)):
        if not ok:
            return False, f"g with g.enclosing(region) = {res!r}: {what}"
    if not (H.same_gbox(u, u2, sl) and H.same_gbox(i, i2, sl)):
        return False, f"g op g.enclosing(region) is not commutative: {u!r} / {u2!r}, {i!r} / {i2!r}"
    return True, ""


def eval_case(H, key, case):
    """replay of the oracle cases of this file -> (ok, what) or None"""
    sl = Fr(1, 10**6) if case.get("float") else Fr(0)
    R = _Collect()
    if case.get("op") == "world-bbox":
        world_bbox_oracles(R, H, H.gb_from(case["a"]), H.gb_from(case["b"]), sl, "replay", bool(case.get("float")))
        return R.result(key)
    if case.get("op") == "encl-world":
        from odc.geo.geom import BoundingBox

        g = H.gb_from(case["g"])
        region = BoundingBox(*case["bbox"], case["crs"])
        enclosing_world_oracle(R, H, g, region, g.enclosing(region), sl, "replay", bool(case.get("float")))
        return R.result(key)
    if case.get("op") == "member-roundtrip":
        g, h = H.gb_from(case["g"]), H.gb_from(case["h"])
        bad = member_roundtrip(H, g, h)
        return (not bad, "; ".join(bad))
    return None


class _Collect:
    """minimal stand-in for Run used by replay"""

    def __init__(self):
        self.fails = []

    def oracle(self, ok, key, case, what="", sig=None, trivial=False):
        if not ok:
            self.fails.append((key, what))
        return ok

    def result(self, key):
        bad = [w for k, w in self.fails if k == key] or [w for _k, w in self.fails]
        return (not bad, "; ".join(bad))


def member_roundtrip(H, g, h):
    """h is a non-empty member of g's grid: g.enclosing(h.extent) == h, and == g.enclosing(h.boundingbox) when the
    grid is axis-aligned (theorem enclosing_of_member)"""
    bad = []
    try:
        o = g.enclosing(h.extent)
        if o != h:
            bad.append(f"g.enclosing(h.extent) = {o!r} but h = {h!r}")
        if axis_aligned(g):
            o = g.enclosing(h.boundingbox)
            if o != h:
                bad.append(f"g.enclosing(h.boundingbox) = {o!r} but h = {h!r}")
    except Exception as e:  # pylint: disable=broad-except
        bad.append(f"raised {e!r}")
    return bad


# ---------------------------------------------------------------------------------------------------------------------
def run_ext(R: Run, H, bases, stats):
    from affine import Affine
    from odc.geo import geobox as GBm
    from odc.geo import geom as GM
    from odc.geo import math as MM
    from odc.geo import xy_
    from odc.geo.geobox import GeoBox, geobox_intersection_conservative, geobox_union_conservative
    from odc.geo.geom import BoundingBox

    rng = R.rng
    TOL = 1e-8
    real = H.real
    exact_bases = [b_ for b_ in bases if b_[2]]

    # ------------------------------------------------------------ X1. boundingbox, translate_pix, world-bbox oracles, round trip
    for it in range(R.pick(500, 5000)):
        nm, B, ex = rng.choice(exact_bases)
        a = H.member(B, rng.randint(-9, 9), rng.randint(-9, 9), rng.randint(0, 7), rng.randint(0, 7))
        tx, ty = rng.randint(-5, 5), rng.randint(-5, 5)
        if rng.random() < 0.3 and a is not None:   # touching / one-axis-disjoint neighbours
            tx = rng.choice([int(a.shape[1]), -1, 0])
        b = H.member(B, 0, 0, 1, 1)
        if a is None or b is None:
            stats["inexact-skipped"] += 1
            continue
        b = GeoBox((rng.randint(0, 7), rng.randint(0, 7)), a.affine * Affine.translation(tx, ty), a.crs)
        if not (H.exact_pair(a, b) and H.exact_pair(b, a)):
            stats["inexact-skipped"] += 1
            continue
        R.corr(f"c16 gbbox {H.enc_gbox(a)}", real(lambda: H.enc_bb(a.boundingbox)),
               sig="gbbox|" + ("axis" if axis_aligned(a) else "rot") + ("|empty" if a.is_empty() else ""))
        sx, sy = rng.choice([0, 1, -3, 0.5, -0.25, 2.125]), rng.choice([0, 2, -1, 0.75, -1.5])
        R.corr(f"c16 tpix {H.enc_gbox(a)} {frac_s(sx)} {frac_s(sy)}", real(lambda: H.enc_gbox(a.translate_pix(sx, sy))),
               sig="tpix")
        world_bbox_oracles(R, H, a, b, Fr(0), nm)
        R.corr(f"c16 gextent {H.enc_gbox(b)}", real(lambda: enc_pts(coords_of(b.extent))),
               sig="gextent|" + ("axis" if axis_aligned(b) else "rot") + ("|empty" if b.is_empty() else ""))
        if not b.is_empty() and b.crs is not None:
            # the footprint polygon of a member, through the public entry point (theorem enclosing_of_member)
            ext_ = b.extent
            R.corr(f"c16 enclr {H.enc_gbox(a)} {enc_region(H, ext_)} []", real(lambda: H.enc_gbox(a.enclosing(ext_))),
                   sig="enclr|member-extent|" + ("axis" if axis_aligned(a) else "rot"))
            bad = member_roundtrip(H, a, b)
            R.oracle(not bad, "enclosing-member-roundtrip", {"op": "member-roundtrip", "g": H.gb_dict(a), "h": H.gb_dict(b)},
                     "; ".join(bad), sig="member-roundtrip|" + ("axis" if axis_aligned(a) else "rot"))

    # ------------------------------------------------------------ X2. project, both directions, same CRS (exact)
    for it in range(R.pick(400, 4000)):
        nm, B, ex = rng.choice(exact_bases)
        gtag = "N" if it % 13 == 0 else "1"
        g = H.member(B, rng.randint(-5, 5), rng.randint(-5, 5), rng.randint(1, 9), rng.randint(1, 9), gtag)
        if g is None:
            continue
        kind = rng.choice(["point", "line", "mpoint", "poly", "bbox-poly"])
        n = {"point": 1, "line": rng.randint(2, 4), "mpoint": rng.randint(1, 4), "poly": rng.randint(3, 5), "bbox-poly": 2}[kind]
        den = rng.choice([1, 2, 4, 8])
        pix = [(Fr(rng.randint(-12 * den, 12 * den), den), Fr(rng.randint(-12 * den, 12 * den), den)) for _ in range(n)]
        if len(set(pix)) < n or (kind == "poly" and len(set(pix)) < 3):
            continue
        to_world = it % 2 == 0    # region without CRS: pixel plane -> world
        # (regions in ANOTHER CRS need wld2pix to be exact on arbitrary doubles: section X4)
        rtag = "N" if to_world else rng.choice(["1", "2"]) if gtag == "N" else "1"
        if to_world:
            pts = [(float(x), float(y)) for x, y in pix]
        else:
            pts = [H.fa_apply(H.fa(g.affine), q) for q in pix]
            if any(H.fa_exact_floats(q) is None for q in pts):
                continue
            pts = [(float(x), float(y)) for x, y in pts]
        rc = H.crs_of(rtag)
        try:
            if kind == "point":
                geom = GM.point(pts[0][0], pts[0][1], rc)
            elif kind == "line":
                geom = GM.line(pts, rc)
            elif kind == "mpoint":
                geom = GM.multipoint(pts, rc)
            elif kind == "poly":
                geom = GM.polygon(pts + [pts[0]], rc)
            else:
                geom = BoundingBox.from_points(pts[0], pts[1], rc).polygon
        except Exception:  # pylint: disable=broad-except
            continue
        cin = coords_of(geom)
        # exactness of the float evaluation on these inputs
        FA = H.fa(g.affine)
        if to_world:
            okx = all(tuple(Fr(v) for v in (g.affine * q)) == H.fa_apply(FA, (Fr(q[0]), Fr(q[1]))) for q in cin)
        else:
            okx = True
            if FA[0] * FA[4] - FA[1] * FA[3] != 0 and rtag == gtag:
                inv = H.fa_inv(FA)
                okx = all(Fr(x) == w for x, w in zip(tuple(~g.affine)[:6], inv)) and all(
                    tuple(Fr(v) for v in ((~g.affine) * q)) == H.fa_apply(inv, (Fr(q[0]), Fr(q[1]))) for q in cin)
        if not okx:
            stats["inexact-skipped"] += 1
            continue
        table = "[]"
        res = []

        def fp():
            o = g.project(geom)
            res.append(o)
            return f"{H.tag_of(o.crs)} {enc_pts(coords_of(o))}"

        sg = "to-world" if to_world else "nocrs-gbox" if gtag == "N" else "to-pix"
        R.corr(f"c16 proj {H.enc_gbox(g)} {rtag} {enc_pts(cin)} {table}", real(fp), sig=f"proj|{sg}|{kind}")
        if res and sg in ("to-world", "to-pix") and (gtag != "N"):
            # round trip through the real code: project(project(x)) == x  (theorem project_roundtrip); the way back is
            # not necessarily exact in floats -> 1e-6 slack
            try:
                back = coords_of(g.project(res[0]))
                ok = len(back) == len(cin) and all(abs(Fr(u) - Fr(v)) <= Fr(1, 10**6) for p_, q_ in zip(back, cin) for u, v in zip(p_, q_))
                what = f"project there and back gave {back[:4]} from {cin[:4]}"
            except Exception as e:  # pylint: disable=broad-except
                ok, what = False, f"raised {e!r}"
            R.oracle(ok, "project-roundtrip", {"op": "project", "g": H.gb_dict(g), "pts": cin, "crs": str(rc)}, what,
                     sig="project-roundtrip|" + sg)

    # ------------------------------------------------------------ X3. enclosing entry: error branches by region type
    gN = GeoBox((3, 4), Affine(2.0, 0.0, 10.0, 0.0, -2.0, 20.0), None)
    g1 = GeoBox((3, 4), Affine(2.0, 0.0, 10.0, 0.0, -2.0, 20.0), H.crs_of("1"))
    gD = GeoBox((3, 4), Affine(2.0, 2.0, 10.0, 1.0, 1.0, 20.0), H.crs_of("1"))   # degenerate: det = 0
    for g in (gN, g1, gD):
        for rtag in ("N", "1"):
            regions = [BoundingBox(11.0, 13.0, 15.0, 17.0, H.crs_of(rtag)), GM.point(12.0, 14.0, H.crs_of(rtag)),
                       GM.line([(11.0, 13.0), (15.0, 15.0)], H.crs_of(rtag)),
                       GM.polygon([(11.0, 13.0), (15.0, 13.0), (13.0, 17.0), (11.0, 13.0)], H.crs_of(rtag))]
            for region in regions:
                R.corr(f"c16 enclr {H.enc_gbox(g)} {enc_region(H, region)} []", real(lambda: H.enc_gbox(g.enclosing(region))),
                       sig=f"enclr|errors|g={H.tag_of(g.crs)}{'|det0' if g is gD else ''}|r={rtag}|{type(region).__name__}")

    # ------------------------------------------------------------ X4. enclosing / project of regions in ANOTHER CRS, exact:
    # grids with power-of-two pixel size anchored at the CRS origin (wld2pix exact on any double), pyproj as a table
    lins = [("north-up", (1, 0, 0, -1)), ("south-up", (1, 0, 0, 1)), ("mirror-x", (-1, 0, 0, -1)), ("rot90", (0, -1, 1, 0)),
            ("rot270", (0, 1, -1, 0))]
    # CRS pool: EPSG-coded (1 = 3857, 2 = 4326, 3 = 32633) and code-less (4 = LAEA PROJ string, 5 = sinusoidal PROJ
    # string, 6 = custom Albers WKT); every ordered pair of different CRSs within an area of use, plus every CRS
    # against a different SPELLING of itself (must not be re-projected: the model sees the same tag)
    areas = {"eu": ((12.5, 15.0), (44.0, 52.0), "12345"), "au": ((115.0, 150.0), (-40.0, -12.0), "1256")}
    pairs = [(s_, d_, ar, False) for ar, (_lo, _la, tags) in areas.items() for s_ in tags for d_ in tags if s_ != d_]
    pairs += [(t_, t_, "au" if t_ == "6" else "eu", True) for t_ in "123456"]
    rng.shuffle(pairs)
    ll = H.crs_of("2")
    xstat = {"cases": 0, "pairs": len(pairs), "codeless-both-sides": 0, "same-crs-other-spelling": 0}
    for it in range(R.pick(260, 2600)):
        src, dst, ar, alt = pairs[it % len(pairs)]
        lonr, latr = areas[ar][0], areas[ar][1]
        nm, lin = lins[(it // len(pairs)) % len(lins)]
        src_crs, dst_crs = (H.crs_alt(src, it) if alt else H.crs_of(src)), H.crs_of(dst)
        lon, lat = rng.uniform(*lonr), rng.uniform(*latr)
        c_src = fresh_reproject(ll, src_crs, [(lon, lat)])[0] if src != "2" else (lon, lat)
        s_ = 2.0 ** (rng.randint(-12, -8) if dst == "2" else rng.randint(3, 8))
        g = GeoBox((rng.randint(1, 300), rng.randint(1, 300)), Affine(lin[0] * s_, lin[1] * s_, 0.0, lin[2] * s_, lin[3] * s_, 0.0), dst_crs)
        ext = rng.uniform(0.0005, 0.2) if src == "2" else rng.uniform(50, 20000)
        k = rng.choice(["bbox", "bbox", "poly", "mpoint", "line", "point", "weird"])
        n = {"bbox": 2, "poly": rng.randint(3, 6), "mpoint": rng.randint(1, 5), "line": rng.randint(2, 4), "point": 1, "weird": 0}[k]
        pts = [(c_src[0] + rng.uniform(-1, 1) * ext, c_src[1] + rng.uniform(-1, 1) * ext) for _ in range(n)]
        try:
            if k == "weird":
                name = rng.choice(sorted(H.WEIRD_REGIONS))
                region, _v = H.build_weird_region(name, lambda u, v: (c_src[0] + ext * (u - .5), c_src[1] + ext * (v - .5)), src_crs)
                k = "weird:" + name
            elif k == "bbox":
                xs_, ys_ = [q[0] for q in pts], [q[1] for q in pts]
                region = BoundingBox(min(xs_), min(ys_), max(xs_), max(ys_), src_crs)
            elif k == "poly":
                cx, cy = sum(q[0] for q in pts) / n, sum(q[1] for q in pts) / n
                pts.sort(key=lambda q: math.atan2(q[1] - cy, q[0] - cx))
                region = GM.polygon(pts + [pts[0]], src_crs)
            elif k == "mpoint":
                region = GM.multipoint(pts, src_crs)
            elif k == "line":
                region = GM.line(pts, src_crs)
            else:
                region = GM.point(pts[0][0], pts[0][1], src_crs)
            cin = region_input_pts(region)
            dstp = cin if alt else fresh_reproject(src_crs, dst_crs, cin)
        except Exception:  # pylint: disable=broad-except
            continue
        if not all(math.isfinite(v) for q in dstp for v in q):
            continue
        xstat["cases"] += 1
        xstat["codeless-both-sides"] += int(src in "456" and dst in "456" and not alt)
        xstat["same-crs-other-spelling"] += int(alt)
        table = "[]" if alt else enc_table(cin, dstp)
        res = []

        def fe():
            o = g.enclosing(region)
            res.append(o)
            return H.enc_gbox(o)

        R.corr(f"c16 enclr {H.enc_gbox(g)} {enc_region(H, region)} {table}", real(fe), sig=f"enclr|xcrs|{nm}|{k.split(':')[0]}|{H.CRS_NAME[src]}>{H.CRS_NAME[dst]}{'(respelled)' if alt else ''}")
        if not isinstance(region, BoundingBox):
            def fp2():
                o = g.project(region)
                return f"{H.tag_of(o.crs)} {enc_pts(coords_of(o))}"

            R.corr(f"c16 proj {H.enc_gbox(g)} {src} {enc_pts(cin)} {table}", real(fp2),
                   sig=f"proj|to-pix-xcrs|{k.split(':')[0]}|{H.CRS_NAME[src]}>{H.CRS_NAME[dst]}{'(respelled)' if alt else ''}")
        if res:   # independent oracle on the real output: tight cover of the pyproj image of the vertices, on the grid
            ok, what = H.chk_enclosing(g, dstp, res[0], Fr(0))
            R.oracle(ok, "enclosing-not-tight-cover-on-grid",
                     {"op": "encl-region", "g": H.gb_dict(g), "region": H.region_dict(region)},
                     f"{what} (region {region!r}, result {res[0]!r})", sig="encl|xcrs-exact")
    R.extra["c16_xcrs"] = xstat

    # ------------------------------------------------------------ X5. BoundingBox as a value / sequence
    def small_bb(tag=None):
        v = [rng.choice([0, 1, 2, -1.5, 2.5, 3]) for _ in range(4)]
        return BoundingBox(*v, H.crs_of(tag if tag is not None else rng.choice(["N", "1", "2"])))

    for it in range(R.pick(400, 4000)):
        a = small_bb()
        b = small_bb() if it % 3 else BoundingBox(*a.bbox, H.crs_of(rng.choice(["N", "1", "2"])))
        out = R.corr(f"c16 bbeq {H.enc_bb(a)} {H.enc_bb(b)}", lambda: bool_s(a == b), sig=None)
        want = tuple(map(Fr, a.bbox)) == tuple(map(Fr, b.bbox)) and H.tag_of(a.crs) == H.tag_of(b.crs)
        R.oracle(out == bool_s(want) and (a != b) == (not want), "bbox-eq-meaning", {"a": H.enc_bb(a), "b": H.enc_bb(b)},
                 f"{a!r} == {b!r} gave {out}", sig="bbox-eq|" + ("eq" if want else "ne"))
        if want:
            R.oracle(hash(a) == hash(b), "bbox-eq-hash", {"a": H.enc_bb(a), "b": H.enc_bb(b)}, "equal boxes, different hashes",
                     sig="bbox-hash")
        t = list(a.bbox) if it % 2 else [rng.choice([0, 1, 2, 3]) for _ in range(rng.choice([3, 4, 4, 5]))]
        if it % 5 == 0:
            t = t[:3]
        R.corr(f"c16 bbeqt {H.enc_bb(a)} {list_s(t, frac_s)}", lambda: bool_s(a == tuple(t)), sig=None)
        i_ = rng.randint(-6, 6)
        R.corr(f"c16 bbitem {H.enc_bb(a)} {i_}", lambda: frac_s(a[i_]), sig=None)
        R.corr(f"c16 bbseq {H.enc_bb(a)}",
               lambda: f"{len(a)} {list_s(list(a), frac_s)} {frac_s(a.range_x[0])};{frac_s(a.range_x[1])} "
                       f"{frac_s(a.range_y[0])};{frac_s(a.range_y[1])} {enc_pts(a.points)}", sig="bbseq")
        sx_, sy_ = Fr(a.right) - Fr(a.left), Fr(a.top) - Fr(a.bottom)
        if sy_ == 0 or Fr(float(sx_ / sy_)) == sx_ / sy_:     # the one float division must be exact
            R.corr(f"c16 bbaspect {H.enc_bb(a)}", lambda: frac_s(a.aspect), sig=None)

    # witness of theorem bbox_eq_tuple_not_transitive_cex, replayed on the real code (behaviour as on HEAD; tuples are
    # outside the property's quantifier)
    w1, w2 = BoundingBox(0, 0, 1, 1, H.crs_of("1")), BoundingBox(0, 0, 1, 1)
    R.oracle((w1 == (0, 0, 1, 1)) is True and (w2 == (0, 0, 1, 1)) is True and (w1 == w2) is False, "model-witness-replay",
             {"witness": "bbox_eq_tuple_not_transitive_cex"}, f"real code gives {w1 == (0, 0, 1, 1)} / {w2 == (0, 0, 1, 1)} / {w1 == w2}",
             trivial=True)

    # ------------------------------------------------------------ X6. split_translation, non-finite helper branches
    def enc_f(v):
        v = float(v)
        return "nan" if v != v else "inf" if v == math.inf else "-inf" if v == -math.inf else frac_s(v)

    for it in range(R.pick(200, 2000)):
        x = rng.randint(-50, 50) + rng.choice([0, 0.5, -0.5, 0.25, 0.75, 1e-9, -1e-9, 0.5 + 2.0**-30, rng.random()])
        y = rng.randint(-50, 50) + rng.choice([0, 0.5, -0.5, 0.125, 0.875, 3e-9, rng.random()])
        res = []

        def fst():
            w, p_ = MM.split_translation(xy_(x, y))
            res.append((w, p_))
            return f"{frac_s(w.x)} {frac_s(w.y)} {frac_s(p_.x)} {frac_s(p_.y)}"

        R.corr(f"c16 splitt {frac_s(x)} {frac_s(y)}", fst, sig="splitt")
        if res:
            w, p_ = res[0]
            R.oracle(Fr(w.x) + Fr(p_.x) == Fr(x) and Fr(w.y) + Fr(p_.y) == Fr(y) and abs(Fr(p_.x)) <= Fr(1, 2)
                     and abs(Fr(p_.y)) <= Fr(1, 2) and Fr(w.x).denominator == 1 and Fr(w.y).denominator == 1,
                     "split-float-contract", {"x": x, "y": y}, f"split_translation(({x},{y})) = {w},{p_}", sig="splitt")
    for v in (math.inf, -math.inf, math.nan, 2.5, -0.75, 3.0, 1e-9):
        R.corr(f"c16 splitff {enc_f(v)}", lambda: "{} {}".format(*map(enc_f, MM.split_float(v))), sig="nonfinite|splitf")
        for tol in (TOL, 0.5, 1.0):
            R.corr(f"c16 almostintf {enc_f(v)} {frac_s(tol)}", lambda: bool_s(MM.is_almost_int(v, tol)), sig="nonfinite|almostint")
            R.corr(f"c16 mzerof {enc_f(v)} {frac_s(tol)}", lambda: enc_f(MM.maybe_zero(v, tol)), sig="nonfinite|mzero")
    # a GeoBox whose offset is not finite can never be on a common grid: every operation refuses
    for bad in (math.inf, -math.inf, math.nan):
        for pos in (2, 5, 0):
            co = [2.0, 0.0, 10.0, 0.0, -2.0, 20.0]
            co[pos] = bad
            o = GeoBox((3, 3), Affine(*co), H.crs_of("1"))
            for opn, f in (("or", lambda: g1 | o), ("and", lambda: g1 & o), ("roi", lambda: g1.overlap_roi(o)),
                           ("ro", lambda: o | g1), ("bbpd", lambda: GBm.bounding_box_in_pixel_domain(o, g1))):
                out = guarded(lambda: str(f()))
                R.oracle(out == "ERR:ValueError", "incompatible-grid-acceptance",
                         {"op": opn, "kind": "non-finite", "coef": pos, "value": repr(bad)},
                         f"{opn} with a non-finite affine coefficient gave {out[:80]}", sig="reject|non-finite")

    # ------------------------------------------------------------ X7. argument forms of the n-ary operations
    for it in range(R.pick(60, 600)):
        nm, B, ex = rng.choice(exact_bases)
        k = rng.choice([0, 1, 2, 3])
        gs = [H.member(B, rng.randint(-6, 6), rng.randint(-6, 6), rng.randint(0, 5), rng.randint(0, 5)) for _ in range(k)]
        if any(g is None for g in gs) or not all(H.exact_pair(x, y) for x in gs for y in gs):
            stats["inexact-skipped"] += 1
            continue
        if k and rng.random() < 0.15:
            gs[-1] = GeoBox(gs[-1].shape, gs[-1].affine * Affine.translation(0.5, 0), gs[-1].crs)   # rejected operand
            if not all(H.exact_pair(x, y) for x in gs for y in gs):
                continue
        egs = list_s(gs, H.enc_gbox)
        for form, mk in (("list", list), ("tuple", tuple)):
            R.corr(f"c16 unionf {form} {egs}", real(lambda: H.enc_gbox(geobox_union_conservative(mk(gs)))), sig=f"unionf|{form}|k={k}")
            R.corr(f"c16 interf {form} {egs}", real(lambda: H.enc_gbox(geobox_intersection_conservative(mk(gs)))),
                   sig=f"interf|{form}|k={k}")
    # a generator is outside the documented argument type (List[GeoBox]); what happens is recorded, not judged
    g_obs = [H.member(exact_bases[0][1], 0, 0, 2, 2), H.member(exact_bases[0][1], 1, 1, 2, 2)]
    R.notes.append("observation: geobox_union_conservative(generator) -> "
                   + guarded(lambda: H.enc_gbox(geobox_union_conservative(g_ for g_ in g_obs)))
                   + " (argument forms tied to the model: list, tuple)")

def float_ext(R: Run, H):
    """float stream (oracle only) for the world-coordinate end-to-end statements"""
    from affine import Affine
    from odc.geo.geobox import GeoBox
    from odc.geo.geom import BoundingBox

    rng = R.rng
    SL = Fr(1, 10**6)
    worlds = [
        ("utm30", "3", lambda: Affine(30.0, 0.0, 399960.0 + 30 * rng.randint(-500, 500), 0.0, -30.0, 6700020.0)),
        ("utm10", "3", lambda: Affine(10.0, 0.0, 600000.0 + rng.randint(0, 10**5) / 7, 0.0, -10.0, 5.3e6 + rng.randint(0, 10**5) / 3)),
        ("lonlat", "2", lambda: Affine(0.00025, 0.0, 147.0 + rng.random(), 0.0, -0.00025, -35.0 - rng.random())),
        ("south-up", "1", lambda: Affine(25.0, 0.0, 1.5e6 + rng.random(), 0.0, 25.0, -4e6)),
        ("merc-rot", "1", lambda: Affine.translation(1.5e6 + rng.random(), -4e6) * Affine.rotation(rng.choice([30, 45, 17.3])) * Affine.scale(25.0, -25.0)),
    ]
    for it in range(R.pick(250, 2500)):
        nm, tag, mk = rng.choice(worlds)
        base = GeoBox((rng.randint(1, 300), rng.randint(1, 300)), mk(), H.crs_of(tag))
        span = rng.choice([5, 50, 500])
        tx, ty = rng.randint(-span, span), rng.randint(-span, span)
        b = GeoBox((rng.randint(1, span), rng.randint(1, span)), base.affine * Affine.translation(tx, ty), base.crs)
        world_bbox_oracles(R, H, base, b, SL, "float|" + nm, flt=True)
        # (g.enclosing(h.extent) == h is judged on the exact stream only: with realistic doubles wld2pix of a corner may
        #  land an ulp beside the integer and the outward rounding then legitimately gains a pixel)
        A = H.fa(base.affine)
        q1 = H.fa_apply(A, (Fr(rng.uniform(-100, 100)), Fr(rng.uniform(-100, 100))))
        q2 = H.fa_apply(A, (Fr(rng.uniform(-100, 100)), Fr(rng.uniform(-100, 100))))
        region = BoundingBox.from_points((float(q1[0]), float(q1[1])), (float(q2[0]), float(q2[1])), base.crs)
        try:
            r = base.enclosing(region)
            enclosing_world_oracle(R, H, base, region, r, SL, "float|" + nm, flt=True)
        except Exception as e:  # pylint: disable=broad-except
            R.oracle(False, "enclosing-raises", {"g": H.gb_dict(base), "bbox": list(region.bbox)}, f"raised {e!r}")


# ---------------------------------------------------------------------------------------------------------------------
# growth round 3
def make_gcp_box(H, notes):
    """a small non-linear GCPGeoBox built through the public constructor; None (with a note) when that is not possible"""
    try:
        from odc.geo import xy_
        from odc.geo.gcp import GCPGeoBox, GCPMapping

        pix = [xy_(p) for p in [(0, 0), (10, 0), (10, 10), (0, 10), (5, 5)]]
        wld = [xy_(p) for p in [(100, 200), (120, 201), (121, 180), (99, 181), (110, 190)]]
        return GCPGeoBox((10, 10), GCPMapping(pix, wld, H.crs_of("1")))
    except Exception as e:  # pylint: disable=broad-except
        notes.append(f"GCPGeoBox could not be constructed through the public API ({e!r}); non-linear operand stream skipped")
        return None


def perimeter_ok(bb, pts, n):
    """pts (exact Fractions) walk the perimeter of bb: closed, every point on an edge, the corners present, 4(n-1)+1
    points for n >= 2"""
    l, b, r, t = bb_fr(bb)
    lo_x, hi_x, lo_y, hi_y = min(l, r), max(l, r), min(b, t), max(b, t)
    if n >= 2 and len(pts) != 4 * (n - 1) + 1:
        return False, f"{len(pts)} points for pts_per_side={n}"
    if pts[0] != pts[-1]:
        return False, "not closed"
    for x, y in pts:
        on_edge = (x in (l, r) and lo_y <= y <= hi_y) or (y in (b, t) and lo_x <= x <= hi_x)
        if not on_edge:
            return False, f"point ({float(x)}, {float(y)}) is not on the perimeter"
    if n >= 2 and not {(l, b), (r, b), (r, t), (l, t)} <= set(pts):
        return False, "a corner is missing"
    return True, ""


def run_ext3(R: Run, H, bases, stats):
    import numpy as np
    import shapely
    from affine import Affine
    from odc.geo import geom as GM
    from odc.geo.geobox import GeoBox
    from odc.geo.geom import BoundingBox, Geometry

    rng = R.rng
    real = H.real
    exact_bases = [b_ for b_ in bases if b_[2]]
    g1 = GeoBox((3, 4), Affine(2.0, 0.0, 10.0, 0.0, -2.0, 20.0), H.crs_of("1"))
    gN = GeoBox((3, 4), Affine(2.0, 0.0, 10.0, 0.0, -2.0, 20.0), None)
    gD = GeoBox((3, 4), Affine(2.0, 2.0, 10.0, 1.0, 1.0, 20.0), H.crs_of("1"))   # det = 0
    gR = GeoBox((5, 2), Affine(0.0, -4.0, 8.0, 4.0, 0.0, -16.0), H.crs_of("3"))

    # ------------------------------------------------------------ Y1. empty geometries (and the non-empty branch of the
    # same model functions)
    empties = [("Polygon", shapely.Polygon), ("Point", shapely.Point), ("MultiPoint", shapely.MultiPoint),
               ("LineString", shapely.LineString), ("MultiPolygon", shapely.MultiPolygon),
               ("GeometryCollection", shapely.GeometryCollection)]
    for g, gn in ((g1, "crs"), (gN, "nocrs"), (gD, "det0"), (gR, "rot")):
        for rtag in ("N", "1", "2", "3"):
            for kind, mk in empties:
                e = Geometry(mk(), H.crs_of(rtag))
                rel = "none" if rtag == "N" else "same" if H.tag_of(g.crs) == rtag else "other"
                R.corr(f"c16 projl {H.enc_gbox(g)} {rtag} [] []",
                       real(lambda: (lambda o: f"{H.tag_of(o.crs)} {enc_pts(coords_of(o))}")(g.project(e))),
                       sig=f"projl|empty|g={gn}|region-crs={rel}|{kind}")
                def fee():
                    o_ = real(lambda: H.enc_gbox(g.enclosing(e)))()
                    return o_
                out = R.corr(f"c16 enclgl {H.enc_gbox(g)} {rtag} [] []",
                             lambda: (lambda o_: "ERR:any" if o_.startswith("ERR") else o_)(guarded(fee)),
                             sig=f"enclgl|empty|g={gn}|region-crs={rel}|{kind}")
                R.oracle(out.startswith("ERR"), "enclosing-empty-not-rejected",
                         {"op": "encl-empty", "g": H.gb_dict(g), "kind": kind, "crs": rtag},
                         f"enclosing of an empty {kind} returned {out[:80]}", sig="encl-empty")
    for it in range(R.pick(60, 600)):
        nm, B, ex = rng.choice(exact_bases)
        g = H.member(B, rng.randint(-5, 5), rng.randint(-5, 5), rng.randint(1, 9), rng.randint(1, 9), "1")
        if g is None:
            continue
        pix = [(Fr(rng.randint(-40, 40), 4), Fr(rng.randint(-40, 40), 4)) for _ in range(rng.randint(1, 4))]
        pts = [H.fa_apply(H.fa(g.affine), q) for q in pix]
        if any(H.fa_exact_floats(q) is None for q in pts):
            continue
        pts = [(float(x), float(y)) for x, y in pts]
        geom = GM.multipoint(pts, g.crs)
        cin = coords_of(geom)
        R.corr(f"c16 projl {H.enc_gbox(g)} 1 {enc_pts(cin)} []",
               real(lambda: (lambda o: f"{H.tag_of(o.crs)} {enc_pts(coords_of(o))}")(g.project(geom))), sig="projl|points")
        R.corr(f"c16 enclgl {H.enc_gbox(g)} 1 {enc_pts(cin)} []", real(lambda: H.enc_gbox(g.enclosing(geom))),
               sig="enclgl|points")

    # ------------------------------------------------------------ Y2. BoundingBox.to_crs (pyproj as a table, exact)
    areas = {"eu": ((12.5, 15.0), (44.0, 52.0), "12345"), "au": ((115.0, 150.0), (-40.0, -12.0), "1256")}
    pairs = [(s_, d_, ar, False) for ar, (_lo, _la, tags) in areas.items() for s_ in tags for d_ in tags if s_ != d_]
    pairs += [(t_, t_, "au" if t_ == "6" else "eu", True) for t_ in "123456"] + [(t_, t_, "eu", False) for t_ in "123"]
    pairs += [("N", "1", "eu", False), ("N", "4", "eu", False)]
    rng.shuffle(pairs)
    ll = H.crs_of("2")
    for it in range(R.pick(200, 2000)):
        src, dst, ar, alt = pairs[it % len(pairs)]
        lon, lat = rng.uniform(*areas[ar][0]), rng.uniform(*areas[ar][1])
        src_crs = None if src == "N" else (H.crs_alt(src, it) if alt else H.crs_of(src))
        dst_crs = H.crs_of(dst)
        c = (lon, lat) if src in ("2", "N") else fresh_reproject(ll, src_crs, [(lon, lat)])[0]
        ext = rng.uniform(0.0005, 0.2) if src in ("2", "N") else rng.uniform(50, 20000)
        v = [c[0] + rng.uniform(-1, 1) * ext for _ in range(2)] + [c[1] + rng.uniform(-1, 1) * ext for _ in range(2)]
        if rng.random() < 0.8:   # proper box; otherwise possibly inverted
            v = sorted(v[:2]) + sorted(v[2:])
        bb = BoundingBox(v[0], v[2], v[1], v[3], src_crs)
        ring = region_input_pts(bb)
        same = src == dst
        try:
            dstp = ring if (same or src == "N") else fresh_reproject(src_crs, dst_crs, ring)
        except Exception:  # pylint: disable=broad-except
            continue
        if not all(math.isfinite(x) for q in dstp for x in q):
            continue
        table = "[]" if (same or src == "N") else enc_table(ring, dstp)
        res = []

        def ft():
            o = bb.to_crs(dst_crs)
            res.append(o)
            return H.enc_bb(o)

        sg = "nocrs" if src == "N" else "respelled" if alt else "same" if same else "xcrs"
        inv = "inverted" if (v[0] > v[1] or v[2] > v[3]) else "proper"
        R.corr(f"c16 bbtocrs {H.enc_bb(bb)} {dst} {table}", real(ft),
               sig=f"bbtocrs|{sg}|{inv}|{H.CRS_NAME[src]}>{H.CRS_NAME[dst]}")
        if res:   # independent: exactly the bounds of the fresh pyproj images of the four corners
            want = (min(q[0] for q in dstp), min(q[1] for q in dstp), max(q[0] for q in dstp), max(q[1] for q in dstp))
            R.oracle(tuple(map(float, res[0].bbox)) == want and res[0].crs == dst_crs, "bbox-to-crs-corner-bounds",
                     {"bb": [float(x) for x in bb.bbox], "src": None if src_crs is None else str(src_crs), "dst": str(dst_crs)},
                     f"{bb!r}.to_crs = {res[0]!r}, corner images span {want}", sig="bbtocrs|" + sg)

    # ------------------------------------------------------------ Y3. BoundingBox.boundary
    for it in range(R.pick(150, 1500)):
        big = (not R.quick) and it % 5 == 0
        sc = 2 ** rng.randint(8, 18) if big else 1
        v = [rng.randint(-80, 80) / 8 * sc for _ in range(4)]
        if rng.random() < 0.85:
            v = sorted(v[:2]) + sorted(v[2:])
        bb = BoundingBox(v[0], v[2], v[1], v[3], H.crs_of(rng.choice(["N", "1"])))
        n = rng.choice([0, 1, 2, 2, 3, 5, 9, 17]) if it % 7 else rng.choice([4, 6, 7, 16])
        res = []

        def fb():
            o = bb.boundary(n)
            res.append(o)
            return enc_pts(coords_of(o))

        # expected coordinates must be float32 numbers for the tie to be exact (the code rounds linspace to float32)
        exact = True
        if n >= 2:
            for a_, b_ in ((v[0], v[1]), (v[2], v[3])):
                for i_ in range(n):
                    w_ = Fr(a_) + i_ * (Fr(b_) - Fr(a_)) / (n - 1)
                    exact = exact and Fr(float(np.float32(float(w_)))) == w_
        else:
            exact = all(Fr(float(np.float32(x))) == Fr(x) for x in v)
        if exact:
            R.corr(f"c16 bbboundary {H.enc_bb(bb)} {n}", fb, sig=f"bbboundary|n={n}" + ("|big" if big else ""))
        else:
            guarded(fb)
            stats["inexact-skipped"] += 1
        if res and n >= 1:
            pts = [(Fr(x), Fr(y)) for x, y in coords_of(res[0])]
            if exact:
                ok, what = perimeter_ok(bb, pts, n)
            else:   # float32 rounding: within 1e-6 relative of the box
                l_, b_, r_, t_ = (float(x) for x in bb.bbox)
                tol_ = 1e-6 * max(1.0, abs(l_), abs(r_), abs(b_), abs(t_))
                ok = all(min(l_, r_) - tol_ <= float(x) <= max(l_, r_) + tol_ and min(b_, t_) - tol_ <= float(y) <= max(b_, t_) + tol_
                         for x, y in pts) and pts[0] == pts[-1]
                what = "a boundary point lies outside the box"
            R.oracle(ok and res[0].crs == bb.crs, "bbox-boundary-on-perimeter", {"bb": [float(x) for x in bb.bbox], "n": n},
                     f"{bb!r}.boundary({n}): {what}", sig="bbboundary|" + ("exact" if exact else "float32"))

    # ------------------------------------------------------------ Y4. non-linear (GCP) operands: always refused
    gg = make_gcp_box(H, R.notes)
    if gg is not None:
        classes = set()
        lin = [g1, H.member(exact_bases[0][1], 1, 2, 3, 3), gR, gD, gN]
        # the linear grids a silent approximation would be COMPATIBLE with: the GCP box's own affine approximation and
        # whole-pixel shifts of it (with these an "approximate through .approx" shortcut succeeds instead of refusing)
        try:
            ap = gg.approx
            lin += [ap, GeoBox((4, 7), ap.affine * Affine.translation(3, -2), ap.crs)]
        except Exception as e:  # pylint: disable=broad-except
            R.notes.append(f"GCPGeoBox.approx not available ({e!r}); compatible-approximation operands skipped")
        for a, b in [(x, gg) for x in lin] + [(gg, x) for x in lin] + [(gg, gg)]:
            ea, eb = ("GCP" if x is gg else H.enc_gbox(x) for x in (a, b))
            for which, f in (("or", lambda: a | b), ("and", lambda: a & b),
                             ("roi", lambda: getattr(a, "overlap_roi")(b)), ("snap", lambda: getattr(a, "snap_to")(b))):
                def fr():
                    try:
                        o = f()
                    except Exception as e_:  # pylint: disable=broad-except
                        # refused: no `.affine`, no operator, or a CRS / invertibility test that happens to come first
                        # (which of them is a matter of internal step order, not judged)
                        classes.add(type(e_).__name__)
                        return "REFUSED"
                    return H.enc_roi(o) if which == "roi" else H.enc_gbox(o)

                out = R.corr(f"c16 opd {which} {ea} {eb}", real(fr),
                             sig=f"opd|{which}|{'gcp' if a is gg else 'lin'}-{'gcp' if b is gg else 'lin'}")
                R.oracle(out == "REFUSED", "nonlinear-operand-not-refused",
                         {"op": which, "a": ea, "b": eb}, f"{which} with a GCPGeoBox operand returned {out[:80]}", sig="opd|refused")
        for which, a, b in (("or", g1, lin[0]), ("and", g1, lin[0]), ("roi", g1, lin[0]), ("snap", g1, lin[0])):
            R.corr(f"c16 opd {which} {H.enc_gbox(a)} {H.enc_gbox(b)}",
                   real(lambda: H.enc_roi(a.overlap_roi(b)) if which == "roi" else H.enc_gbox(
                       (a | b) if which == "or" else (a & b) if which == "and" else a.snap_to(b))), sig=f"opd|{which}|lin-lin")
        for fn_name in ("geobox_union_conservative", "geobox_intersection_conservative"):
            from odc.geo import geobox as GBm

            out = guarded(lambda: str(getattr(GBm, fn_name)([g1, gg])))
            R.oracle(out.startswith("ERR"), "nonlinear-operand-not-refused", {"op": fn_name}, f"{fn_name}([linear, gcp]) returned {out[:80]}",
                     sig="opd|refused")
        R.notes.append(f"set operations with a GCPGeoBox operand are refused with {sorted(classes)}")

    # ------------------------------------------------------------ Y5. large shapes / threshold offsets for the round-2 ops
    POW = [2**31, 2**40 + 2**20, 2**52, 2**60]
    eps_t = [1e-8, math.nextafter(1e-8, 0), math.nextafter(1e-8, 1), 0.5, 0.5 + 2.0**-30, 0.5 - 2.0**-30, 2.0**-40, 1 - 2.0**-30]
    for it in range(R.pick(60, 1200)):
        k = rng.randint(-3, 4)
        sgn = rng.choice([(1, -1), (1, 1), (-1, -1)])
        s_ = 2.0 ** k
        ny, nx = (rng.choice(POW) if rng.random() < 0.6 else rng.randint(0, 9) for _ in range(2))
        off = (0.0, 0.0) if max(ny, nx) > 9 else (float(rng.randint(-64, 64)), float(rng.randint(-64, 64)))   # keep a*n + c exact
        A = Affine(sgn[0] * s_, 0.0, off[0], 0.0, sgn[1] * s_, off[1])
        g = GeoBox((ny, nx), A, H.crs_of("1"))
        R.corr(f"c16 gbbox {H.enc_gbox(g)}", real(lambda: H.enc_bb(g.boundingbox)), sig="gbbox|huge-shape")
        R.corr(f"c16 gextent {H.enc_gbox(g)}", real(lambda: enc_pts(coords_of(g.extent))), sig="gextent|huge-shape")
        tx = rng.randint(-9, 9) + rng.choice([1, -1]) * rng.choice(eps_t)
        ty = rng.choice([0.0, float(rng.choice(POW)), -3.0])
        want = H.fa_mul(H.fa(A), H.fa_T(Fr(tx), Fr(ty)))
        got = guarded(lambda: H.enc_gbox(g.translate_pix(tx, ty)))
        if H.fa_exact_floats(want) is not None and not got.startswith("ERR") and got.split(":")[2] == H.enc_aff(want):
            R.corr(f"c16 tpix {H.enc_gbox(g)} {frac_s(tx)} {frac_s(ty)}", real(lambda: H.enc_gbox(g.translate_pix(tx, ty))),
                   sig="tpix|threshold-offset")
        else:
            stats["inexact-skipped"] += 1
        # far-away region through the entry point (power-of-two grid anchored at the origin: wld2pix exact)
        g0 = GeoBox((rng.randint(1, 9), rng.randint(1, 9)), Affine(sgn[0] * s_, 0.0, 0.0, 0.0, sgn[1] * s_, 0.0), H.crs_of("1"))
        far = rng.choice([2.0**30, -(2.0**34), 2.0**40]) * s_
        bb = BoundingBox(far + rng.randint(0, 7) / 4 * s_, far - 3.5 * s_, far + (9 + rng.randint(0, 3) / 2) * s_, far + 0.25 * s_, H.crs_of("1"))
        R.corr(f"c16 enclr {H.enc_gbox(g0)} {enc_region(H, bb)} []", real(lambda: H.enc_gbox(g0.enclosing(bb))), sig="enclr|far-away")


# ---------------------------------------------------------------------------------------------------------------------
# final increment: C16 o C14 (GridSpec tiles as operands), BoundingBox.map_bounds / aoi dispatch
def run_ext4(R: Run, H, stats):
    from odc.geo import resxy_, xy_
    from odc.geo.geobox import geobox_union_conservative
    from odc.geo.gridspec import GridSpec

    rng = R.rng
    real = H.real
    for it in range(R.pick(120, 1500)):
        ny, nx = rng.randint(1, 6), rng.randint(1, 6)
        if it % 29 == 0:
            ny = 0                                  # rejected by Bin1D: AssertionError
        rx = rng.choice([1, -1]) * 2.0 ** rng.randint(-3, 4)
        ry = rng.choice([1, -1, -1]) * 2.0 ** rng.randint(-3, 4)
        ox, oy = rng.randint(-64, 64) / 4, rng.randint(-64, 64) / 4
        fx, fy = rng.random() < 0.3, rng.random() < 0.4
        tag = rng.choice(["1", "1", "4"])
        tok = f"{ny}:{nx}:{frac_s(rx)}:{frac_s(ry)}:{frac_s(ox)}:{frac_s(oy)}:{bool_s(fx)}:{bool_s(fy)}"
        sgn = ("+" if rx > 0 else "-") + ("+" if ry > 0 else "-") + ("|fx" if fx else "") + ("|fy" if fy else "")
        big = (not R.quick) and it % 7 == 0
        span = 2**20 if big else 4

        def mk():
            return GridSpec(H.crs_of(tag), (ny, nx), resxy_(rx, ry), origin=xy_(ox, oy), flipx=fx, flipy=fy)

        ix, iy = rng.randint(-span, span), rng.randint(-span, span)
        jx, jy = rng.choice([(ix + 1, iy), (ix, iy - 1), (ix, iy), (ix - 1, iy + 1), (rng.randint(-span, span), rng.randint(-span, span))])
        m = rng.randint(0, 4)
        case = {"op": "gridspec", "gs": tok, "crs": tag, "a": [ix, iy], "b": [jx, jy], "m": m}

        def f_tile():
            gs = mk()
            t, t0 = gs.tile_geobox((ix, iy)), gs.tile_geobox((0, 0))
            r = H.rect_of(t, t0)
            return f"{H.enc_gbox(t)} " + ("off-grid" if r is None else ";".join(str(v) for v in r))

        def f_ops():
            gs = mk()
            a, b = gs.tile_geobox((ix, iy)), gs.tile_geobox((jx, jy))
            return f"{real(lambda: H.enc_gbox(a | b))()} {real(lambda: H.enc_gbox(a & b))()} {real(lambda: H.enc_roi(a.overlap_roi(b)))()}"

        def f_row():
            gs = mk()
            return H.enc_gbox(geobox_union_conservative([gs.tile_geobox((ix + j, iy)) for j in range(m + 1)]))

        o1 = R.corr(f"c16 gstile {tok} {tag} {ix} {iy}", real(f_tile), sig=f"gstile|{sgn}" + ("|big" if big else "") + ("|ny=0" if ny == 0 else ""))
        o2 = R.corr(f"c16 gsops {tok} {tag} {ix} {iy} {jx} {jy}", real(f_ops),
                    sig="gsops|" + ("same" if (ix, iy) == (jx, jy) else "neighbour" if abs(ix - jx) + abs(iy - jy) <= 2 else "far"))
        o3 = R.corr(f"c16 gsrow {tok} {tag} {ix} {iy} {m}", real(f_row), sig=f"gsrow|m={m}")
        if ny == 0:
            continue
        # independent oracles on the real objects (theorems tile_onGrid, tiles_ops_succeed, tiles_disjoint, row_union)
        try:
            gs = mk()
            a, b = gs.tile_geobox((ix, iy)), gs.tile_geobox((jx, jy))
            u, i = a | b, a & b
            ok1, w1 = H.chk_union([a, b], u)
            ok2, w2 = H.chk_inter([a, b], i)
            ok3 = (ix, iy) == (jx, jy) or i.is_empty()
            row = geobox_union_conservative([gs.tile_geobox((ix + j, iy)) for j in range(m + 1)])
            ok4 = tuple(row.shape) == (ny, (m + 1) * nx) and H.chk_union([gs.tile_geobox((ix + j, iy)) for j in range(m + 1)], row)[0]
            R.oracle(ok1 and ok2, "gridspec-tiles-set-ops", case, f"{w1} {w2}", sig="gridspec|ops")
            R.oracle(ok3, "gridspec-tiles-overlap", case, f"different tiles share pixels: a & b = {i!r}", sig="gridspec|disjoint")
            R.oracle(ok4, "gridspec-row-union", case, f"union of a row of {m + 1} tiles = {row!r}", sig="gridspec|row")
        except Exception as e:  # pylint: disable=broad-except
            R.oracle(False, "gridspec-tiles-op-raises", case, f"set operation between tiles of one GridSpec raised {e!r}", sig="gridspec|raises")
    # realistic grids (oracle only): neighbouring tiles combine
    for crs_, shape_, res_, org_ in (("EPSG:3577", (4000, 4000), (25.0, -25.0), (0.0, 0.0)), ("EPSG:32633", (3660, 3660), (30.0, -30.0), (399960.0, 0.0)),
                                     ("EPSG:4326", (4000, 4000), (0.00025, -0.00025), (-180.0, -90.0)), ("EPSG:3857", (256, 256), (152.8740565703525, -152.8740565703525), (-20037508.342789244, -20037508.342789244))):
        try:
            gs = GridSpec(crs_, shape_, resxy_(*res_), origin=xy_(*org_))
            for _ in range(R.pick(6, 60)):
                ix, iy = rng.randint(-40, 40), rng.randint(-40, 40)
                a, b, c = gs.tile_geobox((ix, iy)), gs.tile_geobox((ix + 1, iy)), gs.tile_geobox((ix, iy + 1))
                case = {"op": "gridspec-float", "crs": crs_, "a": [ix, iy]}
                out = guarded(lambda: str((tuple((a | b).shape), tuple((a | c).shape), (a & b).is_empty(), H.enc_roi(a.overlap_roi(b)))))
                want = str(((shape_[0], 2 * shape_[1]), (2 * shape_[0], shape_[1]), True, f"0:{shape_[0]} {shape_[1]}:{shape_[1]}"))
                R.oracle(out == want, "gridspec-tiles-set-ops", case, f"neighbouring tiles of a {crs_} grid: {out}, expected {want}",
                         sig="gridspec|float|" + crs_)
        except Exception as e:  # pylint: disable=broad-except
            R.oracle(False, "gridspec-tiles-op-raises", {"op": "gridspec-float", "crs": crs_}, f"raised {e!r}")


def run_ext5(R: Run, H, stats):
    """BoundingBox.map_bounds / aoi dispatch (pyproj as a table) and GCPGeoBox.project (p2w / w2p of the mapping as tables)"""
    from odc.geo import geom as GM
    from odc.geo.geom import BoundingBox

    rng = R.rng
    real = H.real
    ll = H.crs_of("2")
    srcs = [("N", "eu", 0), ("2", "eu", 0), ("2", "eu", 1), ("1", "eu", 0), ("3", "eu", 0), ("4", "eu", 0), ("5", "eu", 0), ("6", "au", 0),
            ("1", "au", 0)]
    areas = {"eu": ((12.5, 15.0), (44.0, 52.0)), "au": ((115.0, 150.0), (-40.0, -12.0))}
    for it in range(R.pick(90, 900)):
        src, ar, alt = srcs[it % len(srcs)]
        lon, lat = rng.uniform(*areas[ar][0]), rng.uniform(*areas[ar][1])
        src_crs = None if src == "N" else (H.crs_alt(src, it) if alt else H.crs_of(src))
        lonlat = src in ("N", "2")
        c = (lon, lat) if lonlat else fresh_reproject(ll, src_crs, [(lon, lat)])[0]
        ext = rng.uniform(0.0005, 0.2) if lonlat else rng.uniform(50, 20000)
        xs_ = sorted(c[0] + rng.uniform(-1, 1) * ext for _ in range(2))
        ys_ = sorted(c[1] + rng.uniform(-1, 1) * ext for _ in range(2))
        bb = BoundingBox(xs_[0], ys_[0], xs_[1], ys_[1], src_crs)
        ring = region_input_pts(bb)
        try:
            dstp = ring if lonlat else fresh_reproject(src_crs, ll, ring)
        except Exception:  # pylint: disable=broad-except
            continue
        if not all(math.isfinite(x) for q in dstp for x in q):
            continue
        table = "[]" if lonlat else enc_table(ring, dstp)
        sg = "nocrs" if src == "N" else "lonlat-respelled" if alt else "lonlat" if src == "2" else "projected|" + H.CRS_NAME[src]
        out = R.corr(f"c16 bbmapb {H.enc_bb(bb)} 2 {table}",
                     real(lambda: (lambda m_: f"{frac_s(m_[0][0])};{frac_s(m_[0][1])} {frac_s(m_[1][0])};{frac_s(m_[1][1])}")(bb.map_bounds())),
                     sig="bbmapb|" + sg)
        sw, ne = dstp[0], dstp[2]    # images of (left, bottom) and (right, top)
        R.oracle(out == f"{frac_s(sw[1])};{frac_s(sw[0])} {frac_s(ne[1])};{frac_s(ne[0])}", "bbox-map-bounds-corners",
                 {"bb": [float(x) for x in bb.bbox], "src": None if src_crs is None else str(src_crs)},
                 f"{bb!r}.map_bounds() = {out}; SW / NE corners in lon-lat are {sw} / {ne}", sig="bbmapb|" + sg.split("|")[0])

        def f_aoi():
            a_ = bb.aoi
            return ";".join(frac_s(v) for v in (a_.west_lon_degree, a_.south_lat_degree, a_.east_lon_degree, a_.north_lat_degree))

        out = R.corr(f"c16 bbaoi {H.enc_bb(bb)} 2 {table}", real(f_aoi), sig="bbaoi|" + sg)
        want = (min(q[0] for q in dstp), min(q[1] for q in dstp), max(q[0] for q in dstp), max(q[1] for q in dstp))
        R.oracle(out == ";".join(frac_s(v) for v in want), "bbox-aoi-bounds",
                 {"bb": [float(x) for x in bb.bbox], "src": None if src_crs is None else str(src_crs)},
                 f"{bb!r}.aoi = {out}; lon-lat bounds of the corners are {want}", sig="bbaoi|" + sg.split("|")[0])

    # GCPGeoBox.project through views whose pixel-side affine is a whole-pixel translation (exact)
    try:
        from odc.geo import xy_
        from odc.geo.gcp import GCPGeoBox, GCPMapping

        pix = [xy_(p) for p in [(0, 0), (10, 0), (10, 10), (0, 10), (5, 5), (2, 7)]]
        wld = [xy_(p) for p in [(100, 200), (120, 201), (121, 180), (99, 181), (110, 190), (104, 186)]]
        mp = GCPMapping(pix, wld, H.crs_of("1"))
        gg = GCPGeoBox((10, 10), mp)
        p2w, w2p = mp.p2w, mp.w2p
    except Exception as e:  # pylint: disable=broad-except
        R.notes.append(f"GCPGeoBox / GCPMapping not constructible through the public API ({e!r}); gcpproj stream skipped")
        return
    for it in range(R.pick(60, 600)):
        y0, x0 = rng.randint(0, 5), rng.randint(0, 5)
        y1, x1 = y0 + rng.randint(1, 4), x0 + rng.randint(1, 4)
        v = gg[y0:y1, x0:x1] if it % 5 else gg
        if it % 5 == 0:
            y0, x0, y1, x1 = 0, 0, 10, 10
        gtok = f"{y1 - y0}:{x1 - x0}:1;0;{x0};0;1;{y0}:1"     # the view: same mapping, pixel-side affine = translation(x0, y0)
        n = rng.randint(1, 4)
        to_world = it % 2 == 0
        if to_world:
            pts = [(rng.randint(0, 32) / 4, rng.randint(0, 32) / 4) for _ in range(n)]
            geom = GM.multipoint(pts, None) if n > 1 else GM.point(pts[0][0], pts[0][1], None)
            cin = coords_of(geom)
            src_pts = [(q[0] + x0, q[1] + y0) for q in cin]
            img = [tuple(float(t) for t in p2w(q[0], q[1])) for q in src_pts]
            ptab, qtab, rtag = enc_table(src_pts, img), "[]", "N"
        else:
            pts = [(rng.uniform(100, 120), rng.uniform(181, 200)) for _ in range(n)]
            geom = GM.multipoint(pts, H.crs_of("1")) if n > 1 else GM.point(pts[0][0], pts[0][1], H.crs_of("1"))
            cin = coords_of(geom)
            img = [tuple(float(t) for t in w2p(q[0], q[1])) for q in cin]
            ptab, qtab, rtag = "[]", enc_table(cin, img), "1"
            # `~affine * (x, y)` subtracts the view offset in floats: tie only where that subtraction is exact
            if not all(Fr(q[0] - x0) == Fr(q[0]) - x0 and Fr(q[1] - y0) == Fr(q[1]) - y0 for q in img):
                stats["inexact-skipped"] += 1
                continue
        if not all(math.isfinite(t) for q in img for t in q):
            continue
        R.corr(f"c16 gcpproj {gtok} {rtag} {enc_pts(cin)} {ptab} {qtab} []",
               real(lambda: (lambda o: f"{H.tag_of(o.crs)} {enc_pts(coords_of(o))}")(v.project(geom))),
               sig="gcpproj|" + ("to-world" if to_world else "to-pix") + ("|view" if it % 5 else "|whole"))


def enclosing_excess_oracle(H, g, verts, res, sl):
    """theorem enclosing_world_excess on the real output (any invertible grid): with T the world bounding box of the
    region's tight pixel box, res.boundingbox contains T and exceeds it by at most (|a|+|b|, |d|+|e|) per side"""
    A = H.fa(g.affine)
    if A[0] * A[4] - A[1] * A[3] == 0:
        return True, ""
    inv = H.fa_inv(A)
    px = [H.fa_apply(inv, (Fr(x), Fr(y))) for x, y in verts]
    pl, pr = min(p[0] for p in px), max(p[0] for p in px)
    pb, pt = min(p[1] for p in px), max(p[1] for p in px)
    cs = [H.fa_apply(A, q) for q in ((pl, pb), (pl, pt), (pr, pb), (pr, pt))]
    T = (min(c[0] for c in cs), min(c[1] for c in cs), max(c[0] for c in cs), max(c[1] for c in cs))
    W = bb_fr(res.boundingbox)
    wx, wy = abs(A[0]) + abs(A[1]), abs(A[3]) + abs(A[4])
    s_ = sl * max(wx, wy)
    if not bb_within(T, W, s_):
        return False, f"result bounding box {tuple(map(float, W))} does not contain the region's pixel-box footprint {tuple(map(float, T))}"
    if not (T[0] - wx - s_ <= W[0] and T[1] - wy - s_ <= W[1] and W[2] <= T[2] + wx + s_ and W[3] <= T[3] + wy + s_):
        return False, (f"result bounding box {tuple(map(float, W))} exceeds {tuple(map(float, T))} by more than one pixel's "
                       f"world bounding box ({float(wx)}, {float(wy)})")
    return True, ""


def run_ext6(R: Run, H, bases, stats):
    """reduce(|) / reduce(&) against the n-ary functions for ARBITRARY operand lists: members on the grid, members off it
    by less than the tolerance (accepted), members beyond it or in another CRS (rejected) - theorems
    reduce_or_eq_union_any / reduce_and_eq_inter_any / bbpd_ref_shift"""
    import functools
    import operator

    from odc.geo.geobox import geobox_intersection_conservative, geobox_union_conservative

    rng = R.rng
    real = H.real
    simple = [("north-up", (1, 0, 0, 0, -1, 0)), ("mirror-x", (-2, 0, 0, 0, -2, 0)), ("south-up", (2, 0, 0, 0, 2, 0)),
              ("rot90", (0, -1, 0, 1, 0, 0)), ("rot45", (1, -1, 0, 1, 1, 0)), ("shear", (1, 1, 0, 0, 1, 0))]
    offs = [Fr(0), Fr(0), Fr(0), Fr(1, 2**30), Fr(-1, 2**30), Fr(1, 2**28), Fr(1, 2**20), Fr(1, 2), Fr(-1, 4)]   # < 1e-8 accepted
    for it in range(R.pick(150, 2000)):
        nm, B = rng.choice(simple)
        B = tuple(Fr(v) for v in B)
        k = rng.choice([2, 3, 3, 4])
        big = (not R.quick) and it % 9 == 0
        span = 2**rng.randint(10, 30) if big else 6
        gs, kinds = [], []
        for j in range(k):
            e1, e2 = rng.choice(offs), rng.choice(offs[:4])
            if it % 3 == 0:
                e1 = e2 = Fr(0)
            tag = "2" if (it % 17 == 0 and j == k - 1) else "1"
            g_ = H.mk_gbox(H.fa_mul(B, H.fa_T(rng.randint(-span, span) + e1, rng.randint(-span, span) + e2)),
                           rng.randint(0 if j else 1, 5), rng.randint(0 if j else 1, 5), tag)
            gs.append(g_)
            sub = max(abs(e1), abs(e2))
            kinds.append("crs" if tag == "2" else "on" if sub == 0 else "near" if sub < Fr(1e-8) else "off")
        if any(g_ is None for g_ in gs) or not all(H.exact_pair(x, y) for x in gs for y in gs):
            stats["inexact-skipped"] += 1
            continue
        egs = list_s(gs, H.enc_gbox)
        sg = "+".join(sorted(set(kinds))) + ("|big" if big else "")
        case = {"gs": [H.gb_dict(g_) for g_ in gs], "op": "reduce"}
        for op, fold, nary in (("or", operator.or_, geobox_union_conservative), ("and", operator.and_, geobox_intersection_conservative)):
            o1 = R.corr(f"c16 reduce {op} {egs}", real(lambda: H.enc_gbox(functools.reduce(fold, gs))), sig=f"reduce|{op}|{nm}|{sg}")
            o2 = guarded(real(lambda: H.enc_gbox(nary(list(gs)))))
            same = (o1 == o2) or (o1.startswith("ERR") and o2.startswith("ERR"))
            R.oracle(same, "nary-differs-from-binary-fold", {**case, "which": op},
                     f"reduce({op}) gave {o1[:90]} but the n-ary function gave {o2[:90]}", sig=f"reduce-vs-nary|{op}|{sg}")
