"""C02, growth round 2 — the glue around the modelled core: argument normalisers (shape_, res_), the dispatch of
zoom_to and __getitem__ on the kind of argument incl. their error branches, enclosing / project argument handling,
small accessors, the two intermediate values of footprint(), GCPGeoBox constructor / resolution / approx.

Every public call is made with the argument *as a user spells it* (tuple, list, XY, Shape2d, Index2d, numpy scalars,
bool, Resolution, bare number, BoundingBox, Geometry, GeoBox ...), the Lean driver gets the same argument in the
syntax of Drv/C02.lean (`runGlue`), and an independent oracle judges the real result.
"""
from __future__ import annotations

import math
from fractions import Fraction as F

import numpy as np

from .common import Run, frac_s, list_s


def _H():
    from . import c02 as H
    return H


# ------------------------------------------------------------------ argument specs -> (driver token, python object)
def num_tok(v) -> str:
    """PyNum token of a python number as the code sees it through int() / float()"""
    if isinstance(v, (bool, int, np.integer)):
        return f"i{int(v)}"
    return f"f{frac_s(float(v))}"


def trunc0(v) -> int:
    """independent int(): truncation toward zero of the exact value"""
    q = F(int(v)) if isinstance(v, (bool, int, np.integer)) else F(float(v))
    return math.trunc(q)


def gen_num(rng, lo=0, hi=9, allow_frac=True):
    k = rng.randint(lo, hi)
    r = rng.random()
    if r < 0.45:
        return k
    if r < 0.55:
        return np.int64(k)
    if r < 0.60:
        return bool(k % 2)
    if r < 0.70:
        return float(k)
    if r < 0.75:
        return np.float64(k)
    if allow_frac:
        return k + rng.choice([0.25, 0.5, 0.75, -0.25, -0.5]) if r < 0.95 else -(k + 0.5)
    return k


def shape_arg(rng, ny, nx, kind=None):
    """(token, object, expected (ny, nx) | None for ValueError, spelling) for `shape_`"""
    from odc.geo import types as T
    kind = kind or rng.choice(["Q", "Q", "Q", "X", "X", "S", "Q-len", "O"])
    if kind == "Q":
        ctor = rng.choice([tuple, list])
        return f"Q,{num_tok(ny)},{num_tok(nx)}", ctor([ny, nx]), (trunc0(ny), trunc0(nx)), f"seq-{ctor.__name__}"
    if kind == "X":
        ints = all(isinstance(v, (int, np.integer)) and not isinstance(v, bool) for v in (ny, nx))
        mk = rng.choice(["xy_", "yx_", "XY"] + (["ixy_", "iyx_", "Index2d"] if ints else []))
        obj = {"xy_": lambda: T.xy_(nx, ny), "yx_": lambda: T.yx_(ny, nx), "XY": lambda: T.XY(x=nx, y=ny),
               "ixy_": lambda: T.ixy_(int(nx), int(ny)), "iyx_": lambda: T.iyx_(int(ny), int(nx)),
               "Index2d": lambda: T.Index2d(x=int(nx), y=int(ny))}[mk]()
        return f"X,{num_tok(nx)},{num_tok(ny)}", obj, (trunc0(ny), trunc0(nx)), mk
    if kind == "S":
        iy, ix = trunc0(ny), trunc0(nx)
        mk = rng.choice(["wh_", "shape_", "Shape2d"])
        obj = {"wh_": lambda: T.wh_(ix, iy), "shape_": lambda: T.shape_((iy, ix)), "Shape2d": lambda: T.Shape2d(x=ix, y=iy)}[mk]()
        return f"S,{iy},{ix}", obj, (iy, ix), mk
    if kind == "Q-len":
        n = rng.choice([0, 1, 3, 4])
        vals = [gen_num(rng) for _ in range(n)]
        ctor = rng.choice([tuple, list])
        return "Q" + "".join("," + num_tok(v) for v in vals), ctor(vals), None, f"seq-len{n}"
    mk = rng.choice(["None", "ndarray", "set", "dict", "np.int64"])
    obj = {"None": None, "ndarray": np.asarray([3, 4]), "set": {3, 4}, "dict": {3: 4, 5: 6}, "np.int64": np.int64(5)}[mk]
    return "O", obj, None, "other-" + mk


def res_arg(rng, exact=True):
    """(token, object, (rx, ry) | None for ValueError, spelling) for `res_`"""
    from odc.geo import types as T
    r = rng.choice([-1, 1]) * 2.0 ** rng.randint(-6, 6)
    r2 = rng.choice([-1, 1]) * 2.0 ** rng.randint(-6, 6)
    mk = rng.choice(["float", "float", "int", "bool", "np.float64", "Resolution1", "resxy_", "resyx_", "Resolution2",
                     "zero", "tuple", "str", "np.float32", "np.int64"])
    if mk == "float":
        return f"n,{num_tok(r)}", r, (r, -r), mk
    if mk == "int":
        k = rng.choice([1, 2, 4, 8, -2, 16])
        return f"n,i{k}", k, (float(k), -float(k)), mk
    if mk == "bool":
        return "n,i1", True, (1.0, -1.0), mk
    if mk == "np.float64":
        return f"n,{num_tok(r)}", np.float64(r), (r, -r), mk
    if mk == "Resolution1":
        return f"r,{frac_s(r)},{frac_s(-r)}", T.Resolution(r), (r, -r), mk
    if mk == "resxy_":
        return f"r,{frac_s(r)},{frac_s(r2)}", T.resxy_(r, r2), (r, r2), mk
    if mk == "resyx_":
        return f"r,{frac_s(r)},{frac_s(r2)}", T.resyx_(r2, r), (r, r2), mk
    if mk == "Resolution2":
        return f"r,{frac_s(r)},{frac_s(r2)}", T.Resolution(r, r2), (r, r2), mk
    if mk == "zero":
        z = rng.choice([0, 0.0])
        return f"n,{num_tok(z)}", z, (0.0, 0.0), mk
    obj = {"tuple": (r, -r), "str": "2", "np.float32": np.float32(r), "np.int64": np.int64(2)}[mk]
    return "O", obj, None, "other-" + mk


def pin_mapping(R, mapping, B, p2w=None, w2p=None) -> bool:
    """Pin the cached best-fit affine (and optionally the fitted p2w / w2p callables) of a GCPMapping to exact values.
    The caches are private attributes: the pin counts only if the PUBLIC properties report the pinned values afterwards;
    otherwise the stream is skipped with a note (never a verdict)."""
    try:
        setattr(mapping, "_approx_affine", B)
        if p2w is not None:
            setattr(mapping, "_p2w", p2w)
            setattr(mapping, "_w2p", w2p)
        ok = tuple(mapping.approx)[:6] == tuple(B)[:6] and (p2w is None or (mapping.p2w is p2w and mapping.w2p is w2p))
    except Exception:  # pylint: disable=broad-except
        ok = False
    if not ok:
        note = "GCPMapping caches (_approx_affine / _p2w / _w2p) could not be pinned: exact GCP composition stream skipped"
        if note not in R.notes:
            R.notes.append(note)
    return ok


def result_gcps(o):
    """control points of a GCP geobox in ITS OWN pixel space (public gcps()): [(col, row, x, y)]"""
    return [(float(gp.col), float(gp.row), float(gp.x), float(gp.y)) for gp in o.gcps()]


def _tni(fn, TNI):
    def w():
        try:
            return fn()
        except TNI:
            raise ValueError("not invertible")
    return w


# ------------------------------------------------------------------ A. shapes at every entry point that takes one
def shape_stream(R: Run, ops, cxE):
    H = _H()
    GB, GCP, Affine, rng = ops.GB, ops.GCP, ops.Affine, R.rng
    mapping = H.build_gcp_mapping(GCP, 12, 16, Affine(30.0, 0, 5e5, 0, -30.0, 6e6), True)
    for it in range(R.pick(500, 3000)):
        g, cls = H.gen_gbox_exact(rng, GB, Affine, nmax=24)
        ny, nx = gen_num(rng, 0, 12), gen_num(rng, 0, 12)
        tok, obj, want, spell = shape_arg(rng, ny, nx)
        entry = rng.choice(["ctor", "crop", "expand", "gcp-ctor", "gcp-ctor-affine"])
        res = []
        if entry in ("ctor", "crop", "expand"):
            call = {"ctor": lambda: GB.GeoBox(obj, g.affine, g.crs), "crop": lambda: g.crop(obj), "expand": lambda: g.expand(obj)}[entry]
            line = f"c02 rsz {H.enc_gb(g)} {tok}"
            A0, crs0 = g.affine, g.crs
        else:
            A1 = None if entry == "gcp-ctor" else Affine(2.0, 0, rng.randint(-8, 8) / 2.0, 0, 0.5, rng.randint(-8, 8) / 4.0)
            call = (lambda: GCP.GCPGeoBox(obj, mapping)) if A1 is None else (lambda: GCP.GCPGeoBox(obj, mapping, A1))
            line = f"c02 mkgcp {tok} {'N' if A1 is None else H.enc_aff(A1)} 3"
            A0, crs0 = (Affine.identity() if A1 is None else A1), mapping.crs

        def fn():
            o = call()
            res.append(o)
            return H.enc_gb(o)
        R.corr(line, fn, sig=f"shape-arg|{entry}|" + ("ok" if want is not None else "error"))
        R.count("shape-spelling:" + spell)
        case = {"op": "shape-arg", "gbox": H.enc_gb(g), "args": {"entry": entry, "spelling": spell, "token": tok}}
        if res:
            o = res[0]
            ok = want is not None and tuple(map(int, o.shape)) == tuple(want) and tuple(H.aff_of(o))[:6] == tuple(A0)[:6] and o.crs == crs0
            R.oracle(ok, "shape-arg-" + entry.split("-")[0], case,
                     f"{entry}({obj!r}) has shape {tuple(o.shape)}, affine {tuple(H.aff_of(o))[:6]}; the shape given is {want}, "
                     f"the affine {tuple(A0)[:6]}", sig=f"shape-arg|{entry}")


# ------------------------------------------------------------------ B. zoom_to(shape | n | None, resolution=...)
def zoom_to_stream(R: Run, ops, cxE):
    H = _H()
    GB, Affine, rng = ops.GB, ops.Affine, R.rng
    for it in range(R.pick(800, 5000)):
        g, cls = H.gen_gbox_exact(rng, GB, Affine, nmax=32, allow_zero=rng.random() < 0.1)
        if not H.narrow(tuple(H.aff_of(g))[:6], 30):
            continue
        ny, nx = map(int, g.shape)
        nmax = max(ny, nx)
        zk = rng.choice(["none", "none", "num", "num", "shape", "shape"])
        want_shape, n_arg = None, None
        exact_aff = True
        if zk == "none":
            ztok, zobj, zsp = "N", None, "none"
        elif zk == "num":
            ds = [d for d in range(1, max(nmax, 1) + 1) if nmax and nmax % d == 0] or [1]
            n = rng.choice([rng.choice(ds), rng.choice(ds) * 2, rng.randint(1, 3 * max(nmax, 1)), 0])
            mk = rng.choice(["int", "int", "float", "bool", "np.float64", "frac"])
            if (n == 0 or nmax == 0) and mk == "np.float64":
                # numpy scalars divide by zero to inf / nan (RuntimeWarning) instead of raising ZeroDivisionError, also for an
                # empty geobox (nmax == 0: 0.0 / 0 is nan, ceil(nan) a ValueError): outside the model
                mk = "float"
            n_arg = {"int": n, "float": float(n), "bool": True, "np.float64": np.float64(n), "frac": n + 0.5}[mk]
            ztok, zobj, zsp = "#" + num_tok(n_arg), n_arg, "num-" + mk
            q = F(float(n_arg))
            exact_aff = q != 0 and nmax != 0 and (F(nmax) / q).denominator & ((F(nmax) / q).denominator - 1) == 0 and \
                all(F(s) * q / nmax == F(float(s * float(n_arg)) / nmax) for s in (ny, nx))
            exact_aff = exact_aff or q == 0 or nmax == 0
        else:
            def tgt(N):
                if N == 0:
                    return rng.choice([0, 1, 2])
                d = rng.choice([d for d in range(1, N + 1) if N % d == 0])
                return rng.choice([d, d, 2 * d, 4 * d, 0 if rng.random() < 0.2 else d])
            ty, tx = tgt(ny), tgt(nx)
            # float spellings of the same target (int() truncates): 3.75 -> 3
            fy = ty + rng.choice([0, 0, 0.25, 0.75]) if rng.random() < 0.4 else ty
            fx = float(tx) if rng.random() < 0.3 else tx
            ztok, zobj, want_shape, zsp = shape_arg(rng, fy, fx, kind=rng.choice(["Q", "Q", "X", "S", "Q-len", "O"]))
            if zsp.startswith("other-None"):
                ztok, zobj, zsp = "N", None, "none"
                zk = "none"
            if want_shape is not None:
                exact_aff = all(n_ == 0 or (F(N, n_).denominator & (F(N, n_).denominator - 1)) == 0 for N, n_ in zip((ny, nx), want_shape))
        rk = rng.choice(["N", "N", "res"]) if zk != "none" else rng.choice(["N", "res", "res", "res", "res"])
        if rk == "N":
            rtok, robj, want_res, rsp = "N", None, None, "none"
        else:
            rtok, robj, want_res, rsp = res_arg(rng)
        res = []

        def fn():
            o = g.zoom_to(resolution=robj) if zobj is None else g.zoom_to(zobj, resolution=robj)
            res.append(o)
            return H.enc_gb(o) if exact_aff else f"{int(o.shape[0])} {int(o.shape[1])}"
        zgrp = zk if zk != "shape" else ("shape-ok" if want_shape is not None else "shape-error")
        rgrp = "none" if rk == "N" else "error" if want_res is None else "zero" if 0 in want_res else "scalar" if rtok.startswith("n,") else "xy"
        out = R.corr(f"c02 {'' if exact_aff else 'S:'}zto {H.enc_gb(g)} {ztok} {rtok}", fn,
                     sig=f"zoom-to|{zgrp}|res-{rgrp}|" + ("affine" if exact_aff else "shape-only"))
        R.count("zoom-to-spelling:" + zsp)
        R.count("resolution-spelling:" + rsp)
        case = {"op": "zoom-to-args", "gbox": H.enc_gb(g), "args": {"shape": ztok, "resolution": rtok}}
        if not res:
            # a call that names a usable target must not fail: integer n >= 1 on a non-empty geobox, a 2-entry shape
            # without zeros, a non-zero resolution
            usable = (zk == "num" and F(float(n_arg)) > 0 and nmax > 0) or \
                     (zk == "shape" and want_shape is not None and 0 not in want_shape) or \
                     (zk == "none" and want_res is not None and 0 not in want_res)
            R.oracle(not usable, "zoom-to-usable-args-raised", case, f"zoom_to({zobj!r}, resolution={robj!r}) raised {out}",
                     sig="zoom-to|raised")
            continue
        o = res[0]
        got = tuple(map(int, o.shape))
        A, A2 = H.fa(H.aff_of(g)), H.fa(H.aff_of(o))
        sc = H.world_scale(A, (ny, nx))
        R.oracle(o.crs == g.crs, "zoom-to-crs-changed", case, "", trivial=True)
        if zk == "shape":
            okf = want_shape is not None and got == tuple(want_shape) and \
                cxE.pt_close(H.fa_apply(A2, (F(got[1]), F(got[0]))), H.fa_apply(A, (F(nx), F(ny))), sc) and \
                cxE.pt_close(H.fa_apply(A2, (F(0), F(0))), H.fa_apply(A, (F(0), F(0))), sc)
            R.oracle(okf, "zoom-to-shape-arg", case,
                     f"zoom_to({zobj!r}) has shape {got} (asked {want_shape}) / does not keep the footprint", sig="zoom-to|shape")
        elif zk == "num":
            q = F(float(n_arg))
            if q > 0 and nmax > 0:
                want = tuple(max(1, math.ceil(F(s) * q / nmax)) for s in (ny, nx))
                R.oracle(got == want and (q.denominator != 1 or max(got) == q), "zoom-to-int-shape", case,
                         f"zoom_to({zobj!r}) of {(ny, nx)} gave {got}, want {want}", sig="zoom-to|num")
                H.check_contract(cxE if exact_aff else H.Ctx(R, False), "zton", g, o, f"{ztok} {rtok}", T=H.fa_sc(F(nmax) / q, F(nmax) / q))
        else:
            rx, ry = F(want_res[0]), F(want_res[1])
            bb = [F(v) for v in g.boundingbox.bbox]
            ok = A2[0] == rx and A2[4] == ry and A2[1] == 0 and A2[3] == 0 and \
                A2[2] == (bb[0] if rx > 0 else bb[2]) and A2[5] == (bb[1] if ry > 0 else bb[3])
            for n_, r_, lo, hi in ((got[1], abs(rx), bb[0], bb[2]), (got[0], abs(ry), bb[1], bb[3])):
                ok = ok and n_ >= 1 and n_ * r_ >= (hi - lo) - F(0.01) * r_ and ((n_ - 1) * r_ < (hi - lo) or n_ == 1)
            R.oracle(ok, "zoom-to-resolution-arg", case,
                     f"zoom_to(resolution={robj!r}) -> shape {got}, affine {tuple(H.aff_of(o))[:6]} for bounding box {tuple(g.boundingbox.bbox)}",
                     sig="zoom-to|resolution")
        if zk != "none" and robj is not None:
            try:
                same = g.zoom_to(zobj) == o
            except Exception:  # pylint: disable=broad-except
                same = False
            R.oracle(same, "zoom-to-shape-precedence", case, "zoom_to(shape, resolution=r) differs from zoom_to(shape)", sig="zoom-to|both")


# ------------------------------------------------------------------ C. gbox[...] for every kind of index object
def idx_tok(s) -> str:
    if isinstance(s, (bool, int)):
        return f"i:{int(s)}"
    f = lambda v: "N" if v is None else str(int(v))  # noqa: E731
    return f"s:{f(s.start)}:{f(s.stop)}:{f(s.step)}"


def step_ok(s) -> bool:
    return isinstance(s, (bool, int)) or s.step is None or s.step == 1


def getitem_stream(R: Run, ops, cxE):
    H = _H()
    GB, GCP, Affine, rng = ops.GB, ops.GCP, ops.Affine, R.rng
    bases = [GB.GeoBox((4, 3), Affine(2.0, 0.0, 100.0, 0.0, -2.0, 50.0), "EPSG:3857"),
             GB.GeoBox((3, 5), Affine(3.0, -4.0, 7.5, 4.0, 3.0, -2.25), None)]
    mapping = H.build_gcp_mapping(GCP, 4, 3, Affine(30.0, 0, 5e5, 0, -30.0, 6e6), True)
    bases.append(GCP.GCPGeoBox((4, 3), mapping, Affine(2.0, 0, 1.0, 0, 2.0, 0.5)))
    pool = [0, 1, -1, True, 7, slice(None), slice(1, 3), slice(None, -1), slice(1, None, 1), slice(0, 2, True), slice(0, 4, 2),
            slice(None, None, -1), slice(1, 3, 0), slice(-2, None), slice(2, 1), slice(0, 3, 3)]
    seqs = [()] + [(a,) for a in pool] + [(a, b) for a in pool for b in pool]
    seqs += [(a, b, c) for a in pool[:4] + pool[9:11] for b in pool[5:7] for c in pool[:2] + pool[10:11]]
    seqs += [(0, 1, 2, 3)]
    for g in bases:
        gcp = not isinstance(g, GB.GeoBox)
        ny, nx = map(int, g.shape)
        todo = [("one", a) for a in pool] + [("seq", s) for s in seqs]
        if R.quick and len(todo) > 200:
            keep = [t for t in todo if t[0] == "one" or len(t[1]) != 2]
            rest = [t for t in todo if t not in keep]
            todo = keep + rng.sample(rest, 110)
        for form, arg in todo:
            ctor = rng.choice([tuple, list]) if form == "seq" else None
            obj = arg if form == "one" else ctor(arg)
            line = f"c02 gi1 {H.enc_gb(g)} {idx_tok(arg)}" if form == "one" else f"c02 giS {H.enc_gb(g)} " + list_s(arg, idx_tok)
            res = []

            def fn():
                o = g[obj]
                assert type(o) is type(g)
                res.append(o)
                return H.enc_gb(o)
            entries = (arg, slice(None)) if form == "one" else tuple(arg)
            sig = f"getitem|{'gcp' if gcp else 'gbox'}|{form}|len{len(entries)}|" + ("step" if not all(step_ok(s) for s in entries[:2]) else "plain")
            R.corr(line, fn, sig=sig)
            if not res:
                continue
            # independent contract: whatever is returned selects the pixels numpy selects, in order
            case = {"op": "getitem", "gbox": H.enc_gb(g), "args": line.split(" ")[-1]}
            o = res[0]
            if len(entries) != 2:
                R.oracle(False, "getitem-not-2d-accepted", case, f"gbox[{obj!r}] returned {o!r}")
                continue
            sel = []
            for s, n in zip(entries, (ny, nx)):
                if isinstance(s, (bool, int)):
                    sel.append(None if not -n <= int(s) < n else (int(s) % n, 1, 1))
                else:
                    try:
                        r = range(n)[s]
                    except ValueError:
                        sel.append("numpy-raises")
                        continue
                    a = 0 if s.start is None else s.start
                    b = n if s.stop is None else s.stop
                    sel.append(None if (a > n or b > n or len(r) == 0) else (r.start, len(r), r.step))
            if "numpy-raises" in sel:
                R.oracle(False, "getitem-zero-step-accepted", case, f"gbox[{obj!r}] returned {o!r} for a zero step")
                continue
            if None in sel:
                continue  # out-of-range / empty: only the crs is prescribed
            (y0, cy, ky), (x0, cx_, kx) = sel
            T = H.fa_mul(H.fa_tr(x0, y0), H.fa_sc(kx, ky))
            H.check_contract(cxE, "getitem", g, o, case["args"], T=T, shape=(cy, cx_))


def region_arg_stream(R: Run, ops, cxE):
    """regions (BoundingBox / Geometry / GeoBox) as index and as `enclosing` argument, and `project`, with every
    combination of (parent has a crs?, region has a crs?) that needs no pyproj"""
    H = _H()
    from odc.geo import geom as G
    GB, Affine, rng, TNI = ops.GB, ops.Affine, R.rng, ops.TNI
    for it in range(R.pick(400, 3000)):
        sx, sy = rng.choice([-1, 1]) * H.pow2(rng, -3, 3), rng.choice([-1, 1]) * H.pow2(rng, -3, 3)
        tr = (rng.randint(-800, 800) / 8.0, rng.randint(-800, 800) / 8.0)
        A = Affine(sx, 0, tr[0], 0, sy, tr[1]) if rng.random() < 0.6 else Affine(0, sy, tr[0], sx, 0, tr[1])
        if rng.random() < 0.04:
            A = Affine(sx, 0, tr[0], 0, 0, tr[1])  # singular
        ptag = rng.choice([0, 1, 2, 3])
        g = GB.GeoBox((rng.randint(1, 20), rng.randint(1, 20)), A, H.CRS_TAGS[ptag])
        ny, nx = map(int, g.shape)
        det = A.a * A.e - A.b * A.d
        has_crs = rng.random() < 0.65
        rtag = (ptag if ptag else rng.choice([1, 2])) if has_crs else 0
        rcrs = H.CRS_TAGS[rtag]
        k = rng.choice([1, 2, 3, 4, 5])
        pp = [(rng.randint(-16, 8 * nx + 16) / 8.0, rng.randint(-16, 8 * ny + 16) / 8.0) for _ in range(k)]
        wp = [g.pix2wld(x, y) for x, y in pp] if has_crs else pp
        kind = rng.choice(["bbox", "point", "line", "polygon", "multipoint", "gbox"])
        if det != 0 and rng.random() < 0.05:
            kind = "empty"
        if kind == "empty":
            import shapely.geometry as sg
            roi = G.Geometry(rng.choice([sg.Polygon(), sg.MultiPoint(), sg.LineString()]), rcrs)
            rtoks = f"{rtag} G []"
        elif kind == "bbox":
            xs, ys = [p[0] for p in wp], [p[1] for p in wp]
            roi = G.BoundingBox(min(xs), min(ys), max(xs), max(ys), rcrs)
            rtoks = f"{rtag} B " + " ".join(frac_s(v) for v in roi.bbox)
        elif kind == "gbox":
            y0, x0 = rng.randint(0, ny - 1), rng.randint(0, nx - 1)
            roi = GB.GeoBox((rng.randint(1, ny - y0), rng.randint(1, nx - x0)), (g.affine if has_crs else Affine.identity()) * Affine.translation(x0, y0), rcrs)
            rtoks = None
        else:
            if kind == "point":
                roi = G.point(wp[0][0], wp[0][1], rcrs)
            elif kind == "line":
                roi = G.line((wp * 2)[:max(2, k)], rcrs)
            elif kind == "multipoint":
                roi = G.multipoint(wp, rcrs)
            else:
                ring = (wp * 3)[:max(3, k)]
                roi = G.polygon(ring + [ring[0]], rcrs)
            vs, _, _ = H.region_vertices(roi)
            rtoks = f"{rtag} G " + list_s([f"{frac_s(x)};{frac_s(y)}" for x, y in vs])
        combo = f"parent-{'crs' if ptag else 'nocrs'}|region-{'crs' if rtag else 'nocrs'}|{kind}" + ("|singular" if det == 0 else "")
        res = []

        def fi():
            o = g[roi]
            res.append(o)
            return H.enc_gb(o)
        if kind == "gbox":
            R.corr(f"c02 giG {H.enc_gb(g)} {H.enc_gb(roi)}", _tni(fi, TNI), sig="getitem-region|" + combo)
        else:
            R.corr(f"c02 giR {H.enc_gb(g)} {rtoks}", _tni(fi, TNI), sig="getitem-region|" + combo)
        if res and det != 0:
            H.region_oracle(cxE, g, roi.extent if (kind == "gbox" and not has_crs) else roi, "glue-" + kind, res[0])
        if kind == "gbox":
            continue
        rese = []

        def fe():
            o = g.enclosing(roi)
            rese.append(o)
            return H.enc_gb(o)
        R.corr(f"c02 enclA {H.enc_gb(g)} {rtoks}", _tni(fe, TNI), sig="enclosing-arg|" + combo)
        if rese and det != 0:
            H.region_oracle(cxE, g, roi, "glue-" + kind, rese[0], clip=False)
        if kind == "bbox":
            continue
        resp = []

        def fp():
            o = g.project(roi)
            resp.append(o)
            vs2, c2, _ = H.region_vertices(o)
            return f"{H.crs_tag(c2)} " + list_s([f"{frac_s(x)};{frac_s(y)}" for x, y in vs2])
        vs, _, _ = H.region_vertices(roi)
        R.corr(f"c02 proj {H.enc_gb(g)} {rtag} " + list_s([f"{frac_s(x)};{frac_s(y)}" for x, y in vs]), _tni(fp, TNI),
               sig="project|" + combo)
        if resp and det != 0:
            # independent: exact affine image of every vertex, tag flips, and project is its own inverse
            Af = H.fa(H.aff_of(g))
            vs2, c2, _ = H.region_vertices(resp[0])
            case = {"op": "project", "gbox": H.enc_gb(g), "args": {"crs": rtag, "pts": [f"{frac_s(x)};{frac_s(y)}" for x, y in vs][:8]}}
            if rtag == 0:
                want = [H.fa_apply(Af, (F(x), F(y))) for x, y in vs]
                ok = c2 == g.crs
            else:
                d = Af[0] * Af[4] - Af[1] * Af[3]
                want = [((Af[4] * (F(x) - Af[2]) - Af[1] * (F(y) - Af[5])) / d, (Af[0] * (F(y) - Af[5]) - Af[3] * (F(x) - Af[2])) / d) for x, y in vs]
                ok = c2 is None
            sc = max([1] + [abs(v) for w in want for v in w])
            ok = ok and len(vs2) == len(want) and all(cxE.pt_close(a, b, sc) for a, b in zip(vs2, want))
            if ok and ptag:
                back, c3, _ = H.region_vertices(g.project(resp[0]))
                sc0 = max([1] + [abs(F(v)) for w in vs for v in w])
                ok = (c3 is None) == (rtag == 0) and len(back) == len(vs) and \
                    all(H.Ctx(R, False).pt_close(a, b, sc0) for a, b in zip(back, vs))
            R.oracle(ok, "project-not-affine-image", case, f"project({roi}) = {resp[0]}", sig="project|" + ("p2w" if rtag == 0 else "w2p"))


# ------------------------------------------------------------------ D. accessors and the intermediates of footprint()
def accessor_stream(R: Run, ops, cxE):
    H = _H()
    from odc.geo import geom as G
    GB, Affine, rng = ops.GB, ops.Affine, R.rng
    A0 = Affine(2.0, 0.0, 100.0, 0.0, -2.0, 50.0)
    for ny in range(0, 10):
        for nx in range(0, 10):
            g = GB.GeoBox((ny, nx), A0, None)
            R.corr(f"c02 empty {H.enc_gb(g)}", lambda: "T" if g.is_empty() else "F", sig="is_empty|exh")
            R.oracle(bool(g) == (ny != 0 and nx != 0) and g.is_empty() == (ny == 0 or nx == 0), "is-empty", H.case_of("empty", g, ""),
                     f"GeoBox{(ny, nx)}: is_empty()={g.is_empty()} bool={bool(g)}", trivial=True)
            q = None if ny == 0 else F(nx, ny)
            if q is None or q == F(float(nx) / float(ny)):
                R.corr(f"c02 aspect {H.enc_gb(g)}", lambda: frac_s(g.aspect), sig="aspect|exh")
    orig_buffer, orig_to_crs = G.Geometry.buffer, G.Geometry.to_crs
    for it in range(R.pick(160, 1600)):
        g, cls = H.gen_gbox_exact(rng, GB, Affine, nmax=32)
        if not H.narrow(tuple(H.aff_of(g))[:6], 30):
            continue
        Af = H.fa(H.aff_of(g))
        ny, nx = map(int, g.shape)
        det = Af[0] * Af[4] - Af[1] * Af[3]
        n, m = H.chol_witness(Af)
        st = abs(Af[1]) < F(1e-10) and abs(Af[3]) < F(1e-10)
        if not st and (n is None or m is None or det == 0):
            continue
        buf = rng.choice([0, 0.0, 1, 2, 0.5, 3.0, -1, -0.5, 8])
        npoints = rng.choice([1, 2, 4, 16, 64, 100, 100, 0, 128])
        seen, ret = {}, []

        def call():
            # interposition at the public methods Geometry.buffer / Geometry.to_crs.  They are an observation point, not
            # part of the contract: when footprint() does not go through them nothing is compared with the model and the
            # buffer amount is judged on the returned geometry instead (behavioural fallback below).
            def bf(self, distance, *a, **k):
                seen["buffer"] = distance
                return orig_buffer(self, distance, *a, **k)

            def tc(self, crs, resolution=None, *a, **k):
                seen["resolution"] = resolution
                return self  # same CRS: nothing to project (and no densification of thousands of points)
            G.Geometry.buffer, G.Geometry.to_crs = bf, tc
            try:
                ret.append(g.footprint(g.crs, buffer=buf, npoints=npoints))
            finally:
                G.Geometry.buffer, G.Geometry.to_crs = orig_buffer, orig_to_crs
        err = None
        try:
            call()
        except Exception as e:  # pylint: disable=broad-except
            err = e
        bb = [F(v) for v in g.boundingbox.bbox]
        span = max(bb[2] - bb[0], bb[3] - bb[1])
        case = H.case_of("footprint", g, f"buffer={buf} npoints={npoints}")
        px = max(abs(Af[0]), abs(Af[4])) if st else max(n, m)
        sgn = "zero" if buf == 0 else "neg" if buf < 0 else "pos"
        # --- buffer distance (reached before the reprojection resolution)
        if g.crs is None:
            R.corr(f"c02 fbuf {H.enc_gb(g)} {frac_s(n or 1)} {frac_s(m or 1)} {frac_s(buf)}",
                   lambda: (_ for _ in ()).throw(err) if err is not None else "no-error", sig=f"footprint-buffer|{cls}|no-crs")
        elif buf == 0:
            # no buffering: either buffer() is not called at all or with distance 0 — the same thing for the caller
            if seen.get("buffer", 0) == 0:
                R.corr(f"c02 fbuf {H.enc_gb(g)} {frac_s(n or 1)} {frac_s(m or 1)} {frac_s(buf)}", lambda: "N", sig=f"footprint-buffer|{cls}|zero")
            else:
                R.oracle(False, "footprint-buffer-distance", case, f"footprint(buffer=0) buffers the footprint by {seen['buffer']}")
        elif "buffer" in seen:
            R.corr(f"c02 fbuf {H.enc_gb(g)} {frac_s(n or 1)} {frac_s(m or 1)} {frac_s(buf)}", lambda: frac_s(seen["buffer"]),
                   sig=f"footprint-buffer|{cls}|{sgn}")
            d = F(seen["buffer"])
            R.oracle(abs(d - F(buf) * px) <= F(1, 10**12) * abs(d) and (d > 0) == (buf > 0), "footprint-buffer-distance", case,
                     f"footprint(buffer={buf}) buffers the footprint by {seen['buffer']} world units; pixel size is {float(px)}",
                     sig="footprint-buffer|" + ("mirrored" if (Af[0] < 0 or Af[4] > 0) else "north-up"))
        elif err is None and ret and buf > 0 and min(ny, nx) > 0 and det != 0:
            # behavioural fallback: the bounding box of the result is the bounding box of the footprint grown by the
            # buffer distance (round joins touch the axis directions)
            R.count("footprint-buffer:not-intercepted(judged on the result)")
            try:
                rb = [F(v) for v in ret[0].boundingbox.bbox]
                want = float(F(buf) * px)
                grow = [float(bb[0] - rb[0]), float(bb[1] - rb[1]), float(rb[2] - bb[2]), float(rb[3] - bb[3])]
                # round joins are polylines (3 degree steps): the extreme point of an arc reaches cos(1.5 deg) of the radius
                R.oracle(all(want * (1 - 4e-4) - 1e-9 * float(span) <= v <= want * (1 + 1e-9) + 1e-9 * float(span) for v in grow),
                         "footprint-buffer-distance", case,
                         f"footprint(buffer={buf}) grew the bounding box by {grow}; buffer * pixel size is {want}", sig="footprint-buffer|result-bbox")
            except Exception as e:  # pylint: disable=broad-except
                R.count(f"footprint-buffer:result-not-judged:{type(e).__name__}")
        # --- densification step of the reprojection
        exact_q = npoints == 0 or (F(span) / npoints) == F(float(span) / npoints)
        if g.crs is not None and exact_q and min(ny, nx) > 0 and det != 0:
            if "resolution" in seen:
                R.corr(f"c02 rres {H.enc_gb(g)} {npoints}", lambda: frac_s(seen["resolution"]), sig=f"reproject-resolution|npoints={npoints}")
            elif isinstance(err, ZeroDivisionError) and npoints == 0:
                R.corr(f"c02 rres {H.enc_gb(g)} {npoints}", lambda: (_ for _ in ()).throw(err), sig=f"reproject-resolution|npoints={npoints}")
            else:
                R.count("reproject-resolution:not-intercepted")
        if "resolution" in seen and seen["resolution"] is not None:
            R.oracle(abs(F(seen["resolution"]) * npoints - span) <= F(1, 10**12) * span and seen["resolution"] >= 0,
                     "footprint-reproject-resolution", case,
                     f"footprint(npoints={npoints}) densifies at {seen['resolution']}, longer bounding-box side is {float(span)}",
                     sig="reproject-resolution")


# ------------------------------------------------------------------ E. GCP: resolution / approx of views, exact best-fit affine
def gcp_resolution_stream(R: Run, ops, cxE):
    H = _H()
    GCP, Affine, rng = ops.GCP, ops.Affine, R.rng
    for it in range(R.pick(40, 400)):
        ny, nx = rng.choice([8, 16, 24]), rng.choice([8, 16, 32])
        sx, sy = rng.choice([-1, 1]) * H.pow2(rng, -2, 5), rng.choice([-1, 1]) * H.pow2(rng, -2, 5)
        kind = rng.choice(["st", "st", "rot90", "pyth"])
        if kind == "st":
            L = (sx, 0.0, 0.0, sy)
        elif kind == "rot90":
            L = (0.0, sy, sx, 0.0)
        else:
            c, s = rng.choice([(3, 4), (4, 3), (-3, 4), (5, 12)])
            L = (c * sx, -s * sy, s * sx, c * sy)
        B = Affine(L[0], L[1], float(rng.randint(0, 4096)), L[2], L[3], float(rng.randint(0, 4096)))
        mapping = H.build_gcp_mapping(GCP, ny, nx, B, True)
        # the best-fit affine of the mapping is C20's affine_from_pts (least squares, inexact in doubles); pin its cached
        # value to the exact B so that the glue above it (GCPGeoBox.approx / .resolution on views) is compared exactly
        if not pin_mapping(R, mapping, B):
            return
        g0 = GCP.GCPGeoBox((ny, nx), mapping)
        views = [("base", g0), ("crop", g0[2:7, 1:6]), ("zoom_out2", g0.zoom_out(2)), ("zoom_out1/2", g0.zoom_out(0.5)),
                 ("pad", g0.pad(3, 1)), ("zoom_to", g0.zoom_to((ny // 4, nx // 2))), ("zoom-crop", g0.zoom_out(4)[1:, 1:]),
                 ("center", g0.center_pixel)]
        for vname, v in views:
            Bf = H.fa(B)
            E = H.fa_mul(Bf, H.fa(H.aff_of(v)))
            n, m = H.chol_witness(E)
            st = abs(E[1]) < F(1e-10) and abs(E[3]) < F(1e-10)
            R.corr(f"c02 rmul {H.enc_gb(v)} {H.enc_aff(B)}", lambda: H.enc_gb(v.approx), sig=f"gcp-approx|{kind}")
            if st or (n is not None and m is not None):
                got = []

                def fr():
                    r = v.resolution
                    got.append(r)
                    return f"{frac_s(r.x)} {frac_s(r.y)}"
                R.corr(f"c02 gcpres {H.enc_gb(v)} {H.enc_aff(B)} {frac_s(n or 1)} {frac_s(m or 1)}", fr, sig=f"gcp-resolution|{kind}")
                if got:
                    # independent: |rx| = length of one pixel step of the VIEW in x, rx*ry = signed pixel area of the view
                    det = E[0] * E[4] - E[1] * E[3]
                    ok = F(got[0].x) ** 2 == E[0] ** 2 + E[3] ** 2 and F(got[0].x) * F(got[0].y) == det if not st else \
                        (F(got[0].x), F(got[0].y)) == (E[0], E[4])
                    R.oracle(ok, "gcp-view-resolution", {"op": "gcp-resolution", "gbox": H.enc_gb(v), "args": H.enc_aff(B)},
                             f"GCPGeoBox view {vname}: resolution {got[0]} but pixels of the view map through {tuple(map(float, E))}",
                             sig="gcp-resolution|" + vname)


# ------------------------------------------------------------------ F. GCP composition with an exactly affine mapping
def gcp_exact_stream(R: Run, ops, cxE):
    """GCPGeoBox.pix2wld / wld2pix / extent / boundingbox / map_bounds compose the pixel-side affine of the view with
    the mapping's functions.  The fitted polynomials are C20's (least squares, inexact); here the mapping's cached
    p2w / w2p / approx are pinned to an exact affine pair (B, ~B) so that the composition itself — order of the two
    maps, which side is inverted, which points are sampled — is compared exactly with the model's gcpPix2wld /
    gcpWld2pix / gcpExtent / gcpBoundingbox / gcpMapBounds with P = B."""
    H = _H()
    GCP, Affine, rng, TNI = ops.GCP, ops.Affine, R.rng, ops.TNI
    for it in range(R.pick(40, 400)):
        ny, nx = rng.choice([15, 30, 60]), rng.choice([15, 30, 45])
        sx, sy = rng.choice([-1, 1]) * H.pow2(rng, -2, 4), rng.choice([-1, 1]) * H.pow2(rng, -2, 4)
        kind = rng.choice(["st", "st", "rot90"])
        L = (sx, 0.0, 0.0, sy) if kind == "st" else (0.0, sy, sx, 0.0)
        B = Affine(L[0], L[1], float(rng.randint(-2048, 2048)), L[2], L[3], float(rng.randint(-2048, 2048)))
        Bi = ~B
        crs = rng.choice(["EPSG:32633", "EPSG:32633", None])
        mapping = H.build_gcp_mapping(GCP, ny, nx, B, True, crs)
        if not pin_mapping(R, mapping, B, lambda x, y, B=B: B * (x, y), lambda x, y, Bi=Bi: Bi * (x, y)):
            return
        g0 = GCP.GCPGeoBox((ny, nx), mapping)
        y0, x0 = rng.choice([0, 15]) if ny > 15 else 0, rng.choice([0, 15]) if nx > 15 else 0
        views = [("base", g0), ("crop15", g0[y0:y0 + 15, x0:x0 + 15]), ("zoom_out2", g0.zoom_out(2.0) if ny % 30 == 0 and nx % 30 == 0 else g0),
                 ("zoom_out1/2", g0.zoom_out(0.5)), ("zoom_to", g0.zoom_to((15, 30))), ("crop", g0[2:9, 3:11]), ("pad", g0.pad(2, 1)),
                 ("zoom-crop", g0.zoom_out(0.5)[4:19, 2:32])]
        Bf = H.fa(B)
        for vname, v in views:
            vy, vx = map(int, v.shape)
            gs, bs = H.enc_gb(v), H.enc_aff(B)
            E = H.fa_mul(Bf, H.fa(H.aff_of(v)))
            case = {"op": "gcp-exact", "gbox": gs, "args": bs}
            x, y = rng.randint(-16, 8 * vx) / 8.0, rng.randint(-16, 8 * vy) / 8.0
            got = []
            R.corr(f"c02 gp2w {gs} {bs} {frac_s(x)} {frac_s(y)}", lambda: (got.append(v.pix2wld(x, y)), " ".join(frac_s(t) for t in got[0]))[1],
                   sig=f"gcp-exact|pix2wld|{vname}")
            if got:
                R.oracle(tuple(F(t) for t in got[0]) == H.fa_apply(E, (F(x), F(y))), "gcp-exact-pix2wld", case,
                         f"GCP view {vname}: pix2wld({x}, {y}) = {got[0]}, mapping(affine(p)) = {tuple(map(float, H.fa_apply(E, (F(x), F(y)))))}",
                         sig="gcp-exact|pix2wld")
            w = H.fa_apply(E, (F(x), F(y)))
            gotp = []
            R.corr(f"c02 gw2p {gs} {bs} {frac_s(w[0])} {frac_s(w[1])}",
                   _tni(lambda: (gotp.append(v.wld2pix(float(w[0]), float(w[1]))), " ".join(frac_s(t) for t in gotp[0]))[1], TNI),
                   sig=f"gcp-exact|wld2pix|{vname}")
            if gotp:
                R.oracle(tuple(F(t) for t in gotp[0]) == (F(x), F(y)), "gcp-exact-wld2pix", case,
                         f"GCP view {vname}: wld2pix(pix2wld({x}, {y})) = {gotp[0]}", sig="gcp-exact|wld2pix")
            if vy % 15 == 0 and vx % 15 == 0:
                def fext():
                    pts = [tuple(q) for q in v.extent.exterior.points]
                    if len(pts) > 1 and pts[0] == pts[-1]:
                        pts = pts[:-1]  # shapely closes the ring
                    return list_s([f"{frac_s(a)};{frac_s(b)}" for a, b in pts])
                R.corr(f"c02 gext {gs} {bs}", fext, sig=f"gcp-exact|extent|{vname}")
                bbr = []
                R.corr(f"c02 gbbox {gs} {bs}", lambda: (bbr.append(v.boundingbox), " ".join(frac_s(t) for t in bbr[0].bbox))[1],
                       sig=f"gcp-exact|boundingbox|{vname}")
                if bbr:
                    cs = [H.fa_apply(E, (F(a), F(b))) for a, b in [(0, 0), (0, vy), (vx, vy), (vx, 0)]]
                    hull = (min(c[0] for c in cs), min(c[1] for c in cs), max(c[0] for c in cs), max(c[1] for c in cs))
                    R.oracle(tuple(F(t) for t in bbr[0].bbox) == hull and bbr[0].crs == v.crs, "gcp-exact-bbox", case,
                             f"GCP view {vname}: boundingbox {tuple(bbr[0].bbox)} is not the hull {tuple(map(float, hull))} of the footprint",
                             sig="gcp-exact|boundingbox")
                if crs is None:
                    R.corr(f"c02 gmapb {gs} {bs}", lambda: " ".join(frac_s(t) for pr in v.map_bounds() for t in pr), sig=f"gcp-exact|map_bounds|{vname}")


# ------------------------------------------------------------------ G. GCPGeoBox.to_crs: control points follow the view
GCP_TOCRS_KEY = "gcp-to-crs-near-identity-view"


def gcp_to_crs_stream(R: Run, ops, cxE):
    H = _H()
    GCP, Affine, rng = ops.GCP, ops.Affine, R.rng
    from odc.geo import geom as G
    registered = any(k.get("key") == GCP_TOCRS_KEY for k in R.known)
    for it in range(R.pick(112, 700)):
        ny, nx = rng.choice([8, 16, 64, 2048]), rng.choice([8, 32, 64, 4096])
        B = Affine(30.0 * rng.choice([1, 0.5]), 0, 5e5 + rng.randint(0, 999), 0, -30.0, 6e6 - rng.randint(0, 999))
        N = rng.choice([3, 4, 9, 16])
        pix = np.asarray([(rng.randint(0, 8 * nx) / 8.0, rng.randint(0, 8 * ny) / 8.0) for _ in range(N)], dtype="float64")
        wld = np.asarray([B * (float(x), float(y)) for x, y in pix], dtype="float64")
        has_crs = rng.random() < 0.9
        mapping = GCP.GCPMapping(pix, wld, "EPSG:32633" if has_crs else None)
        g0 = GCP.GCPGeoBox((ny, nx), mapping)
        combos = ["base", "crop", "zoom_out2", "zoom_out1/2", "pad", "crop-zoom"] + [("near-identity", k_) for k_ in (1, 5, 10, 11, 12, 40, -10, -11)]
        vk = combos[it % len(combos)]
        if isinstance(vk, tuple):
            # around affine.EPSILON = 1e-5 = 10.48576 * 2**-20: k = 10 is "the identity" for Affine.is_identity, k = 11 is not
            vk, k = vk
            v = g0.zoom_out(1.0 + k * 2.0**-20)
            vk += "|" + ("below-eps" if abs(k) <= 10 else "above-eps")
        else:
            v = {"base": lambda: g0, "crop": lambda: g0[1:5, 2:7], "zoom_out2": lambda: g0.zoom_out(2.0), "zoom_out1/2": lambda: g0.zoom_out(0.5),
                 "pad": lambda: g0.pad(3, 1), "crop-zoom": lambda: g0[2:, 4:].zoom_out(4.0)}[vk]()
        A = H.fa(H.aff_of(v))
        ident = all(abs(a - b) < F(1e-5) for a, b in zip(A, H.FA_ID))
        det = A[0] * A[4] - A[1] * A[3]
        dy_inv = all((c / det).denominator & ((c / det).denominator - 1) == 0 for c in (A[0], A[1], A[3], A[4]))
        same = rng.random() < 0.6 or not has_crs
        res = []

        def fn():
            o = v.to_crs(v.crs if same else "EPSG:4326")
            res.append(o)
            # observed through the public gcps(): control points in the pixel space of the result (whatever pixel-side
            # affine the result carries), i.e. the result as an identity-affine GCP geobox
            cps = [f"{frac_s(c)};{frac_s(r_)};{frac_s(x)};{frac_s(y)}" for c, r_, x, y in result_gcps(o)]
            return f"{int(o.shape[0])} {int(o.shape[1])} 1;0;0;0;1;0 {H.crs_tag(o.crs)} {list_s(cps)}"
        if same and (ident or dy_inv):
            cps_in = [f"{frac_s(p[0])};{frac_s(p[1])};{frac_s(w[0])};{frac_s(w[1])}" for p, w in zip(pix, wld)]
            R.corr(f"c02 gtocrs {H.enc_gb(v)} {list_s(cps_in)} {H.crs_tag(v.crs)}", fn,
                   sig=f"gcp-to-crs|{vk}|" + ("crs" if has_crs else "nocrs"))
        else:
            try:
                fn()
            except Exception:  # pylint: disable=broad-except
                pass
        if not res:
            continue
        o = res[0]
        case = {"op": "gcp-to-crs", "gbox": H.enc_gb(v), "args": {"view": vk, "same_crs": same, "N": N}}
        # independent: the control point that lay on view pixel q (A q = pix) lies on pixel q of the result, its world
        # side is the re-projected world point; shape kept, no pixel-side affine left
        try:
            rg = result_gcps(o)
        except Exception as e:  # pylint: disable=broad-except
            R.oracle(False, "gcp-to-crs-result", case, f"gcps() of the result raised {type(e).__name__}: {e}")
            continue
        okb = tuple(map(int, o.shape)) == tuple(map(int, v.shape)) and \
            len(rg) == N and (o.crs == v.crs if same else str(o.crs).upper() == "EPSG:4326")
        worst = F(0)
        for q, p0 in zip(rg, pix):
            back = H.fa_apply(A, (F(float(q[0])), F(float(q[1]))))
            worst = max(worst, abs(back[0] - F(float(p0[0]))), abs(back[1] - F(float(p0[1]))))
        if same:
            okw = all(tuple(a[2:]) == tuple(map(float, b)) for a, b in zip(rg, wld))
        else:
            tr = H._transformer("EPSG:32633", "EPSG:4326")
            okw = all(abs(a[2] - t[0]) <= 1e-9 and abs(a[3] - t[1]) <= 1e-9 for a, t in zip(rg, [tr.transform(x, y) for x, y in wld]))
        R.oracle(okb and okw, "gcp-to-crs-result", case, f"to_crs of GCP view {vk}: shape {tuple(o.shape)}, crs {o.crs}, {len(rg)} control points, world points "
                 f"{'kept' if same else 'projected'} correctly: {okw}", sig="gcp-to-crs|result")
        near = vk.startswith("near-identity") and ident
        okp = worst <= F(1, 10**9) * max(nx, ny)
        if near:
            # Affine.is_identity takes a view within 1e-5 of the identity for the identity: its control points are not
            # re-expressed (off by up to 1e-5 * image size pixels).  Reported as a known-finding candidate; judged only once
            # registered in known_findings.json, counted otherwise.
            if registered:
                R.oracle(okp, GCP_TOCRS_KEY, case, f"to_crs of {vk}: control points are off by {float(worst):.3g} parent pixels", trivial=True)
            else:
                R.count("gcp-to-crs-near-identity:" + ("ok" if okp else "control-points-not-rescaled"))
        else:
            R.oracle(okp, "gcp-to-crs-control-points", case,
                     f"to_crs of GCP view {vk}: control points are off by {float(worst):.3g} parent pixels", sig="gcp-to-crs|pixels")


# ------------------------------------------------------------------ H. the public compute_* helpers called directly
def compute_stream(R: Run, ops, cxE):
    """compute_crop / compute_zoom_out / compute_zoom_to are public and shared by GeoBox and GCPGeoBox: their
    (shape, affine) pair is compared with the model on both classes"""
    H = _H()
    GB, GCP, Affine, rng = ops.GB, ops.GCP, ops.Affine, R.rng
    mapping = H.build_gcp_mapping(GCP, 12, 16, Affine(30.0, 0, 5e5, 0, -30.0, 6e6), True)
    for it in range(R.pick(240, 1500)):
        g, cls = H.gen_gbox_exact(rng, GB, Affine, nmax=24)
        if not H.narrow(tuple(H.aff_of(g))[:6], 30):
            continue
        tgt = g if rng.random() < 0.6 else GCP.GCPGeoBox(g.shape, mapping, g.affine)
        tname = type(tgt).__name__
        ny, nx = map(int, g.shape)
        gs = H.enc_gb(tgt)
        tag = H.crs_tag(tgt.crs)

        def enc(pair):
            shp, A = pair
            return f"{int(shp[0])} {int(shp[1])} {H.enc_aff(A)} {tag}"
        sy, sx = (rng.choice([rng.randint(-ny, ny - 1), slice(rng.choice([None, rng.randint(-ny, ny)]), rng.choice([None, rng.randint(-ny, ny)]),
                                                              rng.choice([None, None, 1, 2]))]),
                  slice(rng.choice([None, rng.randint(-nx, nx)]), rng.choice([None, rng.randint(-nx, nx)])))
        R.corr(f"c02 giS {gs} " + list_s((sy, sx), idx_tok), lambda: enc(tgt.compute_crop((sy, sx))), sig=f"compute_crop|{tname}")
        f = rng.choice([0.5, 2.0, 4.0, 0.25, 3.0, 1.0, 8.0, 0.0])
        R.corr(f"c02 zout {gs} {frac_s(f)}", lambda: enc(tgt.compute_zoom_out(f)), sig=f"compute_zoom_out|{tname}")
        ds = lambda N: rng.choice([d for d in range(1, N + 1) if N % d == 0]) * rng.choice([1, 2])  # noqa: E731
        s2 = (ds(ny), ds(nx))
        tok, obj, want, spell = shape_arg(rng, s2[0], s2[1], kind=rng.choice(["Q", "X", "S"]))
        R.corr(f"c02 zto {gs} {tok} N", lambda: enc(tgt.compute_zoom_to(obj)), sig=f"compute_zoom_to|{tname}|shape")
        r = rng.choice([-1, 1]) * 2.0 ** rng.randint(-4, 6)
        if tname == "GeoBox":
            R.corr(f"c02 zto {gs} N n,{num_tok(r)}", lambda: enc(tgt.compute_zoom_to(resolution=r)), sig=f"compute_zoom_to|{tname}|resolution")
        R.corr(f"c02 zto {gs} N N", lambda: enc(tgt.compute_zoom_to()), sig=f"compute_zoom_to|{tname}|nothing")


# ------------------------------------------------------------------ I. exact quarter turns and the composition law of rotate
def rotation_stream(R: Run, ops, cxE, cxF):
    H = _H()
    GB, Affine, rng = ops.GB, ops.Affine, R.rng
    for it in range(R.pick(60, 500)):
        g, cls = H.gen_gbox_exact(rng, GB, Affine, nmax=32)
        if not H.narrow(tuple(H.aff_of(g))[:6], 28):
            continue
        ny, nx = map(int, g.shape)
        for k in range(-8, 9):
            deg = rng.choice([90 * k, float(90 * k), np.float64(90 * k)])
            R.corr(f"c02 rotq {H.enc_gb(g)} {k}", lambda: H.enc_gb(g.rotate(deg)), sig=f"rotate-quarter|k mod 4={k % 4}|{cls}")
        # composition: rotate(a).rotate(b) and rotate(a + b) are the same geobox (exact angles: exactly; any angle: same footprint)
        a, b = rng.choice([0, 90, 180, 270, -90, 450]), rng.choice([0, 90, 180, 270, -180, 360])
        case = H.case_of("rotate-compose", g, f"{a} {b}")
        try:
            two, one = g.rotate(a).rotate(b), g.rotate(a + b)
            R.oracle(tuple(H.aff_of(two))[:6] == tuple(H.aff_of(one))[:6] and two.shape == one.shape and two.crs == one.crs,
                     "rotate-composition", case, f"rotate({a}).rotate({b}) = {two} but rotate({a + b}) = {one}", sig="rotate-compose|exact")
            full = g.rotate(a).rotate(360 - a)
            R.oracle(tuple(H.aff_of(full))[:6] == tuple(H.aff_of(g))[:6], "rotate-composition", case,
                     f"rotate({a}).rotate({360 - a}) = {full} is not the original {g}", sig="rotate-compose|full-turn")
        except Exception as e:  # pylint: disable=broad-except
            R.oracle(False, "rotate-composition", case, f"{type(e).__name__}: {e}")
    for it in range(R.pick(60, 500)):
        g, kind = H.gen_gbox_float(rng, GB, Affine)
        ny, nx = map(int, g.shape)
        a, b = rng.uniform(-360, 360), rng.uniform(-360, 360)
        case = H.case_of("rotate-compose", g, f"{a!r} {b!r}")
        try:
            two, one = g.rotate(a).rotate(b), g.rotate(a + b)
            A2, A1 = H.fa(H.aff_of(two)), H.fa(H.aff_of(one))
            sc = H.world_scale(H.fa(H.aff_of(g)), (ny, nx))
            ok = all(cxF.pt_close(H.fa_apply(A2, p_), H.fa_apply(A1, p_), sc) for p_ in H.sample_pix(rng, (ny, nx)))
            R.oracle(ok and two.shape == one.shape, "rotate-composition", case,
                     f"rotate({a}).rotate({b}) and rotate({a + b}) have different footprints", sig="rotate-compose|float")
        except Exception as e:  # pylint: disable=broad-except
            R.oracle(False, "rotate-composition", case, f"{type(e).__name__}: {e}")


# ------------------------------------------------------------------ J. regions in ANOTHER crs, tied exactly
_FRESH = {}


def fresh_transform(src, dst, pts):
    """images of points under a fresh pyproj transformer (trusted; what Geometry.to_crs applies vertex by vertex)"""
    import pyproj
    k = (str(src), str(dst))
    if k not in _FRESH:
        _FRESH[k] = pyproj.Transformer.from_crs(pyproj.CRS.from_user_input(k[0]), pyproj.CRS.from_user_input(k[1]), always_xy=True)
    out = []
    for x, y in pts:
        X, Y = _FRESH[k].transform(x, y)
        out.append((float(X), float(Y)))
    return out


def cross_crs_stream(R: Run, ops, cxE):
    """gbox[region] / enclosing(region) / project(geom) for a region in another CRS.  The parent is a power-of-two grid
    anchored at the origin of its CRS, so wld2pix is exact on ANY double; the model receives the images of the region's
    vertices (fresh pyproj transformer) as a table: everything after the reprojection is compared exactly."""
    H = _H()
    from odc.geo import geom as G
    GB, Affine, rng, TNI = ops.GB, ops.Affine, R.rng, ops.TNI
    for it in range(R.pick(220, 2200)):
        ptag = rng.choice([1, 2, 3])
        rtag = rng.choice([t for t in (1, 2, 3) if t != ptag])
        pcrs, rcrs = H.CRS_TAGS[ptag], H.CRS_TAGS[rtag]
        e = rng.randint(-14, -8) if ptag == 1 else rng.randint(0, 8)
        sx, sy = rng.choice([-1, 1]) * 2.0**e, rng.choice([-1, 1, -1]) * 2.0**e
        A = Affine(sx, 0, 0, 0, sy, 0) if rng.random() < 0.7 else Affine(0, sy, 0, sx, 0, 0)
        ny, nx = rng.randint(1, 20), rng.randint(1, 20)
        g = GB.GeoBox((ny, nx), A, pcrs)
        k = rng.choice([1, 2, 3, 4, 5])
        pp = [(rng.randint(-16, 8 * nx + 16) / 8.0, rng.randint(-16, 8 * ny + 16) / 8.0) for _ in range(k)]
        if rng.random() < 0.3:
            pp = [(float(rng.randint(0, nx)), float(rng.randint(0, ny))) for _ in range(k)]  # on pixel edges: floor / ceil decide
        vv = fresh_transform(pcrs, rcrs, [g.pix2wld(x, y) for x, y in pp])
        if not all(math.isfinite(c) for v in vv for c in v):
            R.count("cross-crs:skipped-non-finite")
            continue
        kind = rng.choice(["bbox", "point", "line", "polygon", "multipoint", "gbox"])
        if kind == "bbox":
            xs, ys = [v[0] for v in vv], [v[1] for v in vv]
            roi = G.BoundingBox(min(xs), min(ys), max(xs), max(ys), rcrs)
        elif kind == "point":
            roi = G.point(vv[0][0], vv[0][1], rcrs)
        elif kind == "line":
            roi = G.line((vv * 2)[:max(2, k)], rcrs)
        elif kind == "multipoint":
            roi = G.multipoint(vv, rcrs)
        elif kind == "polygon":
            ring = (vv * 3)[:max(3, k)]
            roi = G.polygon(ring + [ring[0]], rcrs)
        else:
            er = rng.randint(-14, -10) if rtag == 1 else rng.randint(-2, 6)
            q = 2.0 ** (er - 2)
            roi = GB.GeoBox((rng.randint(1, 6), rng.randint(1, 6)),
                            Affine(2.0**er, 0, round(vv[0][0] / q) * q, 0, -(2.0**er), round(vv[0][1] / q) * q), rcrs)
        vs, _, _ = H.region_vertices(roi)
        ws = fresh_transform(rcrs, pcrs, vs)
        if not all(math.isfinite(c) for w in ws for c in w):
            R.count("cross-crs:skipped-non-finite")
            continue
        table = list_s([f"{frac_s(a)};{frac_s(b)};{frac_s(c)};{frac_s(d)}" for (a, b), (c, d) in dict(zip(vs, ws)).items()])
        ptok = list_s([f"{frac_s(x)};{frac_s(y)}" for x, y in vs])
        sig = f"{H.CRS_TAGS[rtag]}->{H.CRS_TAGS[ptag]}|{kind}"
        res, rese = [], []

        def fi():
            o = g[roi]
            res.append(o)
            return H.enc_gb(o)
        if kind == "gbox":
            R.corr(f"c02 giGT {H.enc_gb(g)} {H.enc_gb(roi)} {table}", _tni(fi, TNI), sig="cross-crs|getitem|" + sig)
        else:
            rtoks = (f"{rtag} B " + " ".join(frac_s(v) for v in roi.bbox)) if kind == "bbox" else f"{rtag} G {ptok}"
            R.corr(f"c02 giRT {H.enc_gb(g)} {rtoks} {table}", _tni(fi, TNI), sig="cross-crs|getitem|" + sig)

            def fe():
                o = g.enclosing(roi)
                rese.append(o)
                return H.enc_gb(o)
            R.corr(f"c02 enclT {H.enc_gb(g)} {rtoks} {table}", _tni(fe, TNI), sig="cross-crs|enclosing|" + sig)
            if kind != "bbox":
                def fp():
                    o = g.project(roi)
                    vs2, c2, _ = H.region_vertices(o)
                    return f"{H.crs_tag(c2)} " + list_s([f"{frac_s(x)};{frac_s(y)}" for x, y in vs2])
                R.corr(f"c02 projT {H.enc_gb(g)} {rtag} {ptok} {table}", _tni(fp, TNI), sig="cross-crs|project|" + sig)
        # independent exact window: pixel coordinates of the re-projected vertices (exact division by a power of two),
        # rounded outwards; clipped to the parent and at least one pixel for gbox[...]; unclipped for enclosing
        Af = H.fa(H.aff_of(g))
        det = Af[0] * Af[4] - Af[1] * Af[3]
        pix = [((Af[4] * F(x) - Af[1] * F(y)) / det, (Af[0] * F(y) - Af[3] * F(x)) / det) for x, y in ws]
        lo = (min(p_[0] for p_ in pix), min(p_[1] for p_ in pix))
        hi = (max(p_[0] for p_ in pix), max(p_[1] for p_ in pix))
        case = {"op": "cross-crs", "gbox": H.enc_gb(g), "args": {"kind": kind, "crs": rtag, "pts": [f"{frac_s(x)};{frac_s(y)}" for x, y in vs][:12]}}
        # a vertex within 1e-6 px of a pixel edge is decided by the last bits of the reprojection: left to the correspondence
        edgy = any(abs(c - round(c)) <= F(1, 10**6) for p_ in pix for c in p_)
        for got, clip, keyp in ((res, True, "region"), (rese, False, "enclosing")):
            if not got or edgy:
                continue
            o = got[0]
            L, B_ = math.floor(lo[0]), math.floor(lo[1])
            Rr, T_ = math.ceil(hi[0]), math.ceil(hi[1])
            if clip:
                L, B_, Rr, T_ = max(L, 0), max(B_, 0), min(Rr, nx), min(T_, ny)
            want_shape = (max(1, T_ - B_), max(1, Rr - L))
            want_A = H.fa_mul(Af, H.fa_tr(L, B_))
            R.oracle(tuple(map(int, o.shape)) == want_shape and H.fa(H.aff_of(o)) == want_A and o.crs == g.crs, keyp + "-window", case,
                     f"{keyp} of a {kind} given in {rcrs} on a {pcrs} grid: got shape {tuple(o.shape)} affine {tuple(H.aff_of(o))[:6]}; the "
                     f"re-projected vertices span pixel cols {float(lo[0])}..{float(hi[0])}, rows {float(lo[1])}..{float(hi[1])}",
                     sig=f"cross-crs|{keyp}|exact-window")


# ------------------------------------------------------------------ K. coordinates keys / geographic_extent by kind of CRS; qr2sample
def crs_kind_stream(R: Run, ops, cxE):
    H = _H()
    import pyproj
    GB, Affine, rng = ops.GB, ops.Affine, R.rng
    kinds = {0: "N"}
    for t, name in H.CRS_TAGS.items():
        if name is not None:
            kinds[t] = "G" if pyproj.CRS.from_user_input(name).is_geographic else "P"   # independent of odc.geo.crs
    for it in range(R.pick(80, 600)):
        g, cls = H.gen_gbox_exact(rng, GB, Affine, nmax=12)
        tag = H.crs_tag(g.crs)
        k = kinds[tag]

        def fm():
            co = g.coordinates
            return list_s([f"{name}:{frac_s(c.resolution)}" for name, c in co.items()])
        R.corr(f"c02 cmeta {H.enc_gb(g)} {k}", fm, sig=f"coords-meta|{k}|{cls}")
        try:
            co = list(g.coordinates.items())
            Af = H.fa(H.aff_of(g))
            want = ("latitude", "longitude") if k == "G" else ("y", "x")
            ok = tuple(n_ for n_, _ in co) == want and F(co[0][1].resolution) == Af[4] and F(co[1][1].resolution) == Af[0] and \
                len(co[0][1].values) == int(g.shape[0]) and len(co[1][1].values) == int(g.shape[1])
            R.oracle(ok, "coords-keys", H.case_of("cmeta", g, k),
                     f"coordinates of a {'geographic' if k == 'G' else 'projected' if k == 'P' else 'CRS-less'} geobox {tuple(g.shape)}: "
                     f"{[(n_, len(c.values), c.resolution) for n_, c in co]}; rows first, named {want}", sig="coords-keys|" + k)
        except ValueError:
            pass  # not axis aligned (judged by coords-raised-on-axis-aligned / the correspondence)
        if min(g.shape) > 0:
            def fg():
                ge, ex = g.geographic_extent, g.extent
                return "T" if (ge is ex or (ge.crs == ex.crs and list(ge.exterior.points) == list(ex.exterior.points))) else "F"
            R.corr(f"c02 gextk {H.enc_gb(g)} {k}", fg, sig=f"geographic-extent|{k}")
        if k == "P" and min(g.shape) > 0:
            try:
                ge = g.geographic_extent
                R.oracle(str(ge.crs).upper() == "EPSG:4326", "geographic-extent-crs", H.case_of("gextk", g, k),
                         f"geographic_extent of a projected geobox has crs {ge.crs}", trivial=True)
            except Exception:  # pylint: disable=broad-except
                R.count("geographic-extent:raised (far outside the CRS domain)")


def qr2sample_stream(R: Run, ops, cxE):
    """qr2sample: n quasi-random points inside the pixel rectangle (at least `padding` from the edges), no CRS, the
    sequence is a fixed one (offset k = drop the first k), with_edges adds edge samples incl. the four corners"""
    H = _H()
    GB, Affine, rng = ops.GB, ops.Affine, R.rng
    for it in range(R.pick(60, 600)):
        g, _ = H.gen_gbox_exact(rng, GB, Affine, nmax=64)
        ny, nx = map(int, g.shape)
        n = rng.choice([1, 2, 5, 20, 100])
        pad = rng.choice([None, None, 0.0, 0.25, 0.5 * min(nx, ny) * rng.random()])
        off = rng.choice([0, 0, 1, 3, 17])
        edges = rng.random() < 0.4
        case = H.case_of("qr2sample", g, f"n={n} padding={pad} with_edges={edges} offset={off}")
        try:
            q = g.qr2sample(n, padding=pad, with_edges=edges, offset=off)
            pts = [tuple(p.coords[0]) for p in q.geoms]
            eps = 1e-5 * max(nx, ny)   # the scale vector is float32
            lo = (pad or 0.0) if not edges else 0.0
            inside = all(lo - eps <= x <= nx - lo + eps and lo - eps <= y <= ny - lo + eps for x, y in pts)
            ok = q.crs is None and inside and (len(pts) == n if not edges else len(pts) >= n + 4)
            if edges:
                ok = ok and all(any(abs(x - cx_) <= eps and abs(y - cy_) <= eps for x, y in pts) for cx_, cy_ in [(0, 0), (nx, 0), (nx, ny), (0, ny)])
                inner = pts[:n]
                if pad is not None:
                    ok = ok and all(pad - eps <= x <= nx - pad + eps and pad - eps <= y <= ny - pad + eps for x, y in inner)
            else:
                longer = [tuple(p.coords[0]) for p in g.qr2sample(n + off, padding=pad).geoms]
                ok = ok and longer[off:] == pts
            R.oracle(ok, "qr2sample-contract", case, f"qr2sample -> {len(pts)} points, first {pts[:3]}", sig="qr2sample|" + ("edges" if edges else "plain"))
        except Exception as e:  # pylint: disable=broad-except
            R.oracle(False, "qr2sample-contract", case, f"{type(e).__name__}: {e}")


# ------------------------------------------------------------------ L. the proved algebraic laws, evaluated on the real objects
def laws_stream(R: Run, ops, cxE):
    """window / zoom / affine-composition laws of Props/C02Glue §8, §11 on the real code (exact stream: equality of
    shape, affine and CRS): crop undoes pad, pad undoes an inner crop, zoom_to(shape) = zoom_out(k) when the shape
    divides, zoom there and back, (gbox * T) * S = gbox * (T * S), world-side factors commute with views, flips are
    involutions."""
    H = _H()
    GB, Affine, rng = ops.GB, ops.Affine, R.rng

    def same(a, b):
        return tuple(map(int, a.shape)) == tuple(map(int, b.shape)) and tuple(H.aff_of(a))[:6] == tuple(H.aff_of(b))[:6] and a.crs == b.crs
    for it in range(R.pick(150, 1500)):
        g, cls = H.gen_gbox_exact(rng, GB, Affine, nmax=32)
        if not H.narrow(tuple(H.aff_of(g))[:6], 26):
            continue
        ny, nx = map(int, g.shape)
        px, py = rng.randint(0, 5), rng.randint(0, 5)
        checks = []
        try:
            checks.append(("crop-of-pad", same(g.pad(px, py)[py:py + ny, px:px + nx], g), f"pad({px},{py})[{py}:{py + ny}, {px}:{px + nx}]"))
            p_, q_ = rng.randint(0, nx // 2), rng.randint(0, ny // 2)
            if p_ <= nx - p_ and q_ <= ny - q_ and nx - p_ > p_ and ny - q_ > q_:
                checks.append(("pad-of-crop", same(g[q_:ny - q_, p_:nx - p_].pad(p_, q_), g), f"[{q_}:{ny - q_}, {p_}:{nx - p_}].pad({p_},{q_})"))
            ks = [k for k in (2, 4, 8) if ny % k == 0 and nx % k == 0]
            for k in ks[:1]:
                z = g.zoom_to((ny // k, nx // k))
                checks.append(("zoom-to-is-zoom-out", same(z, g.zoom_out(float(k))), f"zoom_to({(ny // k, nx // k)}) vs zoom_out({k})"))
                checks.append(("zoom-roundtrip", same(z.zoom_to((ny, nx)), g), f"zoom_to({(ny // k, nx // k)}).zoom_to({(ny, nx)})"))
            T = Affine(2.0, 0.0, rng.randint(-8, 8) / 2.0, 0.0, 0.5, rng.randint(-8, 8) / 4.0)
            S = Affine(0.0, -1.0, rng.randint(-4, 4) * 1.0, 1.0, 0.0, rng.randint(-4, 4) * 1.0)
            checks.append(("pixel-side-assoc", same((g * T) * S, g * (T * S)), "(g * T) * S vs g * (T * S)"))
            checks.append(("world-side-assoc", same(S * (T * g), (S * T) * g), "S * (T * g) vs (S * T) * g"))
            checks.append(("sides-commute", same(T * (g * S), (T * g) * S), "T * (g * S) vs (T * g) * S"))
            y0, x0 = rng.randint(0, ny - 1), rng.randint(0, nx - 1)
            checks.append(("world-side-commutes-with-crop", same((T * g)[y0:, x0:], T * g[y0:, x0:]), "(T * g)[roi] vs T * g[roi]"))
            checks.append(("world-side-commutes-with-pad", same((T * g).pad(px, py), T * g.pad(px, py)), "(T * g).pad vs T * g.pad"))
            checks.append(("flip-involution", same(g.flipx().flipx(), g) and same(g.flipy().flipy(), g), "flipx().flipx() / flipy().flipy()"))
        except Exception as e:  # pylint: disable=broad-except
            R.oracle(False, "view-law-raised", H.case_of("laws", g, ""), f"{type(e).__name__}: {e}")
            continue
        for name, ok, what in checks:
            R.oracle(ok, "view-law-" + name, H.case_of("laws", g, what), f"{name}: {what} differ on {g}", sig="view-law|" + name)


# ------------------------------------------------------------------ M. final increment: qr2sample exactly, footprint plan, units, non-index objects
def final_stream(R: Run, ops, cxE):
    H = _H()
    from odc.geo import geom as G
    GB, Affine, rng = ops.GB, ops.Affine, R.rng
    # --- qr2sample against the model of its float arithmetic (float32 index x double constants, fmod, scale in float32)
    for it in range(R.pick(40, 400)):
        ny, nx = rng.randint(1, 300), rng.randint(1, 300)
        g = GB.GeoBox((ny, nx), Affine(2.0, 0, 100.0, 0, -2.0, 50.0), None)
        n = rng.choice([1, 2, 5, 17])
        off = rng.choice([0, 0, 1, 3, 17, 1000, 2**20])
        pad = rng.choice([None, None, 0.0, 0.25, 0.5, 1.0, float(min(nx, ny)) / 4 if min(nx, ny) % 4 == 0 else 0.5])
        if pad is not None and 2 * pad > min(nx, ny):
            pad = None
        R.corr(f"c02 qr2 {H.enc_gb(g)} {n} {'N' if pad is None else frac_s(pad)} {off}",
               lambda: list_s([f"{frac_s(p.coords[0][0])};{frac_s(p.coords[0][1])}" for p in g.qr2sample(n, padding=pad, offset=off).geoms]),
               sig="qr2sample-exact|" + ("nopad" if pad is None else "pad"))
    # --- the plan of footprint(): buffer distance, densification step, same-CRS shortcut (interposition, see accessor_stream)
    orig_buffer, orig_to_crs = G.Geometry.buffer, G.Geometry.to_crs
    for it in range(R.pick(200, 1000)):
        g, cls = H.gen_gbox_exact(rng, GB, Affine, nmax=32)
        Af = H.fa(H.aff_of(g))
        st = abs(Af[1]) < F(1e-10) and abs(Af[3]) < F(1e-10)
        if g.crs is None or not st or not H.narrow(tuple(H.aff_of(g))[:6], 30):
            continue
        buf = rng.choice([0, 1, 2, 0.5, 3.0])
        npoints = rng.choice([1, 2, 4, 16, 64])
        same = rng.random() < 0.5
        dst = g.crs if same else [c for t, c in H.CRS_TAGS.items() if c is not None and c != str(g.crs).upper()][0]
        bb = [F(v) for v in g.boundingbox.bbox]
        span = max(bb[2] - bb[0], bb[3] - bb[1])
        if (F(span) / npoints) != F(float(span) / npoints):
            continue
        seen = {}

        def bf(self, distance, *a, **k):
            seen["buffer"] = distance
            return orig_buffer(self, distance, *a, **k)

        def tc(self, crs, resolution=None, *a, **k):
            seen["resolution"] = resolution
            seen["same"] = (self.crs == crs)
            return self
        G.Geometry.buffer, G.Geometry.to_crs = bf, tc
        try:
            g.footprint(dst, buffer=buf, npoints=npoints)
        except Exception:  # pylint: disable=broad-except
            seen.clear()
        finally:
            G.Geometry.buffer, G.Geometry.to_crs = orig_buffer, orig_to_crs
        if "resolution" not in seen or (buf != 0 and "buffer" not in seen):
            R.count("footprint-plan:not-intercepted")
            continue
        d = "N" if seen.get("buffer", 0) == 0 and buf == 0 else frac_s(seen["buffer"])
        R.corr(f"c02 fplan {H.enc_gb(g)} 1 1 {H.crs_tag(dst)} {frac_s(buf)} {npoints}",
               lambda: f"{d} {frac_s(seen['resolution'])} {'T' if seen['same'] else 'F'}", sig="footprint-plan|" + ("same-crs" if same else "other-crs"))
    # --- units of coordinates: pure dispatch over the kind of CRS and pyproj's axis info
    import pyproj
    for tag, name in H.CRS_TAGS.items():
        g = GB.GeoBox((3, 4), Affine(2.0, 0, 100.0, 0, -2.0, 50.0), name)
        if name is None:
            k, uy, ux = "N", "-", "-"
        else:
            pc = pyproj.CRS.from_user_input(name)
            k = "G" if pc.is_geographic else "P"
            by_dir = {ax.direction: ax.unit_name for ax in pc.axis_info}
            uy, ux = by_dir.get("north", by_dir.get("south", "-")), by_dir.get("east", by_dir.get("west", "-"))
        R.corr(f"c02 cunits {H.enc_gb(g)} {k} {uy.replace(' ', '_')} {ux.replace(' ', '_')}",
               lambda: " ".join(str(c.units).replace(" ", "_") for c in g.coordinates.values()), sig="coords-units|" + k)
        try:
            got = tuple(str(c.units) for c in g.coordinates.values())
            want = ("1", "1") if k == "N" else ("degrees_north", "degrees_east") if k == "G" else (uy, ux)
            R.oracle(got == want, "coords-units", H.case_of("cunits", g, k), f"units of coordinates {got}; rows first, expected {want}",
                     sig="coords-units|" + k)
        except Exception as e:  # pylint: disable=broad-except
            R.oracle(False, "coords-units", H.case_of("cunits", g, k), f"{type(e).__name__}: {e}")
    # --- objects that are not index-like: described by (len, is a Sequence, entries slice-like)
    import collections.abc as abc
    g = GB.GeoBox((10, 20), Affine(2.0, 0, 100.0, 0, -2.0, 50.0), "EPSG:3857")
    objs = {"np.int64": np.int64(3), "float": 3.0, "None": None, "Ellipsis": Ellipsis, "str0": "", "str1": "a", "str2": "ab", "str3": "abc",
            "ndarray2": np.arange(2), "ndarray3": np.arange(3), "set2": {1, 2}, "dict2": {1: 2, 3: 4}, "tuple-of-str": ("a", "b"),
            "tuple-of-float": (1.0, 2.0), "list1-str": ["a"], "tuple-none": (None, None), "bytes2": b"ab", "bytes1": b"a", "range2": range(2),
            "tuple3-str": ("a", "b", "c"), "complex": 1j, "object": object()}
    for name, o in objs.items():
        try:
            ln = len(o)
        except TypeError:
            ln = None
        sq = isinstance(o, abc.Sequence)
        sl = bool(ln) and sq and all(isinstance(e, (int, slice)) for e in o)
        R.corr(f"c02 giO {H.enc_gb(g)} {'N' if ln is None else ln} {'T' if sq else 'F'} {'T' if sl else 'F'}",
               lambda: (g[o], "ok")[1], sig="getitem-other|" + name)


def glue_stream(R: Run, ops, cxE, cxF):
    shape_stream(R, ops, cxE)
    zoom_to_stream(R, ops, cxE)
    getitem_stream(R, ops, cxE)
    region_arg_stream(R, ops, cxE)
    accessor_stream(R, ops, cxE)
    gcp_resolution_stream(R, ops, cxE)
    gcp_exact_stream(R, ops, cxE)
    gcp_to_crs_stream(R, ops, cxE)
    compute_stream(R, ops, cxE)
    rotation_stream(R, ops, cxE, cxF)
    cross_crs_stream(R, ops, cxE)
    crs_kind_stream(R, ops, cxE)
    qr2sample_stream(R, ops, cxE)
    laws_stream(R, ops, cxE)
    final_stream(R, ops, cxE)


# ------------------------------------------------------------------ replay of the glue oracles
def _num_of(tok):
    return int(tok[1:]) if tok[0] == "i" else float(F(tok[1:]))


def shape_obj_of(tok):
    from odc.geo import types as T
    p = tok.split(",")
    if p[0] == "S":
        return T.wh_(int(p[2]), int(p[1])), (int(p[1]), int(p[2]))
    if p[0] == "X":
        x, y = _num_of(p[1]), _num_of(p[2])
        return T.xy_(x, y), (trunc0(y), trunc0(x))
    if p[0] == "Q":
        vals = [_num_of(v) for v in p[1:]]
        return tuple(vals), ((trunc0(vals[0]), trunc0(vals[1])) if len(vals) == 2 else None)
    return np.int64(5), None


def res_obj_of(tok):
    from odc.geo import types as T
    if tok == "N":
        return None, None
    p = tok.split(",")
    if p[0] == "n":
        v = _num_of(p[1])
        return v, (float(v), -float(v))
    if p[0] == "r":
        return T.resxy_(float(F(p[1])), float(F(p[2]))), (float(F(p[1])), float(F(p[2])))
    return "2", None


def idx_obj_of(tok):
    p = tok.split(":")
    if p[0] == "i":
        return int(p[1])
    return slice(*[None if v == "N" else int(v) for v in p[1:4]])


def replay_glue(R2: Run, g, op, args, key) -> bool:
    """re-run one glue oracle from its recorded case; returns False if the op is not one of ours"""
    H = _H()
    mods = H._import()
    GB, GCP, Affine, TNI = mods
    cx = H.Ctx(R2, True)
    if op == "shape-arg":
        obj, want = shape_obj_of(args["token"])
        entry = args["entry"]
        if entry.startswith("gcp"):
            mapping = H.build_gcp_mapping(GCP, 12, 16, Affine(30.0, 0, 5e5, 0, -30.0, 6e6), True)
            o = GCP.GCPGeoBox(obj, mapping)
        else:
            o = {"ctor": lambda: GB.GeoBox(obj, g.affine, g.crs), "crop": lambda: g.crop(obj), "expand": lambda: g.expand(obj)}[entry]()
        print(f"{entry}({obj!r}) ->", o, "shape", tuple(o.shape), "given", want)
        R2.oracle(want is not None and tuple(map(int, o.shape)) == want, key, {"op": op}, f"shape {tuple(o.shape)} != {want}")
        return True
    if op == "zoom-to-args":
        ztok, rtok = args["shape"], args["resolution"]
        robj, want_res = res_obj_of(rtok)
        if ztok == "N":
            zobj, want = None, None
        elif ztok.startswith("#"):
            zobj, want = _num_of(ztok[1:]), None
        else:
            zobj, want = shape_obj_of(ztok)
        try:
            o = g.zoom_to(resolution=robj) if zobj is None else g.zoom_to(zobj, resolution=robj)
        except Exception as e:  # pylint: disable=broad-except
            print(f"zoom_to({zobj!r}, resolution={robj!r}) raised {type(e).__name__}: {e}")
            R2.oracle(key != "zoom-to-usable-args-raised", key, {"op": op}, "raised")
            return True
        print(f"zoom_to({zobj!r}, resolution={robj!r}) ->", o)
        ny, nx = map(int, g.shape)
        got = tuple(map(int, o.shape))
        if key == "zoom-to-shape-arg":
            A, A2 = H.fa(H.aff_of(g)), H.fa(H.aff_of(o))
            R2.oracle(got == want and H.Ctx(R2, False).pt_close(H.fa_apply(A2, (F(got[1]), F(got[0]))), H.fa_apply(A, (F(nx), F(ny))), H.world_scale(A, (ny, nx))),
                      key, {"op": op}, f"shape {got} asked {want} / footprint changed")
        elif key == "zoom-to-shape-precedence":
            R2.oracle(g.zoom_to(zobj) == o, key, {"op": op}, "zoom_to(shape, resolution=r) differs from zoom_to(shape)")
        elif key == "zoom-to-resolution-arg":
            A2 = H.fa(H.aff_of(o))
            bb = [F(v) for v in g.boundingbox.bbox]
            rx, ry = F(want_res[0]), F(want_res[1])
            ok = A2[0] == rx and A2[4] == ry and A2[1] == 0 and A2[3] == 0
            for n_, r_, lo, hi in ((got[1], abs(rx), bb[0], bb[2]), (got[0], abs(ry), bb[1], bb[3])):
                ok = ok and n_ * r_ >= (hi - lo) - F(0.01) * r_ - F(1, 10**9) * (hi - lo)
            R2.oracle(ok, key, {"op": op}, f"shape {got} affine {tuple(H.aff_of(o))[:6]} bbox {tuple(g.boundingbox.bbox)}")
        else:
            q = F(float(zobj))
            nmax = max(ny, nx)
            want2 = tuple(max(1, math.ceil(F(s_) * q / nmax)) for s_ in (ny, nx))
            R2.oracle(got == want2, key, {"op": op}, f"shape {got} want {want2}")
        return True
    if op == "getitem":
        tok = args
        obj = tuple(idx_obj_of(t) for t in tok[1:-1].split(",") if t) if tok.startswith("[") else idx_obj_of(tok)
        try:
            o = g[obj]
        except Exception as e:  # pylint: disable=broad-except
            print(f"gbox[{obj!r}] raised {type(e).__name__}: {e}")
            return True
        print(f"gbox[{obj!r}] ->", o)
        entries = obj if isinstance(obj, tuple) else (obj, slice(None))
        ok = len(entries) == 2 and all(step_ok(s_) for s_ in entries)
        if ok:
            sely, selx = H.norm_index_numpy(entries[0], int(g.shape[0])), H.norm_index_numpy(entries[1], int(g.shape[1]))
            if sely and selx:
                H.check_contract(cx, "getitem", g, o, tok, T=H.fa_tr(selx[0], sely[0]), shape=(sely[1], selx[1]))
        else:
            R2.oracle(False, key, {"op": op}, f"gbox[{obj!r}] was accepted: {o!r}")
        return True
    if op == "project":
        from odc.geo import geom as G
        pts = [tuple(float(F(v)) for v in t.split(";")) for t in args["pts"]]
        crs = H.CRS_TAGS.get(int(args["crs"]))
        geom = G.multipoint(pts, crs)
        o = g.project(geom)
        print("project(", geom, ") ->", o)
        back = g.project(o) if g.crs is not None else None
        print("and back:", back)
        Af = H.fa(H.aff_of(g))
        got = [tuple(p.coords[0]) for p in o.geoms]
        if crs is None:
            want = [H.fa_apply(Af, (F(x), F(y))) for x, y in pts]
            ok = o.crs == g.crs
        else:
            d = Af[0] * Af[4] - Af[1] * Af[3]
            want = [((Af[4] * (F(x) - Af[2]) - Af[1] * (F(y) - Af[5])) / d, (Af[0] * (F(y) - Af[5]) - Af[3] * (F(x) - Af[2])) / d) for x, y in pts]
            ok = o.crs is None
        sc = max([1] + [abs(v) for w in want for v in w])
        R2.oracle(ok and all(H.Ctx(R2, False).pt_close(a, b, sc) for a, b in zip(got, want)), key, {"op": op}, f"{got} vs {[tuple(map(float, w)) for w in want]}")
        return True
    if op == "footprint":
        from odc.geo import geom as G
        m = dict(t.split("=") for t in args.split(" "))
        buf, npoints = float(m["buffer"]), int(m["npoints"])
        seen = {}
        ob, ot = G.Geometry.buffer, G.Geometry.to_crs
        G.Geometry.buffer = lambda self, d, *a, **k: (seen.__setitem__("buffer", d), ob(self, d, *a, **k))[1]
        G.Geometry.to_crs = lambda self, crs, resolution=None, *a, **k: (seen.__setitem__("resolution", resolution), self)[1]
        try:
            g.footprint(g.crs, buffer=buf, npoints=npoints)
        finally:
            G.Geometry.buffer, G.Geometry.to_crs = ob, ot
        r = g.resolution
        bb = g.boundingbox
        print(f"footprint(buffer={buf}, npoints={npoints}): buffer distance {seen.get('buffer')}, densification step {seen.get('resolution')}; "
              f"resolution {r}, bounding box spans {bb.span_x} x {bb.span_y}")
        if key == "footprint-buffer-distance":
            R2.oracle("buffer" in seen and abs(seen["buffer"] - buf * max(abs(r.x), abs(r.y))) <= 1e-9 * abs(seen["buffer"]) and (seen["buffer"] > 0) == (buf > 0),
                      key, {"op": op}, "buffer distance is not buffer * pixel size")
        else:
            R2.oracle("resolution" in seen and abs(seen["resolution"] * npoints - max(bb.span_x, bb.span_y)) <= 1e-9 * max(bb.span_x, bb.span_y),
                      key, {"op": op}, "densification step * npoints is not the longer side of the bounding box")
        return True
    if op == "cross-crs":
        from odc.geo import geom as G
        pts = [tuple(float(F(v)) for v in t.split(";")) for t in args["pts"]]
        rcrs = H.CRS_TAGS.get(int(args["crs"]))
        roi = G.multipoint(pts, rcrs)
        ws = fresh_transform(rcrs, g.crs, pts)
        Af = H.fa(H.aff_of(g))
        det = Af[0] * Af[4] - Af[1] * Af[3]
        pix = [((Af[4] * (F(x) - Af[2]) - Af[1] * (F(y) - Af[5])) / det, (Af[0] * (F(y) - Af[5]) - Af[3] * (F(x) - Af[2])) / det) for x, y in ws]
        lo = (min(p_[0] for p_ in pix), min(p_[1] for p_ in pix))
        hi = (max(p_[0] for p_ in pix), max(p_[1] for p_ in pix))
        ny, nx = map(int, g.shape)
        for name, o, clip in (("gbox[region]", g[roi], True), ("enclosing(region)", g.enclosing(roi), False)):
            if (key.startswith("region")) != clip:
                continue
            L, B_, Rr, T_ = math.floor(lo[0]), math.floor(lo[1]), math.ceil(hi[0]), math.ceil(hi[1])
            if clip:
                L, B_, Rr, T_ = max(L, 0), max(B_, 0), min(Rr, nx), min(T_, ny)
            print(f"{name} for vertices {pts} in {rcrs} ->", o, f"; re-projected vertices span cols {float(lo[0])}..{float(hi[0])}, rows {float(lo[1])}..{float(hi[1])}")
            R2.oracle(tuple(map(int, o.shape)) == (max(1, T_ - B_), max(1, Rr - L)) and H.fa(H.aff_of(o)) == H.fa_mul(Af, H.fa_tr(L, B_)), key, {"op": op},
                      f"{name} is not the rounded-out window of the re-projected vertices")
        return True
    if op == "rotate-compose":
        a, b = (float(v) for v in args.split(" "))
        two, one = g.rotate(a).rotate(b), g.rotate(a + b)
        print(f"rotate({a}).rotate({b}) = {two}")
        print(f"rotate({a + b}) = {one}")
        ny, nx = map(int, g.shape)
        sc = H.world_scale(H.fa(H.aff_of(g)), (ny, nx))
        cf = H.Ctx(R2, False)
        R2.oracle(all(cf.pt_close(H.fa_apply(H.fa(H.aff_of(two)), p_), H.fa_apply(H.fa(H.aff_of(one)), p_), sc) for p_ in H.sample_pix(R2.rng, (ny, nx))),
                  key, {"op": op}, "footprints differ")
        return True
    if op == "qr2sample":
        m = dict(t.split("=") for t in args.split(" "))
        n, off = int(m["n"]), int(m["offset"])
        pad = None if m["padding"] == "None" else float(m["padding"])
        edges = m["with_edges"] == "True"
        ny, nx = map(int, g.shape)
        pts = [tuple(p.coords[0]) for p in g.qr2sample(n, padding=pad, with_edges=edges, offset=off).geoms]
        print(f"qr2sample(n={n}, padding={pad}, with_edges={edges}, offset={off}) on {(ny, nx)} -> {len(pts)} points: {pts[:8]}")
        eps = 1e-5 * max(nx, ny)
        lo = (pad or 0.0) if not edges else 0.0
        inner = pts[:n]
        plo = pad or 0.0
        R2.oracle(all(lo - eps <= x <= nx - lo + eps and lo - eps <= y <= ny - lo + eps for x, y in pts) and
                  all(plo - eps <= x <= nx - plo + eps and plo - eps <= y <= ny - plo + eps for x, y in inner) and
                  (len(pts) == n if not edges else len(pts) >= n + 4), key, {"op": op}, "points outside the padded pixel rectangle / wrong count")
        return True
    if op == "cmeta":
        co = list(g.coordinates.items())
        print("coordinates:", [(n_, len(c.values), c.resolution) for n_, c in co], "affine", tuple(H.aff_of(g))[:6], "crs", g.crs)
        want = ("latitude", "longitude") if args == "G" else ("y", "x")
        Af = H.fa(H.aff_of(g))
        R2.oracle(tuple(n_ for n_, _ in co) == want and F(co[0][1].resolution) == Af[4] and F(co[1][1].resolution) == Af[0], key, {"op": op},
                  f"keys / resolutions are not {want} with (row, column) resolution")
        return True
    if op == "laws":
        print("law:", args, "on", g, "(re-run check.py for the full evaluation)")
        ny, nx = map(int, g.shape)
        ok = tuple(H.aff_of(g.pad(2, 1)[1:1 + ny, 2:2 + nx]))[:6] == tuple(H.aff_of(g))[:6] and \
            tuple(H.aff_of(g.flipx().flipx()))[:6] == tuple(H.aff_of(g))[:6] and tuple(H.aff_of(g.flipy().flipy()))[:6] == tuple(H.aff_of(g))[:6]
        T = Affine(2.0, 0.0, 1.5, 0.0, 0.5, -0.25)
        S = Affine(0.0, -1.0, 2.0, 1.0, 0.0, -3.0)
        ok = ok and tuple(H.aff_of((g * T) * S))[:6] == tuple(H.aff_of(g * (T * S)))[:6] and tuple(H.aff_of(S * (T * g)))[:6] == tuple(H.aff_of((S * T) * g))[:6] \
            and tuple(H.aff_of((T * g)[1:, 1:]))[:6] == tuple(H.aff_of(T * g[1:, 1:]))[:6]
        R2.oracle(ok, key, {"op": op}, "a window / affine-composition law fails on this geobox")
        return True
    if op == "gcp-resolution":
        B = Affine(*[float(F(v)) for v in args.split(";")])
        ny, nx = map(int, g.shape)
        mapping = H.build_gcp_mapping(GCP, max(ny, 8), max(nx, 8), B, True)
        if not pin_mapping(R2, mapping, B):
            print("cannot pin the best-fit affine of the mapping")
            return True
        v = GCP.GCPGeoBox((ny, nx), mapping, H.aff_of(g))
        E = H.fa_mul(H.fa(B), H.fa(H.aff_of(g)))
        r = v.resolution
        print("GCP view with pixel-side affine", tuple(H.aff_of(g))[:6], "best-fit affine", B, "-> resolution", r, "; pixels map through", tuple(map(float, E)))
        det = E[0] * E[4] - E[1] * E[3]
        R2.oracle(abs(F(r.x) ** 2 - (E[0] ** 2 + E[3] ** 2)) <= F(1, 10**9) * (E[0] ** 2 + E[3] ** 2) and abs(F(r.x) * F(r.y) - det) <= F(1, 10**9) * abs(det),
                  key, {"op": op}, "resolution is not the pixel size of the view")
        return True
    return False
