"""C16 — GeoBox and bounding-box set operations respect the common pixel grid."""
from __future__ import annotations

import inspect
import itertools
import math
from fractions import Fraction as Fr

import numpy as np

from . import c16_ext as EXT
from .common import Run, bool_s, frac_s, guarded, list_s, opt_s, run_driver

META = {
    "claimed": True,
    "text": "Lean 4 theorems (all shapes, all integer shifts, every invertible base grid: north-up, mirrored, "
    "rotated, sheared) about a hand model of pixel_translation / bounding_box_in_pixel_domain / bbox_union / "
    "bbox_intersection / geobox_union_conservative / geobox_intersection_conservative / GeoBox.__or__/__and__/"
    "overlap_roi/enclosing/snap_to and BoundingBox.round/transform: bounding-box lattice laws over any linear "
    "order (binary and n-ary); on a common grid intersection = exactly the shared pixels (empty GeoBox when none), "
    "union = smallest GeoBox on the grid containing the operands, overlap_roi indexes (numpy slice semantics) "
    "exactly the shared pixels of the first operand, union/intersection commutative and associative including "
    "the world affine whichever operand is the reference; enclosing lies on the grid, covers the region, exceeds "
    "it by < 1 px per side; snap_to moves by <= 1/2 px onto the other grid; grids differing in CRS, pixel size, "
    "orientation or sub-pixel offset beyond the isclose / 1e-8 thresholds are rejected by every operation.  The "
    "model is tied to /repo on every run by an exact behavioural correspondence (exhaustive small families on 10 "
    "base grids, random large families and triples, huge integer shapes, threshold-straddling perturbations, regions of every "
    "container type in the same and in other CRSs incl. code-less ones) and an independent "
    "exact-Fraction pixel-set / world-bounding-box oracle on the real outputs (also on realistic UTM / lon-lat doubles).",
    "note": "Trusted: Lean kernel + {propext, Classical.choice, Quot.sound}; numpy.isclose constants (read from the "
    "installed numpy each run and compared with the model's); affine.Affine arithmetic (shared rational model); "
    "numpy slice semantics Spec/PySlice (validated each run); pyproj for regions given in another CRS (the model "
    "starts from the re-projected vertices; curved edges between vertices are the recorded finding K3).  IEEE "
    "rounding is not modelled: proofs are over exact rationals, doubles are sampled by the float stream.",
    "note_growth": "Growth round 1: model also mirrors BoundingBox.buffered/span/width/height/shape/from_xy/from_points/"
    "from_transform (as repaired on HEAD), GeoBox.pad, IEEE specials (nan, +-inf) in bbox_union/bbox_intersection via the "
    "carrier PyF, and composes with the C02 model (gbox[roi], left/right/top/bottom, flipx/flipy).  Growth round 2 "
    "(Model/C16Ext, Props/C16World, harness/c16_ext.py): the public entry points from their arguments to their results - "
    "GeoBox.enclosing(region) with its dispatch on the region type (BoundingBox -> box() ring, Geometry -> coordinate "
    "sequence), the region-CRS guard, GeoBoxBase.project in both directions with Geometry.to_crs as an abstract point map "
    "(theorems hold for every such map; the driver gets pyproj's values as a table and the tie is exact on grids with a "
    "power-of-two pixel size anchored at the CRS origin, over a CRS pool with EPSG-coded AND code-less CRSs - PROJ strings, "
    "WKT - on both sides and every CRS against another spelling of itself), Geometry.boundingbox of the projected "
    "coordinates; GeoBox.boundingbox / extent (linked to C02's) and translate_pix; world-coordinate end-to-end theorems "
    "(enclosing(bbox).boundingbox contains every point of the bbox, the footprint is convex so same-CRS regions are covered "
    "point by point, g.enclosing(h.extent) == h for members of the grid, (a|b).boundingbox >= a.boundingbox|b.boundingbox and "
    "(a&b).boundingbox <= a.boundingbox&b.boundingbox on every invertible grid with equality on axis-aligned ones, project "
    "there and back is the identity); BoundingBox as a value/sequence (__eq__ with boxes and tuples, __len__/__iter__/"
    "__getitem__ incl. negative and out-of-range indices, points, range_x/range_y, aspect incl. ZeroDivisionError); "
    "split_translation; the non-finite branches of split_float/is_almost_int/maybe_zero (and rejection of GeoBoxes with a "
    "non-finite affine coefficient by every operation); list/tuple/generator argument forms of geobox_union_conservative/"
    "geobox_intersection_conservative (a generator is refused with TypeError).  "
    "Growth round 3 (same files): enclosing(bbox) in WORLD units on axis-aligned grids (< 1 pixel size per side, theorem "
    "enclosing_bbox_world_tight); empty geometries (project returns the empty geometry, enclosing is always an error, a "
    "degenerate grid goes unnoticed); BoundingBox.to_crs with pyproj as a table (smallest box around the images of the ring, "
    "inverted boxes come back sorted, no CRS -> ValueError) and BoundingBox.boundary (closed edge walk over linspace, "
    "pts_per_side = 0 -> IndexError; tied where the float32 rounding is exact); non-linear GCPGeoBox operands of | & "
    "overlap_roi snap_to and the n-ary functions are always refused, never approximated (which exception is raised is not "
    "judged); functools.reduce of | and & equals geobox_union_conservative / geobox_intersection_conservative for every list "
    "on a common grid (reduce_or_eq_union, reduce_and_eq_inter).  "
    "NOT mirrored in the anchor files: BoundingBox.map_bounds/aoi (pyproj), explore/qr2sample/__hash__/"
    "__repr__ (__hash__ coherence with == is an oracle only); Geometry.to_crs beyond the pointwise map (resolution / "
    "wrapdateline / check_and_fix options are never passed by this code; curved edges are the finding K3), shapely itself "
    "(coordinate order, bounds); the float32 rounding of BoundingBox.boundary on coordinates that are not float32 numbers "
    "(oracle with slack only); the reduce == n-ary equality for lists containing operands that are accepted although they are "
    "OFF the common grid by less than the tolerances (proved for exact common grids; sampled by the float stream); the world-"
    "coordinate excess bound of enclosing on ROTATED grids (pixel-space theorem only); math.py maybe_int/snap_scale/clamp/align_*/snap_affine/"
    "snap_grid/_snap_edge*/data_resolution_and_offset/affine_from_axis/quasi_random_r2/edge_index/Bin1D/resolve_* "
    "(C08/C14/C17/C20 own them); geobox.py everything outside the set operations (views, zoom, coordinates, GCPGeoBox, "
    "compute_crop with regions, __rmul__, rotate, buffered, footprint, geographic_extent, __dask_tokenize__, svg/html) "
    "which belongs to C02/C08/C09/C11/C19; GCPGeoBox.project / GCPGeoBox's own views (C02).",
    "technique": "Lean 4 proof over hand model + exhaustive/random differential correspondence with real code",
    "design_ref": "DESIGN.md §4 C16",
}

META["note"] += "  " + META.pop("note_growth")
META["text"] += ("  Final increment (Model/C16Ext, Model/C16C14, Props/C16World parts R-V, Props/C16C14): the reference-shift lemma (bbpd_ref_shift) and reduce(|) / reduce(&) = geobox_union_conservative / geobox_intersection_conservative for ARBITRARY operand lists (on grid, off grid within tolerance, incompatible, other CRS: the same calls succeed and fail); the world-unit excess of enclosing on rotated grids (at most one pixel's world bounding box); BoundingBox.boundary(n) for every n >= 2 (4(n-1)+1 points, closed walk, corners included, every point on the perimeter); map_bounds / aoi / GCPGeoBox.project dispatch with pyproj and the GCP mapping as parameters; C16 o C14: every GridSpec tile is tile (0,0) shifted by whole pixels, | and & of any two tiles succeed, different tiles share no pixel, the union of a row of tiles is the row's GeoBox.")


TAG_EPSG = {"1": 3857, "2": 4326, "3": 32633}
# CRSs WITHOUT an EPSG code (crs.epsg is None): PROJ strings and a WKT definition.  Any shortcut that decides "same
# CRS" from the EPSG code alone sees None == None for two different members of this part of the pool.
TAG_DEF = {
    "4": "+proj=laea +lat_0=48 +lon_0=9 +x_0=0 +y_0=0 +ellps=GRS80 +units=m +no_defs",
    "5": "+proj=sinu +lon_0=0 +x_0=0 +y_0=0 +R=6371007.181 +units=m +no_defs",
    "6": "wkt:+proj=aea +lat_1=-10 +lat_2=-30 +lat_0=0 +lon_0=130 +x_0=0 +y_0=0 +ellps=GRS80 +units=m +no_defs",
}
CRS_NAME = {"N": "none", "1": "3857", "2": "4326", "3": "32633", "4": "laea-proj", "5": "sinu-proj", "6": "aea-wkt"}
_CRS_CACHE = {}
_CRS_ALT = {}


def crs_def(tag) -> str:
    """the text the pool CRS `tag` is constructed from"""
    import pyproj

    if tag in TAG_EPSG:
        return f"EPSG:{TAG_EPSG[tag]}"
    d = TAG_DEF[tag]
    return pyproj.CRS.from_proj4(d[4:]).to_wkt() if d.startswith("wkt:") else d


def crs_of(tag):
    from odc.geo.crs import CRS

    if tag == "N":
        return None
    if tag not in _CRS_CACHE:
        _CRS_CACHE[tag] = CRS(crs_def(tag))
    return _CRS_CACHE[tag]


def crs_alt_def(tag, k=0) -> str:
    """another spelling of the definition of the pool CRS `tag`"""
    import pyproj

    if tag in TAG_EPSG:
        return [f"epsg:{TAG_EPSG[tag]}", pyproj.CRS.from_epsg(TAG_EPSG[tag]).to_wkt()][k % 2]
    if TAG_DEF[tag].startswith("wkt:"):
        return pyproj.CRS.from_proj4(TAG_DEF[tag][4:]).to_wkt("WKT1_GDAL")
    return pyproj.CRS.from_proj4(TAG_DEF[tag]).to_wkt()


def crs_alt(tag, k=0):
    """the same CRS as crs_of(tag), spelled differently (a distinct CRS object, equal under ==)"""
    from odc.geo.crs import CRS

    if (tag, k % 2) not in _CRS_ALT:
        _CRS_ALT[(tag, k % 2)] = CRS(crs_alt_def(tag, k))
    return _CRS_ALT[(tag, k % 2)]


def tag_of(crs) -> str:
    if crs is None:
        return "N"
    e = crs.epsg
    for t, v in TAG_EPSG.items():
        if v == e:
            return t
    if e is None:
        for t in TAG_DEF:
            if crs == crs_of(t):
                return t
    return "?" + str(crs)


def isclose_defaults(R=None):
    """rtol, atol defaults of the installed numpy.isclose (an external library: read from its signature when that
    is possible, else the documented values, with a note)"""
    try:
        p = inspect.signature(np.isclose).parameters
        return float(p["rtol"].default), float(p["atol"].default)
    except Exception as e:  # pylint: disable=broad-except
        if R is not None:
            R.notes.append(f"numpy.isclose defaults not readable from its signature ({e!r}); documented 1e-05 / 1e-08 used")
        return 1e-05, 1e-08


# ------------------------------------------------------------------ exact affine algebra (oracle side)
def fa(A):
    """6 exact coefficients of an affine.Affine / tuple"""
    return tuple(Fr(v) for v in tuple(A)[:6])


def fa_mul(A, B):
    a, b, c, d, e, f = A
    oa, ob, oc, od, oe, of = B
    return (a * oa + b * od, a * ob + b * oe, a * oc + b * of + c, d * oa + e * od, d * ob + e * oe, d * oc + e * of + f)


def fa_apply(A, p):
    a, b, c, d, e, f = A
    return (a * p[0] + b * p[1] + c, d * p[0] + e * p[1] + f)


def fa_inv(A):
    a, b, c, d, e, f = A
    det = a * e - b * d
    ra, rb, rd, re = e / det, -b / det, -d / det, a / det
    return (ra, rb, -c * ra - f * rb, rd, re, -c * rd - f * re)


def fa_T(tx, ty):
    return (Fr(1), Fr(0), Fr(tx), Fr(0), Fr(1), Fr(ty))


def fa_exact_floats(A):
    fl = [float(v) for v in A]
    return fl if all(Fr(x) == v for x, v in zip(fl, A)) else None


def mk_gbox(A, ny, nx, tag):
    """GeoBox from exact coefficients; None if they are not doubles."""
    from affine import Affine
    from odc.geo.geobox import GeoBox

    fl = fa_exact_floats(A)
    if fl is None:
        return None
    return GeoBox((ny, nx), Affine(*fl), crs_of(tag))


def accept_exact(g, ref, tol, t1, t0):
    """the acceptance predicate of the statement, in exact arithmetic: `g` is `ref` shifted by whole pixels up to
    the isclose thresholds (t1 around 1, t0 around 0) for the linear part and `tol` for the offset"""
    if g.crs != ref.crs:
        return False
    M = fa_mul(fa_inv(fa(ref.affine)), fa(g.affine))
    if not (abs(M[0] - 1) <= t1 and abs(M[4] - 1) <= t1 and abs(M[1]) <= t0 and abs(M[3]) <= t0):
        return False
    return all(abs(v - round(v)) < Fr(tol) for v in (M[2], M[5]))


def exact_pair(g, ref) -> bool:
    """Is the float evaluation of `~ref.affine * g.affine` exact?"""
    try:
        got = tuple((~ref.affine * g.affine))[:6]
    except Exception:  # degenerate reference: nothing is computed
        return True
    want = fa_mul(fa_inv(fa(ref.affine)), fa(g.affine))
    return all(Fr(x) == w for x, w in zip(got, want))


# ------------------------------------------------------------------ canonical text
def enc_aff(A) -> str:
    return ";".join(frac_s(v) for v in tuple(A)[:6])


def enc_gbox(g) -> str:
    ny, nx = g.shape
    return f"{int(ny)}:{int(nx)}:{enc_aff(g.affine)}:{tag_of(g.crs)}"


def enc_bb(bb) -> str:
    return ";".join(frac_s(v) for v in bb.bbox) + ";" + tag_of(bb.crs)


def enc_roi(roi) -> str:
    ys, xs = roi
    return f"{int(ys.start)}:{int(ys.stop)} {int(xs.start)}:{int(xs.stop)}"


def gb_dict(g):
    return {"shape": [int(g.shape[0]), int(g.shape[1])], "affine": [float(v) for v in tuple(g.affine)[:6]],
            "crs": None if g.crs is None else str(g.crs)}


def gb_from(d):
    from affine import Affine
    from odc.geo.geobox import GeoBox

    return GeoBox(tuple(d["shape"]), Affine(*d["affine"]), d["crs"])


def real(fn):
    """map the exception classes this code raises to the model's error kinds"""
    import affine
    from odc.geo.crs import CRSMismatchError

    def w():
        try:
            return fn()
        except CRSMismatchError:
            return "ERR:CRSMismatch"
        except affine.TransformNotInvertibleError:
            return "ERR:ValueError"

    return w


# ------------------------------------------------------------------ oracles (exact Fractions on real outputs)
def rect_of(g, ref, slack=Fr(0)):
    """pixel rectangle (x0,y0,x1,y1) of `g` in the pixel frame of `ref`, from the real affines only.
    None when g is not ref shifted by whole pixels (up to slack)."""
    M = fa_mul(fa_inv(fa(ref.affine)), fa(g.affine))
    if not (abs(M[0] - 1) <= slack and abs(M[1]) <= slack and abs(M[3]) <= slack and abs(M[4] - 1) <= slack):
        return None
    tx, ty = round(M[2]), round(M[5])
    if abs(M[2] - tx) > slack or abs(M[5] - ty) > slack:
        return None
    ny, nx = g.shape
    return (tx, ty, tx + int(nx), ty + int(ny))


def rect_pixels(r):
    return {(i, j) for i in range(r[0], r[2]) for j in range(r[1], r[3])}


def rect_nonempty(r):
    return r[2] > r[0] and r[3] > r[1]


_WP_CACHE = {}


def world_pixels(g):
    """the literal reading: set of world positions of pixel corners, exact (memoised on affine + shape: the same
    operands and results recur in both operand orders and across the exhaustive families)"""
    ny, nx = g.shape
    key = (tuple(g.affine)[:6], int(ny), int(nx))
    hit = _WP_CACHE.get(key)
    if hit is not None:
        return hit
    A = fa(g.affine)
    out = frozenset(fa_apply(A, (i, j)) for i in range(int(nx)) for j in range(int(ny)))
    if len(_WP_CACHE) > 20000:
        _WP_CACHE.clear()
    _WP_CACHE[key] = out
    return out


def small(*gs):
    return all(int(g.shape[0]) * int(g.shape[1]) <= 120 and max(int(g.shape[0]), int(g.shape[1])) <= 120 for g in gs)


def chk_inter(ops, res, slack=Fr(0)):
    """res = intersection of the list `ops` (first is the reference)"""
    ref = ops[0]
    rs = [rect_of(g, ref, slack) for g in ops]
    rr = rect_of(res, ref, slack)
    if rr is None or any(r is None for r in rs):
        return False, f"result or operand not on the reference grid: {rr} {rs}"
    if res.crs != ref.crs:
        return False, "crs of the result differs"
    want = (max(r[0] for r in rs), max(r[1] for r in rs), min(r[2] for r in rs), min(r[3] for r in rs))
    shared = rect_nonempty(want)
    if shared:
        if rr != want:
            return False, f"intersection rect {rr} != shared pixels {want}"
    else:
        if not res.is_empty() or rect_nonempty(rr):
            return False, f"no shared pixel but result {res.shape} is not empty"
    if min(rr[2] - rr[0], rr[3] - rr[1]) < 0:
        return False, f"negative shape {res.shape}"
    if slack == 0 and small(res, *ops):
        w = world_pixels(ops[0])
        for g in ops[1:]:
            w &= world_pixels(g)
        if world_pixels(res) != w:
            return False, "world pixel set of the result != shared world pixels"
    return True, ""


def chk_union(ops, res, slack=Fr(0)):
    ref = ops[0]
    rs = [rect_of(g, ref, slack) for g in ops]
    rr = rect_of(res, ref, slack)
    if rr is None or any(r is None for r in rs):
        return False, f"result or operand not on the reference grid: {rr} {rs}"
    if res.crs != ref.crs:
        return False, "crs of the result differs"
    for r in rs:
        if rect_nonempty(r) and not (rr[0] <= r[0] and rr[1] <= r[1] and r[2] <= rr[2] and r[3] <= rr[3]):
            return False, f"union {rr} does not contain operand {r}"
    if all(rect_nonempty(r) for r in rs):
        want = (min(r[0] for r in rs), min(r[1] for r in rs), max(r[2] for r in rs), max(r[3] for r in rs))
        if rr != want:
            return False, f"union {rr} is not the smallest containing rect {want}"
    if slack == 0 and small(res, *ops):
        w = set()
        for g in ops:
            w |= world_pixels(g)
        if not w <= world_pixels(res):
            return False, "an operand's world pixel is missing from the union"
    return True, ""


def chk_roi(a, b, roi, slack=Fr(0)):
    """roi indexes exactly the pixels of `a` shared with `b` (numpy is the slice semantics)"""
    rb = rect_of(b, a, slack)
    if rb is None:
        return False, "other not on grid"
    ny, nx = int(a.shape[0]), int(a.shape[1])
    # Python's range[...] has exactly the slice semantics of numpy basic indexing, at any size
    want_x = range(max(0, rb[0]), max(max(0, rb[0]), min(nx, rb[2])))
    want_y = range(max(0, rb[1]), max(max(0, rb[1]), min(ny, rb[3])))
    got_x = range(nx)[roi[1]]
    got_y = range(ny)[roi[0]]

    def ln(rg):  # len() overflows for huge ranges
        return max(0, rg.stop - rg.start) if rg.step == 1 else len(rg)

    def norm(rg):
        return None if ln(rg) == 0 else (rg.start, rg.stop, rg.step)

    # as a set of pixels: empty if either axis is empty
    want = (norm(want_y), norm(want_x)) if ln(want_x) and ln(want_y) else None
    got = (norm(got_y), norm(got_x)) if ln(got_x) and ln(got_y) else None
    if want != got:
        return False, (f"roi {roi} selects rows {got_y} cols {got_x} of a {ny}x{nx} geobox; "
                       f"shared are rows {want_y} cols {want_x}")
    return True, ""


def same_gbox(x, y, slack=Fr(0)):
    if tuple(x.shape) != tuple(y.shape) or x.crs != y.crs:
        return False
    if slack == 0:
        return x == y
    r = rect_of(y, x, slack)
    return r is not None and r[0] == 0 and r[1] == 0


def chk_enclosing(g, pts_world, res, slack=Fr(0)):
    """res on g's grid; covers the points; excess < 1 px per side (degenerate axis: == 1 px allowed)"""
    r = rect_of(res, g, slack)
    if r is None:
        return False, "result is not on the source grid"
    if res.crs != g.crs:
        return False, "crs differs"
    inv = fa_inv(fa(g.affine))
    px = [fa_apply(inv, (Fr(x), Fr(y))) for x, y in pts_world]
    x0, x1 = min(p[0] for p in px), max(p[0] for p in px)
    y0, y1 = min(p[1] for p in px), max(p[1] for p in px)
    if not (r[0] - slack <= x0 and x1 <= r[2] + slack and r[1] - slack <= y0 and y1 <= r[3] + slack):
        return False, f"region pixel bounds ({float(x0)},{float(y0)},{float(x1)},{float(y1)}) not covered by {r}"
    for lo, hi, a, b, nm in ((x0, x1, r[0], r[2], "x"), (y0, y1, r[1], r[3], "y")):
        if not lo - a < 1 + slack:
            return False, f"excess on the low {nm} side is {float(lo - a)} px"
        degenerate = (b - a == 1) and (hi - lo <= slack)
        if not (b - hi < 1 + slack or degenerate):
            return False, f"excess on the high {nm} side is {float(b - hi)} px"
    if r[2] - r[0] < 1 or r[3] - r[1] < 1:
        return False, "empty result"
    return True, ""


def region_variants(region):
    """other container types holding exactly the same region / vertex set (same CRS): `enclosing` must not care.
    BoundingBox <-> its polygon <-> the multipoint / closed ring of its corners; polygon <-> its exterior ring (line)
    <-> the multipoint of its vertices; line <-> multipoint; point <-> one-element multipoint."""
    from odc.geo import geom as GM
    from odc.geo.geom import BoundingBox

    out = []
    if isinstance(region, BoundingBox):
        poly = region.polygon
        out.append(("bbox.polygon", poly))
        out.append(("multipoint(corners)", GM.multipoint(poly.exterior.points[:-1], region.crs)))
        out.append(("line(ring)", GM.line(poly.exterior.points, region.crs)))
        return out
    t = region.geom_type
    if t in ("MultiPolygon", "MultiLineString", "GeometryCollection"):
        out.append(("multipoint(all vertices)", GM.multipoint(input_vertices(region), region.crs)))
    elif t == "Polygon":
        pts = region.exterior.points
        out.append(("line(ring)", GM.line(pts, region.crs)))
        out.append(("multipoint(vertices)", GM.multipoint(pts[:-1], region.crs)))
    elif t == "LineString":
        out.append(("multipoint(vertices)", GM.multipoint(region.points, region.crs)))
    elif t == "Point":
        out.append(("multipoint(point)", GM.multipoint(region.points, region.crs)))
    elif t == "MultiPoint":
        pts = [g_.points[0] for g_ in region.geoms]
        if len(pts) >= 2:
            out.append(("line(vertices)", GM.line(pts, region.crs)))
    return out


def chk_container_equivalence(g, region, res):
    """same region in another container type -> the same GeoBox (exact equality: the same vertices are mapped)"""
    for nm, alt in region_variants(region):
        try:
            o = g.enclosing(alt)
        except Exception as e:  # pylint: disable=broad-except
            return False, f"enclosing({nm}) raised {e!r} while the original container gave {res!r}"
        if o != res:
            return False, (f"enclosing({type(region).__name__ if not hasattr(region, 'geom_type') else region.geom_type}) = "
                           f"{res!r} but enclosing({nm}) = {o!r}")
    return True, ""


def region_dict(region):
    from odc.geo.geom import BoundingBox

    if isinstance(region, BoundingBox):
        return {"type": "BoundingBox", "bbox": [float(v) for v in region.bbox], "crs": str(region.crs)}
    return {"type": "Geometry", "wkt": region.wkt, "crs": str(region.crs)}


def region_from(d):
    from odc.geo.geom import BoundingBox, Geometry
    from shapely import wkt as _wkt

    if d["type"] == "BoundingBox":
        return BoundingBox(*d["bbox"], d["crs"])
    return Geometry(_wkt.loads(d["wkt"]), d["crs"])


# invalid-but-meaningful regions on the unit square (u, v): list of polygons, each a list of rings (shell first).
# Coordinates are multiples of 1/8 so that the exact stream can place them on dyadic pixel positions.
WEIRD_REGIONS = {
    "bowtie": [[[(0, 0), (1, 1), (1, 0), (0, 1)]]],                                   # self-crossing quad
    "zigzag-8": [[[(0, 0), (1, .5), (0, 1), (1, 1), (0, .5), (1, 0)]]],                # crosses itself twice
    "self-touch": [[[(0, 0), (1, 0), (.5, .5), (1, 1), (0, 1), (.5, .5)]]],            # ring touches itself at a vertex
    "dup-vertices": [[[(0, 0), (0, 0), (1, 0), (1, 1), (1, 1), (0, 1)]]],              # repeated consecutive vertices
    "clockwise": [[[(0, 0), (0, 1), (1, 1), (1, 0)]]],                                 # wrong winding order
    "spike": [[[(0, 0), (1, 0), (1, 1), (.5, 1), (.5, .25), (.5, 1), (0, 1)]]],        # zero-width spike
    "zero-area": [[[(0, 0), (.5, .5), (1, 1)]]],                                       # collinear ring
    "hole-touching-shell": [[[(0, 0), (1, 0), (1, 1), (0, 1)], [(0, 0), (.625, .25), (.25, .625)]]],
    "hole-same-winding": [[[(0, 0), (1, 0), (1, 1), (0, 1)], [(.25, .25), (.75, .25), (.75, .75), (.25, .75)]]],
    "mpoly-overlap": [[[(0, 0), (.75, 0), (.75, .75), (0, .75)]], [[(.25, .25), (1, .25), (1, 1), (.25, 1)]]],
    "mpoly-nested": [[[(0, 0), (1, 0), (1, 1), (0, 1)]], [[(.25, .25), (.5, .25), (.5, .5), (.25, .5)]]],
    "mpoly-bowtie": [[[(0, 0), (.5, .5), (.5, 0), (0, .5)]], [[(.5, .5), (1, 1), (1, .5), (.5, 1)]]],
}


def build_weird_region(name, P, crs):
    """the region `name` of WEIRD_REGIONS with (u, v) mapped through P -> (Geometry, all its input vertices)"""
    from odc.geo import geom as GM

    polys = [[[P(u, v) for u, v in ring] for ring in poly] for poly in WEIRD_REGIONS[name]]
    verts = [q for poly in polys for ring in poly for q in ring]
    closed = [[ring + [ring[0]] for ring in poly] for poly in polys]
    if len(closed) == 1:
        region = GM.polygon(closed[0][0], crs, *closed[0][1:])
    else:
        region = GM.multipolygon(closed, crs)
    return region, verts


def input_vertices(region):
    """every coordinate of the region as given (no shapely validity, no odc-geo code): BoundingBox -> 4 corners"""
    import shapely
    from odc.geo.geom import BoundingBox

    if isinstance(region, BoundingBox):
        l, b, r, t = region.bbox
        return [(l, b), (l, t), (r, b), (r, t)]
    return [tuple(map(float, c)) for c in shapely.get_coordinates(region.geom)]


_TR_CACHE = {}


def region_vertices_in(region, crs):
    """every input vertex of the region, taken to `crs` point by point with a FRESH pyproj transformer (trusted):
    independent of Geometry.to_crs / shapely validity handling.  Curved-edge bulge (K3) does not affect vertices."""
    import pyproj

    verts = input_vertices(region)
    if region.crs == crs:
        return verts
    k = (str(region.crs), str(crs))
    if k not in _TR_CACHE:
        _TR_CACHE[k] = pyproj.Transformer.from_crs(pyproj.CRS.from_user_input(k[0]), pyproj.CRS.from_user_input(k[1]),
                                                   always_xy=True)
    tr = _TR_CACHE[k]
    out = []
    for x, y in verts:
        X, Y = tr.transform(x, y)
        out.append((float(X), float(Y)))
    return out


def chk_project_vertexwise(g, region, slack=Fr(1, 10**6)):
    """GeoBox.project(region) maps the region vertex by vertex: same number of coordinates, each at the pixel
    position of the corresponding input vertex (nothing dropped, merged or 'repaired')"""
    import shapely

    pp = g.project(region)
    got = [tuple(map(float, c)) for c in shapely.get_coordinates(pp.geom)]
    inv = fa_inv(fa(g.affine))
    want = [fa_apply(inv, (Fr(x), Fr(y))) for x, y in region_vertices_in(region, g.crs)]
    if len(got) != len(want):
        return False, f"project() returned {len(got)} coordinates for a region with {len(want)} vertices"
    for (gx, gy), (wx, wy) in zip(got, want):
        if abs(Fr(gx) - wx) > slack or abs(Fr(gy) - wy) > slack:
            return False, f"project() put a vertex at ({gx}, {gy}) px, expected ({float(wx)}, {float(wy)}) px"
    return True, ""


def chk_region_enclosing(g, region):
    """the full enclosing predicate for any region type / CRS -> list of (key, ok, what)"""
    r = g.enclosing(region)
    verts = region_vertices_in(region, g.crs)
    same = region.crs == g.crs
    ok, what = chk_enclosing(g, verts, r, Fr(1, 10**6))
    if ok or same:
        key = "enclosing-not-tight-cover-on-grid"
    elif what.startswith("excess"):
        key = "enclosing-cross-crs-excess"          # overshoot: never excused by the curved-edge finding
    else:
        key = "enclosing-cross-crs-vertex-not-covered"
    ok2, what2 = chk_container_equivalence(g, region, r)
    out = [(key, ok, f"{what} (region {region!r}, result {r!r})" if not ok else ""),
           ("enclosing-region-container-equivalence", ok2, what2)]
    from odc.geo.geom import BoundingBox

    if not isinstance(region, BoundingBox):
        ok3, what3 = chk_project_vertexwise(g, region)
        out.append(("project-not-vertexwise", ok3, f"{what3} (region {region!r})" if not ok3 else ""))
    return out


def chk_snap(a, other, res, slack=Fr(0), tol=Fr(1e-8)):
    """res = a moved by <= 1/2 px; res on other's grid (exactly, or within tol when no move was made)"""
    if tuple(res.shape) != tuple(a.shape) or res.crs != a.crs:
        return False, "shape/crs changed"
    M = fa_mul(fa_inv(fa(a.affine)), fa(res.affine))
    if not (abs(M[0] - 1) <= slack and abs(M[1]) <= slack and abs(M[3]) <= slack and abs(M[4] - 1) <= slack):
        return False, "snap changed scale/rotation"
    half = Fr(1, 2)
    if abs(M[2]) > half + slack or abs(M[5]) > half + slack:
        return False, f"moved by ({float(M[2])},{float(M[5])}) px > 1/2"
    O = fa_mul(fa_inv(fa(other.affine)), fa(res.affine))
    for v, moved in ((O[2], M[2]), (O[5], M[5])):
        d = abs(v - round(v))
        lim = slack if abs(moved) > slack else tol + slack
        if d > lim:
            return False, f"result off the other grid by {float(d)} px"
    return True, ""


# ------------------------------------------------------------------ base grids
def base_grids(rng, n_extra):
    """(name, exact coefficients, step_exact) — step_exact: every float op of ~B*A is exact"""
    out = []

    def add(name, lin, k, x0, y0, ex=True):
        s = Fr(2) ** k
        a, b, d, e = (Fr(v) * s for v in lin)
        out.append((name, (a, b, Fr(x0), d, e, Fr(y0)), ex))

    add("north-up", (1, 0, 0, -1), 0, 0, 0)
    add("north-up", (1, 0, 0, -1), 3, 1000, -5000)
    add("north-up-fine", (1, 0, 0, -1), -3, Fr(17, 8), Fr(-3, 4))
    add("mirror-x", (-1, 0, 0, -1), 1, 64, 32)
    add("south-up", (1, 0, 0, 1), 2, -12, 20)
    add("aniso", (2, 0, 0, -1), 1, 5, 7)
    add("rot90", (0, -1, 1, 0), 1, 10, -6)
    add("rot45", (1, -1, 1, 1), 0, Fr(1, 2), 3)
    add("shear", (1, 1, 0, 1), 1, 0, 8)
    add("rot345", (3, -4, 4, 3), 1, 100, 200, ex=False)
    lins = [((1, 0, 0, -1), "north-up"), ((-1, 0, 0, -1), "mirror-x"), ((1, 0, 0, 1), "south-up"),
            ((0, -1, 1, 0), "rot90"), ((0, 1, -1, 0), "rot270"), ((1, -1, 1, 1), "rot45"), ((-1, 0, 0, 1), "rot180"),
            ((4, 0, 0, -1), "aniso"), ((3, -4, 4, 3), "rot345")]
    for _ in range(n_extra):
        lin, nm = rng.choice(lins)
        k = rng.randint(-4, 5)
        add(nm, lin, k, Fr(rng.randint(-2**16, 2**16), 8), Fr(rng.randint(-2**16, 2**16), 8), ex=(nm != "rot345"))
    return out


def member(base, tx, ty, ny, nx, tag="1"):
    return mk_gbox(fa_mul(base, fa_T(tx, ty)), ny, nx, tag)


# ------------------------------------------------------------------ the run
def run(R: Run):
    import affine as affine_mod
    from affine import Affine
    from odc.geo import geobox as GBm
    from odc.geo import geom as GM
    from odc.geo import math as MM
    from odc.geo.geobox import GeoBox, geobox_intersection_conservative, geobox_union_conservative
    from odc.geo.geom import BoundingBox, bbox_intersection, bbox_union

    rng = R.rng
    TOL = 1e-8
    stats = {"inexact-skipped": 0}

    def oracle(ok_what, key, case, sig=None, trivial=False):
        ok, what = ok_what
        R.oracle(ok, key, case, what, sig=sig, trivial=trivial)
        return ok

    run_corpus(R)

    # ---------------------------------------------------------------- A. constants
    rtol, atol = isclose_defaults(R)

    def default_tol_behaves_as(tol):
        """the DEFAULT tolerance of bounding_box_in_pixel_domain / overlap_roi, established behaviourally (calls
        without the argument on offsets one ulp below `tol` and exactly `tol`), never from the signature"""
        ref_ = GeoBox((5, 6), Affine(1.0, 0.0, 0.0, 0.0, -1.0, 0.0), crs_of("1"))
        lo_, hi_ = (GeoBox((3, 4), Affine(1.0, 0.0, v, 0.0, -1.0, 0.0), crs_of("1")) for v in (math.nextafter(tol, 0), tol))

        def accepts(f):
            try:
                f()
                return True
            except ValueError:
                return False

        return all(accepts(lambda: f(lo_)) and not accepts(lambda: f(hi_))
                   for f in (lambda g_: GBm.bounding_box_in_pixel_domain(g_, ref_), lambda g_: ref_.overlap_roi(g_),
                             lambda g_: GBm.bounding_box_in_pixel_domain(g_, reference=ref_)))

    R.corr("c16 consts",
           lambda: f"{frac_s(atol + rtol * abs(1.0))} {frac_s(atol + rtol * abs(0.0))} "
                   f"{frac_s(TOL) if default_tol_behaves_as(TOL) else 'default-tol-is-not-1e-8'}", sig="consts")

    # ---------------------------------------------------------------- B. numeric helpers (every double is exact here)
    xs = []
    eps_list = [0.0, 0.25, 0.5, 0.75, TOL, math.nextafter(TOL, 1), math.nextafter(TOL, 0), 2 * TOL, TOL / 2,
                0.5 + 2.0**-30, 0.5 - 2.0**-30, 1 - TOL, 1 - math.nextafter(TOL, 1), 1 - math.nextafter(TOL, 0),
                0.01, 0.0099999, 0.49, 0.51]
    for n in range(-3, 4):
        for e in eps_list:
            xs += [n + e, n - e]
    n_sys = len(xs)
    # just off integers / half-integers / the tolerance, at every scale a "snap almost-ints" clean-up could use
    DELTAS = [1e-6, 1e-9, 1e-10, 1e-11, 1e-13, 2.0**-40, 2.0**-52]
    for k in (0, 1, -1, 2, 7, -13, 1000, 2**31, 2**40):
        for h in (0.0, 0.5):
            for d in DELTAS:
                xs += [k + h + d, k + h - d, math.nextafter(k + h, math.inf), math.nextafter(k + h, -math.inf)]
    for d in DELTAS:
        xs += [TOL + d, TOL - d, -TOL + d, 0.5 * d]
    # extremes: every helper must cope with the whole double range (huge values are integers)
    xs += [1e308, -1e308, 1.7976931348623157e308, -1.7976931348623157e308, 5e-324, -5e-324, 2.0**53, 2.0**53 + 2,
           2.0**52 + 0.5, -(2.0**52) - 0.5, 2.0**52 - 0.5, 2.0**63, 2.0**64, 2.0**100, 1e22, 4503599627370495.5]
    for _ in range(R.pick(600, 6000)):
        r = rng.random()
        n = rng.randint(-1000, 1000)
        if r < 0.3:
            xs.append(rng.uniform(-100, 100))
        elif r < 0.6:
            xs.append(n + rng.uniform(-3e-8, 3e-8))
        elif r < 0.8:
            xs.append(n + 0.5 + rng.choice([0, 1, -1]) * rng.uniform(0, 1e-9))
        else:
            xs.append(n + rng.randint(-8, 8) / 8)
    tols = [TOL, 0.01, 0.5, 0.75, 2.0**-20, 0.25]
    for ix, x in enumerate(xs):
        fx = Fr(x)
        kind = "int" if fx.denominator == 1 else "half" if fx.denominator == 2 else "frac"
        for tol in (tols if ix < n_sys else [TOL, rng.choice(tols)]):
            out = R.corr(f"c16 almostint {frac_s(x)} {frac_s(tol)}", lambda: bool_s(MM.is_almost_int(x, tol)),
                         sig=f"almostint|{kind}")
            d = abs(fx - round(fx))
            R.oracle(out == bool_s(d < Fr(tol)), "is-almost-int-meaning", {"x": x, "tol": tol},
                     f"is_almost_int({x!r},{tol!r}) = {out}, distance to nearest integer {float(d)}")
        R.corr(f"c16 round {frac_s(x)}", lambda: str(round(x)), sig=f"pyround|{kind}")  # spec: Python round()
        res = []

        def f_split():
            w, pt = MM.split_float(x)
            res.append((w, pt))
            return f"{frac_s(w)} {frac_s(pt)}"

        R.corr(f"c16 splitf {frac_s(x)}", f_split, sig=f"splitf|{kind}")
        if res:
            w, pt = res[0]
            R.oracle(Fr(w) + Fr(pt) == fx and abs(Fr(pt)) <= Fr(1, 2) and Fr(w).denominator == 1,
                     "split-float-contract", {"x": x}, f"split_float({x!r}) = {w!r},{pt!r}")
        y = x - round(x)
        R.corr(f"c16 mzero {frac_s(y)} {frac_s(TOL)}", lambda: frac_s(MM.maybe_zero(y, TOL)), sig="mzero")

    for v in (math.inf, -math.inf, math.nan):
        R.oracle(MM.is_almost_int(v, TOL) is False, "non-finite-helper", {"fn": "is_almost_int", "x": repr(v)},
                 "is_almost_int of a non-finite number is not False", trivial=True)
        w_, p_ = MM.split_float(v)
        R.oracle((w_ == v or (w_ != w_ and v != v)) and p_ == 0, "non-finite-helper", {"fn": "split_float", "x": repr(v)},
                 f"split_float({v}) = {(w_, p_)}", trivial=True)

    # ---------------------------------------------------------------- C. BoundingBox laws
    HUGE = [2**31 - 1, 2**31, 2**31 + 1, 2**53 - 3, 2**53, 2**53 + 1, 2**53 + 3, 2**63, 2**63 + 1, 2**64, 2**64 + 1, 2**100,
            2**100 + 1]
    XTRM = [1e308, -1e308, 1.7976931348623157e308, -1.7976931348623157e308, 5e-324, -5e-324, 0.0, 1e-300, -1e-300]

    def rnd_box(grid, tag=None):
        tag = tag if tag is not None else rng.choice(["N", "1", "1", "1", "2"])
        if grid == "huge":  # Python ints beyond 2**53: a float detour would lose them
            v = [rng.choice([-1, 1]) * (rng.choice(HUGE) + rng.randint(-2, 2)) for _ in range(4)]
        elif grid == "xtrm":
            v = [rng.choice(XTRM) for _ in range(4)]
        elif grid:
            v = [float(Fr(rng.randint(-6, 6), 2)) for _ in range(4)]
        else:
            v = [rng.uniform(-1e6, 1e6) for _ in range(4)]
        l, r = sorted(v[:2]) if rng.random() < 0.9 else v[:2]
        b, t = sorted(v[2:]) if rng.random() < 0.9 else v[2:]
        return BoundingBox(l, b, r, t, crs_of(tag))

    def contains_pt(bb, pt):
        return bb.left <= pt[0] <= bb.right and bb.bottom <= pt[1] <= bb.top

    grid_pts = [(x / 2, y / 2) for x in range(-7, 8, 1) for y in range(-7, 8, 3)]
    for it in range(R.pick(1500, 15000)):
        grid = [False, True, True, "huge", True, "xtrm", True, True][it % 8]
        same = rng.random() < 0.85
        tg = rng.choice(["N", "1", "2"])
        a, b, c = (rnd_box(grid, tg if same else None) for _ in range(3))
        R.corr(f"c16 bbor {enc_bb(a)} {enc_bb(b)}", real(lambda: enc_bb(a | b)), sig=None)
        R.corr(f"c16 bband {enc_bb(a)} {enc_bb(b)}", real(lambda: enc_bb(a & b)), sig=None)
        if a.crs == b.crs == c.crs:
            case = {"a": enc_bb(a), "b": enc_bb(b), "c": enc_bb(c)}
            u, i = a | b, a & b
            laws = [
                ("comm", u == (b | a) and i == (b & a)),
                ("assoc", ((a | b) | c) == (a | (b | c)) and ((a & b) & c) == (a & (b & c))),
                ("idem", (a | a) == a and (a & a) == a),
                ("absorb", (a | (a & b)) == a and (a & (a | b)) == a),
                ("union-contains", u.left <= min(a.left, b.left) and u.right >= max(a.right, b.right)
                 and u.bottom <= min(a.bottom, b.bottom) and u.top >= max(a.top, b.top)),
                ("inter-contained", i.left >= max(a.left, b.left) and i.right <= min(a.right, b.right)
                 and i.bottom >= max(a.bottom, b.bottom) and i.top <= min(a.top, b.top)),
                ("nary", bbox_union([a, b, c]) == ((a | b) | c) and bbox_intersection([a, b, c]) == ((a & b) & c)),
                # two-sided: the result is pinned exactly (exact integer / Fraction re-computation)
                ("union-exact", tuple(map(Fr, u.bbox)) == (min(Fr(a.left), Fr(b.left)), min(Fr(a.bottom), Fr(b.bottom)),
                                                           max(Fr(a.right), Fr(b.right)), max(Fr(a.top), Fr(b.top)))),
                ("inter-exact", tuple(map(Fr, i.bbox)) == (max(Fr(a.left), Fr(b.left)), max(Fr(a.bottom), Fr(b.bottom)),
                                                           min(Fr(a.right), Fr(b.right)), min(Fr(a.top), Fr(b.top)))),
            ]
            if grid is True:
                laws.append(("point-sets", all(
                    (contains_pt(i, q) == (contains_pt(a, q) and contains_pt(b, q)))
                    and (not (contains_pt(a, q) or contains_pt(b, q)) or contains_pt(u, q)) for q in grid_pts)))
            for nm, ok in laws:
                R.oracle(ok, "bbox-law-" + nm, case, f"bounding-box law {nm} fails", sig="bbox-law")
    for _ in range(R.pick(400, 4000)):
        k = rng.choice([0, 1, 2, 3, 4])
        tg = rng.choice(["N", "1"])
        bbs = [rnd_box(rng.choice([True, True, "huge"]), tg if rng.random() < 0.93 else None) for _ in range(k)]
        R.corr(f"c16 bbu {list_s(bbs, enc_bb)}", real(lambda: enc_bb(bbox_union(iter(bbs)))), sig=None)
        R.corr(f"c16 bbi {list_s(bbs, enc_bb)}", real(lambda: enc_bb(bbox_intersection(iter(bbs)))), sig=None)
    # IEEE specials and inverted operands in the n-ary forms (model carrier PyF): behaviour as on HEAD
    SPEC = [math.nan, math.inf, -math.inf, 0.0, 1.0, -2.5, 3.0, 7.5, -1e308, 5e-324]

    def enc_f(v):
        return "nan" if v != v else "inf" if v == math.inf else "-inf" if v == -math.inf else frac_s(v)

    def enc_bbf(bb):
        return ";".join(enc_f(float(v)) for v in bb.bbox) + ";" + tag_of(bb.crs)

    nan_order = 0
    for it in range(R.pick(500, 5000)):
        k = rng.choice([1, 2, 2, 3, 4])
        pool = SPEC if it % 3 else SPEC[3:8]
        bbs = [BoundingBox(*[rng.choice(pool) for _ in range(4)], crs_of("1" if rng.random() < 0.95 else "2")) for _ in range(k)]
        R.corr(f"c16 bbuf {list_s(bbs, enc_bbf)}", real(lambda: enc_bbf(bbox_union(iter(bbs)))), sig="bbuf")
        R.corr(f"c16 bbif {list_s(bbs, enc_bbf)}", real(lambda: enc_bbf(bbox_intersection(iter(bbs)))), sig="bbif")
        if k == 2 and bbs[0].crs == bbs[1].crs and enc_bbf(bbs[0] | bbs[1]) != enc_bbf(bbs[1] | bbs[0]):
            nan_order += 1
    R.notes.append(f"observation (theorem bbox_union_nan_order_cex): {nan_order} generated pairs with a nan edge gave "
                   "a | b != b | a on the real code; nan boxes are outside the property's quantifier")
    a_, b_ = BoundingBox(math.nan, 0, 1, 1), BoundingBox(0, 0, 2, 2)
    R.oracle(enc_bbf(a_ | b_) == "0;0;2;2;N" and enc_bbf(b_ | a_) == "nan;0;2;2;N", "model-witness-replay",
             {"witness": "bbox_union_nan_order_cex"}, f"real code gives {a_ | b_} / {b_ | a_}", trivial=True)
    # buffered / shape / from_points / from_transform
    for it in range(R.pick(500, 5000)):
        bb = rnd_box(True, rng.choice(["N", "1"])) if it % 3 else BoundingBox(*[rng.randint(-800, 800) / 16 for _ in range(4)], None)
        xb = rng.randint(-24, 40) / 8
        yb = rng.choice([None, rng.randint(-24, 40) / 8])
        rb = []

        def fbuf():
            o = bb.buffered(xb) if yb is None else bb.buffered(xb, yb)
            rb.append(o)
            return enc_bb(o)

        R.corr(f"c16 bbbuf {enc_bb(bb)} {frac_s(xb)} {opt_s(yb, frac_s)}", fbuf, sig="bbbuf")
        if rb:
            y_ = xb if yb is None else yb
            want = (Fr(bb.left) - Fr(xb), Fr(bb.bottom) - Fr(y_), Fr(bb.right) + Fr(xb), Fr(bb.top) + Fr(y_))
            R.oracle(tuple(map(Fr, rb[0].bbox)) == want and rb[0].crs == bb.crs, "bbox-buffered-exact",
                     {"bb": enc_bb(bb), "xb": xb, "yb": yb}, f"{bb}.buffered({xb},{yb}) = {rb[0]}")
        rs_ = []

        def fshape():
            h_, w_ = bb.shape
            rs_.append((h_, w_))
            return f"{h_} {w_} {frac_s(bb.span_x)} {frac_s(bb.span_y)}"

        R.corr(f"c16 bbshape {enc_bb(bb)}", fshape, sig="bbshape")
        if rs_:
            R.oracle(rs_[0] == (math.trunc(Fr(bb.top) - Fr(bb.bottom)), math.trunc(Fr(bb.right) - Fr(bb.left))),
                     "bbox-shape-exact", {"bb": enc_bb(bb)}, f"{bb}.shape = {rs_[0]}")
        p1 = (rng.randint(-40, 40) / 4, rng.randint(-40, 40) / 4)
        p2 = (rng.randint(-40, 40) / 4, rng.randint(-40, 40) / 4)
        tg = rng.choice(["N", "1"])
        rf = []

        def ffp():
            o = BoundingBox.from_points(p1, p2, crs_of(tg))
            rf.append(o)
            return enc_bb(o)

        R.corr(f"c16 bbfrompts {frac_s(p1[0])};{frac_s(p1[1])} {frac_s(p2[0])};{frac_s(p2[1])} {tg}", ffp, sig="bbfrompts")
        if rf:
            R.oracle(rf[0].bbox == (min(p1[0], p2[0]), min(p1[1], p2[1]), max(p1[0], p2[0]), max(p1[1], p2[1])),
                     "bbox-from-points-exact", {"p1": p1, "p2": p2}, f"from_points({p1},{p2}) = {rf[0]}")
        A = Affine(*rng.choice([(1, 0, 0, 0, 1, 0), (2, 0, 1, 0, -2, 3), (0, -1, 2, 1, 0, 0), (1, -1, 0, 1, 1, 0),
                                (-0.5, 0, 3, 0, 0.25, -1), (3, -4, 1, 4, 3, 2), (1, 0.5, 0, 0, 1, 0), (-4, 0, 7, 0, 8, 1)]))
        ny_, nx_ = rng.randint(0, 9), rng.randint(0, 9)
        rt = []

        def fft():
            o = BoundingBox.from_transform((ny_, nx_), A, crs_of(tg))
            rt.append(o)
            return enc_bb(o)

        R.corr(f"c16 bbfromtr {ny_} {nx_} {enc_aff(A)} {tg}", fft, sig="bbfromtr|" + ("axis" if A.b == 0 and A.d == 0 else "rot"))
        if rt:   # theorem bbox_from_transform_eq_transform
            R.oracle(rt[0] == BoundingBox(0, 0, nx_, ny_, crs_of(tg)).transform(A), "bbox-from-transform-footprint",
                     {"shape": [ny_, nx_], "A": enc_aff(A)}, f"from_transform = {rt[0]}")
    # round / transform
    dy_aff = [(1, 0, 0, 0, 1, 0), (2, 0, 1, 0, -2, 3), (0, -1, 2, 1, 0, 0), (1, -1, 0, 1, 1, 0), (-0.5, 0, 3, 0, 0.25, -1),
              (3, -4, 1, 4, 3, 2), (1, 0.5, 0, 0, 1, 0), (0, 0, 1, 0, 0, 2), (1, 2, 0, 2, 4, 0)]
    for it in range(R.pick(600, 6000)):
        if it % 4 == 3:
            bb = BoundingBox(*[rng.randint(-50, 50) + rng.choice([0.0, 0.5]) + rng.choice([-1, 1]) * rng.choice(DELTAS)
                               for _ in range(4)], None)
        else:
            bb = rnd_box(True, "N") if it % 2 else BoundingBox(*[rng.randint(-4000, 4000) / 16 for _ in range(4)], None)
        res = []

        def f_round():
            o = bb.round()
            res.append(o)
            return enc_bb(o)

        R.corr(f"c16 bbround {enc_bb(bb)}", f_round, sig=None)
        if res:
            o = res[0]
            ok = (all(isinstance(v, int) for v in o.bbox) and o.left <= bb.left < o.left + 1
                  and o.bottom <= bb.bottom < o.bottom + 1 and o.right - 1 < bb.right <= o.right
                  and o.top - 1 < bb.top <= o.top)
            R.oracle(ok, "bbox-round-contract", {"bb": enc_bb(bb)}, f"{bb} rounds to {o}")
        if it % 4 == 3:
            bb = rnd_box(True, "N")
        A = Affine(*rng.choice(dy_aff))
        res2 = []

        def f_tr():
            o = bb.transform(A)
            res2.append(o)
            return enc_bb(o)

        R.corr(f"c16 bbtr {enc_bb(bb)} {enc_aff(A)}", f_tr, sig=None)
        if res2 and bb.left <= bb.right and bb.bottom <= bb.top:
            o = res2[0]
            FA = fa(A)
            ok = True
            for _k in range(6):
                u, v = Fr(rng.randint(0, 8), 8), Fr(rng.randint(0, 8), 8)
                q = (Fr(bb.left) + u * (Fr(bb.right) - Fr(bb.left)), Fr(bb.bottom) + v * (Fr(bb.top) - Fr(bb.bottom)))
                w = fa_apply(FA, q)
                ok = ok and Fr(o.left) <= w[0] <= Fr(o.right) and Fr(o.bottom) <= w[1] <= Fr(o.top)
            R.oracle(ok, "bbox-transform-covers", {"bb": enc_bb(bb), "A": enc_aff(A)}, f"{bb} through {A!r} gives {o}")
            cs = [fa_apply(FA, (Fr(x_), Fr(y_))) for x_ in (bb.left, bb.right) for y_ in (bb.bottom, bb.top)]
            want_bb = (min(c_[0] for c_ in cs), min(c_[1] for c_ in cs), max(c_[0] for c_ in cs), max(c_[1] for c_ in cs))
            R.oracle(tuple(map(Fr, o.bbox)) == want_bb, "bbox-transform-exact", {"bb": enc_bb(bb), "A": enc_aff(A)},
                     f"{bb} through {A!r} gives {o}, exact bounding box of the corners is {tuple(map(float, want_bb))}")

    # ---------------------------------------------------------------- D. thresholds: pixel_translation / bbox in pixel domain
    t1, t0, tp = Fr(atol + rtol * abs(1.0)), Fr(atol + rtol * abs(0.0)), Fr(TOL)

    def straddle(t, bits):
        lo = Fr(math.floor(t * 2**bits), 2**bits)
        return [lo, lo + Fr(1, 2**bits)]

    d1 = [Fr(0)] + [s * v for v in straddle(t1, 44) for s in (1, -1)]
    d0 = [Fr(0)] + [s * v for v in straddle(t0, 58) for s in (1, -1)]
    eps = [Fr(0)] + [s * v for v in straddle(tp, 45) for s in (1, -1)]
    offs = [Fr(3), Fr(-2), Fr(1, 2), Fr(-1, 2), Fr(5, 2), Fr(7, 2), Fr(-3, 2), Fr(1, 4), Fr(3, 4), Fr(1, 100)] + \
           [n + e for n in (0, 2, -1) for e in eps[1:]] + [Fr(1, 2) + s * Fr(1, 2**30) for s in (1, -1)] + \
           [k_ + h_ + sg_ * Fr(d_) for k_ in (0, 3) for h_ in (0, Fr(1, 2)) for sg_ in (1, -1)
            for d_ in (1e-6, 1e-9, 1e-10, 1e-11, 1e-13, 2.0**-40)] + [Fr(2**40 + 1), Fr(2**52 + 1), Fr(-(2**45) - 3)]
    lin_vars = [(a, Fr(0), Fr(0), Fr(0)) for a in d1] + [(Fr(0), b, Fr(0), Fr(0)) for b in d0[1:]] + \
               [(Fr(0), Fr(0), c, Fr(0)) for c in d0[1:]] + [(Fr(0), Fr(0), Fr(0), d) for d in d1[1:]] + \
               [(d1[1], d0[1], d0[3], d1[3]), (d1[2], Fr(0), Fr(0), Fr(0) + d1[1]), (Fr(1), Fr(0), Fr(0), Fr(1)),
                (Fr(-2), Fr(0), Fr(0), Fr(0)), (Fr(-1), Fr(1), Fr(-1), Fr(-1)), (Fr(0), Fr(0), Fr(0), Fr(-2)),
                (Fr(1, 1000), Fr(0), Fr(0), Fr(1, 1000)), (Fr(0), Fr(1, 1024), Fr(-1, 1024), Fr(0))]
    thr_bases = [(nm, B) for nm, B, ex in base_grids(rng, 0) if ex and nm in
                 ("north-up", "north-up-fine", "mirror-x", "rot90", "rot45", "aniso")]
    roi_tols = [TOL, 0.01, 0.5, 0.75, 1.0]

    def thr_case(nm, B, lv, tx, ty, tagA="1", tagB="1", shape=(3, 4)):
        M = (1 + lv[0], lv[1], Fr(tx), lv[2], 1 + lv[3], Fr(ty))
        ref = mk_gbox(B, 5, 6, tagB)
        g = mk_gbox(fa_mul(B, M), shape[0], shape[1], tagA)
        if ref is None or g is None or not exact_pair(g, ref) or not exact_pair(ref, ref):
            stats["inexact-skipped"] += 1
            return
        rev_exact = exact_pair(ref, g) and exact_pair(g, g)
        lin_ok = abs(lv[0]) <= t1 and abs(lv[3]) <= t1 and abs(lv[1]) <= t0 and abs(lv[2]) <= t0
        sub = max(abs(Fr(v) - round(Fr(v))) for v in (tx, ty))
        sg = ("crs" if tagA != tagB else "lin-ok" if lin_ok else "lin-bad") + (
            "|int" if sub == 0 else "|half" if sub == Fr(1, 2) else "|sub<tol" if sub < tp else "|sub>=tol")
        ga, gr = enc_gbox(g), enc_gbox(ref)
        out = R.corr(f"c16 ptr {ga} {gr}",
                     real(lambda: "{} {}".format(*map(frac_s, GBm.pixel_translation(g, ref).xy))), sig=f"ptr|{nm}|{sg}")
        R.oracle(out.startswith("ERR") == (not lin_ok or tagA != tagB), "pixel-translation-acceptance",
                 {"g": gb_dict(g), "ref": gb_dict(ref)},
                 f"pixel_translation gave {out}; linear part within isclose thresholds: {lin_ok}, crs equal: {tagA == tagB}")
        if not out.startswith("ERR"):  # two-sided: the translation itself, exactly
            R.oracle(out == f"{frac_s(Fr(tx))} {frac_s(Fr(ty))}", "pixel-translation-value",
                     {"g": gb_dict(g), "ref": gb_dict(ref)}, f"pixel_translation gave {out}, exact is {Fr(tx)} {Fr(ty)}")
        for tol in roi_tols if (lin_ok and tagA == tagB) else [TOL]:
            out = R.corr(f"c16 bbpd {ga} {gr} {frac_s(tol)}",
                         real(lambda: enc_bb(GBm.bounding_box_in_pixel_domain(g, ref, tol))), sig=f"bbpd|{nm}|{sg}")
            accept = lin_ok and tagA == tagB and sub < Fr(tol)
            R.oracle(out.startswith("ERR") != accept, "incompatible-grid-acceptance",
                     {"g": gb_dict(g), "ref": gb_dict(ref), "tol": tol},
                     f"bounding_box_in_pixel_domain gave {out}; sub-pixel offset {float(sub)}, tol {tol}, linear ok {lin_ok}")
            if not out.startswith("ERR"):  # two-sided: whole-pixel offset = nearest integer (ties to even), + shape
                kx, ky = round(Fr(tx)), round(Fr(ty))
                want_bb = f"{kx};{ky};{kx + shape[1]};{ky + shape[0]};N"
                R.oracle(out == want_bb, "bbox-in-pixel-domain-value", {"g": gb_dict(g), "ref": gb_dict(ref), "tol": tol},
                         f"bounding_box_in_pixel_domain gave {out}, exact is {want_bb}")
            R.corr(f"c16 roi {gr} {ga} {frac_s(tol)}", real(lambda: enc_roi(ref.overlap_roi(g, tol))),
                   sig=f"roi-tol|{nm}|{sg}")
        for op, x, y in (("or", ref, g), ("and", ref, g), ("or", g, ref), ("snap", ref, g), ("snap", g, ref)):
            if x is g and not rev_exact:
                stats["inexact-skipped"] += 1
                continue
            res = []

            def ff():
                o = (x | y) if op == "or" else (x & y) if op == "and" else x.snap_to(y)
                res.append(o)
                return enc_gbox(o)

            out = R.corr(f"c16 {op} {enc_gbox(x)} {enc_gbox(y)}", real(ff), sig=f"{op}-thr|{nm}|{sg}")
            if op != "snap":
                accept = accept_exact(y, x, tp, t1, t0)
                R.oracle(out.startswith("ERR") != accept, "incompatible-grid-acceptance",
                         {"op": op, "a": gb_dict(x), "b": gb_dict(y)},
                         f"{op} gave {out}; sub-pixel offset {float(sub)}, linear ok {lin_ok}")
            elif res and all(v == 0 for v in lv):
                oracle(chk_snap(x, y, res[0]), "snap-half-pixel-onto-grid",
                       {"op": "snap", "a": gb_dict(x), "b": gb_dict(y)}, sig="snap")

    for nm, B in thr_bases:
        for lv in lin_vars:
            for tx, ty in [(Fr(3), Fr(-2)), (eps[1], Fr(1)), (Fr(1, 2), Fr(0))]:
                thr_case(nm, B, lv, tx, ty)
        for tx in offs:
            thr_case(nm, B, (Fr(0),) * 4, tx, Fr(2))
            thr_case(nm, B, (Fr(0),) * 4, Fr(-1), tx)
            thr_case(nm, B, (Fr(0),) * 4, tx, -tx)
        thr_case(nm, B, (Fr(0),) * 4, Fr(1), Fr(1), tagA="1", tagB="2")
        thr_case(nm, B, (Fr(0),) * 4, Fr(1), Fr(1), tagA="N", tagB="2")
        thr_case(nm, B, (Fr(0),) * 4, Fr(1), Fr(1), tagA="N", tagB="N")
    # ---- every op that takes `tol`, with NON-default tolerances: offsets at tol*{0.3, 3} (and just around tol)
    # two-sided acceptance (accepted <=> sub-pixel offset < tol), exact value, and the pixel-set meaning of the ROI
    zero_bases = [("north-up", (1, 0, 0, 0, -1, 0)), ("mirror-x", (-1, 0, 0, 0, -1, 0)), ("south-up", (2, 0, 0, 0, 2, 0)),
                  ("rot90", (0, -1, 0, 1, 0, 0)), ("rot45", (1, -1, 0, 1, 1, 0)), ("shear", (1, 1, 0, 0, 1, 0)),
                  ("fine", (Fr(1, 4), 0, 0, 0, Fr(-1, 4), 0))]
    TOLS2 = [1e-12, 1e-10, 1e-6, 1e-4, 1e-2, 0.5, 0.25, 3e-9]

    def dy(v, bits=50):
        return Fr(round(Fr(v) * 2**bits), 2**bits)

    def tol_case(nm, B, tx, ty, tol, shape=(3, 4)):
        B = tuple(Fr(v) for v in B)
        ref = mk_gbox(B, 5, 6, "1")
        g = mk_gbox(fa_mul(B, fa_T(tx, ty)), shape[0], shape[1], "1")
        if ref is None or g is None or not exact_pair(g, ref):
            stats["inexact-skipped"] += 1
            return
        sub = max(abs(Fr(v) - round(Fr(v))) for v in (tx, ty))
        accept = sub < Fr(tol)
        sg = f"tol={tol:g}|" + ("accept" if accept else "reject")
        ga, gr = enc_gbox(g), enc_gbox(ref)
        case = {"op": "tol", "a": gb_dict(ref), "b": gb_dict(g), "tol": tol}
        out = R.corr(f"c16 bbpd {ga} {gr} {frac_s(tol)}",
                     real(lambda: enc_bb(GBm.bounding_box_in_pixel_domain(g, ref, tol))), sig=f"bbpd-tol|{nm}|{sg}")
        R.oracle(out.startswith("ERR") != accept, "tol-acceptance", {**case, "fn": "bounding_box_in_pixel_domain"},
                 f"bounding_box_in_pixel_domain(tol={tol!r}) gave {out}; sub-pixel offset {float(sub)!r}: "
                 f"{'must be accepted' if accept else 'must be rejected'}", sig="tol-accept|bbpd")
        if accept and not out.startswith("ERR"):
            kx, ky = round(Fr(tx)), round(Fr(ty))
            want_bb = f"{kx};{ky};{kx + shape[1]};{ky + shape[0]};N"
            R.oracle(out == want_bb, "bbox-in-pixel-domain-value", {**case}, f"gave {out}, exact is {want_bb}")
        res = []

        def fr():
            o = ref.overlap_roi(g, tol)
            res.append(o)
            return enc_roi(o)

        out = R.corr(f"c16 roi {gr} {ga} {frac_s(tol)}", real(fr), sig=f"roi-tol|{nm}|{sg}")
        R.oracle(out.startswith("ERR") != accept, "tol-acceptance", {**case, "fn": "overlap_roi"},
                 f"overlap_roi(tol={tol!r}) gave {out}; sub-pixel offset {float(sub)!r}: "
                 f"{'must be accepted' if accept else 'must be rejected'}", sig="tol-accept|roi")
        if accept and res:
            oracle(chk_roi(ref, g, res[0], Fr(tol)), "overlap-roi-not-shared-pixels", {**case, "op": "roi-tol"}, sig="roi|tol")

    for nm, B in zero_bases:
        for tol in TOLS2:
            es = [dy(Fr(tol) * Fr(3, 10)), dy(Fr(tol) * 3), dy(Fr(tol) * Fr(9, 10)), dy(Fr(tol) * Fr(11, 10))]
            for e in es:
                for sgn in (1, -1):
                    for n_, m_ in ((0, 2), (2, -1), (-5, 0)):
                        tol_case(nm, B, n_ + sgn * e, Fr(m_), tol)
                        tol_case(nm, B, Fr(m_), n_ + sgn * e, tol)
                    tol_case(nm, B, 1 + sgn * e, -2 - sgn * e, tol)

    # degenerate reference (TransformNotInvertibleError)
    for coeff in [(1, 1, 0, 1, 1, 0), (0, 0, 1, 0, 0, 2), (2, 0, 0, 0, 0, 0)]:
        ref = GeoBox((2, 2), Affine(*map(float, coeff)), crs_of("1"))
        g = GeoBox((2, 2), Affine(1.0, 0.0, 0.0, 0.0, 1.0, 0.0), crs_of("1"))
        R.corr(f"c16 ptr {enc_gbox(g)} {enc_gbox(ref)}",
               real(lambda: "{} {}".format(*map(frac_s, GBm.pixel_translation(g, ref).xy))), sig="ptr|degenerate")
        R.corr(f"c16 or {enc_gbox(ref)} {enc_gbox(g)}", real(lambda: enc_gbox(ref | g)), sig="or|degenerate")

    # clearly incompatible pairs: every operation must refuse (never resample silently)
    for nm, B in thr_bases:
        ref = mk_gbox(B, 6, 7, "1")
        for what, M in [("scale2", (2, 0, 0, 0, 2, 0)), ("scale1.001", (Fr(1025, 1024), 0, 0, 0, Fr(1025, 1024), 0)),
                        ("rot90", (0, -1, 3, 1, 0, 0)), ("mirror", (-1, 0, 5, 0, 1, 0)), ("flipy", (1, 0, 0, 0, -1, 4)),
                        ("half-px", (1, 0, Fr(1, 2), 0, 1, 0)), ("milli-px", (1, 0, 2, 0, 1, Fr(1, 1024))),
                        ("micro-px", (1, 0, Fr(1, 2**20), 0, 1, 1)), ("aniso", (1, 0, 0, 0, 2, 0)),
                        ("shear", (1, Fr(1, 64), 0, 0, 1, 0))]:
            g = mk_gbox(fa_mul(B, tuple(Fr(v) for v in M)), 4, 4, "1")
            if g is None:
                stats["inexact-skipped"] += 1
                continue
            for opn, f in (("or", lambda: ref | g), ("and", lambda: ref & g), ("roi", lambda: ref.overlap_roi(g)),
                           ("ro", lambda: g | ref), ("ra", lambda: g & ref), ("rroi", lambda: g.overlap_roi(ref)),
                           ("u3", lambda: geobox_union_conservative([ref, ref, g])),
                           ("i3", lambda: geobox_intersection_conservative([ref, g, ref]))):
                out = guarded(lambda: str(f()))
                R.oracle(out == "ERR:ValueError", "incompatible-grid-acceptance",
                         {"op": opn, "kind": what, "a": gb_dict(ref), "b": gb_dict(g)},
                         f"{opn} of grids differing by {what} gave {out[:80]} instead of ValueError", sig="reject|" + what)
        g2 = mk_gbox(B, 4, 4, "2")
        for f in (lambda: ref | g2, lambda: ref & g2, lambda: ref.overlap_roi(g2), lambda: ref.snap_to(g2)):
            out = guarded(lambda: str(f()))
            R.oracle(out == "ERR:ValueError", "incompatible-grid-acceptance", {"kind": "crs", "a": gb_dict(ref)},
                     f"different CRS gave {out[:80]}", sig="reject|crs")

    # ---------------------------------------------------------------- E. families on a common grid
    def pair_ops(a, b, nm, sg, ex=True):
        """all binary operations both ways + oracles"""
        if a is None or b is None or (ex and not (exact_pair(a, b) and exact_pair(b, a))):
            stats["inexact-skipped"] += 1
            return
        ea, eb = enc_gbox(a), enc_gbox(b)
        got = {}
        for op, x, y, ex_, ey in (("or", a, b, ea, eb), ("or", b, a, eb, ea), ("and", a, b, ea, eb), ("and", b, a, eb, ea)):
            res = []

            def ff():
                o = (x | y) if op == "or" else (x & y)
                res.append(o)
                return enc_gbox(o)

            R.corr(f"c16 {op} {ex_} {ey}", real(ff), sig=f"{op}|{nm}|{sg}")
            case = {"op": op, "a": gb_dict(x), "b": gb_dict(y)}
            if not res:
                R.oracle(False, "common-grid-op-raises", case, f"{op} of geoboxes on a common grid raised")
                continue
            got[(op, x is a)] = res[0]
            if op == "or":
                oracle(chk_union([x, y], res[0]), "union-not-smallest-containing", case, sig="union|" + sg)
            else:
                oracle(chk_inter([x, y], res[0]), "inter-not-shared-pixels", case, sig="inter|" + sg)
        for op in ("or", "and"):
            if (op, True) in got and (op, False) in got:
                R.oracle(same_gbox(got[(op, True)], got[(op, False)]), "not-commutative",
                         {"op": op, "a": gb_dict(a), "b": gb_dict(b)},
                         f"a {op} b = {got[(op, True)]!r} but b {op} a = {got[(op, False)]!r}", sig="comm|" + sg)
        for x, y, ex_, ey in ((a, b, ea, eb), (b, a, eb, ea)):
            res = []

            def fr():
                o = x.overlap_roi(y)
                res.append(o)
                return enc_roi(o)

            R.corr(f"c16 roi {ex_} {ey} {frac_s(TOL)}", real(fr), sig=f"roi|{nm}|{sg}")
            case = {"op": "roi", "a": gb_dict(x), "b": gb_dict(y)}
            if res:
                oracle(chk_roi(x, y, res[0]), "overlap-roi-not-shared-pixels", case, sig="roi|" + sg)
            else:
                R.oracle(False, "common-grid-op-raises", case, "overlap_roi of geoboxes on a common grid raised")
            # composition with gbox[roi] (C02): a[a.overlap_roi(b)] == a & b ;  u = a | b, u[u.overlap_roi(a)] == a
            if x is a and huge_ok(x, y):
                rc_, ru_ = [], []

                def fco():
                    o = x[x.overlap_roi(y)]
                    rc_.append(o)
                    return enc_gbox(o)

                def fcu():
                    u = x | y
                    o = u[u.overlap_roi(x)]
                    ru_.append(o)
                    return enc_gbox(o)

                R.corr(f"c16 cropoverlap {ex_} {ey}", real(fco), sig=f"cropoverlap|{nm}|{sg}")
                R.corr(f"c16 cropunion {ex_} {ey}", real(fcu), sig=f"cropunion|{nm}|{sg}")
                case2 = {"op": "crop-link", "a": gb_dict(x), "b": gb_dict(y)}
                if rc_:
                    R.oracle(rc_[0] == (x & y), "crop-overlap-not-intersection", case2,
                             f"a[a.overlap_roi(b)] = {rc_[0]!r} but a & b = {(x & y)!r}", sig="crop-link")
                if ru_:
                    R.oracle(ru_[0] == x, "crop-union-not-operand", case2,
                             f"u = a | b; u[u.overlap_roi(a)] = {ru_[0]!r} but a = {x!r}", sig="crop-link")

    def huge_ok(*gs):   # gbox[roi] goes through roi helpers that are C17's business for huge ints
        return all(max(int(g_.shape[0]), int(g_.shape[1])) < 2**31 for g_ in gs)

    def rel_sig(ra, rb):
        def ax(a0, a1, b0, b1):
            if a1 == a0 or b1 == b0:
                return "0"
            if a1 < b0 or b1 < a0:
                return "gap"
            if a1 == b0 or b1 == a0:
                return "touch"
            if (a0 <= b0 and b1 <= a1) or (b0 <= a0 and a1 <= b1):
                return "in"
            return "ov"
        return ax(ra[0], ra[2], rb[0], rb[2]) + "/" + ax(ra[1], ra[3], rb[1], rb[3])

    bases = base_grids(rng, R.pick(2, 12))
    ycomb = [(-5, 2), (-3, 3), (-1, 3), (0, 2), (1, 1), (2, 2), (4, 1), (5, 3), (1, 0)]
    for nm, B, ex in bases[:10]:
        a = member(B, 0, 0, 4, 5)
        for tx in range(-6, 7):
            for nx in (0, 1, 3, 5, 7):
                for ty, ny in (ycomb if R.quick is False or nm in ("north-up", "rot45", "mirror-x") else ycomb[1:6]):
                    b = member(B, tx, ty, ny, nx)
                    pair_ops(a, b, nm, rel_sig((0, 0, 5, 4), (tx, ty, tx + nx, ty + ny)), ex)
    R.exhaustive = False
    # random large families + triples (associativity, n-ary forms)
    for it in range(R.pick(700, 7000)):
        nm, B, ex = rng.choice(bases)
        big = it % 3 == 0
        span = 10**rng.randint(2, 6) if big else 8
        k = rng.choice([2, 3, 3, 3, 4])
        rects, gs = [], []
        for _ in range(k):
            tx, ty = rng.randint(-span, span), rng.randint(-span, span)
            if rng.random() < 0.3 and rects:  # align an edge with a previous member: touching / one-axis-empty cases
                pr = rng.choice(rects)
                tx = rng.choice([pr[2], pr[0], pr[2] + 1])
            ny = rng.randint(0, span if big else 7)
            nx = rng.randint(0, span if big else 7)
            if rng.random() < 0.8:
                ny, nx = max(ny, 1), max(nx, 1)
            rects.append((tx, ty, tx + nx, ty + ny))
            gs.append(member(B, tx, ty, ny, nx))
        if any(g is None for g in gs) or (ex and not all(exact_pair(x, y) for x in gs for y in gs)):
            stats["inexact-skipped"] += 1
            continue
        if k == 2:
            pair_ops(gs[0], gs[1], nm, ("big|" if big else "") + rel_sig(rects[0], rects[1]), ex)
            continue
        egs = list_s(gs, enc_gbox)
        case = {"gs": [gb_dict(g) for g in gs]}
        for op, fn, chk, key in (("union", geobox_union_conservative, chk_union, "union-not-smallest-containing"),
                                 ("inter", geobox_intersection_conservative, chk_inter, "inter-not-shared-pixels")):
            res = []

            def fl():
                o = fn(list(gs))
                res.append(o)
                return enc_gbox(o)

            R.corr(f"c16 {op} {egs}", real(fl), sig=f"{op}{k}|{nm}" + ("|big" if big else ""))
            if not res:
                R.oracle(False, "common-grid-op-raises", {"op": op, **case}, f"{op} raised on a common grid")
                continue
            oracle(chk(gs, res[0]), key, {"op": op, **case}, sig=f"{op}-nary")
            # associativity / order independence on the real objects
            try:
                a, b, c = gs[:3]
                import functools
                import operator

                if op == "union":
                    l, r = (a | b) | c, a | (b | c)
                    perm = fn([gs[-1]] + gs[:-1])
                    fold = functools.reduce(operator.or_, gs)      # theorem reduce_or_eq_union
                else:
                    l, r = (a & b) & c, a & (b & c)
                    perm = fn([gs[-1]] + gs[:-1])
                    fold = functools.reduce(operator.and_, gs)     # theorem reduce_and_eq_inter
                okA = same_gbox(l, r)
                # n-ary == folded binary (k = 3); any reference gives the same geobox
                okN = same_gbox(fold, res[0]) and same_gbox(perm, res[0])
                what = f"({op}) left-assoc {l!r} right-assoc {r!r} n-ary {res[0]!r} rotated-order {perm!r}"
            except Exception as e:  # pylint: disable=broad-except
                okA, okN, what = False, False, f"raised {e!r}"
            R.oracle(okA, "not-associative", {"op": op, **case}, what, sig="assoc|" + op)
            R.oracle(okN, "nary-differs-from-binary-fold", {"op": op, **case}, what, sig="nary|" + op)
    # pad, neighbours, flips (views of C02) composed with the set operations
    for it in range(R.pick(250, 2500)):
        nm, B, ex = rng.choice([b_ for b_ in bases if b_[2]])
        a = member(B, rng.randint(-9, 9), rng.randint(-9, 9), rng.randint(0, 7), rng.randint(0, 7))
        if a is None or not exact_pair(a, a):
            stats["inexact-skipped"] += 1
            continue
        ea = enc_gbox(a)
        px, py = rng.randint(-2, 4), rng.choice([None, 0, 1, 3, -1])
        rp = []

        def fpad():
            o = a.pad(px) if py is None else a.pad(px, py)
            rp.append(o)
            return enc_gbox(o)

        R.corr(f"c16 pad {ea} {px} {opt_s(py)}", real(fpad), sig="pad")
        if rp:   # two-sided: exactly px columns / py rows added on every side
            py_ = px if py is None else py
            want_r = (-px, -py_, int(a.shape[1]) + px, int(a.shape[0]) + py_)
            R.oracle(rect_of(rp[0], a) == want_r and rp[0].crs == a.crs, "pad-exact",
                     {"op": "pad", "a": gb_dict(a), "px": px, "py": py},
                     f"a.pad({px},{py}) covers the pixel rectangle {rect_of(rp[0], a)} of a, expected {want_r}", sig="pad")
        if rp and px >= 0 and (py is None or py >= 0) and exact_pair(rp[0], a) and exact_pair(a, rp[0]):
            try:
                ok = (rp[0] & a) == a and (a | rp[0]) == rp[0]
                what = f"a.pad({px},{py}) = {rp[0]!r}: (pad & a) == a and (a | pad) == pad fails"
            except Exception as e:  # pylint: disable=broad-except
                ok, what = False, f"raised {e!r}"
            R.oracle(ok, "pad-does-not-contain", {"op": "pad", "a": gb_dict(a), "px": px, "py": py}, what, sig="pad")
        for which in ("right", "left", "top", "bottom", "flipx", "flipy"):
            rn = []

            def fn():
                o = getattr(a, which) if which in ("right", "left", "top", "bottom") else getattr(a, which)()
                rn.append(o)
                return enc_gbox(o)

            R.corr(f"c16 nbr {which} {ea}", real(fn), sig="nbr|" + which)
            if not rn:
                continue
            n_ = rn[0]
            case = {"op": "nbr", "which": which, "a": gb_dict(a)}
            if which.startswith("flip"):
                out = guarded(lambda: str(a | n_))
                sym = (which == "flipx" and a.shape[1] == 0) or (which == "flipy" and a.shape[0] == 0)
                R.oracle(out == "ERR:ValueError", "incompatible-grid-acceptance", case,
                         f"a | a.{which}() gave {out[:80]} (a mirrored grid must be refused)", sig="reject|flip")
            elif exact_pair(n_, a) and exact_pair(a, n_):
                ny0, nx0 = int(a.shape[0]), int(a.shape[1])
                want_r = {"right": (nx0, 0, 2 * nx0, ny0), "left": (-nx0, 0, 0, ny0), "bottom": (0, ny0, nx0, 2 * ny0),
                          "top": (0, -ny0, nx0, 0)}[which]
                R.oracle(rect_of(n_, a) == want_r, "neighbour-exact", case,
                         f"a.{which} covers the pixel rectangle {rect_of(n_, a)} of a, expected {want_r}", sig="nbr|" + which)
                try:
                    i_, u_ = a & n_, a | n_
                    ny_, nx_ = int(a.shape[0]), int(a.shape[1])
                    want = (ny_, 2 * nx_) if which in ("right", "left") else (2 * ny_, nx_)
                    ok = i_.is_empty() and tuple(u_.shape) == want and chk_union([a, n_], u_)[0]
                    what = f"a & a.{which} = {i_!r}, a | a.{which} = {u_!r}, expected an empty GeoBox and shape {want}"
                except Exception as e:  # pylint: disable=broad-except
                    ok, what = False, f"raised {e!r}"
                R.oracle(ok, "neighbour-tiles", case, what, sig="nbr|" + which)

    # huge shapes / far shifts: Python ints must stay exact (a float detour loses them above 2**53)
    BIG = [2**31 - 1, 2**31 + 1, 2**53 + 3, 2**63, 2**64 + 1, 2**100]
    exact_bases = [b_ for b_ in bases if b_[2]]
    for it in range(R.pick(200, 2000)):
        nm, B, ex = rng.choice(exact_bases)

        def dim():
            return rng.choice(BIG) + rng.randint(-2, 2) if rng.random() < 0.6 else rng.randint(0, 9)

        def shift():
            return rng.choice([0, 1, -3, 7, 2**20 + 1, -(2**30) - 7, 2**40 + 1])

        pair_ops(member(B, shift(), shift(), dim(), dim()), member(B, shift(), shift(), dim(), dim()), nm, "huge", ex)

    for op, fn in (("union", geobox_union_conservative), ("inter", geobox_intersection_conservative)):
        R.corr(f"c16 {op} []", real(lambda: enc_gbox(fn([]))), sig=f"{op}|empty-list")
        g1 = member(bases[0][1], 2, 3, 4, 5)
        R.corr(f"c16 {op} [{enc_gbox(g1)}]", real(lambda: enc_gbox(fn([g1]))), sig=f"{op}|single")

    # ---------------------------------------------------------------- F. enclosing
    def encl_case(g, pts, kind, tag, nm, exact=True, prebuilt=None):
        rc = crs_of(tag)
        if prebuilt is not None:
            region, verts = prebuilt
        elif kind == "bbox":
            xs_, ys_ = [p_[0] for p_ in pts], [p_[1] for p_ in pts]
            region = BoundingBox(min(xs_), min(ys_), max(xs_), max(ys_), rc)
            verts = [(region.left, region.bottom), (region.left, region.top), (region.right, region.bottom),
                     (region.right, region.top)]
        elif kind == "poly":
            region = GM.polygon(list(pts) + [pts[0]], rc)
            verts = list(pts)
        elif kind == "line":
            region = GM.line(list(pts), rc)
            verts = list(pts)
        elif kind == "point":
            region = GM.point(pts[0][0], pts[0][1], rc)
            verts = [pts[0]]
        else:
            region = GM.multipoint(list(pts), rc)
            verts = list(pts)
        res = []

        def fe():
            o = g.enclosing(region)
            res.append(o)
            return enc_gbox(o)

        if exact:
            # float evaluation of wld2pix must be exact on these inputs
            inv = fa_inv(fa(g.affine)) if fa(g.affine)[0] * fa(g.affine)[4] - fa(g.affine)[1] * fa(g.affine)[3] != 0 else None
            if inv is not None:
                fi = tuple(~g.affine)[:6]
                if not all(Fr(x) == w for x, w in zip(fi, inv)):
                    stats["inexact-skipped"] += 1
                    return
                for v in verts:
                    w = (~g.affine) * (float(v[0]), float(v[1]))
                    if tuple(Fr(t) for t in w) != fa_apply(inv, (Fr(v[0]), Fr(v[1]))):
                        stats["inexact-skipped"] += 1
                        return
            R.corr(f"c16 encl {enc_gbox(g)} {tag} " + list_s(verts, lambda q: f"{frac_s(q[0])};{frac_s(q[1])}"),
                   real(fe), sig=f"encl|{nm}|{kind}" + ("|nocrs" if tag == "N" or g.crs is None else ""))
            # the public entry point with its dispatch on the region type (Model/C16Ext: enclosingRegion)
            import sys as _sys

            _H = _sys.modules[__name__]
            R.corr(f"c16 enclr {enc_gbox(g)} {EXT.enc_region(_H, region)} []", real(lambda: enc_gbox(g.enclosing(region))),
                   sig=f"enclr|same-crs|{type(region).__name__}|{kind.split(':')[0]}" + ("|nocrs" if tag == "N" or g.crs is None else ""))
            if res and isinstance(region, BoundingBox) and tag != "N" and g.crs is not None:
                EXT.enclosing_world_oracle(R, _H, g, region, res[0], Fr(0), nm.split("|")[0])
            if res and tag != "N" and g.crs is not None:
                ok_x, what_x = EXT.enclosing_excess_oracle(_H, g, verts, res[0], Fr(0))
                R.oracle(ok_x, "enclosing-world-excess", {"op": "encl", "g": gb_dict(g), "kind": kind,
                                                          "pts": [[float(x), float(y)] for x, y in verts], "crs": str(rc)},
                         what_x, sig="encl-world-excess|" + ("axis" if EXT.axis_aligned(g) else "rot"))
            if res and tag != "N" and g.crs is not None:
                # theorem enclosing_then_ops_succeed: the result is on the source grid, so every set operation with
                # the source works, and & is exactly the shared pixels
                ok_, what_ = EXT.enclosing_followup(_H, g, res[0], Fr(0))
                R.oracle(ok_, "enclosing-followup", {"op": "encl", "g": gb_dict(g), "kind": kind,
                                                     "pts": [[float(x), float(y)] for x, y in verts], "crs": str(rc)},
                         what_, sig="encl-followup")
        else:
            guarded(lambda: fe())
        if tag != "N" and g.crs is not None:
            case = {"op": "encl", "g": gb_dict(g), "kind": kind, "pts": [[float(x), float(y)] for x, y in verts],
                    "crs": str(rc)}
            if not res:
                R.oracle(False, "enclosing-raises", case, "enclosing raised for a geo-registered region")
            else:
                oracle(chk_enclosing(g, verts, res[0], Fr(0) if exact else Fr(1, 10**6)),
                       "enclosing-not-tight-cover-on-grid", case, sig="encl|" + kind)
                oracle(chk_container_equivalence(g, region, res[0]), "enclosing-region-container-equivalence",
                       {"op": "encl-region", "g": gb_dict(g), "region": region_dict(region)}, sig="encl-equiv|" + kind)
                if not isinstance(region, BoundingBox):
                    oracle(chk_project_vertexwise(g, region), "project-not-vertexwise",
                           {"op": "encl-region", "g": gb_dict(g), "region": region_dict(region)}, sig="project|" + kind.split(":")[0])

    kinds = ["bbox", "poly", "line", "mpoint", "point"]
    for it in range(R.pick(900, 9000)):
        nm, B, ex = rng.choice(bases)
        if not ex:
            continue
        g = member(B, rng.randint(-5, 5), rng.randint(-5, 5), rng.randint(1, 9), rng.randint(1, 9),
                   "N" if it % 97 == 0 else "1")
        kind = rng.choice(kinds)
        n = {"bbox": 2, "poly": rng.randint(3, 5), "line": rng.randint(2, 4), "mpoint": rng.randint(1, 4), "point": 1}[kind]
        den = rng.choice([1, 1, 2, 4, 8])
        pix = [(Fr(rng.randint(-12 * den, 12 * den), den), Fr(rng.randint(-12 * den, 12 * den), den)) for _ in range(n)]
        if kind == "poly":  # keep it a valid ring: sort by angle around the centroid
            cx, cy = sum(p_[0] for p_ in pix) / n, sum(p_[1] for p_ in pix) / n
            pix.sort(key=lambda q: math.atan2(q[1] - cy, q[0] - cx))
            if len(set(pix)) < 3:
                continue
        pts = [fa_apply(fa(g.affine), q) for q in pix]
        if any(fa_exact_floats(q) is None for q in pts):
            continue
        pts = [(float(x), float(y)) for x, y in pts]
        encl_case(g, pts, kind, "N" if it % 53 == 0 else "1", nm)

    # invalid-but-meaningful regions (bow-tie, self-touching, duplicate vertices, wrong winding, holes touching the
    # shell, overlapping multipolygon members ...) and unsorted random rings, same CRS: the model takes the vertex list
    weird_names = sorted(WEIRD_REGIONS)
    for it in range(R.pick(400, 4000)):
        nm, B, ex = rng.choice(bases)
        if not ex:
            continue
        g = member(B, rng.randint(-5, 5), rng.randint(-5, 5), rng.randint(1, 9), rng.randint(1, 9), "1")
        FA_ = fa(g.affine)
        if it % 4 == 3:   # random ring in the given (unsorted) order: usually self-crossing
            n = rng.randint(4, 7)
            pix = [(Fr(rng.randint(-48, 48), 4), Fr(rng.randint(-48, 48), 4)) for _ in range(n)]
            wpts = [fa_apply(FA_, q) for q in pix]
            if any(fa_exact_floats(q) is None for q in wpts) or len(set(pix)) < 3:
                continue
            wpts = [(float(x), float(y)) for x, y in wpts]
            encl_case(g, wpts, "poly", "1", nm + "|random-ring")
            continue
        name = weird_names[(it // 4) % len(weird_names)]
        x0, y0 = Fr(rng.randint(-40, 40), 4), Fr(rng.randint(-40, 40), 4)
        W, H = rng.choice([1, 2, 8, 13]) * rng.choice([1, -1]), rng.choice([1, 3, 8]) * rng.choice([1, -1])
        sk = rng.choice([0, 0, 1, -2])

        def P(u, v):
            q = fa_apply(FA_, (x0 + W * Fr(u) + sk * Fr(v), y0 + H * Fr(v)))
            return (float(q[0]), float(q[1])) if fa_exact_floats(q) is not None else None

        try:
            region, verts = build_weird_region(name, P, crs_of("1"))
        except Exception:  # a vertex is not a double
            stats["inexact-skipped"] += 1
            continue
        encl_case(g, None, "weird:" + name, "1", nm, prebuilt=(region, verts))

    # pixel coordinates just off integers / half-integers (pure power-of-two scale, zero offset: every float
    # operation of wld2pix is exact, so a "snap almost-integers before floor/ceil" clean-up is visible)
    for it in range(R.pick(300, 3000)):
        sgn = rng.choice([(1, -1), (1, 1), (-1, -1)])
        s_ = 2.0 ** rng.randint(-3, 5)
        Bq = (Fr(sgn[0] * s_), Fr(0), Fr(0), Fr(0), Fr(sgn[1] * s_), Fr(0))
        g = mk_gbox(Bq, rng.randint(1, 9), rng.randint(1, 9), "1")
        kind = rng.choice(["bbox", "mpoint", "point", "line"])
        n = {"bbox": 2, "mpoint": rng.randint(1, 3), "point": 1, "line": 2}[kind]

        def coord():
            return rng.randint(-20, 20) + rng.choice([0.0, 0.0, 0.5]) + rng.choice([-1, 0, 1]) * rng.choice(DELTAS)

        pix = [(coord(), coord()) for _ in range(n)]
        if kind == "line" and pix[0] == pix[1]:
            continue
        pts = [(sgn[0] * s_ * x_, sgn[1] * s_ * y_) for x_, y_ in pix]
        encl_case(g, pts, kind, "1", "near-int")

    # ---------------------------------------------------------------- G. snap_to
    sub_offs = [Fr(0), Fr(1, 2), Fr(-1, 2), Fr(1, 4), Fr(-1, 4), Fr(3, 4), Fr(-3, 4), Fr(1, 8), Fr(5, 8), Fr(1, 2) + Fr(1, 2**30),
                Fr(1, 2) - Fr(1, 2**30), Fr(-1, 2) - Fr(1, 2**30)] + eps[1:] + [1 - e for e in eps[1:3]]
    for nm, B, ex in bases:
        if not ex:
            continue
        for _ in range(R.pick(40, 400)):
            a = member(B, rng.randint(-9, 9), rng.randint(-9, 9), rng.randint(1, 6), rng.randint(1, 6))
            ox, oy = rng.randint(-9, 9) + rng.choice(sub_offs), rng.randint(-9, 9) + rng.choice(sub_offs)
            o = member(B, ox, oy, rng.randint(1, 6), rng.randint(1, 6))
            if a is None or o is None or not (exact_pair(o, a) and exact_pair(a, o)):
                stats["inexact-skipped"] += 1
                continue
            for x, y in ((a, o), (o, a)):
                res = []

                def fs():
                    r_ = x.snap_to(y)
                    res.append(r_)
                    return enc_gbox(r_)

                fx_ = abs(Fr(ox) - round(Fr(ox)))
                sg = "int" if fx_ == 0 else "half" if fx_ == Fr(1, 2) else "<tol" if fx_ < tp else "sub"
                R.corr(f"c16 snap {enc_gbox(x)} {enc_gbox(y)}", real(fs), sig=f"snap|{nm}|{sg}")
                case = {"op": "snap", "a": gb_dict(x), "b": gb_dict(y)}
                if res:
                    oracle(chk_snap(x, y, res[0]), "snap-half-pixel-onto-grid", case, sig="snap")
                else:
                    R.oracle(False, "snap-raises", case, "snap_to raised on same-orientation grids")

    # ---------------------------------------------------------------- H. Spec/PySlice validation against numpy
    for n in range(0, R.pick(6, 8)):
        for a_ in range(-9, 10):
            for b_ in range(-9, 10):
                R.corr(f"c16 sel {n} {a_} {b_}", lambda: list_s(np.arange(n)[a_:b_].tolist()), sig="spec-sel")

    # ---------------------------------------------------------------- X. growth round 2: entry-point glue (c16_ext.py)
    import sys

    EXT.run_ext(R, sys.modules[__name__], bases, stats)
    EXT.run_ext3(R, sys.modules[__name__], bases, stats)
    EXT.run_ext4(R, sys.modules[__name__], stats)
    EXT.run_ext5(R, sys.modules[__name__], stats)
    EXT.run_ext6(R, sys.modules[__name__], bases, stats)

    # ---------------------------------------------------------------- I. float stream (oracle only)
    float_stream(R, oracle, stats)
    EXT.float_ext(R, sys.modules[__name__])

    R.extra["c16_stats"] = stats
    R.assumptions.append("numpy.isclose(rtol, atol) defaults read from the installed numpy and compared with the model's constants")
    R.assumptions.append("numpy basic slicing is the meaning of the ROI returned by overlap_roi (Spec/PySlice validated each run)")
    R.assumptions.append("regions in another CRS: pyproj's re-projection of the vertices is trusted; the model starts after it")
    R.searchers.append(searcher)


def float_stream(R: Run, oracle, stats):
    from affine import Affine
    from odc.geo import geom as GM
    from odc.geo.geobox import GeoBox, geobox_intersection_conservative, geobox_union_conservative
    from odc.geo.geom import BoundingBox

    rng = R.rng
    SL = Fr(1, 10**6)  # slack in pixels for everything continuous; shapes get none
    worlds = [
        ("utm30", "3", lambda: Affine(30.0, 0.0, 399960.0 + 30 * rng.randint(-500, 500), 0.0, -30.0, 6700020.0 + 30 * rng.randint(-500, 500))),
        ("utm10", "3", lambda: Affine(10.0, 0.0, 600000.0 + rng.randint(0, 10**5) / 7, 0.0, -10.0, 5.3e6 + rng.randint(0, 10**5) / 3)),
        ("lonlat", "2", lambda: Affine(0.00025, 0.0, 147.0 + rng.random(), 0.0, -0.00025, -35.0 - rng.random())),
        ("third", "2", lambda: Affine(1 / 3, 0.0, -180.0, 0.0, -1 / 3, 90.0)),
        ("merc-rot", "1", lambda: Affine.translation(1.5e6 + rng.random(), -4e6) * Affine.rotation(rng.choice([30, 45, 17.3])) * Affine.scale(25.0, -25.0)),
        ("merc-111", "1", lambda: Affine(111.2, 0.0, 125671.0, 0.0, -111.2, 251465.0)),
    ]
    for it in range(R.pick(500, 5000)):
        nm, tag, mk = rng.choice(worlds)
        base = GeoBox((rng.randint(1, 3000), rng.randint(1, 3000)), mk(), crs_of(tag))
        span = rng.choice([5, 50, 2000, 20000])
        gs, rects = [], []
        for _ in range(3):
            tx, ty = rng.randint(-span, span), rng.randint(-span, span)
            ny, nx = rng.randint(1, max(2, span)), rng.randint(1, max(2, span))
            if rng.random() < 0.15:
                nx = 0
            if rng.random() < 0.5:
                g = base.translate_pix(tx, ty)
                g = GeoBox((ny, nx), g.affine, g.crs)
            else:
                g = GeoBox((ny, nx), base.affine * Affine.translation(tx, ty), base.crs)
            gs.append(g)
            rects.append((tx, ty, tx + nx, ty + ny))
        a, b, c = gs
        case = {"gs": [gb_dict(g) for g in gs], "float": True}

        def want_rect(op, rs):
            if op == "or":
                return (min(r[0] for r in rs), min(r[1] for r in rs), max(r[2] for r in rs), max(r[3] for r in rs))
            return (max(r[0] for r in rs), max(r[1] for r in rs), min(r[2] for r in rs), min(r[3] for r in rs))

        try:
            u, i = a | b, a & b
            oracle(chk_union([a, b], u, SL), "union-not-smallest-containing", {"op": "or", "a": gb_dict(a), "b": gb_dict(b), "float": True}, sig="float|union|" + nm)
            oracle(chk_inter([a, b], i, SL), "inter-not-shared-pixels", {"op": "and", "a": gb_dict(a), "b": gb_dict(b), "float": True}, sig="float|inter|" + nm)
            # against the construction (index rectangles known a priori)
            wr = want_rect("or", rects[:2])
            ok = all(rect_nonempty(r) for r in rects[:2]) is False or tuple(u.shape) == (wr[3] - wr[1], wr[2] - wr[0])
            R.oracle(ok, "union-not-smallest-containing", {"op": "or", "a": gb_dict(a), "b": gb_dict(b), "float": True},
                     f"union shape {u.shape} but construction says {wr}", sig="float|union-shape")
            wi = want_rect("and", rects[:2])
            ok = tuple(i.shape) == (max(0, wi[3] - wi[1]), max(0, wi[2] - wi[0]))
            R.oracle(ok, "inter-not-shared-pixels", {"op": "and", "a": gb_dict(a), "b": gb_dict(b), "float": True},
                     f"intersection shape {i.shape} but construction says {wi}", sig="float|inter-shape")
            R.oracle(same_gbox(u, b | a, SL) and same_gbox(i, b & a, SL), "not-commutative",
                     {"op": "or/and", "a": gb_dict(a), "b": gb_dict(b), "float": True}, "float stream: a op b != b op a", sig="float|comm")
            R.oracle(same_gbox((a | b) | c, a | (b | c), SL) and same_gbox((a & b) & c, a & (b & c), SL), "not-associative",
                     {"op": "or/and", **case}, "float stream: associativity", sig="float|assoc")
            R.oracle(same_gbox(geobox_union_conservative(gs), (a | b) | c, SL)
                     and same_gbox(geobox_intersection_conservative(gs), (a & b) & c, SL), "nary-differs-from-binary-fold",
                     {"op": "union/inter", **case}, "float stream: n-ary vs fold", sig="float|nary")
            roi = a.overlap_roi(b)
            if a.shape[0] * a.shape[1] <= 10**7:
                oracle(chk_roi(a, b, roi, SL), "overlap-roi-not-shared-pixels", {"op": "roi", "a": gb_dict(a), "b": gb_dict(b), "float": True},
                       sig="float|roi|" + nm)
        except Exception as e:  # pylint: disable=broad-except
            R.oracle(False, "common-grid-op-raises", {"op": "float-family", **case}, f"raised {e!r}")
        # sub-pixel shifted copy: must be rejected by | & roi, and snapped by snap_to
        d = rng.choice([0.5, 0.25, -0.3, 1e-3, 1e-5, 3e-7, -0.49])
        o = GeoBox(b.shape, a.affine * Affine.translation(rng.randint(-50, 50) + d, rng.randint(-50, 50)), a.crs)
        for f in (lambda: a | o, lambda: a & o, lambda: a.overlap_roi(o), lambda: o | a):
            out = guarded(lambda: str(f()))
            R.oracle(out == "ERR:ValueError", "incompatible-grid-acceptance", {"kind": "subpix", "d": d, "a": gb_dict(a), "b": gb_dict(o)},
                     f"grids offset by {d} px gave {out[:80]}", sig="float|reject")
        try:
            sn = a.snap_to(o)
            oracle(chk_snap(a, o, sn, SL), "snap-half-pixel-onto-grid", {"op": "snap", "a": gb_dict(a), "b": gb_dict(o), "float": True}, sig="float|snap")
        except Exception as e:  # pylint: disable=broad-except
            R.oracle(False, "snap-raises", {"op": "snap", "a": gb_dict(a), "b": gb_dict(o)}, f"raised {e!r}")
        # scaled copy must be rejected
        sc = rng.choice([2.0, 0.5, 1.001, 1.0001, 0.9998])
        o2 = GeoBox(b.shape, a.affine * Affine.scale(sc), a.crs)
        for f in (lambda: a | o2, lambda: a & o2, lambda: a.overlap_roi(o2), lambda: a.snap_to(o2)):
            out = guarded(lambda: str(f()))
            R.oracle(out == "ERR:ValueError", "incompatible-grid-acceptance", {"kind": "scale", "s": sc, "a": gb_dict(a)},
                     f"grids differing by scale {sc} gave {out[:80]}", sig="float|reject")
        # enclosing, same CRS, realistic doubles
        A = fa(a.affine)
        k = rng.randint(1, 5)
        pts = []
        for _ in range(k):
            q = fa_apply(A, (Fr(rng.uniform(-100, 100)), Fr(rng.uniform(-100, 100))))
            pts.append((float(q[0]), float(q[1])))
        kind = rng.choice(["bbox", "mpoint", "line"]) if k >= 2 else "point"
        try:
            if kind == "bbox":
                xs_, ys_ = [p_[0] for p_ in pts], [p_[1] for p_ in pts]
                region = BoundingBox(min(xs_), min(ys_), max(xs_), max(ys_), a.crs)
                verts = [(region.left, region.bottom), (region.left, region.top), (region.right, region.bottom), (region.right, region.top)]
            elif kind == "point":
                region, verts = GM.point(*pts[0], a.crs), pts[:1]
            elif kind == "line":
                region, verts = GM.line(pts, a.crs), pts
            else:
                region, verts = GM.multipoint(pts, a.crs), pts
            r = a.enclosing(region)
            oracle(chk_enclosing(a, verts, r, SL), "enclosing-not-tight-cover-on-grid",
                   {"op": "encl", "g": gb_dict(a), "kind": kind, "pts": [list(v) for v in verts], "crs": str(a.crs), "float": True},
                   sig="float|encl|" + nm)
        except Exception as e:  # pylint: disable=broad-except
            R.oracle(False, "enclosing-raises", {"g": gb_dict(a), "pts": pts}, f"raised {e!r}")

    # regions given in another CRS: vertices re-projected by pyproj (trusted) must be covered tightly
    utm = GeoBox((1000, 1000), Affine(30.0, 0.0, 400000.0, 0.0, -30.0, 6700000.0), crs_of("3"))
    merc = GeoBox((512, 512), Affine(100.0, 0.0, 1.6e6, 0.0, -100.0, 8.5e6), crs_of("1"))
    for it in range(R.pick(60, 600)):
        g = rng.choice([utm, merc])
        lon, lat = 13 + rng.random() * 4, 59 + rng.random() * 2
        w, h = rng.uniform(0.001, 0.2), rng.uniform(0.001, 0.2)
        region = BoundingBox(lon, lat, lon + w, lat + h, crs_of("2"))
        try:
            r = g.enclosing(region)
            verts = region.polygon.to_crs(g.crs).exterior.points[:-1]
            oracle(chk_enclosing(g, verts, r, SL), "enclosing-not-tight-cover-on-grid",
                   {"op": "encl-x", "g": gb_dict(g), "bbox": list(region.bbox), "crs": "EPSG:4326"}, sig="float|encl|cross-crs")
        except Exception as e:  # pylint: disable=broad-except
            R.oracle(False, "enclosing-raises", {"g": gb_dict(g), "bbox": list(region.bbox)}, f"raised {e!r}")
    cross_crs_enclosing(R)
    tol_and_snap_float_stream(R)
    # recorded finding K3 (one deterministic case): the curved image of an edge is not covered
    ok, what = curved_edge_case(utm, (13.0, 60.0, 17.0, 60.5))
    R.oracle(ok, "enclosing-cross-crs-curved-edge", {"op": "encl-curved", "g": gb_dict(utm), "bbox": [13.0, 60.0, 17.0, 60.5],
                                                     "crs": "EPSG:4326"}, what, sig="float|encl|curved-edge")


def tol_and_snap_float_stream(R: Run):
    """oracle-only (realistic doubles; exact Fractions on the real outputs, 1e-6 px slack):
    (a) ops taking `tol`, non-default tol x offsets at tol*{0.3, 3} on realistic grids;
    (b) snap_to / & / | on rotated and sheared grids whose partner is displaced by WORLD-axis multiples of the pixel
        size (k*res east, m*res north: in general NOT a whole-pixel shift on a rotated grid) and by pixel-space
        fractions on finer lattices (tenths, thirds, sevenths)."""
    from affine import Affine
    from odc.geo import geobox as GBm
    from odc.geo.geobox import GeoBox

    rng = R.rng
    SL = Fr(1, 10**6)
    crs = crs_of("1")
    rtol_, atol_ = isclose_defaults(R)
    t1, t0 = Fr(atol_ + rtol_), Fr(atol_)
    tp = Fr(1e-8)

    def pyth(pq, k, flip):
        a_, b_ = pq
        return Affine(a_ * k, (b_ if flip else -b_) * k, 0.0, b_ * k, (-a_ if flip else a_) * k, 0.0)

    def bases():
        r = rng.random()
        c, f = rng.choice([(5000.0, 9000.0), (399960.0, 7100040.0), (1.5e6 + rng.random(), -4e6), (0.0, 0.0)])
        cd, fd = rng.choice([(147.25, -35.5), (0.0, 0.0), (-180.0, 90.0), (13.0 + rng.random(), 60.0)])  # degrees
        if r < 0.35:   # Pythagorean rotations: integer coefficients, pixel size 5k / 13k / 17k exactly
            pq, h = rng.choice([((3, 4), 5), ((4, 3), 5), ((5, 12), 13), ((12, 5), 13), ((8, 15), 17), ((15, 8), 17)])
            k = rng.choice([1, 2, 6, 0.5])
            return "pyth", Affine.translation(c, f) * pyth(pq, k, rng.random() < 0.5), h * k
        if r < 0.6:
            res = rng.choice([10.0, 30.0, 5.0, 0.00025])
            ang = rng.choice([30, 45, -12.5, 17.3, 60, 200.0])
            if res < 1:
                c, f = cd, fd
            return "rot", Affine.translation(c, f) * Affine.rotation(ang) * Affine.scale(res, -res), res
        if r < 0.8:
            res = rng.choice([10.0, 30.0, 2.0])
            return "shear", Affine.translation(c, f) * Affine(res, res * rng.choice([0.3, 0.5, 1 / 3, -0.7]), 0, 0, -res, 0), res
        res = rng.choice([10.0, 30.0, 0.00025])
        if res < 1:
            c, f = cd, fd
        return "axis", Affine(res * rng.choice([1, -1]), 0, c, 0, -res, f), res

    def judge_pair(a, b, label):
        case = {"op": "snap", "a": gb_dict(a), "b": gb_dict(b), "float": True}
        M = fa_mul(fa_inv(fa(a.affine)), fa(b.affine))
        sub = max(abs(v - round(v)) for v in (M[2], M[5]))
        same_lin = abs(M[0] - 1) <= SL and abs(M[4] - 1) <= SL and abs(M[1]) <= SL and abs(M[3]) <= SL
        if not same_lin:
            return
        # 1. snap_to: <= 1/2 px, lands on b's grid, and the follow-up set operations work
        try:
            sn = a.snap_to(b)
        except Exception as e:  # pylint: disable=broad-except
            R.oracle(False, "snap-raises", case, f"{label}: snap_to raised {e!r}")
            return
        ok, what = chk_snap(a, b, sn, SL)
        R.oracle(ok, "snap-half-pixel-onto-grid", case, f"{label}: {what}", sig="float|snap-world|" + label.split(":")[0])
        if ok:
            for nm, f in (("&", lambda: sn & b), ("|", lambda: sn | b), ("overlap_roi", lambda: sn.overlap_roi(b))):
                out = guarded(lambda: str(f()))
                R.oracle(not out.startswith("ERR"), "snap-followup-raises", {**case, "followup": nm},
                         f"{label}: a.snap_to(b) {nm} b raised {out} (offset before snapping {float(M[2])}, {float(M[5])} px)",
                         sig="float|snap-followup")
        # 2. & | overlap_roi directly: accepted <=> whole-pixel shift (keep clear of the 1e-8 threshold)
        if sub < Fr(1, 10**10) or sub > Fr(1, 10**6):
            accept = sub < tp
            for nm, f in (("&", lambda: a & b), ("|", lambda: a | b), ("overlap_roi", lambda: a.overlap_roi(b))):
                out = guarded(lambda: str(f()))
                R.oracle(out.startswith("ERR") != accept, "incompatible-grid-acceptance",
                         {"op": nm, "a": gb_dict(a), "b": gb_dict(b), "float": True},
                         f"{label}: a {nm} b gave {out[:60]}; pixel offset of b in a is ({float(M[2])}, {float(M[5])})",
                         sig="float|world-accept")
            if accept:
                try:
                    R.oracle(*(lambda r_: (r_[0], "inter-not-shared-pixels", {"op": "and", "a": gb_dict(a), "b": gb_dict(b), "float": True}, r_[1]))(chk_inter([a, b], a & b, SL)))
                    R.oracle(*(lambda r_: (r_[0], "union-not-smallest-containing", {"op": "or", "a": gb_dict(a), "b": gb_dict(b), "float": True}, r_[1]))(chk_union([a, b], a | b, SL)))
                except Exception as e:  # pylint: disable=broad-except
                    R.oracle(False, "common-grid-op-raises", case, f"{label}: raised {e!r}")

    for it in range(R.pick(350, 3500)):
        kind, A, res = bases()
        a = GeoBox((rng.randint(1, 80), rng.randint(1, 80)), A, crs)
        shp = (rng.randint(1, 60), rng.randint(1, 60))
        mode = it % 4
        if mode == 0:      # WORLD-axis multiples of the pixel size
            e_, n_ = rng.choice([(1, 0), (0, 1), (3, -2), (40, 25), (-7, 0), (0, -11), (2, 2)])
            b = GeoBox(shp, Affine.translation(e_ * res, n_ * res) * A, crs)
            judge_pair(a, b, f"{kind}-world: b = a moved {e_}*res east, {n_}*res north")
        elif mode == 1:    # pixel-space fractions on finer lattices
            d_ = rng.choice([10, 3, 7, 5, 6])
            px, py = rng.randint(-30, 30) / d_, rng.randint(-30, 30) / d_
            b = GeoBox(shp, A * Affine.translation(px, py), crs)
            judge_pair(a, b, f"{kind}-frac: b = a moved ({px}, {py}) px")
        elif mode == 2:    # whole-pixel shifts along the (rotated) pixel axes
            i_, j_ = rng.randint(-50, 50), rng.randint(-50, 50)
            b = GeoBox(shp, A * Affine.translation(i_, j_), crs)
            judge_pair(a, b, f"{kind}-whole: b = a moved ({i_}, {j_}) px")
        else:              # (a) non-default tol on realistic grids
            tol = rng.choice([1e-6, 1e-4, 1e-2, 0.5, 0.25])
            fac = rng.choice([0.3, 3.0, 0.3, 3.0, 0.9, 1.1])
            e = tol * fac * rng.choice([1, -1])
            i_, j_ = rng.randint(-50, 50), rng.randint(-50, 50)
            onx = rng.random() < 0.5
            b = GeoBox(shp, A * Affine.translation(i_ + (e if onx else 0), j_ + (0 if onx else e)), crs)
            M = fa_mul(fa_inv(fa(a.affine)), fa(b.affine))
            sub = max(abs(v - round(v)) for v in (M[2], M[5]))
            if abs(sub - Fr(tol)) < Fr(tol) / 50:   # float construction too close to the threshold
                continue
            accept = sub < Fr(tol)
            case = {"op": "tol", "a": gb_dict(a), "b": gb_dict(b), "tol": tol, "float": True}
            for fn, f in (("overlap_roi", lambda: a.overlap_roi(b, tol)),
                          ("bounding_box_in_pixel_domain", lambda: GBm.bounding_box_in_pixel_domain(b, a, tol))):
                res_ = []

                def ff():
                    res_.append(f())
                    return "ok"

                out = guarded(ff)
                R.oracle(out.startswith("ERR") != accept, "tol-acceptance", {**case, "fn": fn},
                         f"{fn}(tol={tol!r}) gave {out}; sub-pixel offset {float(sub)!r}: "
                         f"{'must be accepted' if accept else 'must be rejected'}", sig="float|tol-accept|" + kind)
                if accept and res_ and fn == "overlap_roi":
                    ok, what = chk_roi(a, b, res_[0], Fr(tol) + SL)
                    R.oracle(ok, "overlap-roi-not-shared-pixels", {**case, "op": "roi-tol"}, what, sig="float|roi-tol")


def cross_crs_enclosing(R: Run):
    """enclosing of BoundingBox and Geometry regions given in ANOTHER CRS, on north-up / mirrored / rotated / sheared
    grids, over several CRS pairs.  Judged against the polygon through the pyproj-re-projected vertices of the
    region's own polygon: covers them, excess < 1 px per side in the grid's pixel space (two-sided), and the result
    does not depend on the container type."""
    from affine import Affine
    from odc.geo import geom as GM
    from odc.geo.crs import CRS
    from odc.geo.geobox import GeoBox
    from odc.geo.geom import BoundingBox

    rng = R.rng
    # (region CRS, grid CRS, lon range, lat range of the area of use)
    pairs = [("EPSG:4326", "EPSG:3577", (115, 150), (-40, -12)), ("EPSG:4326", "EPSG:32633", (12.5, 17.5), (5, 80)),
             ("EPSG:4326", "EPSG:3857", (-170, 170), (-75, 75)), ("EPSG:4326", "EPSG:6933", (-170, 170), (-80, 80)),
             ("EPSG:32633", "EPSG:3857", (12.5, 17.5), (5, 80)), ("EPSG:3577", "EPSG:6933", (115, 150), (-40, -12)),
             ("EPSG:3857", "EPSG:32633", (12.5, 17.5), (5, 75)), ("EPSG:3577", "EPSG:4326", (115, 150), (-40, -12)),
             ("EPSG:6933", "EPSG:3577", (115, 150), (-40, -12))]
    # CRSs without an EPSG code on one or BOTH sides (PROJ strings, WKT), and a CRS against another spelling of itself
    EU, AU = ((5, 15), (44, 52)), ((115, 150), (-40, -12))
    d4, d5, d6 = crs_def("4"), crs_def("5"), crs_def("6")
    pairs += [(d5, d4, *EU), (d4, d5, *EU), (d6, d5, *AU), (d5, d6, *AU), (d4, "EPSG:4326", *EU), ("EPSG:4326", d4, *EU),
              (d5, "EPSG:32633", (12.5, 17.5), (44, 52)), ("EPSG:3577", d6, *AU), (d6, "EPSG:3857", *AU), ("EPSG:3857", d5, *EU),
              (d4, d6, (100, 140), (-30, 30)), (d6, d4, (100, 140), (-30, 30))]
    pairs += [(crs_alt_def(t, k), crs_def(t), *(AU if t == "6" else EU)) for t in "123456" for k in (0, 1)]
    short = {d4: "laea-proj", d5: "sinu-proj", d6: "aea-wkt"}

    def nm_crs(c):
        return short.get(c, c[5:] if c.upper().startswith("EPSG:") else "respelled")

    lins = [("north-up", lambda: Affine.identity()), ("mirror-x", lambda: Affine.scale(-1, 1)),
            ("south-up", lambda: Affine.scale(1, -1)), ("rot", lambda: Affine.rotation(rng.choice([30, 45, 90, 17.3, -120, 200]))),
            ("rot", lambda: Affine.rotation(rng.uniform(0, 360))), ("shear", lambda: Affine.shear(rng.choice([10, 25, -35]), 0)),
            ("rot-shear", lambda: Affine.rotation(rng.uniform(0, 360)) * Affine.shear(0, rng.choice([15, -20])))]
    ll = CRS("EPSG:4326")
    for it in range(R.pick(330, 3300)):
        src, dst, lonr, latr = pairs[it % len(pairs)]
        src_crs, dst_crs = CRS(src), CRS(dst)
        lon, lat = rng.uniform(*lonr), rng.uniform(*latr)
        nm, mk = lins[(it // len(pairs)) % len(lins)]
        try:
            c_dst = GM.point(lon, lat, ll).to_crs(dst_crs).points[0]
            c_src = GM.point(lon, lat, ll).to_crs(src_crs).points[0]
            geo_dst = dst_crs.geographic
            res_ = rng.choice([0.00025, 0.001, 1 / 3600]) if geo_dst else rng.choice([10.0, 30.0, 100.0, 250.0])
            A = Affine.translation(c_dst[0] + rng.uniform(-1, 1) * res_, c_dst[1] + rng.uniform(-1, 1) * res_) \
                * mk() * Affine.scale(res_, -res_)
            g = GeoBox((rng.randint(1, 500), rng.randint(1, 500)), A, dst_crs)
            # region around the centre, in the source CRS (a few px .. a few thousand px)
            ext = (rng.uniform(0.0005, 0.3) if src_crs.geographic else rng.uniform(50, 30000))
            k = rng.choice(["bbox", "bbox", "poly", "mpoint", "line", "point", "weird", "weird", "weird", "ring"])
            n = {"bbox": 2, "poly": rng.randint(3, 6), "mpoint": rng.randint(1, 5), "line": rng.randint(2, 4), "point": 1,
                 "weird": 0, "ring": rng.randint(4, 7)}[k]
            pts = [(c_src[0] + rng.uniform(-1, 1) * ext, c_src[1] + rng.uniform(-1, 1) * ext) for _ in range(n)]
            if k == "weird":   # invalid-but-meaningful polygons under a random linear map (either orientation)
                name = rng.choice(sorted(WEIRD_REGIONS))
                m_ = [rng.uniform(-1, 1) * ext for _ in range(4)]
                if abs(m_[0] * m_[3] - m_[1] * m_[2]) < 0.05 * ext * ext:
                    m_ = [ext, 0.0, 0.0, ext]
                region, _v = build_weird_region(
                    name, lambda u, v: (c_src[0] + m_[0] * (u - .5) + m_[1] * (v - .5), c_src[1] + m_[2] * (u - .5) + m_[3] * (v - .5)),
                    src_crs)
                k = "weird:" + name
            elif k == "ring":  # random vertices joined in the given order: usually self-crossing
                region = GM.polygon(pts + [pts[0]], src_crs)
            elif k == "bbox":
                xs_, ys_ = [q[0] for q in pts], [q[1] for q in pts]
                region = BoundingBox(min(xs_), min(ys_), max(xs_), max(ys_), src_crs)
            elif k == "poly":
                cx, cy = sum(q[0] for q in pts) / n, sum(q[1] for q in pts) / n
                pts.sort(key=lambda q: math.atan2(q[1] - cy, q[0] - cx))
                region = GM.polygon(pts + [pts[0]], src_crs)
            elif k == "mpoint":
                region = GM.multipoint(pts, src_crs)
            elif k == "line":
                region = GM.line(pts, src_crs)
            else:
                region = GM.point(pts[0][0], pts[0][1], src_crs)
            case = {"op": "encl-region", "g": gb_dict(g), "region": region_dict(region)}
            for key, ok, what in chk_region_enclosing(g, region):
                R.oracle(ok, key, case, what, sig=f"float|encl-x|{nm}|{k}|{nm_crs(src)}>{nm_crs(dst)}")
        except Exception as e:  # pylint: disable=broad-except
            R.oracle(False, "enclosing-raises", {"op": "encl-x", "src": src, "dst": dst, "lon": lon, "lat": lat},
                     f"raised {e!r}")


def curved_edge_case(g, bbox):
    from odc.geo.geom import BoundingBox

    region = BoundingBox(*bbox, crs_of("2"))
    r = g.enclosing(region)
    l, b, rr, t = bbox
    n = 801
    xs = np.concatenate([np.linspace(l, rr, n), np.full(n, rr), np.linspace(rr, l, n), np.full(n, l)])
    ys = np.concatenate([np.full(n, b), np.linspace(b, t, n), np.full(n, t), np.linspace(t, b, n)])
    tr = region.crs.transformer_to_crs(g.crs)
    X, Y = tr(xs, ys)
    px, py = (~r.affine) * (np.asarray(X), np.asarray(Y))
    worst = max(-px.min(), px.max() - r.shape.x, -py.min(), py.max() - r.shape.y)
    return worst <= 1e-6, (f"enclosing({bbox} in EPSG:4326) on a 30 m UTM grid: the densely sampled region boundary "
                           f"sticks out of the result by {worst:.1f} px (only the vertices are re-projected)")


# ------------------------------------------------------------------ search after a broken proof / correspondence
def _decode_gbox(tok):
    from affine import Affine
    from odc.geo.geobox import GeoBox

    ny, nx, aff, tag = tok.split(":")
    co = [float(Fr(v)) for v in aff.split(";")]
    return GeoBox((int(ny), int(nx)), Affine(*co), crs_of(tag))


def searcher(R: Run, mismatches):
    """look for a property failure on the real code around the mismatching inputs"""
    from affine import Affine
    from odc.geo.geobox import GeoBox

    tried = 0
    for m in mismatches[:40]:
        toks = m["line"].split(" ")
        gbs = []
        for t in toks[2:]:
            for part in t.strip("[]").split(","):
                if part.count(":") == 3 and part.count(";") == 5:
                    try:
                        gbs.append(_decode_gbox(part))
                    except Exception:  # pylint: disable=broad-except
                        pass
        if len(gbs) < 2:
            continue
        a, b = gbs[0], gbs[1]
        for dx, dy, dnx, dny in itertools.product(range(-3, 4), range(-3, 4), (0, -1, 1), (0, -1, 1)):
            try:
                b2 = GeoBox((max(0, b.shape[0] + dny), max(0, b.shape[1] + dnx)), b.affine * Affine.translation(dx, dy), b.crs)
                if rect_of(b2, a) is None:
                    continue
                tried += 1
                for x, y in ((a, b2), (b2, a)):
                    for key, fn in (("union-not-smallest-containing", lambda: chk_union([x, y], x | y)),
                                    ("inter-not-shared-pixels", lambda: chk_inter([x, y], x & y)),
                                    ("overlap-roi-not-shared-pixels", lambda: chk_roi(x, y, x.overlap_roi(y)))):
                        ok, what = fn()
                        if not ok:
                            return {"key": key, "case": {"op": key, "a": gb_dict(x), "b": gb_dict(y)}, "what": what}
            except Exception:  # pylint: disable=broad-except
                continue
    R.notes.append(f"searcher tried {tried} neighbouring pairs, no property failure")
    return None


# ------------------------------------------------------------------ replay
def eval_case(key, case, verbose=False):
    """re-evaluate the property predicate of a recorded case on the real code -> (ok, what) or None"""
    say = print if verbose else (lambda *a, **k: None)
    sl = Fr(1, 10**6) if case.get("float") else Fr(0)
    if key == "enclosing-cross-crs-curved-edge":
        return curved_edge_case(gb_from(case["g"]), tuple(case["bbox"]))
    if "a" in case and "b" in case and key in ("overlap-roi-not-shared-pixels",):
        a, b = gb_from(case["a"]), gb_from(case["b"])
        roi = a.overlap_roi(b)
        say("a.overlap_roi(b) =", roi, "  a & b =", a & b)
        return chk_roi(a, b, roi, sl)
    if "a" in case and "b" in case and key in ("union-not-smallest-containing", "inter-not-shared-pixels",
                                               "not-commutative"):
        a, b = gb_from(case["a"]), gb_from(case["b"])
        u, i = a | b, a & b
        say("a | b =", u, "\na & b =", i)
        ok1, w1 = chk_union([a, b], u, sl)
        ok2, w2 = chk_inter([a, b], i, sl)
        ok3 = same_gbox(u, b | a, sl) and same_gbox(i, b & a, sl)
        return ok1 and ok2 and ok3, "; ".join(x for x in (w1, w2, "" if ok3 else "not commutative") if x)
    if "gs" in case:
        from odc.geo.geobox import geobox_intersection_conservative, geobox_union_conservative

        gs = [gb_from(d) for d in case["gs"]]
        u, i = geobox_union_conservative(gs), geobox_intersection_conservative(gs)
        say("union =", u, "\nintersection =", i)
        ok1, w1 = chk_union(gs, u, sl)
        ok2, w2 = chk_inter(gs, i, sl)
        a, b, c = gs[:3]
        ok3 = same_gbox((a | b) | c, a | (b | c), sl) and same_gbox((a & b) & c, a & (b & c), sl)
        return ok1 and ok2 and ok3, "; ".join(x for x in (w1, w2, "" if ok3 else "not associative") if x)
    if case.get("op") in ("world-bbox", "encl-world", "member-roundtrip"):
        import sys

        return EXT.eval_case(sys.modules[__name__], key, case)
    if case.get("op") in ("tol", "roi-tol"):
        from odc.geo import geobox as GBm

        a, b, tol = gb_from(case["a"]), gb_from(case["b"]), case["tol"]
        M = fa_mul(fa_inv(fa(a.affine)), fa(b.affine))
        sub = max(abs(v - round(v)) for v in (M[2], M[5]))
        accept = sub < Fr(tol)
        bad = []
        for fn, f in (("overlap_roi", lambda: a.overlap_roi(b, tol)),
                      ("bounding_box_in_pixel_domain", lambda: GBm.bounding_box_in_pixel_domain(b, a, tol))):
            try:
                o = f()
                say(f"{fn}(tol={tol!r}) =", o)
                if not accept:
                    bad.append(f"{fn} accepted a sub-pixel offset of {float(sub)!r} px with tol {tol!r}")
                elif fn == "overlap_roi":
                    ok_, w_ = chk_roi(a, b, o, Fr(tol) + sl)
                    if not ok_:
                        bad.append(w_)
            except ValueError as e:
                say(f"{fn}(tol={tol!r}) raised", repr(e))
                if accept:
                    bad.append(f"{fn} rejected a sub-pixel offset of {float(sub)!r} px although tol is {tol!r}")
        return (not bad, "; ".join(bad))
    if case.get("op") == "encl-region":
        g = gb_from(case["g"])
        region = region_from(case["region"])
        say("enclosing =", g.enclosing(region))
        bad = [(k, w) for k, ok, w in chk_region_enclosing(g, region) if not ok]
        return (not bad, "; ".join(f"[{k}] {w}" for k, w in bad))
    if case.get("op") == "encl":
        from odc.geo import geom as GM

        g = gb_from(case["g"])
        r = g.enclosing(GM.multipoint([tuple(p) for p in case["pts"]], case["crs"]))
        say("enclosing =", r)
        if key == "enclosing-followup":
            import sys

            return EXT.enclosing_followup(sys.modules[__name__], g, r, sl)
        if key == "enclosing-world-excess":
            import sys

            return EXT.enclosing_excess_oracle(sys.modules[__name__], g, [tuple(p) for p in case["pts"]], r, sl)
        return chk_enclosing(g, [tuple(p) for p in case["pts"]], r, sl)
    if case.get("op") == "snap":
        a, b = gb_from(case["a"]), gb_from(case["b"])
        r = a.snap_to(b)
        say("a.snap_to(b) =", r)
        ok_, w_ = chk_snap(a, b, r, sl)
        if ok_ and key == "snap-followup-raises":
            try:
                _ = (r & b, r | b, r.overlap_roi(b))
            except Exception as e:  # pylint: disable=broad-except
                return False, f"follow-up set operation on a.snap_to(b) and b raised {e!r}"
        return ok_, w_
    return None


def run_corpus(R: Run):
    """minimised past failures (corpus/C16/*.json) are evaluated first on every run"""
    import json
    from pathlib import Path

    d = Path(__file__).resolve().parent.parent / "corpus" / "C16"
    for f in sorted(d.glob("*.json")) if d.is_dir() else []:
        rec = json.loads(f.read_text())
        try:
            res = eval_case(rec["key"], rec["case"])
        except Exception as e:  # pylint: disable=broad-except
            res = (False, f"real code raised {e!r}")
        if res is not None:
            R.oracle(res[0], rec["key"], rec["case"], res[1], sig="corpus")


def replay(R: Run, rec) -> int:
    case = rec.get("case") or {}
    key = rec.get("key", "")
    print("replay key:", key)
    print("replay case:", case)
    try:
        res = eval_case(key, case, verbose=True)
    except Exception as e:  # pylint: disable=broad-except
        print("real code raised:", repr(e))
        return 1
    if res is None:
        print("no specific replay for this key; re-run the check with the recorded seed/tier")
        return 0
    ok, what = res
    print("property holds on this input" if ok else "STILL FAILS: " + what)
    return 0 if ok else 1
