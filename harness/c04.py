"""C04 — tilings are exact partitions and blocks reassemble the mosaic."""
from __future__ import annotations

import itertools
import math
import time
from fractions import Fraction

import numpy as np

from .common import Run, frac_s, guarded, list_s, opt_s, run_driver
from .c04_args import args_stream

META = {
    "claimed": True,
    "text": "Lean 4 theorems, unbounded in image size, tile size, chunk tuple, tile index and window, about a "
    "hand model of Tiles / VariableSizedTiles / clip_tiles / GeoboxTiles tile lookup and BlockAssembler.extract: "
    "regular and variable tilings are exact partitions (every pixel in exactly one tile, regions inside the "
    "rectangle, tile_shape = region length, chunks sum to the size and list the tile shapes, locate is the inverse "
    "of region lookup, IndexError exactly outside [-T,T)); numpy's binary searchsorted equals a linear scan on "
    "sorted offsets; crop / clip give the tiling of the cropped rectangle with re-based indices; tile (r,c) of a "
    "tiled GeoBox maps pixels exactly like the parent at the region offset; assembling any subset of blocks returns "
    "for every window cell the block cell of the tile owning that pixel, else the fill value (leading / trailing "
    "axes included); planes_yx enumerates every plane once.  The model is tied to /repo on every run by an exact "
    "behavioural correspondence (exhaustive N<=12 x n<=14, all compositions of N<=7 plus zero-length chunks, all "
    "indices / crops / tile pairs, every subset of blocks of layouts up to 3x3, sizes up to 2^120, int32-edge chunk sums) and "
    "model-independent numpy oracles, including every index spelling (tuple, Index2d via iyx_/ixy_, XY, numpy ints, negative) "
    "at every indexing entry point on non-square tilings, held results re-checked after later calls (aliasing, "
    "staleness, input mutation), every ordered pair of numpy numeric dtypes across blocks (np.result_type value oracle), "
    "blocks behind a lazily loading Mapping with a transient fault at every access, and two threads extracting from one "
    "assembler at every forced interleaving point.  Argument glue (Model/Props C04Args): BlockAssembler.__init__ / "
    "_verify_shape succeed exactly when every block has shape lead+[chy[iy],chx[ix]]+trail (the well-formedness "
    "assemble_window presupposes; end-to-end theorem from the constructor to the mosaic), which error the first refused "
    "block raises, the final assert fires exactly when an int32 chunk sum wraps; every accepted index spelling (tuple, "
    "Index2d, XY, iyx_/ixy_) at [] / tile_shape / locate / GeoboxTiles[] / chunk_shape / pix_bbox is the tuple (r, c) "
    "with no axis swap, refused forms never yield a tile, longer tuples are truncated by [] but refused by tile_shape; "
    "shape_ / roi_tiles / GeoboxTiles.__init__ hand the core the tiling it assumes (regular: base = GeoBox shape; chunk "
    "form ignores the shape); planes_yx(yx_roi) stays one-to-one; w_[roi] has the extent roi_shape reports — tied by "
    "exhaustive small domains (layouts x per-block perturbations of up to two blocks, every argument form at every "
    "entry point on non-square tilings).  Dtype / fill glue (Model/Props C04Dtype): BlockAssembler's dtype (float32 without "
    "blocks, else numpy's promotion of all block dtypes) holds every block's values, and so does the dtype extract() "
    "allocates whatever the fill (pasting never needs an unsafe cast); a fill of a higher kind (NaN into integer tiles, -1 "
    "into unsigned ones) upgrades the result so that it is held, a same-kind fill never changes the dtype, an integer fill "
    "that does not fit is refused (OverflowError) instead of wrapped, the default fill is NaN exactly for floating results; "
    "numpy's own rules (result_type of any number of dtypes, can_cast safe, min_scalar_type, np.full's range check) are "
    "reference semantics validated exhaustively against the installed numpy on every run (all 1-3 dtype combinations, all "
    "pairs, every range edge).  Numpy integer scalars of every width as tile / pixel / window index at every indexing entry "
    "point must be refused or give the Python-int answer (index * tile size, index + 1 and offsets beyond the dtype's "
    "range); on the repaired code this is a theorem of a bounded-width index model (Model/Props C04Np: tile_shape and locate "
    "answer like Python ints or refuse, [] / crop / pix_bbox refuse; _cex for the wrap as found), tied by a correspondence "
    "over the same layouts.  casting= and an explicit dtype= of extract (Props/C04Cast): with the dtype left to extract the "
    "default rule never refuses a block, casting='no' accepts exactly identical dtypes, a dtype of a lower kind than some "
    "block is refused even when that block lies outside the window; np.can_cast for all five rules validated exhaustively.  "
    "Decided observations (Props/C04Pin): chunk tuples that do not add up to the GeoBox are REFUSED (fix2-C04, gbtInitR: a "
    "constructed tiled GeoBox always has its GeoBox as base); negative tile sizes, block keys naming one tile twice (later "
    "block wins) and over-long index tuples are outside the property's quantifier and pinned as they are.  Final increment: "
    "the VALUES of extract(dtype=narrower) on integer tiles (Props/C04CastV: pasting commutes with any cell-wise "
    "conversion - extract_mapVal - so every cell is the wrapped mosaic cell; castInt = numpy's integer astype, validated at "
    "every range edge and on extracted windows), numpy scalars inside BlockAssembler windows and at GeoboxTiles[] / .roi / "
    "pix_bbox / chunk_shape in the bounded-width model (Props/C04NpWin: refused after the length test, chunk_shape converts).",
    "note": "Trusted: Lean kernel + {propext, Classical.choice, Quot.sound}; Spec/NpArray (numpy searchsorted, "
    "int indexing, tuple slicing, copyto of equal-length slices) validated against numpy each run; numpy "
    "dtype promotion is modelled as reference semantics (Model/C04Dtype: resultTypeL, safeCast, minScalar*, fullRaises), the "
    "casts of the cell VALUES themselves (np.copyto casting='same_kind') stay numpy's; int32 offsets: theorems assume sum(chunks) < 2^31 (wrap is modelled "
    "and compared); "
    "modelled since the growth round: BlockAssembler._norm_roi (padding of short windows, which axes an int squeezes, "
    "IndexError) and extract for any window spelling (extractND); clip_tiles as a function of the selected SET; zero-size "
    "members; planes_yx one-to-one; since the args increment (Model/C04Args.lean): BlockAssembler.__init__ / _verify_shape "
    "(blocks as (key, shape) list; dtype only as the 'float32 iff no blocks' flag), iyx_ / ixy_ / norm_slice_2d and every "
    "index argument form (TypeError / AttributeError via a local error extension), shape_ / Tiles.__init__ / roi_tiles / "
    "GeoboxTiles.__init__ dispatch, planes_yx(yx_roi), WindowFromSlice, roi_shape; modelled domain of the glue: Python "
    "ints, tuple members int or step-less slice, axis >= 0, chunk entries in int32 range, `how` a shape spelling or a "
    "sequence of int sequences.  As found GeoboxTiles(gbox, chunks) never compared the chunk sums with gbox.shape "
    "(gbt_variable_exceeds_geobox_cex; repaired); BlockAssembler accepts negative keys (two keys may name one tile: pinned); "
    "BlockAssembler({}, chunks, axis>0) raises AssertionError.  NOT mirrored in Lean (oracle / correspondence "
    "only, or out of scope): the VALUES np.copyto writes when it narrows within a kind (float64 tiles into a float32 "
    "window: rounded by numpy); float fills beyond the range of a floating result become inf (numpy; theorem float32_fill_1e40_overflows_cex); "
    "numpy-int indices inside BlockAssembler windows and GeoboxTiles entry points (oracle only; Tiles / VariableSizedTiles "
    "entry points are modelled); GeoBox.compute_crop branches other than a pair of slices / ints (Geometry, BoundingBox, GeoBox, "
    "step != 1 -> NotImplementedError: C02); __eq__ / __str__ / __dask_tokenize__ of Tiles, VariableSizedTiles, "
    "GeoboxTiles (C19); negative tile sizes.",
    "technique": "Lean 4 proof over hand model + exhaustive/random differential correspondence with real code",
    "design_ref": "DESIGN.md §4 C04",
}


# ------------------------------------------------------------------ encoders
def enc(s) -> str:
    if isinstance(s, (int, np.integer)):
        return f"i:{int(s)}"
    return f"s:{opt_s(s.start)}:{opt_s(s.stop)}"


def ns(s) -> str:
    return f"{int(s.start)}:{int(s.stop)}"


def ints(xs) -> str:
    return list_s([int(x) for x in xs])


def aff_s(A) -> str:
    return ";".join(frac_s(v) for v in tuple(A)[:6])


def _import():
    from odc.geo import roi as Rm
    from odc.geo.geobox import GeoBox, GeoboxTiles
    from odc.geo._blocks import BlockAssembler

    return Rm, GeoBox, GeoboxTiles, BlockAssembler


class Ax:
    """A one-axis view of the 2-D tiling classes: the axis under test is `axis`, the other axis
    is a benign 3-pixel / 2-tile one indexed with 0 / slice(None)."""

    def __init__(self, Rm, kind, spec, axis):
        self.axis = axis
        self.kind = kind
        if kind == "r":
            N, n = spec
            self.t = Rm.Tiles((N, 3), (n, 2)) if axis == 0 else Rm.Tiles((3, N), (2, n))
        else:
            ch = tuple(spec)
            self.t = Rm.VariableSizedTiles((ch, (2, 1))) if axis == 0 else Rm.VariableSizedTiles(((2, 1), ch))

    def ix(self, i, other=0):
        return (i, other) if self.axis == 0 else (other, i)

    def pick(self, pair):
        return pair[self.axis]


def norm_py(s, n):
    """independent re-statement of what a slice/int means for the library (wrap negatives once,
    never clamp large positives)"""
    if isinstance(s, (int, np.integer)):
        j = n + s if s < 0 else s
        return j, j + 1
    a = 0 if s.start is None else s.start
    b = n if s.stop is None else s.stop
    a = a if a >= 0 else max(0, n + a)
    b = b if b >= 0 else max(0, n + b)
    return a, b


# ------------------------------------------------------------------ spec validation
def spec_validation(R: Run):
    rng = R.rng
    # searchsorted on sorted inputs with duplicates: exhaustive small
    for L in range(0, 5):
        for xs in itertools.combinations_with_replacement(range(0, 5), L):
            for key in range(-1, 6):
                R.corr(f"c04 ss {ints(xs)} {key}",
                       lambda: (lambda r: f"{r} {r}")(int(np.searchsorted(np.asarray(xs, dtype='int32'), key, 'right'))),
                       sig="spec-ss|ok")
    for _ in range(R.pick(300, 3000)):
        L = rng.randint(0, 40)
        xs = sorted(rng.randint(0, 60) for _ in range(L))
        key = rng.randint(-2, 62)
        R.corr(f"c04 ss {ints(xs)} {key}",
               lambda: (lambda r: f"{r} {r}")(int(np.searchsorted(np.asarray(xs, dtype='int32'), key, 'right'))),
               sig="spec-ss|ok")
    for L in range(0, 5):
        xs = [10 + 3 * k for k in range(L)]
        arr = np.asarray(xs, dtype="int32")
        for i in range(-L - 2, L + 2):
            R.corr(f"c04 npget {ints(xs)} {i}", lambda: str(int(arr[i])), sig=None)
            for j in range(-L - 2, L + 2):
                R.corr(f"c04 pyslice {ints(xs)} {i} {j}", lambda: ints(tuple(xs)[i:j]), sig="spec-pyslice|ok")
    # copyto between slices of 1-D arrays
    for _ in range(R.pick(1500, 15000)):
        nd, ns_ = rng.randint(0, 6), rng.randint(0, 6)
        d = slice(rng.randint(0, 7), rng.randint(0, 7))
        s = slice(rng.randint(0, 7), rng.randint(0, 7))

        def f():
            dst = np.full(nd, -1, dtype="int64")
            src = np.arange(ns_, dtype="int64")
            np.copyto(dst[d], src[s])
            return list_s(["N" if v < 0 else str(int(v)) for v in dst])

        R.corr(f"c04 npassign {nd} {ns_} {enc(d)} {enc(s)}", f, sig=None)


# ------------------------------------------------------------------ regular tiles
def check_axis_partition(R: Run, tag, case, T, N, get, shape, chunks, locate):
    """guarded wrapper: an unexpected exception of the real code is an oracle failure, not a harness crash"""
    try:
        return _check_axis_partition(R, tag, case, T, N, get, shape, chunks, locate)
    except Exception as e:  # pylint: disable=broad-except
        R.oracle(False, f"{tag}-raises", case, f"unexpected {e!r}")
        return [(None, None)] * max(T, 0)


def _check_axis_partition(R: Run, tag, case, T, N, get, shape, chunks, locate):
    """Model-independent statement of the 1-D part of the property on real outputs.
    get(i) -> (a, b); shape(i) -> int; chunks() -> list; locate(y) -> int (all may raise)."""
    owner = [None] * max(N, 0)
    ok_within, ok_disjoint, ok_shape = True, True, True
    regs = []
    for i in range(T):
        a, b = get(i)
        regs.append((a, b))
        if not (0 <= a <= b <= N):
            ok_within = False
            continue
        for y in range(a, b):
            if owner[y] is not None:
                ok_disjoint = False
            owner[y] = i
        if shape(i) != b - a:
            ok_shape = False
    R.oracle(ok_within, f"{tag}-region-outside", case, f"regions {regs} not within [0,{N})")
    R.oracle(ok_disjoint, f"{tag}-regions-overlap", case, f"regions {regs}")
    R.oracle(all(o is not None for o in owner), f"{tag}-pixel-not-covered", case, f"regions {regs} N={N}")
    R.oracle(ok_shape, f"{tag}-tile-shape-ne-region", case, f"regions {regs}")
    if T > 0:
        ch = chunks()
        R.oracle(sum(ch) == N and len(ch) == T, f"{tag}-chunks-sum", case, f"chunks {ch} N={N} T={T}")
        R.oracle(all(c == b - a for c, (a, b) in zip(ch, regs)), f"{tag}-chunks-ne-regions", case,
                 f"chunks {ch} regions {regs}")
    for y in range(N):
        i = locate(y)
        R.oracle(i == owner[y], f"{tag}-locate-not-inverse", dict(case, y=y), f"locate({y})={i} owner={owner[y]}")
    for y in (-1, N):
        R.oracle(_raises(lambda: locate(y), IndexError), f"{tag}-locate-out-of-range", dict(case, y=y), "no IndexError")
    # negative indices and the error range
    for i in range(-T - 2, T + 2):
        if -T <= i < T:
            j = i % T
            R.oracle(tuple(get(i)) == regs[j], f"{tag}-negative-index-region", dict(case, i=i),
                     f"[{i}] = {guarded(lambda: str(get(i)))} but tile {j} is {regs[j]}")
            R.oracle(guarded(lambda: str(shape(i))) == str(regs[j][1] - regs[j][0]), f"{tag}-tile-shape-negative-index",
                     dict(case, i=i), f"tile_shape({i}) = {guarded(lambda: str(shape(i)))} but tile {j} is {regs[j]}")
        else:
            R.oracle(_raises(lambda: get(i), IndexError), f"{tag}-index-out-of-range-accepted", dict(case, i=i),
                     f"[{i}] = {guarded(lambda: str(get(i)))} for {T} tiles")
            R.oracle(_raises(lambda: shape(i), IndexError), f"{tag}-tile-shape-out-of-range-accepted", dict(case, i=i),
                     f"tile_shape({i}) = {guarded(lambda: str(shape(i)))} for {T} tiles")
    return regs


def _raises(fn, exc) -> bool:
    try:
        fn()
    except exc:
        return True
    except Exception:  # pylint: disable=broad-except
        return False
    return False


def regular_case(R: Run, Rm, N, n, axis, full=True):
    line0 = f"{N} {n}"
    try:
        ax = Ax(Rm, "r", (N, n), axis)
    except ZeroDivisionError:
        R.corr(f"c04 t count {line0}", lambda: "ERR:ZeroDivisionError")
        return
    t = ax.t
    T = int(ax.pick(t.shape.yx))
    sigx = "ragged" if n > 0 and N % n else ("big-tile" if n > N else "even")
    R.corr(f"c04 t count {line0}", lambda: str(T), sig=f"t-count|{sigx}")
    R.corr(f"c04 t chunks {line0}", lambda: ints(ax.pick(t.chunks)), sig=f"t-chunks|{sigx}")
    for i in range(-T - 2, T + 2):
        R.corr(f"c04 t get {line0} {enc(i)}", lambda: ns(ax.pick(t[ax.ix(i)])))
        R.corr(f"c04 t shape {line0} {i}", lambda: str(ax.pick(t.tile_shape(ax.ix(i)).yx)))
    for y in range(-1, N + 2):
        R.corr(f"c04 t locate {line0} {y}", lambda: str(ax.pick(t.locate(ax.ix(y)))))
    if n <= 0:
        return
    case = {"kind": "Tiles", "N": N, "n": n, "axis": axis}
    R.oracle(T == -((-N) // n), "tiles-count-not-ceil", case, f"shape {T}")
    regs = check_axis_partition(
        R, "tiles", case, T, N,
        get=lambda i: (lambda s: (s.start, s.stop))(ax.pick(t[ax.ix(i)])),
        shape=lambda i: ax.pick(t.tile_shape(ax.ix(i)).yx),
        chunks=lambda: list(ax.pick(t.chunks)),
        locate=lambda y: ax.pick(t.locate(ax.ix(y))),
    )
    if not full or any(r[0] is None for r in regs):
        return
    # crops
    bnds = [None] + list(range(-T - 1, T + 3))
    for a in bnds:
        for b in bnds:
            s = slice(a, b)
            roi = ax.ix(s, slice(None))
            res = []

            def f():
                c = t.crop(roi)
                res.append(c)
                return f"{ax.pick(c.base.yx)} {ax.pick(c.shape.yx)}"

            R.corr(f"c04 t crop {line0} {enc(s)}", f)
            a_, b_ = norm_py(s, T)
            if res and 0 <= a_ < b_ <= T:
                oracle_crop(R, "tiles", dict(case, crop=enc(s)), ax, res[0], regs, a_, b_)
    # clip
    sels = [[i, j] for i in range(T) for j in range(i, T)] + [[T - 1, 0], [0, T], [-1], []]
    if T >= 3:
        sels.append([1, 0, 2, 1])
    for sel in sels:
        res = []

        def f():
            c, roi, new = Rm.clip_tiles(t, [ax.ix(s) for s in sel])
            res.append((c, roi, new))
            return f"{ax.pick(c.base.yx)} {ax.pick(c.shape.yx)} {ns(ax.pick(roi))} {ints([ax.pick(p) for p in new])}"

        R.corr(f"c04 t clip {line0} {ints(sel)}", f)
        if res and sel and all(0 <= s < T for s in sel):
            c, roi, new = res[0]
            for s_old, p in zip(sel, new):
                s_new = ax.pick(p)
                r_old = regs[s_old]
                off = regs[min(sel)][0]
                got = guarded(lambda: (lambda r: str((r.start + off, r.stop + off)))(ax.pick(c[ax.ix(s_new)])))
                R.oracle(got == str(r_old), "tiles-clip-not-rebased",
                         dict(case, sel=sel), f"tile {s_old}->{s_new}: region in clipped tiling + {off} = {got} != {r_old}")


def oracle_crop(R, tag, case, ax, c, regs, a, b):
    """cropped tiling == tiling of the cropped rectangle, indices re-based by `a`"""
    off = regs[a][0]
    want = [(r0 - off, r1 - off) for r0, r1 in regs[a:b]]
    Tc = int(ax.pick(c.shape.yx))
    got = []
    if Tc == b - a:
        try:
            got = [(lambda s: (s.start, s.stop))(ax.pick(c[ax.ix(k)])) for k in range(Tc)]
        except Exception as e:  # pylint: disable=broad-except
            got = [repr(e)]
    R.oracle(got == want and int(ax.pick(c.base.yx)) == regs[b - 1][1] - off, f"{tag}-crop-not-tiling-of-crop", case,
             f"crop tiles {got} base {ax.pick(c.base.yx)}; want {want}")


# ------------------------------------------------------------------ variable tiles
def compositions(N):
    if N == 0:
        yield ()
        return
    for first in range(1, N + 1):
        for rest in compositions(N - first):
            yield (first, *rest)


def variable_case(R: Run, Rm, ch, axis, full=True):
    ch = tuple(int(c) for c in ch)
    ax = Ax(Rm, "v", ch, axis)
    t = ax.t
    T = len(ch)
    N = sum(ch)
    L = ints(ch)
    wraps = N >= 2**31
    sigx = "wrap" if wraps else ("zero-chunk" if 0 in ch else "plain")
    R.corr(f"c04 v info {L}",
           lambda: f"{ax.pick(t.shape.yx)} {ax.pick(t.base.yx)} {ints(ax.pick(t.chunks))} {ints(offsets_of(t, axis))}",
           sig=f"v-info|{sigx}")
    if wraps:
        return
    rng_i = range(-T - 3, T + 3) if T < 12 else [-T - 2, -T - 1, -T, -1, 0, T - 1, T, T + 1]
    for i in rng_i:
        R.corr(f"c04 v get {L} {enc(i)}", lambda: ns(ax.pick(t[ax.ix(i)])))
        R.corr(f"c04 v shape {L} {i}", lambda: str(ax.pick(t.tile_shape(ax.ix(i)).yx)))
    ys = range(-1, N + 2) if N < 40 else [-1, 0, 1, N // 2, N - 1, N, N + 1] + [R.rng.randint(0, N) for _ in range(8)]
    for y in ys:
        R.corr(f"c04 v locate {L} {y}", lambda: str(ax.pick(t.locate(ax.ix(y)))), sig=f"v-locate|{sigx}")
    case = {"kind": "VariableSizedTiles", "chunks": list(ch), "axis": axis}
    if N < 40:
        regs = check_axis_partition(
            R, "vtiles", case, T, N,
            get=lambda i: (lambda s: (s.start, s.stop))(ax.pick(t[ax.ix(i)])),
            shape=lambda i: ax.pick(t.tile_shape(ax.ix(i)).yx),
            chunks=lambda: list(ax.pick(t.chunks)),
            locate=lambda y: ax.pick(t.locate(ax.ix(y))),
        )
        R.oracle(list(ax.pick(t.chunks)) == list(ch), "vtiles-chunks-not-advertised", case, f"{ax.pick(t.chunks)}")
    else:
        cum = [0]
        for c in ch:
            cum.append(cum[-1] + c)
        for y in ys:
            if 0 <= y < N:
                got = guarded(lambda: str(int(ax.pick(t.locate(ax.ix(y))))))
                want = max(i for i in range(T) if cum[i] <= y < cum[i + 1])
                R.oracle(got == str(want), "vtiles-locate-not-inverse", dict(case, y=y), f"locate={got} want {want}")
        R.oracle(guarded(lambda: str(int(ax.pick(t.base.yx)))) == str(N), "vtiles-base-ne-sum", case, "base != sum(chunks)")
        regs = list(zip(cum[:-1], cum[1:]))
    if not full or any(r[0] is None for r in regs):
        return
    bnds = [None] + list(range(-T - 2, T + 3))
    for a in bnds:
        for b in bnds:
            s = slice(a, b)
            res = []

            def f():
                c = t.crop(ax.ix(s, slice(None)))
                res.append(c)
                return ints(ax.pick(c.chunks))

            R.corr(f"c04 v crop {L} {enc(s)}", f)
            a_, b_ = norm_py(s, T)
            if res and 0 <= a_ < b_ <= T:
                oracle_crop(R, "vtiles", dict(case, crop=enc(s)), ax, res[0], regs, a_, b_)
    for i in range(-T - 2, T + 2):
        R.corr(f"c04 v crop {L} {enc(i)}", lambda: ints(ax.pick(t.crop(ax.ix(i, slice(None))).chunks)))
    sels = [[i, j] for i in range(T) for j in range(i, T)] + [[T - 1, 0], [0, T], [-1], []]
    for sel in sels:
        res = []

        def g():
            c, roi, new = Rm.clip_tiles(t, [ax.ix(s) for s in sel])
            res.append((c, roi, new))
            return f"{ints(ax.pick(c.chunks))} {ns(ax.pick(roi))} {ints([ax.pick(p) for p in new])}"

        R.corr(f"c04 v clip {L} {ints(sel)}", g)
        if res and sel and all(0 <= s < T for s in sel):
            c, roi, new = res[0]
            off = regs[min(sel)][0]
            for s_old, p in zip(sel, new):
                got = guarded(lambda: (lambda r: str((r.start + off, r.stop + off)))(ax.pick(c[ax.ix(ax.pick(p))])))
                R.oracle(got == str(regs[s_old]), "vtiles-clip-not-rebased",
                         dict(case, sel=sel), f"tile {s_old}: region in clipped tiling + {off} = {got} != {regs[s_old]}")


# ------------------------------------------------------------------ 2-D lift and GeoboxTiles
def tiling_tok(kind, spec):
    return f"r:{spec[0]}:{spec[1]}" if kind == "r" else f"v:{ints(spec)}"


def rnd_tiling2(R: Run, Rm):
    rng = R.rng
    if rng.random() < 0.5:
        sy, sx = ((rng.randint(1, 9), rng.randint(1, 5)) for _ in range(2))
        t = Rm.Tiles((sy[0], sx[0]), (sy[1], sx[1]))
        return "r", sy, sx, t
    sy, sx = (tuple(rng.choice([0, 1, 1, 2, 3]) for _ in range(rng.randint(1, 4))) for _ in range(2))
    return "v", sy, sx, Rm.VariableSizedTiles((sy, sx))


def t2_fmt(c) -> str:
    head = f"{c.base.y} {c.shape.y} {c.base.x} {c.shape.x} "
    return head + guarded(lambda: f"{ints(c.chunks[0])} {ints(c.chunks[1])}")


def rnd_idx(rng, T, slices=True):
    r = rng.random()
    if r < 0.45 or not slices:
        return rng.randint(-T - 2, T + 1)
    return slice(rng.choice([None] + list(range(-T - 1, T + 2))), rng.choice([None] + list(range(-T - 1, T + 2))))


def lift_and_geobox(R: Run, Rm, GeoBox, GeoboxTiles):
    from affine import Affine

    rng = R.rng
    for _ in range(R.pick(1200, 12000)):
        kind, sy, sx, t = rnd_tiling2(R, Rm)
        ty, tx = tiling_tok(kind, sy), tiling_tok(kind, sx)
        Ty, Tx = t.shape.yx
        iy, ix = rnd_idx(rng, Ty), rnd_idx(rng, Tx)
        R.corr(f"c04 t2 get {ty} {tx} {enc(iy)} {enc(ix)}", lambda: " ".join(ns(s) for s in t[iy, ix]))
        jy, jx = rnd_idx(rng, Ty, False), rnd_idx(rng, Tx, False)
        R.corr(f"c04 t2 shape {ty} {tx} {jy} {jx}", lambda: "{} {}".format(*t.tile_shape((jy, jx)).yx))
        R.corr(f"c04 t2 chunks {ty} {tx}", lambda: f"{ints(t.chunks[0])} {ints(t.chunks[1])}")
        py, px = rng.randint(-1, t.base.y + 1), rng.randint(-1, t.base.x + 1)
        R.corr(f"c04 t2 locate {ty} {tx} {py} {px}", lambda: "{} {}".format(*t.locate((py, px))))
        R.corr(f"c04 t2 crop {ty} {tx} {enc(iy)} {enc(ix)}", lambda: t2_fmt(t.crop((iy, ix))))

        # GeoboxTiles over the same tiling: exact (dyadic) affine, incl. mirrored / rotated / sheared
        k = rng.choice([1, 2, 4, 8])
        a, e = rng.choice([1, -1, 2, 0.5, -0.25, 30]), rng.choice([1, -1, -2, 0.5, -30])
        b, d = rng.choice([(0, 0), (0, 0), (0.5, -0.25), (-1, 2)])
        A = Affine(a, b, rng.randint(-80, 80) / k, d, e, rng.randint(-80, 80) / k)
        gb = GeoBox((t.base.y, t.base.x), A, "EPSG:3857")
        gbt = GeoboxTiles(gb, (sy[1], sx[1]) if kind == "r" else (sy, sx))
        head = f"{t.base.y} {t.base.x} {aff_s(A)} {ty} {tx}"
        res = []

        def gget():
            g = gbt[iy, ix]
            res.append(g)
            return f"{g.shape.y} {g.shape.x} {aff_s(g.affine)}"

        R.corr(f"c04 g get {head} {enc(iy)} {enc(ix)}", gget)
        if res:
            # oracle (exact rationals): pixel (x, y) of the tile is pixel (x + x0, y + y0) of the parent
            ry, rx = t[iy, ix]
            g = res[0]
            ok = tuple(g.shape.yx) == (ry.stop - ry.start, rx.stop - rx.start)
            for (x, y) in ((0, 0), (1, 0), (0, 1), (3, 5)):
                ok = ok and _apply(g.affine, x, y) == _apply(A, x + rx.start, y + ry.start)
            R.oracle(ok, "gbt-tile-not-parent-crop", {"line": f"{head} {enc(iy)} {enc(ix)}"},
                     f"tile {g.shape} {aff_s(g.affine)} region {ry},{rx}")
            if isinstance(iy, int) and isinstance(ix, int):
                cs = guarded(lambda: str(tuple(gbt.chunk_shape((iy, ix)).yx)))
                R.oracle(cs == str(tuple(g.shape.yx)), "gbt-chunk-shape-ne-tile",
                         {"line": f"{head} {enc(iy)} {enc(ix)}"}, f"chunk_shape {cs} vs tile {g.shape}")
        R.oracle(guarded(lambda: str(gbt.chunks)) == guarded(lambda: str(t.chunks)), "gbt-chunks-ne-tiles", {"line": head},
                 "", trivial=True)

        def gcrop():
            c = gbt.crop[iy, ix]
            g = c.base
            return f"{g.shape.y} {g.shape.x} {aff_s(g.affine)} | {t2_fmt(c.roi)}"

        R.corr(f"c04 g crop {head} {enc(iy)} {enc(ix)}", gcrop)
        sel = [(rng.randint(0, max(0, Ty - 1)), rng.randint(0, max(0, Tx - 1))) for _ in range(rng.randint(0, 3))]
        if rng.random() < 0.1:
            sel.append((Ty, 0))
        cres = []

        def gclip():
            c, new = gbt.clip(sel)
            cres.append((c, new))
            g = c.base
            return f"{g.shape.y} {g.shape.x} {aff_s(g.affine)} | {t2_fmt(c.roi)} | " + list_s(
                [f"{int(p[0])};{int(p[1])}" for p in new])

        R.corr(f"c04 g clip {head} {list_s([f'{p[0]};{p[1]}' for p in sel])}", gclip)
        if cres and sel and all(0 <= p[0] < Ty and 0 <= p[1] < Tx for p in sel):
            c, new = cres[0]
            ok = guarded(lambda: str(all(_same_gbox(c[p_new], gbt[p_old]) for p_old, p_new in zip(sel, new))))
            R.oracle(ok == "True", "gbt-clip-tile-differs", {"line": head, "sel": sel},
                     f"tile of clipped grid != original tile ({ok})")


def _apply(A, x, y):
    a, b, c, d, e, f = (Fraction(v) for v in tuple(A)[:6])
    return (a * x + b * y + c, d * x + e * y + f)


def _same_gbox(g1, g2) -> bool:
    return tuple(g1.shape.yx) == tuple(g2.shape.yx) and all(
        Fraction(u) == Fraction(v) for u, v in zip(tuple(g1.affine)[:6], tuple(g2.affine)[:6]))


# ------------------------------------------------------------------ BlockAssembler
DTYPES = ["int8", "uint16", "float32", "bool"]


def cell_vals(m, key, lead, ny, nx, trail):
    shape = (*lead, ny, nx, *trail)
    idx = np.indices(shape) if all(s > 0 for s in shape) else None
    if idx is None:
        return np.zeros(shape, dtype="int64")
    a = len(lead)
    v = key[0] * 7 + key[1] * 13 + idx[a] * 3 + idx[a + 1] * 5
    for i in range(a):
        v = v + idx[i] * (i + 1) * 17
    for i in range(len(trail)):
        v = v + idx[a + 2 + i] * (i + 1) * 11
    return 1 + v % m


def canon_cells(arr) -> str:
    flat = np.asarray(arr).reshape(-1)
    out = []
    for v in flat.tolist():
        if isinstance(v, float) and math.isnan(v):
            out.append("N")
        elif v == 0:
            out.append("N")
        else:
            out.append(str(int(v)))
    return list_s(out)


def rnd_window(rng, n, allow_bad=True):
    r = rng.random()
    if r < 0.2:
        return slice(None)
    if r < 0.3 and n > 0:
        return rng.randint(-n, n - 1)
    a, b = rng.randint(-n - 1, n + 2), rng.randint(-n - 1, n + 3)
    if not allow_bad or rng.random() < 0.85:
        na, nb = norm_py(slice(a, b), n)
        if na > nb:
            a, b = b, a
    return slice(rng.choice([None, a]), rng.choice([None, b]))


def asm_case(R: Run, BlockAssembler, chy, chx, keys, lead, trail, dtype, win, two_tuple, fill_explicit):
    a = len(lead)
    m = 1 if dtype == "bool" else 100
    blocks = {k: cell_vals(m, k, lead, chy[k[0]], chx[k[1]], trail).astype(dtype) for k in keys}
    wl, wy, wx, wt = win
    roi = (wy, wx) if two_tuple else (*wl, wy, wx, *wt)
    res = []

    def f():
        asm = BlockAssembler(blocks, (tuple(chy), tuple(chx)), axis=a)
        xx = asm.extract(0, roi=roi) if fill_explicit else asm.extract(roi=roi)
        res.append((asm, xx))
        shp = xx.shape
        return f"{ints(shp[:a])} {shp[a]} {shp[a + 1]} {ints(shp[a + 2:])} {canon_cells(xx)}"

    line = (f"c04 asm {ints(chy)} {ints(chx)} {list_s([f'{k[0]};{k[1]}' for k in keys])} {ints(lead)} {ints(trail)} "
            f"{list_s([enc(s) for s in wl])} {enc(wy)} {enc(wx)} {list_s([enc(s) for s in wt])} {m}")
    nblk = len(keys)
    real_out = R.corr(line, f, sig=f"asm|{'none' if nblk == 0 else 'all' if nblk == len(chy) * len(chx) else 'some'}|a{a}t{len(trail)}")
    if not res:
        # a window of the mosaic (non-negative extents, extra-axis windows inside their axes) must not raise
        (y0_, y1_), (x0_, x1_) = norm_py(wy, sum(chy)), norm_py(wx, sum(chx))
        ext_ok = all(0 <= a_ <= b_ <= n for (a_, b_), n in zip([norm_py(s_, n) for s_, n in zip(list(wl) + list(wt), list(lead) + list(trail))],
                                                               list(lead) + list(trail)))
        if 0 <= y0_ <= y1_ and 0 <= x0_ <= x1_ and ext_ok:
            R.oracle(False, "assemble-window-raises", {"line": line, "dtype": dtype, "two_tuple": two_tuple,
                                                        "fill_explicit": fill_explicit},
                     f"extract raised {real_out} for a legitimate window", sig="asm-raises")
        return
    asm, xx = res[0]
    # oracle: numpy mosaic built without the library's offset / intersection code
    NY, NX = sum(chy), sum(chx)
    oy, ox = np.concatenate([[0], np.cumsum(chy)]).astype(int), np.concatenate([[0], np.cumsum(chx)]).astype(int)
    (y0, y1), (x0, x1) = norm_py(wy, NY), norm_py(wx, NX)
    PY, PX = max(NY, y1, 0), max(NX, x1, 0)
    if dtype == "float32" and not fill_explicit:
        fill = np.nan
    else:
        fill = 0
    mosaic = np.full((*lead, PY, PX, *trail), fill, dtype="float64")
    for k, b in blocks.items():
        sl = (*[slice(None)] * a, slice(oy[k[0]], oy[k[0] + 1]), slice(ox[k[1]], ox[k[1] + 1]), *[slice(None)] * len(trail))
        mosaic[sl] = b
    wl_n = [slice(*norm_py(s, n)) for s, n in zip(wl, lead)]
    wt_n = [slice(*norm_py(s, n)) for s, n in zip(wt, trail)]
    if not all(0 <= s.start <= s.stop <= n for s, n in zip(wl_n + wt_n, list(lead) + list(trail))):
        return  # window leaves an extra axis: not a window of the mosaic (correspondence only)
    want = mosaic[(*wl_n, slice(y0, y1), slice(x0, x1), *wt_n)]
    got = xx.astype("float64")
    ok = got.shape == want.shape and np.array_equal(got, want, equal_nan=True)
    R.oracle(ok, "assemble-window-ne-mosaic", {"line": line, "dtype": dtype, "two_tuple": two_tuple,
                                               "fill_explicit": fill_explicit},
             f"shape {got.shape} vs {want.shape}; first diff at "
             f"{np.argwhere(~((got == want) | (np.isnan(got) & np.isnan(want))))[:1].tolist() if got.shape == want.shape else '-'}")
    if y0 == 0 and x0 == 0 and y1 == NY and x1 == NX and not wl and not wt:
        # planes_yx enumerates every plane exactly once
        planes = list(asm.planes_yx())
        R.oracle(len(planes) == 1, "planes-yx-2d", {"line": line}, f"{planes}", trivial=True)


def assembler(R: Run, BlockAssembler):
    rng = R.rng
    layouts = [(ty, tx) for ty in range(1, 4) for tx in range(1, 4)]
    for (ty, tx) in layouts:
        nsub = 2 ** (ty * tx)
        reps = R.pick(1, 3)
        subsets = range(nsub)
        for _ in range(reps):
            chy = [rng.choice([0, 1, 2, 2, 3]) for _ in range(ty)]
            chx = [rng.choice([0, 1, 2, 3, 3]) for _ in range(tx)]
            allk = [(iy, ix) for iy in range(ty) for ix in range(tx)]
            for mask in subsets:
                keys = [k for j, k in enumerate(allk) if mask >> j & 1]
                rng.shuffle(keys)
                lead = rng.choice([[], [], [2], [1]])
                trail = rng.choice([[], [2], [3], [], [1]])
                dtype = rng.choice(DTYPES)
                if not keys:  # without blocks the assembler knows neither extra axes nor dtype
                    lead, trail, dtype = [], [], "float32"
                for _w in range(R.pick(1, 2) if nsub > 64 else 2):
                    two = rng.random() < 0.3
                    bad = rng.random() < 0.15
                    wl = [slice(None) if two else _extra_win(rng, n, bad) for n in lead]
                    wt = [slice(None) if two else _extra_win(rng, n, bad) for n in trail]
                    wy, wx = rnd_window(rng, sum(chy)), rnd_window(rng, sum(chx))
                    asm_case(R, BlockAssembler, chy, chx, keys, lead, trail, dtype, (wl, wy, wx, wt), two,
                             rng.random() < 0.3)
    # planes_yx
    for lead in ([], [2], [3], [2, 3], [0]):
        for trail in ([], [2], [1, 2]):
            blocks = {(0, 0): np.zeros((*lead, 2, 2, *trail), dtype="uint8")}

            def f():
                asm = BlockAssembler(blocks, ((2,), (2,)), axis=len(lead))
                return list_s(["(" + ";".join("N" if isinstance(v, slice) else str(int(v)) for v in p) + ")"
                               for p in asm.planes_yx()])

            R.corr(f"c04 planes {ints(lead)} {ints(trail)}", f)


def _extra_win(rng, n, bad):
    if bad:
        return slice(rng.randint(0, n), rng.randint(0, n + 2))
    a = rng.randint(0, n)
    b = rng.randint(a, n)
    return rng.choice([slice(None), slice(a, b), slice(a, b), slice(None, b), slice(a - n - 0, None) if a < n else slice(a, None)])



# ------------------------------------------------------------------ held results: aliasing / staleness / input mutation
class Held:
    """Keeps results (and inputs) of earlier calls alive together with a private snapshot taken when they were
    returned; `recheck` compares them again after later calls were made on the same objects."""

    def __init__(self, R: Run, key="result-mutated-by-later-call"):
        self.R, self.key, self.items = R, key, []

    @staticmethod
    def snap(o):
        import copy

        if isinstance(o, np.ndarray):
            return o.copy()
        if isinstance(o, dict):
            return {k: Held.snap(v) for k, v in o.items()}
        if isinstance(o, (list, tuple)):
            return type(o)(Held.snap(v) for v in o) if type(o) in (list, tuple) else copy.deepcopy(o)
        try:
            return copy.deepcopy(o)
        except Exception:  # pylint: disable=broad-except
            return repr(o)

    @staticmethod
    def same(o, s) -> bool:
        if isinstance(s, np.ndarray):
            return isinstance(o, np.ndarray) and o.shape == s.shape and o.dtype == s.dtype and bool(
                np.array_equal(o, s, equal_nan=(s.dtype.kind in "fc")))
        if isinstance(s, dict):
            return isinstance(o, dict) and list(o.keys()) == list(s.keys()) and all(Held.same(o[k], s[k]) for k in s)
        if type(s) in (list, tuple):
            return type(o) is type(s) and len(o) == len(s) and all(Held.same(a, b) for a, b in zip(o, s))
        if isinstance(s, str) and not isinstance(o, str):
            return repr(o) == s
        try:
            return bool(o == s)
        except Exception:  # pylint: disable=broad-except
            return repr(o) == repr(s)

    def hold(self, what, case, obj, key=None):
        self.items.append((what, case, obj, Held.snap(obj), key or self.key))
        return obj

    def recheck(self):
        for what, case, obj, snap, key in self.items:
            self.R.oracle(Held.same(obj, snap), key, case, f"{what}: value changed after later calls (now {str(obj)[:120]})",
                          sig=key)
        # distinct array results must not share memory
        arrs = [(w, c, o) for w, c, o, _s, k in self.items if isinstance(o, np.ndarray) and o.size and k == self.key]
        for i in range(len(arrs)):
            for j in range(i + 1, min(len(arrs), i + 12)):
                if arrs[i][2] is arrs[j][2]:
                    continue
                self.R.oracle(not np.shares_memory(arrs[i][2], arrs[j][2]), "results-share-memory", arrs[j][1],
                              f"{arrs[i][0]} and {arrs[j][0]} share one buffer", sig="results-share-memory", trivial=True)
        self.items = []


# ------------------------------------------------------------------ every index spelling at every indexing entry point
def offsets_of(t, axis):
    """cumulative int32 offsets of one axis of a VariableSizedTiles: the private array when it is there, else rebuilt
    from the public `.chunks` (np.diff of the offsets) by an int32 cumulative sum (wraps back to the same values)"""
    o = getattr(t, "_offsets", None)
    if o is not None:
        try:
            return o[axis].tolist()
        except Exception:  # pylint: disable=broad-except
            pass
    return np.asarray([0, *t.chunks[axis]], dtype="int64").astype("int32").cumsum(dtype="int32").tolist()


def norm_roi_of(R, asm):
    """`BlockAssembler._norm_roi` when the private helper exists; otherwise None (the stream compares `extract` only)
    and a note goes into the evidence"""
    fn = getattr(asm, "_norm_roi", None)
    if fn is None and not getattr(R, "_noted_norm_roi", False):
        R._noted_norm_roi = True
        R.notes.append("BlockAssembler has no _norm_roi helper: the intermediate window normalisation is not compared, "
                       "extract() for every window spelling still is")
    return fn


def chunks_of(kind, spec):
    if kind == "v":
        return list(spec)
    N, n = spec
    T = -(-N // n)
    return [n] * (T - 1) + [N - (T - 1) * n] if T > 0 else []


def index_types_stream(R: Run, Rm, GeoBox, GeoboxTiles):
    """Tile (r, c) must be the same tile however the index is spelled (tuple, Index2d via iyx_/ixy_, XY, numpy ints,
    negative), at every entry point that takes a tile index or a pixel; non-square tilings so that a swapped axis shows.
    Two-sided: the result is compared with the region computed from the chunk tuples."""
    from affine import Affine
    from odc.geo import ixy_, iyx_
    from odc.geo.types import XY, Index2d

    rng = R.rng
    specs = [("r", (10, 3), (20, 7)), ("r", (7, 2), (5, 5)), ("r", (5, 5), (9, 2)), ("r", (6, 4), (13, 3)),
             ("v", (3, 3, 4), (7, 13)), ("v", (2, 0, 3), (1, 2, 1, 1)), ("v", (5,), (1, 1, 2)), ("v", (1, 2, 1, 1, 2), (4, 1))]
    for _ in range(R.pick(4, 30)):
        while True:
            kind, sy, sx, _t = rnd_tiling2(R, Rm)
            if len(chunks_of(kind, sy)) != len(chunks_of(kind, sx)):
                break
        specs.append((kind, sy, sx))

    def spellings(r, c):
        return [("tuple", (r, c)), ("iyx_", iyx_(r, c)), ("ixy_", ixy_(c, r)), ("XY", XY(x=c, y=r)),
                ("Index2d", Index2d(x=c, y=r)), ("numpy-int", (np.int64(r), np.int32(c)))]

    for kind, sy, sx in specs:
        chy, chx = chunks_of(kind, sy), chunks_of(kind, sx)
        Ty, Tx, NY, NX = len(chy), len(chx), sum(chy), sum(chx)
        oy, ox = [0], [0]
        for c_ in chy:
            oy.append(oy[-1] + c_)
        for c_ in chx:
            ox.append(ox[-1] + c_)
        t = Rm.Tiles((NY, NX), (sy[1], sx[1])) if kind == "r" else Rm.VariableSizedTiles((tuple(sy), tuple(sx)))
        A = Affine(rng.choice([1, 2, 0.5]), 0, rng.randint(-40, 40) / 4, 0, -rng.choice([1, 2, 0.5]), rng.randint(-40, 40) / 4)
        gbt = GeoboxTiles(GeoBox((NY, NX), A, "EPSG:3857"), (sy[1], sx[1]) if kind == "r" else (tuple(sy), tuple(sx)))
        ty, tx = tiling_tok(kind, sy), tiling_tok(kind, sx)
        held = Held(R)
        held.hold("chunks", {"spec": [kind, sy, sx]}, t.chunks)
        held.hold("gbt.chunks", {"spec": [kind, sy, sx]}, gbt.chunks)
        for r in range(-Ty - 1, Ty + 1):
            for c in range(-Tx - 1, Tx + 1):
                valid = -Ty <= r < Ty and -Tx <= c < Tx
                if valid:
                    rr, cc = r % Ty, c % Tx
                    y0, y1, x0, x1 = oy[rr], oy[rr + 1], ox[cc], ox[cc + 1]
                    w0 = _apply(A, x0, y0)
                    want = {
                        "get": f"{y0}:{y1} {x0}:{x1}", "roi": f"{y0}:{y1} {x0}:{x1}",
                        "tile_shape": f"{y1 - y0} {x1 - x0}", "chunk_shape": f"{y1 - y0} {x1 - x0}",
                        "crop": f"{y1 - y0} {x1 - x0}", "gbt.crop": f"{y1 - y0} {x1 - x0}",
                        "pix_bbox": f"{x0} {y0} {x1} {y1}",
                        "gbt.get": f"{y1 - y0} {x1 - x0} {frac_s(w0[0])} {frac_s(w0[1])}",
                    }
                else:
                    want = dict.fromkeys(("get", "roi", "tile_shape", "chunk_shape", "crop", "gbt.crop", "pix_bbox", "gbt.get"),
                                         "ERR:IndexError")
                for name, idx in spellings(r, c):
                    eps = {
                        "get": lambda: " ".join(ns(v) for v in t[idx]),
                        "roi": lambda: " ".join(ns(v) for v in gbt.roi[idx]),
                        "tile_shape": lambda: "{} {}".format(*t.tile_shape(idx).yx),
                        "chunk_shape": lambda: "{} {}".format(*gbt.chunk_shape(idx).yx),
                        "crop": lambda: "{} {}".format(*t.crop(idx).base.yx),
                        "gbt.crop": lambda: "{} {}".format(*gbt.crop[idx].base.shape.yx),
                        "pix_bbox": lambda: "{} {} {} {}".format(*(int(v) for v in gbt.pix_bbox(idx).bbox)),
                        "gbt.get": lambda: (lambda g: "{} {} {} {}".format(g.shape.y, g.shape.x, frac_s(g.affine.c),
                                                                             frac_s(g.affine.f)))(gbt[idx]),
                    }
                    for ep, fn in eps.items():
                        if not valid and ep == "crop":
                            continue  # RoiTiles.crop with an out-of-range index is not pinned (VariableSizedTiles slices)
                        got = guarded(fn)
                        not_pinned = name == "numpy-int" or (ep in ("crop", "gbt.crop") and name != "tuple")
                        if not_pinned and got.startswith("ERR:") and got != "ERR:IndexError":
                            continue  # spelling not accepted at this entry point (crop takes a ROI; numpy ints are
                            # no `int`): rejecting is fine, answering with another tile is not
                        if name == "tuple" and ep == "get":
                            R.corr(f"c04 t2 get {ty} {tx} {enc(r)} {enc(c)}", lambda: got, sig="t2-get|index-grid")
                        if name == "tuple" and ep == "tile_shape":
                            R.corr(f"c04 t2 shape {ty} {tx} {r} {c}", lambda: got, sig="t2-shape|index-grid")
                        R.oracle(got == want[ep], "index-spelling-wrong-tile",
                                 {"spec": [kind, list(sy), list(sx)], "entry": ep, "spelling": name, "r": r, "c": c},
                                 f"{ep}[{name} r={r} c={c}] = {got}, tile ({r},{c}) is {want[ep]}",
                                 sig=f"index|{ep}|{name}", trivial=not valid)
                        if valid and ep in ("get", "pix_bbox") and name in ("iyx_", "tuple"):
                            held.hold(f"{ep}[{name} {r},{c}]", {"spec": [kind, list(sy), list(sx)], "r": r, "c": c}, got)
        # pixel spellings for locate
        for _k in range(R.pick(25, 120)):
            py, px = rng.randint(-1, NY), rng.randint(-1, NX)
            if 0 <= py < NY and 0 <= px < NX:
                wr = max(i for i in range(Ty) if oy[i] <= py < oy[i + 1])
                wc = max(i for i in range(Tx) if ox[i] <= px < ox[i + 1])
                want_l = f"{wr} {wc}"
            else:
                want_l = "ERR:IndexError"
            for name, idx in spellings(py, px):
                got = guarded(lambda: "{} {}".format(*(int(v) for v in t.locate(idx))))
                R.oracle(got == want_l, "index-spelling-wrong-tile",
                         {"spec": [kind, list(sy), list(sx)], "entry": "locate", "spelling": name, "r": py, "c": px},
                         f"locate[{name} y={py} x={px}] = {got}, want {want_l}", sig=f"index|locate|{name}")
        held.recheck()


# ------------------------------------------------------------------ several windows from ONE assembler, compared afterwards
def assembler_held(R: Run, BlockAssembler):
    """Results of earlier extract / [] calls are kept while later, equally shaped, windows and planes are requested
    from the same assembler; afterwards every held result must still equal the mosaic window it was asked for,
    distinct results must not share memory with each other or with the input blocks, and the blocks must be untouched."""
    rng = R.rng
    for it in range(R.pick(60, 600)):
        ty, tx = rng.randint(1, 4), rng.randint(1, 4)
        chy = [rng.choice([1, 2, 3, 4, 0]) for _ in range(ty)]
        chx = [rng.choice([1, 2, 3, 5, 0]) for _ in range(tx)]
        NY, NX = sum(chy), sum(chx)
        lead = rng.choice([[], [], [3], [2]])
        trail = rng.choice([[], [2], []])
        a = len(lead)
        dtype = rng.choice(["int16", "uint8", "float32", "float64"])
        keys = [(iy, ix) for iy in range(ty) for ix in range(tx) if rng.random() < 0.6]
        if not keys or NY == 0 or NX == 0:
            continue
        fill = rng.choice([None, -1 if dtype == "int16" else 7])
        blocks = {k: (cell_vals(100, k, lead, chy[k[0]], chx[k[1]], trail) + it % 50).astype(dtype) for k in keys}
        blocks_before = {k: b.copy() for k, b in blocks.items()}
        oy = np.concatenate([[0], np.cumsum(chy)]).astype(int)
        ox = np.concatenate([[0], np.cumsum(chx)]).astype(int)
        fillv = (np.nan if dtype.startswith("float") else 0) if fill is None else fill
        mosaic = np.full((*lead, NY, NX, *trail), fillv, dtype="float64")
        for k, b in blocks.items():
            mosaic[(*[slice(None)] * a, slice(oy[k[0]], oy[k[0] + 1]), slice(ox[k[1]], ox[k[1] + 1]))] = b
        case = {"chy": chy, "chx": chx, "keys": keys, "lead": lead, "trail": trail, "dtype": dtype, "fill": fill}
        try:
            asm = BlockAssembler(blocks, (tuple(chy), tuple(chx)), axis=a)
        except Exception as e:  # pylint: disable=broad-except
            R.oracle(False, "assembler-raises", case, repr(e))
            continue
        h, w = rng.randint(1, NY), rng.randint(1, NX)
        wins = []
        for _k in range(rng.randint(3, 6)):     # a grid of equally sized windows
            y, x = rng.randint(0, NY - h), rng.randint(0, NX - w)
            wins.append((slice(y, y + h), slice(x, x + w)))
        wins += [(slice(0, NY), slice(0, NX))] * 2 + [wins[0]]
        held = Held(R)
        got = []
        for win in wins:
            roi = (*[slice(None)] * a, *win, *[slice(None)] * len(trail)) if rng.random() < 0.5 or not (lead or trail) else win
            try:
                xx = asm.extract(fill, roi=roi) if (fill is not None or rng.random() < 0.5) else asm[roi]
            except Exception as e:  # pylint: disable=broad-except
                R.oracle(False, "assembler-raises", dict(case, win=str(win)), repr(e))
                continue
            got.append((win, held.hold(f"extract{win}", dict(case, win=str(win)), xx)))
        if lead or trail:                          # all planes, one after the other, as planes_yx suggests
            for plane in list(asm.planes_yx()):
                try:
                    xx = asm[plane] if fill is None else asm.extract(fill, roi=plane)
                except Exception as e:  # pylint: disable=broad-except
                    R.oracle(False, "assembler-raises", dict(case, plane=str(plane)), repr(e))
                    continue
                got.append((plane, held.hold(f"plane{plane}", dict(case, plane=str(plane)), xx)))
        for win, xx in got:
            if len(win) == 2:
                want = mosaic[(*[slice(None)] * a, *win)]
            else:
                want = mosaic[tuple(win)]
            g = xx.astype("float64")
            R.oracle(g.shape == want.shape and bool(np.array_equal(g, want, equal_nan=True)), "held-window-ne-mosaic",
                     dict(case, win=str(win)), "a window read earlier from the same assembler no longer equals the mosaic",
                     sig="asm-held")
            R.oracle(not any(np.shares_memory(xx, b) for b in blocks.values()), "result-aliases-input", dict(case, win=str(win)),
                     "extract result shares memory with an input block", sig="asm-alias", trivial=True)
        held.recheck()
        R.oracle(all(np.array_equal(blocks[k], blocks_before[k], equal_nan=True) for k in blocks), "input-mutated", case,
                 "input blocks were modified by extract", sig="asm-input", trivial=True)



# ------------------------------------------------------------------ mixed dtypes, lazy / faulting block mappings, two threads
NUM_DTYPES = ["bool", "int8", "uint8", "int16", "uint16", "int32", "uint32", "int64", "uint64",
              "float16", "float32", "float64", "complex64", "complex128"]


def _extreme_values(dt, shape, rng):
    """values that only survive in a dtype able to hold `dt` (extremes of the range, fractions, imaginary parts)"""
    dt = np.dtype(dt)
    n = int(np.prod(shape))
    if dt.kind == "b":
        vals = [True, False]
    elif dt.kind in "iu":
        ii = np.iinfo(dt)
        vals = [ii.max, ii.min, ii.max - 1, ii.min + 1, 1, ii.max // 2 + 1, 3]
    elif dt.kind == "f":
        fi = np.finfo(dt)
        vals = [float(fi.max), float(-fi.max), 1.5, -0.25, float(fi.tiny), 1 + float(fi.eps), 7.0]
    else:
        vals = [1 + 2j, -3.5j, 1e30 + 1j, 0.5 - 0.5j, 2.0]
    out = [vals[(k + rng.randint(0, 2)) % len(vals)] for k in range(n)]
    return np.array(out, dtype=dt).reshape(shape)


def assembler_dtypes(R: Run, BlockAssembler):
    """Blocks of different dtypes in one mosaic: every ordered pair of numpy numeric dtypes (and bool).  The result has
    to have numpy's common type of the blocks (np.result_type) and every cell the value of its block converted to it."""
    import itertools as it

    rng = R.rng
    for a, b in it.product(NUM_DTYPES, NUM_DTYPES):
        chy, chx = (2,), (2, 3)
        A, B = _extreme_values(a, (2, 2), rng), _extreme_values(b, (2, 3), rng)
        third = rng.choice(NUM_DTYPES) if rng.random() < 0.3 else None
        blocks = {(0, 0): A, (0, 1): B}
        if third:
            chy = (2, 1)
            blocks[(1, 1)] = _extreme_values(third, (1, 3), rng)
        case = {"dtypes": [a, b, third], "order": "as listed"}
        want_dt = np.result_type(*[v.dtype for v in blocks.values()])
        try:
            asm = BlockAssembler(blocks, (chy, chx))
            xx = asm.extract()
        except Exception as e:  # pylint: disable=broad-except
            R.oracle(False, "assembler-mixed-dtype-raises", case, f"{e!r}; numpy's common type is {want_dt}", sig="asm-dtype")
            continue
        ok = xx.dtype == want_dt and asm.dtype == want_dt
        oy = [0, 2, 3]
        ox = [0, 2, 5]
        with np.errstate(all="ignore"):
            for (iy, ix), blk in blocks.items():
                got = xx[oy[iy]:oy[iy + 1], ox[ix]:ox[ix + 1]]
                ok = ok and bool(np.array_equal(got, blk.astype(want_dt), equal_nan=True))
                # and the value itself survived wherever the common type can hold it exactly
                if want_dt.kind in "iub" and blk.dtype.kind in "iub":
                    ok = ok and [int(v) for v in got.reshape(-1)] == [int(v) for v in blk.reshape(-1)]
        R.oracle(ok, "assembler-mixed-dtype-wrong", case,
                 f"result dtype {xx.dtype} (assembler says {asm.dtype}), numpy common type {want_dt}; cells {xx.tolist()}",
                 sig=f"asm-dtype|{np.dtype(a).kind}{np.dtype(b).kind}")


from collections.abc import Mapping as _Mapping


def _grace(R):
    """how long a second thread may take for a tiny extract before it counts as blocked by the parked one"""
    return 2.0 if not _serialised(R) else 0.05


def _serialised(R) -> bool:
    return getattr(R, "_extract_serialised", 0) >= 2


def _note_serialised(R):
    """a second extract on the same assembler did not finish while the first one was parked (twice): the calls are
    serialised (e.g. by a lock) – nothing can interleave, which satisfies the property; results are still compared"""
    R._extract_serialised = getattr(R, "_extract_serialised", 0) + 1
    if R._extract_serialised == 2:
        R.notes.append("extract() calls on one BlockAssembler are serialised (a second thread waited while the first was "
                       "parked inside its block access): forced-interleaving stages skipped from here on, results compared")


def _wait_parked(thread, event, limit=10.0):
    """wait until `event` is set or the thread is gone (it may have failed before reaching the parking spot)"""
    t0 = time.time()
    while thread.is_alive() and not event.is_set() and time.time() - t0 < limit:
        event.wait(0.01)
    return event.is_set()


class _LazyBlocks(_Mapping):
    """a Mapping that produces a block when asked; one chosen access can fail once or wait for an event"""

    def __init__(self, blocks):
        self._blocks = blocks
        self.armed = False
        self.fail_at = None      # n-th access (after arming) raises OSError once
        self.pause_at = None     # n-th access (after arming) waits for `release` once
        self.n = 0
        import threading

        self.waiting, self.release = threading.Event(), threading.Event()

    def __getitem__(self, k):
        if k not in self._blocks:
            raise KeyError(k)
        if self.armed:
            self.n += 1
            if self.fail_at == self.n:
                self.fail_at = None
                raise OSError(f"transient read error at access {self.n} (tile {k})")
            if self.pause_at == self.n:
                self.pause_at = None
                self.waiting.set()
                self.release.wait(timeout=10)
        return self._blocks[k].copy()

    def __iter__(self):
        return iter(self._blocks)

    def __len__(self):
        return len(self._blocks)

    def keys(self):
        return self._blocks.keys()

    def items(self):
        for k in self._blocks:
            yield k, self[k]

    def values(self):
        for k in self._blocks:
            yield self[k]

    def __contains__(self, k):
        return k in self._blocks


def assembler_lazy_and_threads(R: Run, BlockAssembler):
    """(1) blocks behind a lazily loading Mapping with a transient fault at every possible access of the first extract:
    the retried extract must be the mosaic window.  (2) a second thread extracts while the first one is parked at every
    possible block access of its first extract: both must get the mosaic window."""
    import threading

    rng = R.rng
    for it in range(R.pick(12, 80)):
        ty, tx = rng.randint(1, 3), rng.randint(2, 3)
        chy = [rng.randint(1, 3) for _ in range(ty)]
        chx = [rng.randint(1, 4) for _ in range(tx)]
        NY, NX = sum(chy), sum(chx)
        lead = rng.choice([[], [2]])
        a = len(lead)
        keys = [(iy, ix) for iy in range(ty) for ix in range(tx) if rng.random() < 0.75] or [(0, 0)]
        blocks = {k: (cell_vals(100, k, lead, chy[k[0]], chx[k[1]], []) + 1).astype("int16") for k in keys}
        oy = np.concatenate([[0], np.cumsum(chy)]).astype(int)
        ox = np.concatenate([[0], np.cumsum(chx)]).astype(int)
        FILL = -9
        mosaic = np.full((*lead, NY, NX), FILL, dtype="int16")
        for k, b in blocks.items():
            mosaic[(*[slice(None)] * a, slice(oy[k[0]], oy[k[0] + 1]), slice(ox[k[1]], ox[k[1] + 1]))] = b
        case = {"chy": chy, "chx": chx, "keys": keys, "lead": lead}
        wins = [(slice(0, NY), slice(0, NX)), (slice(rng.randint(0, NY - 1), NY), slice(0, rng.randint(1, NX)))]

        def want(win):
            return mosaic[(*[slice(None)] * a, *win)]

        # (1) transient fault at the n-th block access of the first extract, then retry
        for n in range(1, len(keys) + 1):
            lazy = _LazyBlocks(blocks)
            try:
                asm = BlockAssembler(lazy, (tuple(chy), tuple(chx)), axis=a)
            except Exception as e:  # pylint: disable=broad-except
                R.oracle(False, "assembler-raises", case, repr(e))
                break
            lazy.armed, lazy.fail_at = True, n
            first = guarded(lambda: str(asm.extract(FILL, roi=wins[0]).shape))
            for win in wins:
                got = guarded(lambda: asm.extract(FILL, roi=win))
                ok = isinstance(got, np.ndarray) and got.shape == want(win).shape and bool(np.array_equal(got, want(win)))
                R.oracle(ok, "extract-after-fault-ne-mosaic", dict(case, fault_at_access=n, win=str(win)),
                         f"first extract: {first}; retried extract differs from the mosaic window "
                         f"({got if isinstance(got, str) else got.tolist()})", sig="asm-lazy")
        # (2) thread 1 parked at the n-th access of its first extract while thread 2 extracts
        for n in range(1, len(keys) + 1):
            if _serialised(R):
                break
            lazy = _LazyBlocks(blocks)
            try:
                asm = BlockAssembler(lazy, (tuple(chy), tuple(chx)), axis=a)
            except Exception:  # pylint: disable=broad-except
                break
            lazy.armed, lazy.pause_at = True, n
            out = {}

            def worker(name, win):
                out[name] = guarded(lambda: asm.extract(FILL, roi=win))

            t1 = threading.Thread(target=worker, args=("t1", wins[0]))
            t1.start()
            _wait_parked(t1, lazy.waiting)
            t2 = threading.Thread(target=worker, args=("t2", wins[1]))
            t2.start()
            t2.join(timeout=_grace(R))
            blocked = t2.is_alive() and lazy.waiting.is_set()
            lazy.release.set()
            t1.join(timeout=10)
            t2.join(timeout=10)
            if blocked:
                _note_serialised(R)
            for name, win in (("t1", wins[0]), ("t2", wins[1])):
                got = out.get(name, "ERR:no-result")
                ok = isinstance(got, np.ndarray) and got.shape == want(win).shape and bool(np.array_equal(got, want(win)))
                R.oracle(ok, "concurrent-extract-ne-mosaic", dict(case, parked_at_access=n, thread=name, win=str(win)),
                         f"thread {name} got {got if isinstance(got, str) else got.tolist()} instead of the mosaic window",
                         sig="asm-threads")



# ------------------------------------------------------------------ forced interleavings inside block slicing
class _Ctrl:
    """schedule controller: the chosen thread is parked at its n-th block slicing until released"""

    def __init__(self):
        import threading

        self.thread_name, self.park_at, self.n = None, None, 0
        self.parked, self.release = threading.Event(), threading.Event()


class _YieldingBlock(np.ndarray):
    """an ndarray whose slicing (`block[s_roi]` in extract) can hand control to other threads: what a lazy /
    memory-mapped / remote block does.  Index computation of extract has happened, the paste has not."""

    ctrl = None

    def __getitem__(self, item):
        import threading

        c = _YieldingBlock.ctrl
        if c is not None and threading.current_thread().name == c.thread_name:
            c.n += 1
            if c.n == c.park_at:
                c.parked.set()
                c.release.wait(timeout=10)
        return np.asarray(super().__getitem__(item))


def assembler_interleaved(R: Run, BlockAssembler):
    """N threads extract different windows from ONE assembler; thread A is parked inside the slicing of its n-th block
    (after its paste index was computed, before the paste) while threads B, C run their whole extract, for every n.
    Every result has to equal the window of the sequentially built mosaic."""
    import threading

    rng = R.rng
    for it in range(R.pick(25, 200)):
        ty, tx = rng.randint(1, 3), rng.randint(2, 4)
        chy = [rng.randint(1, 3) for _ in range(ty)]
        chx = [rng.randint(1, 4) for _ in range(tx)]
        NY, NX = sum(chy), sum(chx)
        lead = rng.choice([[], [2], []])
        trail = rng.choice([[], [2], []])
        a = len(lead)
        keys = [(iy, ix) for iy in range(ty) for ix in range(tx) if rng.random() < 0.8] or [(0, 0)]
        plain = {k: (cell_vals(100, k, lead, chy[k[0]], chx[k[1]], trail) + 1).astype("int16") for k in keys}
        blocks = {k: v.view(_YieldingBlock) for k, v in plain.items()}
        oy = np.concatenate([[0], np.cumsum(chy)]).astype(int)
        ox = np.concatenate([[0], np.cumsum(chx)]).astype(int)
        FILL = -7
        mosaic = np.full((*lead, NY, NX, *trail), FILL, dtype="int16")
        for k, b in plain.items():
            mosaic[(*[slice(None)] * a, slice(oy[k[0]], oy[k[0] + 1]), slice(ox[k[1]], ox[k[1] + 1]))] = b
        case = {"chy": chy, "chx": chx, "keys": keys, "lead": lead, "trail": trail}

        def rwin():
            y0, x0 = rng.randint(0, NY - 1), rng.randint(0, NX - 1)
            return (slice(y0, rng.randint(y0 + 1, NY)), slice(x0, rng.randint(x0 + 1, NX)))

        wins = {"A": (slice(0, NY), slice(0, NX)) if rng.random() < 0.5 else rwin(), "B": rwin(), "C": rwin()}

        def want(win):
            return mosaic[(*[slice(None)] * a, *win)]

        try:
            asm = BlockAssembler(blocks, (tuple(chy), tuple(chx)), axis=a)
        except Exception as e:  # pylint: disable=broad-except
            R.oracle(False, "assembler-raises", case, repr(e))
            continue
        for n in range(1, len(keys) + 1):
            if _serialised(R):
                break
            ctrl = _Ctrl()
            ctrl.thread_name, ctrl.park_at = f"A-{it}-{n}", n
            _YieldingBlock.ctrl = ctrl
            out = {}

            def worker(name):
                out[name] = guarded(lambda: asm.extract(FILL, roi=wins[name]))

            tA = threading.Thread(target=worker, args=("A",), name=ctrl.thread_name)
            tA.start()
            _wait_parked(tA, ctrl.parked)
            others, blocked = [], False
            for other in ("B", "C"):
                t_ = threading.Thread(target=worker, args=(other,), name=f"{other}-{it}-{n}")
                t_.start()
                t_.join(timeout=_grace(R))
                blocked = blocked or (t_.is_alive() and ctrl.parked.is_set())
                others.append(t_)
            ctrl.release.set()
            tA.join(timeout=10)
            for t_ in others:
                t_.join(timeout=10)
            _YieldingBlock.ctrl = None
            if blocked:
                _note_serialised(R)
            for name, win in wins.items():
                got = out.get(name, "ERR:no-result")
                ok = isinstance(got, np.ndarray) and got.shape == want(win).shape and bool(np.array_equal(got, want(win)))
                R.oracle(ok, "concurrent-extract-ne-mosaic",
                         dict(case, parked="A inside the slicing of its block no. %d" % n, thread=name, wins={k: str(v) for k, v in wins.items()}),
                         f"thread {name} got {got if isinstance(got, str) else got.tolist()} instead of {want(win).tolist()}",
                         sig="asm-interleaved")


# ------------------------------------------------------------------ one instance, a sequence of calls  vs  a fresh instance per call
def canon(o):
    """canonical, comparable text of any result of the tiling / assembling API"""
    if isinstance(o, str):
        return o
    if isinstance(o, np.ndarray):
        return f"array({o.dtype},{o.shape},{o.tolist()})"
    if isinstance(o, slice):
        return f"{o.start}:{o.stop}:{o.step}"
    if isinstance(o, range):
        return f"range({o.start},{o.stop})"
    if isinstance(o, dict):
        return "{" + ",".join(f"{canon(k)}={canon(v)}" for k, v in o.items()) + "}"
    if isinstance(o, (list, tuple)):
        return ("[" if isinstance(o, list) else "(") + ",".join(canon(v) for v in o) + ("]" if isinstance(o, list) else ")")
    if isinstance(o, (int, np.integer)):
        return str(int(o))
    if isinstance(o, (float, np.floating)):
        return frac_s(float(o)) if math.isfinite(o) else repr(float(o))
    cls = type(o).__name__
    if cls == "GeoboxTiles":
        return f"GeoboxTiles({canon(o.base)};{canon(o.roi)})"
    if cls == "GeoBox":
        return f"GeoBox({tuple(o.shape)};{aff_s(o.affine)};{o.crs})"
    if cls in ("Tiles", "VariableSizedTiles"):
        return f"{cls}(base={tuple(o.base.yx)},shape={tuple(o.shape.yx)},chunks={guarded(lambda: canon(o.chunks))})"
    if cls in ("Shape2d", "Index2d", "XY"):
        return f"{cls}{tuple(o.yx)}"
    if cls == "BoundingBox":
        return f"BBox({tuple(o.bbox)},{o.crs})"
    if hasattr(o, "__iter__"):
        return canon(list(o))
    return repr(o)


def respell(rng, arg):
    """the previous argument again: permuted, with duplicates, as a subset / superset, in another container type"""
    if isinstance(arg, (list, tuple)) and arg and isinstance(arg[0], (list, tuple)) and len(arg[0]) == 2:
        sel = [tuple(int(v) for v in p) for p in arg]
        how = rng.choice(["permute", "duplicate", "subset", "reverse", "tuple", "lists", "array", "same"])
        if how == "permute":
            sel = rng.sample(sel, len(sel))
        elif how == "duplicate":
            sel = sel + [rng.choice(sel)]
            rng.shuffle(sel)
        elif how == "subset" and len(sel) > 1:
            sel = rng.sample(sel, rng.randint(1, len(sel) - 1))
        elif how == "reverse":
            sel = sel[::-1]
        elif how == "tuple":
            return tuple(sel)
        elif how == "lists":
            return [list(p) for p in sel]
        elif how == "array":
            return np.asarray(sel)
        return sel
    return arg


def sequence_vs_fresh(R: Run, make, calls, case, tag):
    """Run `calls` (name, fn(obj)) one after the other on ONE instance, then each call alone on a fresh instance:
    the answers have to be the same (no state may leak from earlier calls)."""
    try:
        obj = make()
    except Exception as e:  # pylint: disable=broad-except
        R.oracle(False, "instance-raises", case, repr(e))
        return
    seq = [guarded(lambda: canon(fn(obj))) for _name, fn in calls]
    for i, (name, fn) in enumerate(calls):
        alone = guarded(lambda: canon(fn(make())))
        R.oracle(seq[i] == alone, "same-instance-call-differs-from-fresh-instance",
                 dict(case, call=name, position=i, earlier=[c[0] for c in calls[:i]][-6:]),
                 f"call #{i} {name}: on the instance that served the earlier calls -> {seq[i][:300]}; on a fresh instance -> {alone[:300]}",
                 sig=f"seq|{tag}|{name.split('(')[0]}", trivial=i == 0)


def stateful_sequences(R: Run, Rm, GeoBox, GeoboxTiles, BlockAssembler):
    from affine import Affine

    rng = R.rng
    for it in range(R.pick(120, 1200)):
        kind, sy, sx, _t = rnd_tiling2(R, Rm)
        chy, chx = chunks_of(kind, sy), chunks_of(kind, sx)
        Ty, Tx, NY, NX = len(chy), len(chx), sum(chy), sum(chx)
        if Ty == 0 or Tx == 0 or NY == 0 or NX == 0:
            continue
        A = Affine(rng.choice([1, 2, 0.5]), 0, rng.randint(-40, 40) / 4, 0, -rng.choice([1, 2, 0.5]), rng.randint(-40, 40) / 4)
        tshape = (sy[1], sx[1]) if kind == "r" else (tuple(sy), tuple(sx))

        def mk_t():
            return Rm.Tiles((NY, NX), tshape) if kind == "r" else Rm.VariableSizedTiles(tshape)

        def mk_g():
            return GeoboxTiles(GeoBox((NY, NX), A, "EPSG:3857"), tshape)

        def rsel():
            return [(rng.randint(0, Ty - 1), rng.randint(0, Tx - 1)) for _ in range(rng.randint(1, 4))]

        def rroi():
            a_, c_ = rng.randint(0, Ty - 1), rng.randint(0, Tx - 1)
            return (slice(a_, rng.randint(a_ + 1, Ty)), slice(c_, rng.randint(c_ + 1, Tx)))

        case = {"spec": [kind, list(sy), list(sx)], "A": aff_s(A)}
        # --- GeoboxTiles and the RoiTiles object behind it
        calls_g, calls_t = [], []
        sel = rsel()
        for _k in range(rng.randint(6, 12)):
            r = rng.random()
            if r < 0.45:
                sel = respell(rng, sel) if rng.random() < 0.7 else rsel()
                s_ = sel
                calls_g.append((f"clip({canon(s_)})", lambda g, s_=s_: g.clip(s_)))
                calls_t.append((f"clip_tiles({canon(s_)})", lambda t, s_=s_: Rm.clip_tiles(t, s_)))
            elif r < 0.6:
                roi = rroi()
                calls_g.append((f"crop[{canon(roi)}]", lambda g, roi=roi: g.crop[roi]))
                calls_t.append((f"crop({canon(roi)})", lambda t, roi=roi: t.crop(roi)))
            elif r < 0.75:
                idx = (rng.randint(-Ty, Ty - 1), rng.randint(-Tx, Tx - 1))
                calls_g.append((f"[{idx}]", lambda g, idx=idx: g[idx]))
                calls_g.append((f"roi[{idx}]", lambda g, idx=idx: g.roi[idx]))
                calls_g.append((f"chunk_shape({idx})", lambda g, idx=idx: g.chunk_shape(idx)))
                calls_t.append((f"[{idx}]", lambda t, idx=idx: t[idx]))
                calls_t.append((f"tile_shape({idx})", lambda t, idx=idx: t.tile_shape(idx)))
            elif r < 0.85:
                calls_g.append(("chunks", lambda g: g.chunks))
                calls_t.append(("chunks", lambda t: t.chunks))
            else:
                pix = (rng.randint(0, NY - 1), rng.randint(0, NX - 1))
                calls_t.append((f"locate({pix})", lambda t, pix=pix: t.locate(pix)))
                calls_g.append((f"pix_bbox", lambda g: g.pix_bbox((0, 0))))
        sequence_vs_fresh(R, mk_g, calls_g, case, "GeoboxTiles")
        sequence_vs_fresh(R, mk_t, calls_t, case, "Tiles" if kind == "r" else "VariableSizedTiles")
        # --- BlockAssembler
        if it % 3 == 0:
            lead = rng.choice([[], [2]])
            a = len(lead)
            keys = [(iy, ix) for iy in range(Ty) for ix in range(Tx) if rng.random() < 0.6] or [(0, 0)]
            blocks = {k: (cell_vals(100, k, lead, chy[k[0]], chx[k[1]], []) + 1).astype(rng.choice(["int16", "float32"])) for k in keys}

            def mk_a():
                return BlockAssembler({k: v.copy() for k, v in blocks.items()}, (tuple(chy), tuple(chx)), axis=a)

            calls_a = []
            for _k in range(rng.randint(4, 8)):
                y0, x0 = rng.randint(0, NY - 1), rng.randint(0, NX - 1)
                win = (slice(y0, rng.randint(y0 + 1, NY)), slice(x0, rng.randint(x0 + 1, NX)))
                fill = rng.choice([None, -1, 5])
                if rng.random() < 0.3 and keys:      # a window that is exactly one block
                    k0 = rng.choice(keys)
                    oy, ox = [0] + list(np.cumsum(chy)), [0] + list(np.cumsum(chx))
                    if chy[k0[0]] and chx[k0[1]]:
                        win = (slice(int(oy[k0[0]]), int(oy[k0[0] + 1])), slice(int(ox[k0[1]]), int(ox[k0[1] + 1])))
                calls_a.append((f"extract({fill},{canon(win)})", lambda o, win=win, fill=fill: o.extract(fill, roi=win)))
                if rng.random() < 0.3:
                    calls_a.append((f"[{canon(win)}]", lambda o, win=win: o[win]))
            calls_a.append(("planes_yx", lambda o: list(o.planes_yx())))
            calls_a.append(("shape,dtype", lambda o: (o.shape, str(o.dtype))))
            sequence_vs_fresh(R, mk_a, calls_a, dict(case, keys=keys, lead=lead), "BlockAssembler")



# ------------------------------------------------------------------ zero-size members: __getitem__ == crop == roi-based crop
def empty_members_stream(R: Run, Rm, GeoBox, GeoboxTiles):
    """Zero-length chunks, empty tile ranges (gbt[i:i, :]) and blocks of zero-size rows / columns are legitimate: every
    such index must be addressable and GeoboxTiles[idx], .crop[idx].base and base[.roi[idx]] must be the same GeoBox,
    namely the parent cropped to the region computed from the chunk tuples (two-sided, empty shapes included)."""
    from affine import Affine

    rng = R.rng
    specs = [("v", (5, 0, 15), (10, 20, 0)), ("v", (0, 2, 0), (3,)), ("v", (2, 0, 0, 1), (0, 1, 2)), ("r", (7, 3), (5, 2)),
             ("r", (4, 4), (6, 5)), ("v", (1, 1), (0, 0, 4))]
    for _ in range(R.pick(12, 120)):
        chy = [rng.choice([0, 0, 1, 2, 3]) for _ in range(rng.randint(1, 5))]
        chx = [rng.choice([0, 1, 2, 0, 4]) for _ in range(rng.randint(1, 5))]
        if sum(chy) and sum(chx):
            specs.append(("v", tuple(chy), tuple(chx)))
    for kind, sy, sx in specs:
        chy, chx = chunks_of(kind, sy), chunks_of(kind, sx)
        Ty, Tx, NY, NX = len(chy), len(chx), sum(chy), sum(chx)
        oy, ox = [0], [0]
        for c_ in chy:
            oy.append(oy[-1] + c_)
        for c_ in chx:
            ox.append(ox[-1] + c_)
        A = Affine(rng.choice([1, 2, 0.5]), 0, rng.randint(-40, 40) / 4, 0, -rng.choice([1, 2, 0.5]), rng.randint(-40, 40) / 4)
        tshape = (sy[1], sx[1]) if kind == "r" else (tuple(sy), tuple(sx))
        gbt = GeoboxTiles(GeoBox((NY, NX), A, "EPSG:3857"), tshape)
        # per-axis index expressions: every int, every range a:b with a <= b (a == b: empty range), open ends
        def axis_idx(T):
            out = list(range(T)) + [slice(a_, b_) for a_ in range(T + 1) for b_ in range(a_, T + 1)]
            return out + [slice(None), slice(None, 0), slice(T, None)]

        ys, xs = axis_idx(Ty), axis_idx(Tx)
        pairs = [(iy, ix) for iy in ys for ix in xs]
        if len(pairs) > R.pick(160, 600):
            pairs = rng.sample(pairs, R.pick(160, 600))

        def span(i, T, off, regular_n=None):
            a_, b_ = (i, i + 1) if isinstance(i, int) else norm_py(i, T)
            if kind == "r" and a_ >= T:     # regular tiles: a range starting past the last tile is out of range
                return None
            if a_ > T or b_ > T:
                return None
            return off[a_], off[b_]

        for iy, ix in pairs:
            sy_, sx_ = span(iy, Ty, oy), span(ix, Tx, ox)

            def gb_s(g):
                return f"{g.shape.y} {g.shape.x} {frac_s(g.affine.c)} {frac_s(g.affine.f)} {frac_s(g.affine.a)} {frac_s(g.affine.e)}"

            three = {
                "[]": guarded(lambda: gb_s(gbt[iy, ix])),
                "crop[]": guarded(lambda: gb_s(gbt.crop[iy, ix].base)),
                "base[roi[]]": guarded(lambda: gb_s(gbt.base[gbt.roi[iy, ix]])),
            }
            case = {"spec": [kind, list(sy), list(sx)], "A": aff_s(A), "idx": [enc(iy), enc(ix)]}
            R.oracle(len(set(three.values())) == 1, "gbt-getitem-crop-roi-disagree", case,
                     f"GeoboxTiles[idx], .crop[idx].base and base[.roi[idx]] differ: {three}", sig="empty|agree",
                     trivial=not (sy_ and sx_ and (sy_[0] == sy_[1] or sx_[0] == sx_[1])))
            if sy_ is not None and sx_ is not None:
                w0 = _apply(A, sx_[0], sy_[0])
                want = f"{sy_[1] - sy_[0]} {sx_[1] - sx_[0]} {frac_s(w0[0])} {frac_s(w0[1])} {frac_s(A.a)} {frac_s(A.e)}"
                R.oracle(three["[]"] == want, "gbt-tile-not-parent-crop", case,
                         f"GeoboxTiles[{enc(iy)}, {enc(ix)}] = {three['[]']}, the parent cropped to rows {sy_} cols {sx_} is {want}",
                         sig="empty|two-sided" + ("|zero-size" if sy_[0] == sy_[1] or sx_[0] == sx_[1] else ""))
        # clip to a block that contains zero-size rows / columns
        for _k in range(R.pick(6, 20)):
            sel = [(rng.randint(0, Ty - 1), rng.randint(0, Tx - 1)) for _ in range(rng.randint(1, 3))]
            a_, b_ = min(p_[0] for p_ in sel), max(p_[0] for p_ in sel) + 1
            c_, d_ = min(p_[1] for p_ in sel), max(p_[1] for p_ in sel) + 1
            w0 = _apply(A, ox[c_], oy[a_])
            want = f"{oy[b_] - oy[a_]} {ox[d_] - ox[c_]} {frac_s(w0[0])} {frac_s(w0[1])} {[(r - a_, c - c_) for r, c in sel]}"
            got = guarded(lambda: (lambda g, new: f"{g.base.shape.y} {g.base.shape.x} {frac_s(g.base.affine.c)} "
                                   f"{frac_s(g.base.affine.f)} {[tuple(int(v) for v in p_) for p_ in new]}")(*gbt.clip(sel)))
            R.oracle(got == want, "gbt-clip-block-wrong", {"spec": [kind, list(sy), list(sx)], "A": aff_s(A), "sel": sel},
                     f"clip({sel}) = {got}, want {want}", sig="empty|clip")


# ------------------------------------------------------------------ every spelling of a window, every block rank
def normroi_errors(R: Run, BlockAssembler):
    """`_norm_roi` on tuples of every length (shorter than the rank, 2, rank, longer -> IndexError) and ints out of range"""
    rng = R.rng
    for lead, trail in (([], []), ([2], []), ([], [3]), ([1], [2]), ([2, 3], [1])):
        a = len(lead)
        blocks = {(0, 0): np.zeros((*lead, 3, 4, *trail), dtype="uint8")}
        asm = BlockAssembler(blocks, ((3,), (4,)), axis=a)
        shape = (*lead, 3, 4, *trail)
        for _k in range(R.pick(40, 200)):
            L = rng.randint(0, len(shape) + 2)
            roi = tuple(rng.choice([rng.randint(-5, 5), slice(rng.choice([None, 0, 1, -1]), rng.choice([None, 1, 3, -1, 6]))]) for _ in range(L))
            rtok = "t=" + list_s([enc(v) for v in roi])
            nr = norm_roi_of(R, asm)
            if nr is None:
                continue
            R.corr(f"c04 normroi {ints(shape)} {a} {rtok}",
                   lambda: (lambda ws, sq: f"{list_s([ns(w) for w in ws])} {ints(sq)}")(*nr(roi)), sig=f"normroi|len{L}")


def window_spellings(R: Run, BlockAssembler):
    """extract(roi=w) / assembler[w] for each of Y and X given as int, negative int, slice, open slice; the window as
    2-tuple, full-rank tuple (extra axes as slices or ints), planes_yx()-style roi, 1-tuple, bare index or None; blocks
    of rank 2 and with leading / trailing axes of length 1 and > 1.  Reference: the numpy mosaic indexed with the same
    window, Y / X ints kept as length-1 axes (the library's documented choice), ints on other axes squeezed by numpy;
    values and the exact shape must agree."""
    rng = R.rng
    ranks = [([], []), ([1], []), ([3], []), ([], [2]), ([], [1]), ([1], [2]), ([2], [1]), ([1, 2], []), ([2], [3])]
    for it in range(R.pick(70, 700)):
        lead, trail = ranks[it % len(ranks)]
        a = len(lead)
        ty, tx = rng.randint(1, 3), rng.randint(1, 3)
        chy = [rng.choice([1, 2, 3, 0, 4]) for _ in range(ty)]
        chx = [rng.choice([1, 2, 5, 0, 3]) for _ in range(tx)]
        NY, NX = sum(chy), sum(chx)
        if NY == 0 or NX == 0:
            continue
        keys = [(iy, ix) for iy in range(ty) for ix in range(tx) if rng.random() < 0.7] or [(0, 0)]
        blocks = {k: cell_vals(100, k, lead, chy[k[0]], chx[k[1]], trail).astype("int16") for k in keys}
        oy = np.concatenate([[0], np.cumsum(chy)]).astype(int)
        ox = np.concatenate([[0], np.cumsum(chx)]).astype(int)
        FILL = -5
        mosaic = np.full((*lead, NY, NX, *trail), FILL, dtype="int16")
        for k, b in blocks.items():
            mosaic[(*[slice(None)] * a, slice(oy[k[0]], oy[k[0] + 1]), slice(ox[k[1]], ox[k[1] + 1]))] = b
        try:
            asm = BlockAssembler(blocks, (tuple(chy), tuple(chx)), axis=a)
        except Exception as e:  # pylint: disable=broad-except
            R.oracle(False, "assembler-raises", {"chy": chy, "chx": chx, "lead": lead, "trail": trail}, repr(e))
            continue
        shape = (*lead, NY, NX, *trail)

        def one_axis(n, yx):
            r = rng.random()
            if r < 0.3:
                return rng.randint(0, n - 1)
            if r < 0.45:
                return rng.randint(-n, -1)
            if r < 0.6:
                return slice(None)
            a_ = rng.randint(0, n - 1)
            b_ = rng.randint(a_ + (1 if not yx or rng.random() < 0.8 else 0), n)
            return slice(rng.choice([None, a_]) if a_ == 0 else a_, rng.choice([None, b_]) if b_ == n else b_)

        planes = list(asm.planes_yx())
        for _k in range(R.pick(8, 12)):
            wy, wx = one_axis(NY, True), one_axis(NX, True)
            form = rng.choice(["2-tuple", "2-tuple", "full", "full", "planes", "none", "1-tuple", "bare"])
            if form == "2-tuple":
                roi = (wy, wx)
                full = [slice(None)] * a + [wy, wx] + [slice(None)] * len(trail)
            elif form == "full":
                full = [one_axis(n, False) for n in lead] + [wy, wx] + [one_axis(n, False) for n in trail]
                roi = tuple(full)
            elif form == "planes":
                p_ = list(rng.choice(planes))
                p_[a], p_[a + 1] = wy, wx
                roi, full = tuple(p_), p_
            elif form == "none":
                roi, full = None, [slice(None)] * len(shape)
            else:
                first = one_axis(shape[0], a == 0)
                roi = (first,) if form == "1-tuple" else first
                full = [first] + [slice(None)] * (len(shape) - 1)
                if len(shape) == 2 and form == "1-tuple":
                    continue  # a 1-tuple on a 2-D assembler is read as ... two missing axes: same as below, keep simple
            # reference index: Y / X ints stay as length-1 axes
            ref = []
            for ax_i, (ix_, n) in enumerate(zip(full, shape)):
                if ax_i in (a, a + 1) and isinstance(ix_, int):
                    j = n + ix_ if ix_ < 0 else ix_
                    ref.append(slice(j, j + 1))
                else:
                    ref.append(ix_)
            want = mosaic[tuple(ref)]
            case = {"chy": chy, "chx": chx, "keys": keys, "lead": lead, "trail": trail, "form": form,
                    "roi": "None" if roi is None else [enc(v) for v in (roi if isinstance(roi, tuple) else (roi,))]}
            # model correspondence: `_norm_roi` itself, and extract for this spelling (default fill so that fill == N)
            rtok = "N" if roi is None else ("t=" + list_s([enc(v) for v in roi]) if isinstance(roi, tuple) else "1=" + enc(roi))
            nr = norm_roi_of(R, asm)
            if nr is not None:
                R.corr(f"c04 normroi {ints(shape)} {a} {rtok}",
                       lambda: (lambda ws, sq: f"{list_s([ns(w) for w in ws])} {ints(sq)}")(*nr(roi)), sig=f"normroi|{form}")
            R.corr(f"c04 asmnd {ints(chy)} {ints(chx)} {list_s([f'{k[0]};{k[1]}' for k in keys])} {ints(lead)} {ints(trail)} {rtok} 100",
                   lambda: (lambda xx: f"{ints(xx.shape)} {canon_cells(xx)}")(asm.extract(roi=roi)), sig=f"asmnd|{form}")
            for how, fn in (("extract", lambda: asm.extract(FILL, roi=roi)), ("[]", lambda: asm[roi] if roi is not None else asm.extract())):
                if how == "[]" and rng.random() < 0.5:
                    continue
                got = guarded(fn)
                if how == "[]" and isinstance(got, np.ndarray):
                    got = np.where(got == 0, FILL, got) if False else got
                    w2 = np.where(want == FILL, 0, want)      # default fill of an int16 mosaic is 0
                else:
                    w2 = want
                ok = isinstance(got, np.ndarray) and got.shape == w2.shape and bool(np.array_equal(got, w2))
                R.oracle(ok, "assemble-window-spelling-wrong", dict(case, call=how),
                         f"{how}: {'shape ' + str(got.shape) if isinstance(got, np.ndarray) else got}, numpy mosaic gives shape {w2.shape}"
                         + (f"; cells {got.tolist()} vs {w2.tolist()}" if isinstance(got, np.ndarray) and got.shape == w2.shape else ""),
                         sig=f"win|{form}|a{a}t{len(trail)}")


# ------------------------------------------------------------------ entry points
def huge_stream(R: Run, Rm):
    """Tiles.__init__ used to divide in doubles (`int(math.ceil(float(N) / n))`): sizes around and far beyond
    2**53, judged with exact integers and compared with the model (exact ceil division)."""
    rng = R.rng
    anchors = [2**31, 2**32, 2**52, 2**53, 2**53 + 2, 2**62, 2**63, 2**64, 2**100, 10**18 + 9, 3 * 2**60 + 1]
    for it in range(R.pick(1500, 15000)):
        r = rng.random()
        if r < 0.35:
            N = rng.randint(1, 2 ** rng.randint(8, 52))
        elif r < 0.8:
            N = rng.choice(anchors) + rng.randint(-3, 3)
        else:
            N = rng.randint(2**53, 2**120)
        n = rng.choice([1, 2, 3, 7, 256, 512, 1000, 2**31, 2**53 + 1, rng.randint(1, max(1, N)), max(1, N - 1), N, N + 1,
                        max(1, N // 2), max(1, N // 2 + 1), max(1, N // 3)])
        axis = it % 2
        want = -((-N) // n)
        case = {"kind": "Tiles", "N": N, "n": n, "axis": axis}
        try:
            ax = Ax(Rm, "r", (N, n), axis)
            t = ax.t
            T = int(ax.pick(t.shape.yx))
        except Exception as e:  # pylint: disable=broad-except
            R.oracle(False, "tiles-raises", case, repr(e))
            continue
        R.corr(f"c04 t count {N} {n}", lambda: str(T), sig="t-count|huge" if N >= 2**53 else "t-count|large")
        ok = R.oracle(T == want, "tiles-count-not-ceil", case, f"shape {T} want {want}")
        if not ok:
            continue
        for i in (-1, T - 1, 0, T, -T, -T - 1, rng.randint(0, T - 1)):
            R.corr(f"c04 t get {N} {n} {enc(i)}", lambda: ns(ax.pick(t[ax.ix(i)])), sig="t-get|huge")
            R.corr(f"c04 t shape {N} {n} {i}", lambda: str(ax.pick(t.tile_shape(ax.ix(i)).yx)), sig="t-shape|huge")
        for y in (0, N - 1, N, rng.randint(0, N - 1), (T - 1) * n, max(0, (T - 1) * n - 1)):
            R.corr(f"c04 t locate {N} {n} {y}", lambda: str(ax.pick(t.locate(ax.ix(y)))), sig="t-locate|huge")
        last = guarded(lambda: ns(ax.pick(t[ax.ix(T - 1)])))
        R.oracle(last == f"{(T - 1) * n}:{N}" and guarded(lambda: str(ax.pick(t.tile_shape(ax.ix(-1)).yx))) == str(N - (T - 1) * n)
                 and guarded(lambda: str(ax.pick(t.locate(ax.ix(N - 1))))) == str(T - 1),
                 "tiles-last-tile-large", case, f"last tile {last}")
        y = rng.randint(0, N - 1)
        R.oracle(guarded(lambda: str(ax.pick(t.locate(ax.ix(y))))) == str(y // n), "tiles-locate-not-inverse", dict(case, y=y),
                 "locate of a huge pixel")
        if it % 10 == 0 and T < 2000:
            R.corr(f"c04 t chunks {N} {n}", lambda: ints(ax.pick(t.chunks)), sig="t-chunks|huge")


def int32_edge_stream(R: Run, Rm):
    """VariableSizedTiles keeps int32 offsets: chunk tuples whose sum is just below 2**31."""
    rng = R.rng
    M = 2**31 - 1
    tuples = [(M,), (2**30, 2**30 - 1), (1, M - 1), (M - 1, 1), (2**30 - 1, 1, 2**30 - 1), (0, M), (M, 0),
              (2**29,) * 3 + (2**29 - 1,), (7, 0, M - 7)]
    for _ in range(R.pick(10, 100)):
        k = rng.randint(2, 6)
        cuts = sorted(rng.randint(0, M) for _ in range(k - 1))
        tuples.append(tuple(b - a for a, b in zip([0] + cuts, cuts + [M - rng.randint(0, 2)])))
    for ch in tuples:
        if sum(ch) > M or min(ch) < 0:
            continue
        for axis in (0, 1):
            ax = Ax(Rm, "v", ch, axis)
            t = ax.t
            T, N = len(ch), sum(ch)
            L = ints(ch)
            cum = [0]
            for c in ch:
                cum.append(cum[-1] + c)
            R.corr(f"c04 v info {L}",
                   lambda: f"{ax.pick(t.shape.yx)} {ax.pick(t.base.yx)} {ints(ax.pick(t.chunks))} {ints(offsets_of(t, axis))}",
                   sig="v-info|int32-edge")
            case = {"kind": "VariableSizedTiles", "chunks": list(ch), "axis": axis}
            R.oracle(guarded(lambda: str(int(ax.pick(t.base.yx)))) == str(N), "vtiles-base-ne-sum", case, "")
            for i in range(-T - 1, T + 1):
                R.corr(f"c04 v get {L} {enc(i)}", lambda: ns(ax.pick(t[ax.ix(i)])), sig="v-get|int32-edge")
                R.corr(f"c04 v shape {L} {i}", lambda: str(ax.pick(t.tile_shape(ax.ix(i)).yx)), sig="v-shape|int32-edge")
            ys = {0, N - 1, N, N + 1, 2**31, 2**31 - 1, 2**32 + 5, -1}
            for c in cum:
                ys |= {c - 1, c, c + 1}
            for y in sorted(ys):
                got = R.corr(f"c04 v locate {L} {y}", lambda: str(ax.pick(t.locate(ax.ix(y)))), sig="v-locate|int32-edge")
                if 0 <= y < N:
                    want = max(i for i in range(T) if cum[i] <= y and cum[i + 1] > y)
                    R.oracle(got == str(want), "vtiles-locate-not-inverse", dict(case, y=y), f"locate={got} want {want}")
                else:
                    R.oracle(got == "ERR:IndexError", "vtiles-locate-out-of-range", dict(case, y=y), f"locate={got}")


def run(R: Run):
    Rm, GeoBox, GeoboxTiles, BlockAssembler = _import()
    rng = R.rng
    spec_validation(R)

    NMAX, nMAX = 12, 14
    for N in range(0, NMAX + 1):
        for n in range(1, nMAX + 1):
            regular_case(R, Rm, N, n, axis=(N + n) % 2)
    for N in (0, 3, 5):
        for n in (0, -1, -2):
            regular_case(R, Rm, N, n, axis=0, full=False)
    for N in (-1, -3):
        regular_case(R, Rm, N, 2, axis=1, full=False)
    for _ in range(R.pick(30, 300)):
        N = rng.randint(13, 400)
        regular_case(R, Rm, N, rng.randint(1, N + 5), axis=rng.randint(0, 1), full=False)

    # variable tiles: every composition of N <= 7, then zero-length chunks sprinkled in
    for N in range(0, 8):
        for ch in compositions(N):
            variable_case(R, Rm, ch, axis=(N + len(ch)) % 2)
    zs = [(0,), (0, 0), (0, 3), (3, 0), (2, 0, 3), (0, 0, 1), (1, 0, 0), (0, 1, 0, 2, 0)]
    for _ in range(R.pick(25, 250)):
        base = list(rng.choice(list(compositions(rng.randint(1, 6)))))
        for _k in range(rng.randint(1, 3)):
            base.insert(rng.randint(0, len(base)), 0)
        zs.append(tuple(base))
    for ch in zs:
        variable_case(R, Rm, ch, axis=len(ch) % 2)
    for _ in range(R.pick(40, 400)):
        k = rng.randint(1, 30)
        big = rng.random() < 0.5
        ch = [rng.randint(0, 2 ** 31 // (k + 1) if big else 600) for _ in range(k)]
        variable_case(R, Rm, ch, axis=rng.randint(0, 1), full=False)
    # int32 wrap of the cumulative sum (outside the theorems' hypothesis; model == code all the same)
    for ch in ([2 ** 30, 2 ** 30], [2 ** 31 - 1, 1], [2 ** 31 - 1, 2 ** 31 - 1, 5], [2 ** 30, 2 ** 30, 2 ** 30, 2 ** 30, 7]):
        variable_case(R, Rm, ch, axis=0, full=False)

    import traceback

    def stream(fn, *args):
        """an exception of the real code escaping a stream is reported (with the place) and the other streams still run"""
        try:
            fn(*args)
        except Exception as e:  # pylint: disable=broad-except
            tb = traceback.extract_tb(e.__traceback__)
            where = [f"{f.filename.split('/')[-1]}:{f.lineno} {f.name}" for f in tb if "/harness/" not in f.filename][-3:]
            R.oracle(False, "unexpected-exception", {"stream": fn.__name__, "exception": repr(e)[:200], "raised_in": where,
                                                     "called_from": [f"{f.lineno} {f.line}" for f in tb if "/harness/" in f.filename][-1:]},
                     f"{fn.__name__}: the real code raised {e!r}", sig="unexpected-exception")

    stream(lift_and_geobox, R, Rm, GeoBox, GeoboxTiles)
    stream(empty_members_stream, R, Rm, GeoBox, GeoboxTiles)
    stream(assembler, R, BlockAssembler)
    stream(window_spellings, R, BlockAssembler)
    stream(normroi_errors, R, BlockAssembler)
    stream(assembler_held, R, BlockAssembler)
    stream(assembler_dtypes, R, BlockAssembler)
    stream(assembler_lazy_and_threads, R, BlockAssembler)
    stream(assembler_interleaved, R, BlockAssembler)
    stream(stateful_sequences, R, Rm, GeoBox, GeoboxTiles, BlockAssembler)
    stream(index_types_stream, R, Rm, GeoBox, GeoboxTiles)
    from .c04_npidx import npidx_stream

    stream(npidx_stream, R, Rm, GeoBox, GeoboxTiles, BlockAssembler)
    from .c04_dtype import dtype_stream

    stream(dtype_stream, R, BlockAssembler)
    stream(huge_stream, R, Rm)
    stream(int32_edge_stream, R, Rm)
    stream(args_stream, R, Rm, GeoBox, GeoboxTiles, BlockAssembler)

    R.searchers.append(search_harder)
    R.exhaustive = False
    R.assumptions.append("Spec/NpArray (numpy searchsorted / int indexing / tuple slicing / copyto between equal-length "
                         "slices) is validated against numpy on every run")
    R.assumptions.append("sum(chunks) < 2^31 for VariableSizedTiles (int32 offsets); wrap-around itself is modelled and compared")


def search_harder(R: Run, mismatches):
    """After a broken proof / correspondence without an oracle failure: evaluate the property
    oracles on a wider domain around the generator's one."""
    Rm, GeoBox, GeoboxTiles, BlockAssembler = _import()
    before = len(R.oracle_failures)
    for N in range(0, 41):
        for n in range(1, 45):
            try:
                ax = Ax(Rm, "r", (N, n), 0)
                t = ax.t
                check_axis_partition(
                    R, "tiles", {"kind": "Tiles", "N": N, "n": n, "axis": 0}, int(t.shape.y), N,
                    get=lambda i: (lambda s: (s.start, s.stop))(t[i, 0][0]),
                    shape=lambda i: t.tile_shape((i, 0)).y,
                    chunks=lambda: list(t.chunks[0]),
                    locate=lambda y: t.locate((y, 0))[0])
            except Exception as e:  # pylint: disable=broad-except
                R.oracle(False, "tiles-raises", {"kind": "Tiles", "N": N, "n": n, "axis": 0}, repr(e))
            if len(R.oracle_failures) > before:
                return R.oracle_failures[before]
    for N in range(8, 11):
        for ch in compositions(N):
            try:
                variable_case(R, Rm, ch, 0, full=True)
            except Exception as e:  # pylint: disable=broad-except
                R.oracle(False, "vtiles-raises", {"kind": "VariableSizedTiles", "chunks": list(ch), "axis": 0}, repr(e))
            if len(R.oracle_failures) > before:
                return R.oracle_failures[before]
    return None


def replay(R: Run, rec) -> int:
    Rm, GeoBox, GeoboxTiles, BlockAssembler = _import()
    case = rec.get("case") or {}
    key = rec.get("key", "")
    print("replay key:", key, "case:", case)
    R2 = Run("C04", "quick", rec.get("seed", 0))
    if "line" in case and key.startswith("assemble"):
        toks = case["line"].split(" ")
        print("model:", run_driver("C04", [case["line"]]))

        def pl(s, f=int):
            s = s[1:-1]
            return [f(x) for x in s.split(",")] if s else []

        def dec(tok):
            p = tok.split(":")
            if p[0] == "i":
                return int(p[1])
            return slice(None if p[1] == "N" else int(p[1]), None if p[2] == "N" else int(p[2]))

        chy, chx = pl(toks[2]), pl(toks[3])
        keys = pl(toks[4], lambda x: tuple(int(v) for v in x.split(";")))
        lead, trail = pl(toks[5]), pl(toks[6])
        win = (pl(toks[7], dec), dec(toks[8]), dec(toks[9]), pl(toks[10], dec))
        asm_case(R2, BlockAssembler, chy, chx, keys, lead, trail, case["dtype"], win, case["two_tuple"],
                 case["fill_explicit"])
    elif case.get("kind") == "Tiles":
        regular_case(R2, Rm, case["N"], case["n"], case.get("axis", 0))
        if key == "tiles-count-not-ceil":
            t = Rm.Tiles((case["N"], 1), (case["n"], 1))
            print("shape", t.shape, "want", -((-case["N"]) // case["n"]))
            R2.oracle(t.shape.y == -((-case["N"]) // case["n"]), key, case, "")
    elif case.get("kind") == "VariableSizedTiles":
        variable_case(R2, Rm, case["chunks"], case.get("axis", 0))
    else:
        print("no structured replay for this record; re-running the generator")
        run(R2)
    bad = [f for f in R2.oracle_failures if f["key"] == key] or R2.oracle_failures
    for f in bad[:5]:
        print("FAILS:", f["key"], f["case"], f["what"])
    return 1 if bad else 0
