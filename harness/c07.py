"""C07 — geometry reprojection and densification are faithful."""
from __future__ import annotations

import itertools
import math
import signal
import warnings
from fractions import Fraction
from typing import Any, Dict, List, Optional, Tuple

from .common import Run, frac_s, run_driver

META = {
    "claimed": True,
    "text": "Lean 4 theorems over a hand model of densify / Geometry.segmented / Geometry.to_crs / the transformer's NaN "
    "harmonisation, with coordinates in an arbitrary linear ordered field (so also over the reals) and shapely's segment "
    "length as a witness (len^2 = |p2-p1|^2): no output edge longer than the resolution (every direction and position), "
    "all input vertices retained in order with first/last kept, added vertices strictly inside their edge, edge length "
    "and ring area (shoelace) preserved, geometry type and ring/part structure preserved by segmented for every kind, "
    "to_crs = identity on equal CRS / error without CRS / proj applied vertex by vertex to the optionally densified "
    "geometry for an arbitrary proj.  Second part (Model/C07Fix): to_crs with EVERY option (wrapdateline x geographic target x "
    "resolution x check_and_fix): _multigeom and the Multi* branch of clip_lon180 (type / part structure kept for every kind, "
    "every GeometryCollection make-up included; as found it failed on empty Multi*: _cex + repair), chop dispatch, "
    "Geometry.filter / dropna (only accepted vertices survive, none invented, type kept; shapely's ring construction as "
    "validated reference semantics), maybe_fix, lonlat_bounds (entry dispatch, safe / quick wrap rule: sorted, never wider, "
    "ends are input longitudes up to a turn), mid_longitude, Geometry.geojson with its collection recursion (every member "
    "rendered with the same resolution / wrapdateline; over the reals every rendered member is the projection of a geometry "
    "without an edge longer than the resolution), projected_lon (sampled meridian, failed points dropped, < 2 points = empty line), "
    "chop_along_antimeridian (no CRS refused, miss = identity, hit = multigeom of the pieces; chopped geometries are driven through "
    "the model with shapely's intersects / split captured on the real run), _geojson_to_shapely (Feature / FeatureCollection of "
    "0, 1, n features / plain geometry / no type), densify of an empty coordinate list (fix3-C07).  Tied to /repo by an exact correspondence on dyadic inputs (vertex lists, "
    "loop counts, all geometry kinds, every option combination with a stand-in exact projection that also fails like pyproj "
    "does, public entry points Geometry.filter / to_crs / geojson / lonlat_bounds / mid_longitude / multigeom / clip_lon180) "
    "and by oracles on real outputs (max edge length, retention, collinearity, area/length, vertex-by-vertex equality with a "
    "fresh pyproj Transformer for every kind and option combination, per-member densification of geojson, there-and-back error).",
    "note": "Trusted: Lean kernel + {propext, Classical.choice, Quot.sound}; shapely length/interpolate contract (EdgeOk), shapely "
    "is_valid / buffer(0) / intersects / split / centroid / simplify and pyproj numerics are parameters (is_valid is observed on the "
    "real run and handed to the model; round-trip precision is sampled, not proved); IEEE rounding not modelled; the model follows "
    "/repo main incl. ee68993 (clip_lon180 on empty Multi*), the harness probes which variant the tree has.  Known finding until fix3-C07 (1916e34) is merged: "
    "densify([]) is an IndexError, so segmented / to_crs(resolution) / geojson(resolution) fail on geometries with an empty member "
    "(key densify-raises-on-empty-geometry; the model follows the repaired code, the harness probes the tree).  As found and modelled, not repaired (outside the valid areas the "
    "property quantifies over): Geometry.filter / dropna / check_and_fix raise ValueError when only 1-2 vertices of a polygon shell or "
    "ring survive and GEOSException when the shell is gone but a hole survives (theorem filter_few_left_raises).  NOT mirrored in the "
    "Lean model (inventory of the anchor files): geom.py — the float32 rounding of projected_lon's arange (exact stream uses dyadic steps), shapely's "
    "intersects / split themselves (parameters hit / split, observed on the real run), force_2d (Z dropping), "
    "_auto_resolution's sqrt(area) (witness s in autoResOf), Geometry.simplify / explore, shapely's interpolate/length beyond the "
    "EdgeOk contract; crs.py — _make_crs_transform's id()-keyed cache and _crs_cache (histories are oracle-only: churn, always_xy), "
    "the scalar / tuple branch of transformer_to_crs (no harmonisation there: exercised through the stand-in projection that fails in "
    "one coordinate), crs_units_per_degree, CRS.utm/_pick_best_crs, valid_region.",
    "technique": "Lean 4 proof over hand model + differential correspondence with real code",
    "design_ref": "DESIGN.md §4 C07",
}

TIME_LIMIT = 1.0  # seconds for one real call (only a non-terminating densify ever gets near it)
_TIMEOUTS = [0]   # after a few genuine hangs the limit drops so that a broken tree is still checked quickly


class Timeout(Exception):
    pass


class time_limit:
    def __init__(self, secs: float = TIME_LIMIT, risky: bool = False):
        self.secs = secs
        self.risky = risky   # a call that can only hang if the densify loop is broken (resolution <= 0 / auto)

    def _h(self, *_):
        raise Timeout()

    def __enter__(self):
        if self.risky and _TIMEOUTS[0] >= 12:
            # the hang has been demonstrated a dozen times already; do not pay for it again.  (Only reached on a tree
            # whose densify loop does not terminate; callers treat Timeout as "not judged" apart from the hang itself.)
            raise Timeout()
        self.old = signal.signal(signal.SIGALRM, self._h)
        signal.setitimer(signal.ITIMER_REAL, self.secs if _TIMEOUTS[0] < 3 else min(self.secs, 0.25))

    def __exit__(self, et, ev, tb):
        signal.setitimer(signal.ITIMER_REAL, 0)
        signal.signal(signal.SIGALRM, self.old)
        if et is Timeout:
            _TIMEOUTS[0] += 1
        return False


def err_s(e: BaseException) -> str:
    if isinstance(e, Timeout):
        return "ERR:Timeout"
    for t, s in ((IndexError, "IndexError"), (AssertionError, "AssertionError"), (ValueError, "ValueError"),
                 (TypeError, "TypeError")):
        if isinstance(e, t):
            return "ERR:" + s
    return "ERR:" + type(e).__name__


def _mods():
    import odc.geo.crs as crsmod
    import odc.geo.geom as gmod

    return gmod, crsmod


# --------------------------------------------------------------------------- encoding
def pt_s(p) -> str:
    return f"{frac_s(p[0])};{frac_s(p[1])}"


def pts_s(ps) -> str:
    return "[" + ",".join(pt_s(p) for p in ps) + "]"


def enc_geom(g) -> str:
    """shapely geometry -> token stream of the Lean driver"""
    t = g.geom_type
    if t == "Point":
        return "P " + pt_s(g.coords[0])
    if t == "MultiPoint":
        return "MP " + pts_s([q.coords[0] for q in g.geoms])
    if t == "LineString":
        return "L " + pts_s(g.coords)
    if t == "LinearRing":
        return "R " + pts_s(g.coords)
    if t == "Polygon":
        return " ".join([f"PG {len(g.interiors)}", pts_s(g.exterior.coords)] + [pts_s(i.coords) for i in g.interiors])
    tag = {"MultiLineString": "ML", "MultiPolygon": "MG", "GeometryCollection": "GC"}[t]
    return " ".join([f"{tag} {len(g.geoms)}"] + [enc_geom(x) for x in g.geoms])


def rings_of(g) -> List[List[Tuple[float, float]]]:
    t = g.geom_type
    if t == "Point":
        return [list(g.coords)]
    if t == "MultiPoint":
        return [list(q.coords) for q in g.geoms]
    if t in ("LineString", "LinearRing"):
        return [list(g.coords)]
    if t == "Polygon":
        return [list(g.exterior.coords)] + [list(i.coords) for i in g.interiors]
    out = []
    for x in g.geoms:
        out += rings_of(x)
    return out


def skel_of(g):
    t = g.geom_type
    if t == "MultiPoint":
        return (t, len(g.geoms))
    if t == "Polygon":
        return (t, len(g.interiors))
    if hasattr(g, "geoms"):
        return (t, tuple(skel_of(x) for x in g.geoms))
    return (t,)


# --------------------------------------------------------------------------- exact helpers
def F(x) -> Fraction:
    return Fraction(x)


def d2(p, q) -> Fraction:
    return (F(p[0]) - F(q[0])) ** 2 + (F(p[1]) - F(q[1])) ** 2


def rat_sqrt(q: Fraction) -> Optional[Fraction]:
    if q < 0:
        return None
    n, d = q.numerator, q.denominator
    sn, sd = math.isqrt(n), math.isqrt(d)
    if sn * sn == n and sd * sd == d:
        return Fraction(sn, sd)
    return None


def is_dyadic(q: Fraction) -> bool:
    d = q.denominator
    return d & (d - 1) == 0


def edge_class(p, q, r: Fraction) -> str:
    """short | safe (float computation exact) | rational (exact length, rounding possible) | irrational"""
    D2 = d2(p, q)
    if D2 < r * r:
        return "short"
    L = rat_sqrt(D2)
    if L is None:
        return "irrational"
    if L == 0:
        return "short"
    return "safe" if is_dyadic(r / L) else "rational"


def classify(coords, r: Fraction) -> str:
    cls = {edge_class(p, q, r) for p, q in zip(coords[:-1], coords[1:])}
    if "irrational" in cls:
        return "irrational"
    if "rational" in cls:
        return "rational"
    return "safe"


def counts_of(coords_in, coords_out) -> Optional[List[int]]:
    """number of vertices inserted per input edge (None if the input is not a subsequence).
    A vertex inserted exactly at the end point of its edge (binary64 can accumulate d = k*r to one ulp below the
    length) is counted with that edge, not with the next one."""
    out = []
    j = 0
    if not coords_out or tuple(coords_out[0]) != tuple(coords_in[0]):
        return None
    n_in = len(coords_in)
    for i in range(1, n_in):
        q = tuple(coords_in[i])
        k = 0
        j += 1
        while j < len(coords_out) and tuple(coords_out[j]) != q:
            j += 1
            k += 1
        if j >= len(coords_out):
            return None
        nxt = tuple(coords_in[i + 1]) if i + 1 < n_in else None
        while nxt != q and j + 1 < len(coords_out) and tuple(coords_out[j + 1]) == q:
            j += 1
            k += 1
        out.append(k)
    return out


# --------------------------------------------------------------------------- oracles on real output
def oracle_densify(R: Run, coords, r: float, out, where: str, tag: str):
    """the property predicate on one densified coordinate list, exact rationals + documented slack"""
    case = {"fn": where, "coords": [list(map(float, p)) for p in coords], "resolution": r}
    rr = F(r)
    # slack: r(1+1e-12) as in the design, plus the binary64 rounding of the coordinates themselves
    # (8 ulp of the largest coordinate magnitude; matters only far from the origin)
    scale_all = max([abs(F(v)) for p in list(coords) + list(out) for v in p] + [Fraction(1)])
    lim = rr * (1 + Fraction(1, 10**12)) + 8 * scale_all / 2**52
    # 1. no edge longer than the resolution
    worst = max((d2(a, b) for a, b in zip(out[:-1], out[1:])), default=Fraction(0))
    R.oracle(worst <= lim * lim, "densify-edge-longer-than-resolution", case,
             f"{where}: an output edge has length {math.sqrt(float(worst)):.9g} > resolution {r}", sig=f"gap|{tag}")
    # 2. input vertices retained in order, first and last kept
    cnt = counts_of(coords, out)
    ok = cnt is not None and tuple(out[0]) == tuple(coords[0]) and tuple(out[-1]) == tuple(coords[-1])
    R.oracle(ok, "densify-drops-or-reorders-vertices", case, f"{where}: input vertices are not a subsequence of the output",
             sig=f"retain|{tag}", trivial=True)
    if cnt is None:
        return
    # 3. added vertices on their edge (strictly inside), relative tolerance on the cross product
    j = 0
    ok_on = True
    for (p, q), k in zip(zip(coords[:-1], coords[1:]), cnt):
        seg = out[j + 1: j + 1 + k]
        j += k + 1
        D2 = d2(p, q)
        scale = max(abs(F(p[0])), abs(F(p[1])), abs(F(q[0])), abs(F(q[1])), 1)
        tol = scale * Fraction(1, 10**9)            # distance tolerance (binary64 rounding of far coordinates)
        ln = F(math.sqrt(float(D2)))
        for v in seg:
            if D2 == 0:
                ok_on = ok_on and tuple(v) == tuple(p)
                continue
            cr = (F(q[0]) - F(p[0])) * (F(v[1]) - F(p[1])) - (F(q[1]) - F(p[1])) * (F(v[0]) - F(p[0]))
            dot = (F(q[0]) - F(p[0])) * (F(v[0]) - F(p[0])) + (F(q[1]) - F(p[1])) * (F(v[1]) - F(p[1]))
            # on the segment: perpendicular offset |cr|/len <= tol and projection within [0, len] (+- tol);
            # the end points are admitted because binary64 may accumulate d = k*r to just below len
            if not (-tol * ln <= dot <= D2 + tol * ln) or cr * cr > D2 * tol * tol:
                ok_on = False
    R.oracle(ok_on, "densify-added-vertex-off-edge", case, f"{where}: an added vertex is not strictly inside its edge",
             sig=f"on-edge|{tag}", trivial=not any(cnt))
    # 4. two-sided: the number of added vertices per edge is exactly #{k >= 1 : k r < len} (decided on squares),
    #    and the k-th added vertex sits at arc length k r.  Judged only where binary64 cannot blur the count:
    #    len/r at least 1e-9 (relative) away from an integer, or the whole computation exact.
    j = 0
    for (p, q), k in zip(zip(coords[:-1], coords[1:]), cnt):
        seg = out[j + 1: j + 1 + k]
        j += k + 1
        D2 = d2(p, q)
        if D2 == 0 or rr <= 0:
            continue
        n = 0
        lo = int(math.sqrt(float(D2 / (rr * rr))))
        for cand in range(max(0, lo - 2), lo + 3):
            if cand >= 1 and (cand * rr) ** 2 < D2:
                n = cand
        ratio = math.sqrt(float(D2)) / float(rr)
        # axis-parallel edge, exact coordinate difference, dyadic r with few bits: d = k*r and the length are exact
        # doubles, the loop test is decided exactly even one ulp away from a multiple of r
        exact_inputs = (p[0] == q[0] or p[1] == q[1]) and is_dyadic(rr) and rr.denominator <= 2**20 and (
            abs(F(q[0]) - F(p[0])) + abs(F(q[1]) - F(p[1]))) < 2**40
        axis_exact = exact_inputs and _diff_exact(p, q)
        away = abs(ratio - round(ratio)) > 1e-9 * max(1.0, ratio)
        if axis_exact or away:
            R.oracle(k == n, "densify-wrong-vertex-count", {**case, "edge": [list(map(float, p)), list(map(float, q))]},
                     f"{where}: edge {p}->{q} of length {math.sqrt(float(D2)):.17g} got {k} added vertices, "
                     f"resolution {r} asks for {n}", sig=f"count|{tag}|" + ("boundary" if not away else "plain"))
        if k == n and k > 0:
            ln = F(math.sqrt(float(D2)))
            scale = max(abs(F(p[0])), abs(F(p[1])), abs(F(q[0])), abs(F(q[1])), 1)
            tol = scale * Fraction(1, 10**9) + ln * Fraction(1, 10**9)
            okp = True
            for i, v in enumerate(seg, 1):
                t = i * rr / ln
                ex, ey = F(p[0]) + t * (F(q[0]) - F(p[0])), F(p[1]) + t * (F(q[1]) - F(p[1]))
                if abs(F(v[0]) - ex) > tol or abs(F(v[1]) - ey) > tol:
                    okp = False
            R.oracle(okp, "densify-vertex-not-at-multiple-of-resolution", {**case, "edge": [list(map(float, p)), list(map(float, q))]},
                     f"{where}: added vertices of edge {p}->{q} are not at arc lengths r, 2r, ...", sig=f"position|{tag}",
                     trivial=True)


def _diff_exact(p, q) -> bool:
    """the coordinate difference of an axis-parallel edge is computed exactly in binary64"""
    dx, dy = q[0] - p[0], q[1] - p[1]
    return F(dx) == F(q[0]) - F(p[0]) and F(dy) == F(q[1]) - F(p[1])


class Fake:
    """stand-in exact projection installed as the transformer of the real code (same map as Drv.fakeProj)"""

    def __init__(self, s: int, t: int):
        self.s, self.t = s, t

    def transform(self, x, y, **kw):
        import numpy as np

        if isinstance(x, np.ndarray):
            return 2 * x + y + self.s, y - x / 2 + 4 * self.t
        if isinstance(x, (tuple, list)):
            return (tuple(2 * a + b + self.s for a, b in zip(x, y)), tuple(b - a / 2 + 4 * self.t for a, b in zip(x, y)))
        return 2 * x + y + self.s, y - x / 2 + 4 * self.t


class Echo:
    """transformer that hands its inputs back (as fresh arrays): isolates the NaN harmonisation"""

    def transform(self, x, y, **kw):
        import numpy as np

        if isinstance(x, np.ndarray):
            return x.copy(), y.copy()
        return x, y


_DENSIFY_FIXED: Dict[int, bool] = {}


def densify_fixed(gm) -> bool:
    """which `densify` the tree has: fix3-C07 (an empty coordinate list comes back empty) or as found (IndexError).
    The model follows the repaired code; on an as-found tree the correspondence skips the inputs that reach
    `densify([])` (they are reported by the oracle key densify-raises-on-empty-geometry instead)."""
    k = id(gm)
    if k not in _DENSIFY_FIXED:
        try:
            _DENSIFY_FIXED[k] = list(gm.densify([], 1.0)) == []
        except Exception:  # pylint: disable=broad-except
            _DENSIFY_FIXED[k] = False
    return _DENSIFY_FIXED[k]


def has_empty_ring(shp) -> bool:
    """a LineString / LinearRing / Polygon member without coordinates (what `densify` is called on)"""
    t = shp.geom_type
    if t in ("LineString", "LinearRing", "Polygon"):
        return shp.is_empty
    if t in ("Point", "MultiPoint"):
        return False
    return any(has_empty_ring(x) for x in shp.geoms)


def skip_empty_densify(R: Run, gm, shp, res) -> bool:
    if densify_fixed(gm) or res is None or isinstance(res, str) or not (res > 0) or not has_empty_ring(shp):
        return False
    R.count("skipped:densify-of-empty-ring-on-as-found-tree")
    return True


class fake_transformers:
    """Install `factory(pyproj_from, pyproj_to) -> object with .transform(x, y)` as the transformer odc-geo uses.
    Preferred hook: the module-level transformer factory `_make_crs_transform` (keeps `transformer_to_crs` and its NaN
    harmonisation in the loop); when that private name does not exist (renamed / inlined by a refactor) the public
    `CRS.transformer_to_crs` is replaced instead and `self.mode == "public"` tells the caller that the harmonisation
    wrapper is not exercised by this stream."""

    def __init__(self, R: Run, crsmod, factory):
        self.R, self.crsmod, self.factory = R, crsmod, factory
        self.mode = "private" if callable(getattr(crsmod, "_make_crs_transform", None)) else "public"

    def __enter__(self):
        crsmod, factory = self.crsmod, self.factory
        if self.mode == "private":
            self.saved = crsmod._make_crs_transform  # pylint: disable=protected-access
            crsmod._make_crs_transform = lambda a, b, *args, **kw: factory(a, b)  # pylint: disable=protected-access
        else:
            self.saved = crsmod.CRS.transformer_to_crs
            note = "crs._make_crs_transform not found: stand-in transformers installed through the public CRS.transformer_to_crs"
            if note not in self.R.notes:
                self.R.notes.append(note)

            def transformer_to_crs(this, other, always_xy=True):
                tr = factory(this.proj, other.proj)
                return lambda x, y, **kw: tr.transform(x, y, **kw)

            crsmod.CRS.transformer_to_crs = transformer_to_crs
        return self

    def __exit__(self, et, ev, tb):
        if self.mode == "private":
            self.crsmod._make_crs_transform = self.saved  # pylint: disable=protected-access
        else:
            self.crsmod.CRS.transformer_to_crs = self.saved
        return False


def pyproj_of(crs):
    """the pyproj object behind an odc CRS (public `.proj`)"""
    return crs.proj


def auto_resolution_of(gm, g):
    """`_auto_resolution(g)`; when the private helper is gone, its documented value sqrt(area) * 4 / 100"""
    fn = getattr(gm, "_auto_resolution", None)
    return fn(g) if callable(fn) else math.sqrt(g.area) * 4 / 100


# --------------------------------------------------------------------------- generators
TRIPLES = [(3, 4, 5), (4, 3, 5), (5, 12, 13), (12, 5, 13), (8, 15, 17), (7, 24, 25), (20, 21, 29)]
ORIGINS = [(0.0, 0.0), (1000.0, 0.0), (0.0, -750.5), (-37.5, 0.25), (1e6 + 0.5, -2e6), (123456.75, 654321.125)]


def gen_safe_edge(rng):
    """an edge whose densification is exact in binary64: rational length L and r/L dyadic"""
    s = 2.0 ** rng.randint(-3, 4)
    if rng.random() < 0.4:
        ln = rng.randint(1, 24) * s
        dx, dy = rng.choice([(ln, 0.0), (-ln, 0.0), (0.0, ln), (0.0, -ln)])
        L = ln
    else:
        a, b, c = rng.choice(TRIPLES)
        dx, dy, L = a * s * rng.choice([-1, 1]), b * s * rng.choice([-1, 1]), c * s
    r = L * rng.choice([1, 1, 3, 5, 7, 9, 11]) / 2.0 ** rng.randint(0, 5)
    return (dx, dy), L, r


def shapes_for(rng, fam: str):
    """all geometry kinds built from edges of one exactness family; returns {kind: (shapely geometry, r)}"""
    from shapely import geometry as sg

    ox, oy = rng.choice(ORIGINS[:5])
    if fam == "axis":
        s = 2.0 ** rng.randint(-2, 3)
        r = s * rng.choice([0.25, 0.5, 1, 1.5, 3, 5])

        def sq(x, y, w, h):
            return [(ox + x * s, oy + y * s), (ox + x * s, oy + (y + h) * s), (ox + (x + w) * s, oy + (y + h) * s),
                    (ox + (x + w) * s, oy + y * s), (ox + x * s, oy + y * s)]

        line = [(ox, oy), (ox + 7 * s, oy), (ox + 7 * s, oy - 3 * s), (ox + 2 * s, oy - 3 * s)]
        ring = sq(0, 0, 6, 5)
        outer, hole1, hole2 = sq(0, 0, 12, 9), sq(1, 1, 3, 2)[::-1], sq(6, 4, 4, 4)[::-1]
        other = sq(20, 0, 5, 7)
    else:  # rhombi and zig-zags of 3-4-5 edges (all of length 5s)
        s = 2.0 ** rng.randint(-2, 2)
        r = 5 * s * rng.choice([1, 3, 5, 7]) / 2.0 ** rng.randint(0, 4)

        def rh(x, y, k):
            return [(ox + x * s, oy + y * s), (ox + (x + 3 * k) * s, oy + (y + 4 * k) * s), (ox + (x + 6 * k) * s, oy + y * s),
                    (ox + (x + 3 * k) * s, oy + (y - 4 * k) * s), (ox + x * s, oy + y * s)]

        line = [(ox, oy), (ox + 3 * s, oy + 4 * s), (ox + 7 * s, oy + 1 * s), (ox + 10 * s, oy + 5 * s)]
        ring = rh(0, 0, 1)
        outer, hole1, hole2 = rh(0, 0, 4), rh(3, 0, 1)[::-1], rh(12, 0, 1)[::-1]
        other = rh(40, 0, 2)
    kinds = {
        "point": sg.Point(ox, oy),
        "multipoint": sg.MultiPoint([(ox, oy), (ox + 100 * s, oy), (ox, oy + 50 * s)]),
        "line": sg.LineString(line),
        "ring": sg.LinearRing(ring),
        "polygon": sg.Polygon(outer),
        "polygon+holes": sg.Polygon(outer, [hole1, hole2]),
        "multiline": sg.MultiLineString([line, ring]),
        "multipolygon": sg.MultiPolygon([sg.Polygon(outer, [hole1]), sg.Polygon(other)]),
    }
    kinds["collection"] = sg.GeometryCollection([kinds["point"], kinds["line"], kinds["polygon+holes"],
                                                 sg.GeometryCollection([kinds["multipoint"], kinds["multipolygon"]])])
    return kinds, r


def multipart_for(rng, origin=None, unit=None):
    """Multi-part geometries whose PARTS sit at every size class relative to the step `r`:
    far below the step; below the step in both axes but with a diagonal edge above it (3-4-5 triangle / segment with
    4u < r < 5u); exactly the step; far above it — as parts of MultiLineString / MultiPolygon / GeometryCollection, mixed
    kinds, polygons with holes, nested collections.  All edges are axis-parallel with power-of-two multiples of `u` or
    3-4-5 hypotenuses and r = 35u/8, so every densification is exact in binary64 (r/len dyadic)."""
    from shapely import geometry as sg

    u = unit if unit is not None else 2.0 ** rng.randint(-2, 3)
    r = 35 * u / 8
    ox, oy = origin if origin is not None else rng.choice(ORIGINS[:4])

    def P(x, y):
        return (ox + x * u, oy + y * u)

    def tri(x, y, k, flip=False):   # legs 3k, 4k (short when k <= 1), hypotenuse 5k
        pts = [P(x, y), P(x + 3 * k, y + 4 * k), P(x + 3 * k, y), P(x, y)]
        return pts[::-1] if flip else pts

    def rh(x, y, k):                # four hypotenuses of length 5k
        return [P(x, y), P(x + 3 * k, y + 4 * k), P(x + 6 * k, y), P(x + 3 * k, y - 4 * k), P(x, y)]

    def sq(x, y, m):
        return [P(x, y), P(x, y + m), P(x + m, y + m), P(x + m, y), P(x, y)]

    tiny_tri = sg.Polygon(tri(0, 0, 0.125))
    diag_tri = sg.Polygon(tri(100, 0, 1))
    diag_tri2 = sg.Polygon(tri(120, 10, 1, flip=True))
    diag_line = sg.LineString([P(200, 0), P(203, 4)])
    diag_line2 = sg.LineString([P(210, 4), P(213, 0)])           # the other diagonal
    diag_zig = sg.LineString([P(220, 0), P(223, 4), P(220, 4), P(223, 0)])   # bbox 3u x 4u, two diagonals
    tiny_line = sg.LineString([P(230, 0), P(230.375, 0.5)])
    eq_sq = sg.Polygon(sq(300, 0, 35 / 8))                      # edges exactly r
    big_rh = sg.Polygon(rh(400, 0, 8), [tri(420, -2, 1, flip=True), sq(412, 2, 2)[::-1]])
    big_sq = sg.Polygon(sq(500, 0, 32), [rh(508, 16, 2)[::-1]])
    big_zig = sg.LineString([P(600, 0), P(624, 32), P(648, 0), P(648, 64)])
    ml = sg.MultiLineString([diag_line, tiny_line, diag_line2, big_zig, diag_zig])
    mp = sg.MultiPolygon([tiny_tri, diag_tri, big_rh, eq_sq])
    kinds = {
        "multiline:sizes": ml,
        "multipolygon:sizes": mp,
        "multiline:only-diag": sg.MultiLineString([diag_line, diag_line2, diag_zig]),
        "multipolygon:only-diag": sg.MultiPolygon([diag_tri, diag_tri2]),
        "collection:only-diag": sg.GeometryCollection([diag_tri, diag_line, sg.Point(P(1, 1))]),
        "collection:mixed": sg.GeometryCollection([sg.Point(P(-5, -5)), diag_line, diag_tri, big_sq, mp, tiny_line]),
        "collection:nested": sg.GeometryCollection([
            diag_tri2, sg.GeometryCollection([diag_line2, ml, sg.GeometryCollection([diag_zig, sg.MultiPolygon([diag_tri])])]),
            sg.MultiPoint([P(0, 0), P(9, 9)]), big_rh]),
        "polygon:diag-hole": big_sq,
    }
    return kinds, r


# --------------------------------------------------------------------------- the check
def real_densify(gm, coords, r):
    with warnings.catch_warnings():
        warnings.simplefilter("ignore")
        with time_limit(risky=not r > 0):
            return gm.densify(list(coords), r)


def densify_case(R: Run, gm, coords, r: float, tag: str):
    """one exact-stream case of `densify` + the oracle on the same output"""
    rr = F(r)
    if not coords and r > 0 and not densify_fixed(gm):
        R.count("skipped:densify-of-empty-ring-on-as-found-tree")
        return
    line = f"c07 densify {frac_s(r)} {pts_s(coords)}"
    box: Dict[str, Any] = {}
    cls = classify(coords, rr) if (coords and rr > 0) else "safe"

    def f():
        try:
            out = real_densify(gm, coords, r)
        except BaseException as e:  # pylint: disable=broad-except
            box["exc"] = e
            return err_s(e)
        box["out"] = out
        if cls == "irrational":
            c = counts_of(coords, out)
            return "COUNTS [" + ",".join(map(str, c)) + "]" if c is not None else "COUNTS ?"
        return pts_s(out)

    if cls == "rational":
        # exact length but r/L not dyadic: binary64 rounds the interpolated vertices, so positions are judged by the
        # oracle only; the loop counts are still exact whenever d = k*r and the length are exact doubles
        line = f"c07 counts {frac_s(r)} {pts_s(coords)}"
        exact_loop = is_dyadic(rr) and all(
            (p[0] == q[0] or p[1] == q[1]) and _diff_exact(p, q) for p, q in zip(coords[:-1], coords[1:]))

        def fc():
            try:
                out = real_densify(gm, coords, r)
            except BaseException as e:  # pylint: disable=broad-except
                box["exc"] = e
                return err_s(e)
            box["out"] = out
            c = counts_of(coords, out)
            return "COUNTS [" + ",".join(map(str, c)) + "]" if c is not None else "COUNTS ?"

        if exact_loop:
            R.corr(line, fc, sig=f"densify|{tag}|counts-exact")
        else:
            fc()
        if "out" in box:
            oracle_densify(R, coords, r, box["out"], "densify", tag + "|rounded")
        return
    R.corr(line, f, sig=f"densify|{tag}|{cls}" + ("|trivial" if len(coords) < 2 else ""))
    if "out" in box and coords:
        oracle_densify(R, coords, r, box["out"], "densify", tag)
    if isinstance(box.get("exc"), Timeout):
        R.oracle(False, "densify-nonpositive-resolution-hangs",
                 {"fn": "densify", "coords": [list(map(float, p)) for p in coords], "resolution": r},
                 f"densify(coords, {r}) did not return within {TIME_LIMIT}s (the while loop never ends)")


def run_densify(R: Run):
    gm, _ = _mods()
    rng = R.rng
    # --- exhaustive small domain: one edge, every lattice direction, several absolute positions, dyadic r
    dirs = range(-4, 5)
    for (ox, oy) in ORIGINS[: R.pick(4, 6)]:
        for dx, dy in itertools.product(dirs, dirs):
            for s in (1.0, 0.25):
                for r in ((0.5, 1.0, 2.0, 3.0) if R.quick else (0.25, 0.5, 1.0, 1.5, 2.0, 3.0, 5.0)):
                    coords = [(ox, oy), (ox + dx * s, oy + dy * s)]
                    densify_case(R, gm, coords, r * s, "lattice")
    # --- the replay of finding F3 and its neighbourhood (edges along / near the y axis)
    for coords, r in (([(0, 0), (0, 100)], 10), ([(0.0, 0.0), (0.0, -64.0)], 8.0), ([(1.0, 0.0), (1.0, 100.0)], 10),
                      ([(3.0, 0.0), (-3.0, 80.0)], 16.0), ([(1000.0, 0.0), (1001.0, 0.0)], 10.0),
                      ([(0, 0), (100, 0)], 10)):
        densify_case(R, gm, [tuple(map(float, p)) for p in coords], float(r), "f3")
    # --- exactly representable edges: positions compared vertex by vertex
    for _ in range(R.pick(1500, 15000)):
        (dx, dy), L, r = gen_safe_edge(rng)
        ox, oy = rng.choice(ORIGINS)
        densify_case(R, gm, [(ox, oy), (ox + dx, oy + dy)], r, "safe-edge")
    # --- polylines mixing every edge class
    for _ in range(R.pick(600, 6000)):
        n = rng.randint(1, 6)
        ox, oy = rng.choice(ORIGINS[:5])
        s = 2.0 ** rng.randint(-2, 3)
        pts = [(ox, oy)]
        for _ in range(n - 1):
            if rng.random() < 0.1:
                pts.append(pts[-1])  # repeated vertex: zero-length edge
            else:
                pts.append((pts[-1][0] + rng.randint(-12, 12) * s, pts[-1][1] + rng.randint(-12, 12) * s))
        r = s * rng.choice([0.5, 1, 2, 3, 4, 6, 10, 40])
        densify_case(R, gm, pts, r, "polyline")
    # --- resolution equal to / around the edge length, degenerate inputs, rejected resolutions
    for L in (1.0, 5.0, 8.0):
        for r in (L, L / 2, L / 4, 2 * L, L * 0.75):
            densify_case(R, gm, [(2.0, 3.0), (2.0 + L, 3.0)], r, "edge=r")
    # --- edge length within a hair of a multiple of the resolution (axis-parallel, dyadic r: d = k*r and the
    #     length are exact doubles, so even 1 ulp decides the count)
    deltas = [0.0, 1e-6, 1e-9, 1e-10, 1e-11, 1e-13, 2.0**-40]
    for r in (0.5, 1.0, 3.0, 0.125):
        for k in (1, 2, 3, 7, 20):
            base = k * r
            ulp = math.ulp(base)
            for dl in deltas + [ulp, 2 * ulp]:
                for sgn in (1, -1):
                    L = base + sgn * dl
                    if L <= 0:
                        continue
                    for vec in ((L, 0.0), (-L, 0.0), (0.0, L), (0.0, -L)):
                        densify_case(R, gm, [(0.0, 0.0), vec], r, "near-multiple")
                    # the same off the axes (position of the edge must not matter): start at a dyadic offset whose
                    # sum with L is still exact is not guaranteed, so these are judged by the count oracle only
                    densify_case(R, gm, [(1024.0, -512.0), (1024.0 + L, -512.0)], r, "near-multiple-off-axis")
    # --- diagonal edges of length k*r*(1 +- eps): counts judged by the two-sided oracle
    for _ in range(R.pick(300, 3000)):
        ang = rng.uniform(-math.pi, math.pi)
        r = rng.choice([0.5, 1.0, 2.5, 10.0, 1 / 3])
        k = rng.randint(1, 12)
        L = k * r * (1 + rng.choice([-1, 1]) * rng.choice([1e-6, 1e-8, 3e-9]))
        ox, oy = rng.choice(ORIGINS)
        densify_case(R, gm, [(ox, oy), (ox + L * math.cos(ang), oy + L * math.sin(ang))], r, "near-multiple-diag")
    # --- huge coordinates (binary64 spacing of the coordinates up to 0.125)
    for _ in range(R.pick(200, 2000)):
        ox, oy = (rng.choice([-1, 1]) * 2.0 ** rng.randint(30, 50) for _ in range(2))
        s = max(math.ulp(max(abs(ox), abs(oy))) * 64, 1.0)
        pts = [(ox, oy)]
        for _ in range(rng.randint(1, 3)):
            pts.append((pts[-1][0] + rng.randint(-12, 12) * s, pts[-1][1] + rng.randint(-12, 12) * s))
        densify_case(R, gm, pts, s * rng.choice([1, 2, 3, 8]), "huge")
    densify_case(R, gm, [], 1.0, "degenerate")
    densify_case(R, gm, [(1.0, 2.0)], 1.0, "degenerate")
    densify_case(R, gm, [(1.0, 2.0), (1.0, 2.0)], 1.0, "degenerate")
    for r in (0.0, -1.0, -0.5):
        densify_case(R, gm, [(0.0, 0.0), (0.0, 8.0), (3.0, 12.0)], r, "nonpositive-r")
        densify_case(R, gm, [], r, "nonpositive-r")
        densify_case(R, gm, [(1.0, 1.0), (1.0, 1.0)], r, "nonpositive-r")


def run_float_stream(R: Run):
    """arbitrary doubles: only the property predicate is evaluated (nothing compared with the model)"""
    gm, _ = _mods()
    rng = R.rng
    for _ in range(R.pick(900, 12000)):
        mag = 10.0 ** rng.uniform(-3, 6)
        far = rng.random() < 0.5
        ox = rng.uniform(-1, 1) * (10.0 ** rng.uniform(2, 7) if far else mag * 0.01)
        oy = rng.uniform(-1, 1) * (10.0 ** rng.uniform(2, 7) if far else mag * 0.01)
        if rng.random() < 0.2:  # hug an axis
            if rng.random() < 0.5:
                ox = rng.choice([0.0, rng.uniform(-1e-3, 1e-3)])
            else:
                oy = rng.choice([0.0, rng.uniform(-1e-3, 1e-3)])
        n = rng.randint(2, 5)
        pts = [(ox, oy)]
        for _ in range(n - 1):
            ang = rng.choice([0, math.pi / 2, math.pi, -math.pi / 2, rng.uniform(-math.pi, math.pi),
                              rng.uniform(-math.pi, math.pi)])
            ln = mag * rng.uniform(0.01, 1)
            pts.append((pts[-1][0] + ln * math.cos(ang), pts[-1][1] + ln * math.sin(ang)))
        r = mag * rng.choice([0.01, 0.03, 0.05, 0.2, 1 / 3, 1.0, 3.0])
        try:
            out = real_densify(gm, pts, r)
        except BaseException as e:  # pylint: disable=broad-except
            R.oracle(False, "densify-raises", {"fn": "densify", "coords": pts, "resolution": r}, f"densify raised {e!r}")
            continue
        oracle_densify(R, pts, r, out, "densify", "float|" + ("far" if far else "near"))


def seg_real(gm, shp, r):
    with warnings.catch_warnings():
        warnings.simplefilter("ignore")
        with time_limit(risky=not r > 0):
            return gm.Geometry(shp, "EPSG:3857").segmented(r)


def oracle_segmented(R: Run, shp, r: float, out, kind: str):
    case = {"fn": "segmented", "kind": kind, "wkt": shp.wkt, "resolution": r}
    g = out.geom
    R.oracle(skel_of(g) == skel_of(shp), "segmented-changes-type-or-structure", case,
             f"segmented({r}) turned {skel_of(shp)} into {skel_of(g)}", sig=f"skel|{kind}")
    rin, rout = rings_of(shp), rings_of(g)
    if len(rin) != len(rout):
        return
    for a, b in zip(rin, rout):
        if len(a) >= 2:
            oracle_densify(R, a, r, b, f"segmented[{kind}]", "seg")
        else:
            R.oracle(list(map(tuple, a)) == list(map(tuple, b)), "segmented-moves-point", case, "", trivial=True)
    tol = 1e-9
    R.oracle(abs(g.area - shp.area) <= tol * max(1.0, abs(shp.area)) and abs(g.length - shp.length) <= tol * max(1.0, shp.length),
             "segmented-changes-area-or-length", case,
             f"area {shp.area} -> {g.area}, length {shp.length} -> {g.length}", sig=f"area|{kind}")
    R.oracle(str(out.crs) == "EPSG:3857", "segmented-loses-crs", case, "", trivial=True)


def run_segmented(R: Run):
    gm, _ = _mods()
    rng = R.rng
    for _ in range(R.pick(20, 300)):
        for fam in ("axis", "pyth"):
            kinds, r = shapes_for(rng, fam)
            for kind, shp in kinds.items():
                line = f"c07 seg {frac_s(r)} {enc_geom(shp)}"
                box: Dict[str, Any] = {}

                def f():
                    try:
                        out = seg_real(gm, shp, r)
                    except BaseException as e:  # pylint: disable=broad-except
                        return err_s(e)
                    box["out"] = out
                    return enc_geom(out.geom)

                R.corr(line, f, sig=f"seg|{kind}|{fam}" + ("|trivial" if kind in ("point", "multipoint") else ""))
                if "out" in box:
                    oracle_segmented(R, shp, r, box["out"], kind)
    # multi-part geometries, parts at every size class relative to the step (exact: compared with the model part by part)
    for _ in range(R.pick(6, 60)):
        kinds, r = multipart_for(rng)
        for kind, shp in kinds.items():
            line = f"c07 seg {frac_s(r)} {enc_geom(shp)}"
            box = {}

            def fm():
                try:
                    out = seg_real(gm, shp, r)
                except BaseException as e:  # pylint: disable=broad-except
                    return err_s(e)
                box["out"] = out
                return enc_geom(out.geom)

            R.corr(line, fm, sig=f"seg|{kind}|size-classes")
            if "out" in box:
                oracle_segmented(R, shp, r, box["out"], kind)
    # empty geometries: densify indexes coords[0]
    from shapely import geometry as sg

    for kind, shp in (("empty-line", sg.LineString()), ("empty-polygon", sg.Polygon()),
                      ("collection-with-empty", sg.GeometryCollection([sg.Point(1, 2), sg.LineString()]))):
        for r in (1.0, 0.0, -1.0):
            if skip_empty_densify(R, gm, shp, r):
                continue
            line = f"c07 seg {frac_s(r)} {enc_geom(shp)}"

            def fe():
                try:
                    return enc_geom(seg_real(gm, shp, r).geom)
                except BaseException as e:  # pylint: disable=broad-except
                    return err_s(e)

            R.corr(line, fe, sig=f"seg|{kind}")
    # non-positive resolution on every kind: rejected (points are cloned before any densify call)
    kinds, _ = shapes_for(rng, "axis")
    for kind, shp in kinds.items():
        for r in (0.0, -2.0):
            line = f"c07 seg {frac_s(r)} {enc_geom(shp)}"

            def g():
                try:
                    return enc_geom(seg_real(gm, shp, r).geom)
                except BaseException as e:  # pylint: disable=broad-except
                    if isinstance(e, Timeout):
                        R.oracle(False, "densify-nonpositive-resolution-hangs",
                                 {"fn": "segmented", "kind": kind, "wkt": shp.wkt, "resolution": r},
                                 f"Geometry.segmented({r}) on a {kind} did not return within {TIME_LIMIT}s")
                    return err_s(e)

            R.corr(line, g, sig=f"seg|{kind}|nonpositive-r")
    # float stream on every kind: arbitrary rotation / position / resolution
    from shapely import affinity

    for it in range(R.pick(16, 300)):
        if it % 2:
            kinds, _ = shapes_for(rng, rng.choice(["axis", "pyth"]))
            ang = rng.uniform(0, 360)
            sc = 10.0 ** rng.uniform(-2, 3)
            r = sc * rng.choice([0.3, 1.0, 2.5, 7.0, 1 / 3])
        else:
            # parts at every size class relative to the step, at an arbitrary rotation / scale / resolution in (4u, 5u)
            kinds, r0 = multipart_for(rng, origin=(0.0, 0.0), unit=1.0)
            ang = rng.uniform(0, 360)
            sc = 10.0 ** rng.uniform(-2, 3)
            r = sc * rng.uniform(4.02, 4.98)
        for kind, shp in kinds.items():
            shp2 = affinity.scale(affinity.rotate(shp, ang, origin=(0, 0)), sc, sc, origin=(0, 0))
            try:
                out = seg_real(gm, shp2, r)
            except BaseException as e:  # pylint: disable=broad-except
                R.oracle(False, "segmented-raises", {"kind": kind, "wkt": shp2.wkt, "resolution": r}, repr(e))
                continue
            oracle_segmented(R, shp2, r, out, kind + "|float")


def oracle_many_cheap(R: Run, shp, r: float, out, kind: str):
    """max-edge / retention / structure oracle in numpy (binary64, slack 1e-9 relative) for geometries with hundreds of
    vertices, where the exact-Fraction oracle of every vertex would dominate the run"""
    import numpy as np

    case = {"fn": "segmented", "kind": kind, "wkt": shp.wkt if len(shp.wkt) < 4000 else shp.wkt[:4000], "resolution": r}
    g = out.geom
    ok = skel_of(g) == skel_of(shp)
    R.oracle(ok, "segmented-changes-type-or-structure", case, f"segmented({r}) changed the structure", sig=f"skel|{kind}")
    if not ok:
        return
    for a, b in zip(rings_of(shp), rings_of(g)):
        if len(a) < 2:
            continue
        bb = np.asarray(b, dtype="float64")
        worst = float(np.hypot(np.diff(bb[:, 0]), np.diff(bb[:, 1])).max())
        R.oracle(worst <= r * (1 + 1e-9) + 8 * float(np.abs(bb).max()) * 2.0 ** -52, "densify-edge-longer-than-resolution",
                 {**case, "ring_vertices": len(a)},
                 f"segmented[{kind}]: a ring of {len(a)} vertices keeps an edge of length {worst:.9g} > resolution {r}", sig=f"gap|{kind}")
        j, sub = 0, True
        tb = [tuple(p) for p in b]
        for p in a:
            p = tuple(p)
            while j < len(tb) and tb[j] != p:
                j += 1
            if j == len(tb):
                sub = False
                break
            j += 1
        R.oracle(sub and tb[0] == tuple(a[0]) and tb[-1] == tuple(a[-1]), "densify-drops-or-reorders-vertices", case,
                 f"segmented[{kind}]: input vertices are not a subsequence of the output", sig=f"retain|{kind}", trivial=True)


MANY_QUICK = (32, 63, 64, 65, 127, 129, 257, 1000)
MANY_THOROUGH = (32, 33, 63, 64, 65, 66, 127, 128, 129, 255, 256, 257, 511, 513, 1000, 1025, 4097)


def many_vertex_path(n: int, long_at: str, s: float = 0.25, L: float = 8.0):
    """an open staircase of n vertices (axis-parallel steps of length s) in which exactly ONE edge has length L, at the
    first / second / middle / last-but-one / last position (or none: every edge short)"""
    k = {"first": 0, "second": 1, "middle": (n - 1) // 2, "last-but-one": n - 3, "last": n - 2, "none": -1}[long_at]
    pts = [(100.0, -50.0)]
    for i in range(n - 1):
        d = L if i == k else s
        x, y = pts[-1]
        pts.append((x + d, y) if i % 2 == 0 else (x, y + d))
    return pts


def many_vertex_ring(n: int, long_at: str, s: float = 0.25):
    """a closed ring of about n vertices: three sides sampled every s, the fourth side (length 8) is ONE edge; the start of
    the vertex list is rotated so that this edge is the first / a middle / the last-but-one / the closing edge"""
    m = int(8.0 / s)
    w = max(1, (n - m - 2) // 2)
    base = [(i * s, 0.0) for i in range(w + 1)] + [(w * s, j * s) for j in range(1, m + 1)] + [(i * s, 8.0) for i in range(w - 1, -1, -1)]
    # base is open: its closing edge (0, 8) -> (0, 0) is the long one
    rot = {"closing": 0, "first": len(base) - 1, "middle": len(base) // 2, "last-but-one": 2}[long_at]
    ring = base[rot:] + base[:rot]
    return ring + [ring[0]]


def run_many_vertices(R: Run):
    """the LENGTH axis of densify / segmented / to_crs(resolution): coordinate lists of 32 … 1000 (thorough 4097) vertices
    around powers of two in which exactly one edge is longer than the resolution, at every position (first, middle, last,
    the closing edge of a ring) — lines, rings, polygons with holes; exact stream (compared with the model) and the
    max-edge / retention / count oracles on the real output, plus a rotated float copy and real pyproj"""
    import pyproj
    from shapely import affinity
    from shapely import geometry as sg

    gm, crsmod = _mods()
    rng = R.rng
    r = 1.0
    lengths = MANY_QUICK if R.quick else MANY_THOROUGH
    src, dst = crsmod.CRS("EPSG:3857"), crsmod.CRS("EPSG:4326")
    ra, rb = pyproj.CRS.from_epsg(3857), pyproj.CRS.from_epsg(4326)
    fresh = _fresh_tr(ra, rb, True)
    for n in lengths:
        for pos in ("first", "second", "middle", "last-but-one", "last", "none"):
            if R.quick and pos in ("second", "last-but-one") and rng.random() < 0.5:
                continue
            coords = many_vertex_path(n, pos)
            big = n > 130
            if big and pos in ("second", "last-but-one"):
                continue
            if not big:
                densify_case(R, gm, coords, r, f"many|n={n}|{pos}")
            shapes = {"line": sg.LineString(coords)}
            if pos in ("first", "middle", "last-but-one", "last") and n >= 40:
                rpos = {"last": "closing"}.get(pos, pos)
                ring = many_vertex_ring(n, rpos)
                hole = [(x / 4 + 1.0, y / 4 + 1.0) for x, y in many_vertex_ring(max(40, n // 2), rpos, s=0.5)][::-1]
                shapes["ring"] = sg.LinearRing(ring)
                shapes["polygon+hole"] = sg.Polygon(ring, [hole]) if (len(ring) - 36) * 0.25 / 2 > 4.5 else sg.Polygon(ring)
                shapes["collection"] = sg.GeometryCollection([sg.LineString(coords), sg.Polygon(ring)])
            for kind, shp in shapes.items():
                # hole edges are 1/4 of a ring with s = 0.5: short edges 0.125, long edge 2 -> r/len dyadic as well
                line = f"c07 seg {frac_s(r)} {enc_geom(shp)}"
                box: Dict[str, Any] = {}

                def f():
                    try:
                        out = seg_real(gm, shp, r)
                    except BaseException as e:  # pylint: disable=broad-except
                        return err_s(e)
                    box["out"] = out
                    return enc_geom(out.geom)

                R.corr(line, f, sig=f"many|seg|{kind}|n={n}|{pos}")
                if "out" in box:
                    (oracle_many_cheap if big else oracle_segmented)(R, shp, r, box["out"], f"{kind}|many|{pos}")
                # arbitrary rotation / scale: float stream, oracle only
                ang, sc = rng.uniform(0, 360), 10.0 ** rng.uniform(-1, 2)
                shp2 = affinity.scale(affinity.rotate(shp, ang, origin=(0, 0)), sc, sc, origin=(0, 0))
                r2 = r * sc * rng.choice([1.0, 0.7, 1.9])
                try:
                    out2 = seg_real(gm, shp2, r2)
                except BaseException as e:  # pylint: disable=broad-except
                    R.oracle(False, "segmented-raises", {"kind": kind, "wkt": shp2.wkt[:200], "resolution": r2}, repr(e))
                    continue
                (oracle_many_cheap if (big or n > 40) else oracle_segmented)(R, shp2, r2, out2, f"{kind}|many-float|{pos}")
            # through to_crs(resolution) with real pyproj (metres near the origin of EPSG:3857)
            if pos in ("first", "last", "none") or not R.quick:
                shp = affinity.scale(sg.LineString(coords), 1000.0, 1000.0, origin=(0, 0))
                case = {"fn": "to_crs", "kind": f"line|many|n={n}|{pos}", "wkt": shp.wkt, "src": "3857", "dst": "4326", "resolution": 1000.0,
                        "opts": {}}
                judge_to_crs(R, gm, gm.Geometry(shp, src), dst, rb, fresh, False, {"resolution": 1000.0}, case, f"many|to_crs|n={n}|{pos}")


def run_to_crs_model(R: Run):
    """to_crs control flow against the model, with an exact stand-in projection as the transformer"""
    from .c01 import Pool

    gm, crsmod = _mods()
    rng = R.rng
    pool = Pool(False)
    ents = pool.entries[:6]
    def fake_make(from_crs, to_crs):
        return Fake(pool._obj[id(from_crs)], pool._obj[id(to_crs)])  # pylint: disable=protected-access

    with fake_transformers(R, crsmod, fake_make):
        from shapely import geometry as sg

        for rnd in range(R.pick(4, 24)):
            if rnd % 4 == 3:
                kinds, r0 = multipart_for(rng)
            else:
                kinds, r0 = shapes_for(rng, "axis" if rnd % 2 == 0 else "pyth")
            kinds["square25"] = sg.box(0, 0, 25 * 2.0 ** rng.randint(0, 3), 25 * 2.0 ** rng.randint(0, 3))
            kinds["square50"] = sg.box(-50.0, 100.0, 0.0, 150.0)
            for kind, shp in kinds.items():
                for es, et in itertools.product(ents, ents):
                    for res in ("N", "nf", "r", "0", "neg", "auto"):
                        if kind.startswith("square") and res not in ("auto", "N"):
                            continue
                        g = gm.Geometry(shp, es[2])
                        if res == "N":
                            rv, rtok = None, "N"
                        elif res == "nf":
                            rv, rtok = rng.choice([float("inf"), float("nan")]), "nf"
                        elif res == "r":
                            rv, rtok = r0, frac_s(r0)
                        elif res == "0":
                            rv, rtok = 0.0, "0"
                        elif res == "neg":
                            rv, rtok = -r0, frac_s(-r0)
                        else:
                            rv = "auto"
                            try:
                                av = auto_resolution_of(gm, g)
                            except Exception:  # pylint: disable=broad-except
                                av = None
                            if av is None or not math.isfinite(av):
                                continue
                            # only when binary64 gets the automatic resolution exactly right
                            if F(av) ** 2 * 625 != F(shp.area):
                                continue
                            rtok = "auto:" + frac_s(av)
                            if av > 0 and any(classify(c, F(av)) != "safe" for c in rings_of(shp) if len(c) >= 2):
                                continue
                        line = f"c07 tocrs {pool.rec(es[2])} {pool.rec(et[2])} {rtok} {enc_geom(shp)}"
                        box: Dict[str, Any] = {}

                        def f():
                            try:
                                with warnings.catch_warnings():
                                    warnings.simplefilter("ignore")
                                    with time_limit(risky=(rv == "auto" or (isinstance(rv, float) and rv <= 0))):
                                        out = g.to_crs(et[2], resolution=rv)
                            except BaseException as e:  # pylint: disable=broad-except
                                box["exc"] = e
                                return err_s(e)
                            box["out"] = out
                            return pool.rec(out.crs) + " " + enc_geom(out.geom)

                        same = es[1] == et[1]
                        sig = (f"tocrs|{res}|" + ("src-none" if es[2] is None else "dst-none" if et[2] is None
                                                  else "same" if same else "other") + f"|{kind}")
                        R.corr(line, f, sig=sig)
                        case = {"fn": "to_crs", "kind": kind, "wkt": shp.wkt, "src": es[0], "dst": et[0], "resolution": str(rv)}
                        if isinstance(box.get("exc"), Timeout):
                            R.oracle(False, "densify-nonpositive-resolution-hangs", case,
                                     f"to_crs({et[0]}, resolution={rv}) on a {kind} did not return within {TIME_LIMIT}s")
                            continue  # nothing else can be judged on a call that did not (or was not allowed to) finish
                        # the property itself
                        if es[2] is None or et[2] is None:
                            R.oracle(isinstance(box.get("exc"), ValueError) or (es[2] is None and et[2] is None
                                                                                  and isinstance(box.get("exc"), ValueError)),
                                     "to-crs-accepts-missing-crs", case,
                                     f"to_crs with source CRS {es[0]} / target {et[0]} did not raise ValueError")
                        elif same:
                            R.oracle(box.get("out") is g, "to-crs-same-crs-not-identity", case,
                                     "to_crs into an equal CRS did not return the geometry itself")
                        elif "out" in box:
                            out = box["out"]
                            R.oracle(skel_of(out.geom) == skel_of(shp) and out.crs == et[2], "to-crs-changes-structure", case,
                                     f"{skel_of(shp)} -> {skel_of(out.geom)}, crs {out.crs}")

    # NaN harmonisation of the transformer (numpy-array branch), transformer replaced by an echo
    import numpy as np

    echo = fake_transformers(R, crsmod, lambda a, b: Echo())
    if echo.mode != "private":
        R.notes.append("NaN harmonisation stream skipped: no module-level transformer factory to put the echo transformer behind")
        return
    with echo:
        tr = pool.entries[1][2].transformer_to_crs(pool.entries[2][2])
        vals = [0.0, 1.5, -2.0, float("nan")]
        for n in range(0, 4):
            for combo in itertools.product(itertools.product(vals, vals), repeat=n):
                if n == 3 and rng.random() > R.pick(0.05, 0.5):
                    continue
                xs = np.array([c[0] for c in combo], dtype="float64")
                ys = np.array([c[1] for c in combo], dtype="float64")
                tok = "[" + ",".join(("nan" if math.isnan(a) else frac_s(a)) + ";" + ("nan" if math.isnan(b) else frac_s(b))
                                     for a, b in combo) + "]"

                def h():
                    rx, ry = tr(xs.copy(), ys.copy())
                    return "[" + ",".join(("nan" if math.isnan(a) else frac_s(a)) + ";" + ("nan" if math.isnan(b) else frac_s(b))
                                          for a, b in zip(rx.tolist(), ry.tolist())) + "]"

                out = R.corr(f"c07 harm {tok}", h, sig="harm|" + ("nan" if "nan" in tok else "finite"))
                if not out.startswith("ERR"):
                    okh = all((("nan" in p) == (p == "nan;nan")) for p in out.strip("[]").split(",") if p)
                    R.oracle(okh, "transformer-half-nan-point", {"xs": xs.tolist(), "ys": ys.tolist()},
                             f"transformer returned a point with exactly one NaN coordinate: {out}", trivial=True)


REGIONS = {
    # lon/lat boxes well inside the valid area of every CRS of the pair
    "world": (-20.0, -40.0, 20.0, 40.0),
    "australia": (130.0, -32.0, 142.0, -18.0),
    "utm33": (12.5, 40.0, 17.5, 55.0),
}


def _eq_nan(a: float, b: float) -> bool:
    return a == b or (math.isnan(a) and math.isnan(b))


def judge_to_crs(R: Run, gm, g, dst, dst_ref, fresh, truth_same: bool, opts: Dict[str, Any], case, sig: str,
                 roundtrip: bool = False, known_key: Optional[str] = None):
    """One real `g.to_crs(dst, **opts)` against an independent pyproj Transformer (`fresh`, built by the harness for
    exactly this CRS pair): geometry type / ring structure / vertex order kept, every vertex == what pyproj gives for
    the (densified, if a resolution is asked for) source vertex, result tagged with the target CRS (`dst_ref`: a fresh
    pyproj object of the target definition); unchanged output is accepted only if the CRSs truly are the same."""
    res = opts.get("resolution")
    try:
        with warnings.catch_warnings():
            warnings.simplefilter("ignore")
            with time_limit(10):
                out = g.to_crs(dst, **opts)
                base = g if res is None else g.segmented(res)
    except BaseException as e:  # pylint: disable=broad-except
        R.oracle(False, "to-crs-raises", case, f"to_crs({case.get('dst')}, {opts}) raised {e!r}", sig=sig)
        return None
    if out is g or truth_same:
        # handed back untouched: right only when source and target are the same CRS for pyproj
        ok = truth_same and (out is g or (skel_of(out.geom) == skel_of(base.geom)))
        R.oracle(ok, known_key or "to-crs-unchanged-for-different-crs", case,
                 f"to_crs {case.get('src')} -> {case.get('dst')} returned the geometry untouched (still tagged {g.crs!s:.40}) "
                 "although pyproj says the two CRSs differ", sig=sig + "|same")
        return out
    rin, rout = rings_of(base.geom), rings_of(out.geom)
    ok = skel_of(out.geom) == skel_of(base.geom) and len(rin) == len(rout)
    bad = None if ok else f"structure {skel_of(base.geom)} -> {skel_of(out.geom)}"
    if ok and not (out.crs is not None and out.crs.proj == dst_ref):
        ok, bad = False, f"result tagged {out.crs!s:.60}"
    if ok:
        for ci, co in zip(rin, rout):
            if len(ci) != len(co):
                ok, bad = False, f"vertex count {len(ci)} (source, densified as requested) vs {len(co)}"
                break
            for (x, y), (u, v) in zip(ci, co):
                eu, ev = fresh.transform(x, y)
                if not (_eq_nan(u, eu) and _eq_nan(v, ev)):
                    ok, bad = False, f"({x},{y}) -> ({u},{v}) but pyproj gives ({eu},{ev})"
                    break
            if not ok:
                break
    R.oracle(ok, "to-crs-differs-from-pyproj", case,
             f"to_crs {case.get('src')} -> {case.get('dst')} {opts} ({case.get('kind')}): {bad}", sig=sig)
    if res is not None and res > 0:
        for c in rin:
            if len(c) >= 2:
                worst = max(d2(p, q) for p, q in zip(c[:-1], c[1:]))
                scale_all = max([abs(F(v)) for p in c for v in p] + [Fraction(1)])
                lim = F(res) * (1 + Fraction(1, 10**12)) + 8 * scale_all / 2**52
                R.oracle(worst <= lim * lim, "densify-edge-longer-than-resolution", case,
                         f"to_crs(resolution={res}): a source edge of {math.sqrt(float(worst)):.6g} was projected", sig="gap|to_crs")
    if roundtrip and ok:
        try:
            with warnings.catch_warnings():
                warnings.simplefilter("ignore")
                back = out.to_crs(g.crs)
            err = max((max(abs(p[0] - q[0]), abs(p[1] - q[1])) for ci, co in
                       zip(rings_of(g.geom), rings_of(back.geom)) for p, q in zip(ci, co)), default=0.0)
            R.oracle(err < 1e-6 and skel_of(back.geom) == skel_of(g.geom), "to-crs-round-trip-error", case,
                     f"{case.get('src')} -> {case.get('dst')} -> back moves a vertex by {err:g} units", sig="roundtrip|" + sig)
        except BaseException as e:  # pylint: disable=broad-except
            R.oracle(False, "to-crs-raises", case, repr(e))
    return out


def _place(shp, region, rng, to_src):
    """squeeze a template geometry into a lon/lat region and express it in the source CRS"""
    from shapely import affinity
    from shapely import ops as sops

    x0, y0, x1, y1 = region
    bx0, by0, bx1, by1 = shp.bounds if not shp.is_empty else (0, 0, 1, 1)
    w, h = max(bx1 - bx0, 1e-9), max(by1 - by0, 1e-9)
    fx, fy = (x1 - x0) * rng.uniform(0.2, 0.9) / w, (y1 - y0) * rng.uniform(0.2, 0.9) / h
    ll = affinity.translate(affinity.scale(affinity.translate(shp, -bx0, -by0), fx, fy, origin=(0, 0)),
                            x0 + rng.uniform(0, 0.1) * (x1 - x0), y0 + rng.uniform(0, 0.1) * (y1 - y0))
    return sops.transform(lambda x, y: to_src.transform(x, y), ll)


_TRS: Dict[Any, Any] = {}
_REF4326: List[Any] = []


def _fresh_tr(rs, rd, xy: bool):
    """independent pyproj Transformer for reference objects built by the harness (memoised: they are expensive)"""
    import pyproj

    if not _REF4326:
        _REF4326.append(pyproj.CRS.from_epsg(4326))
    k = (id(rs), id(rd), xy)
    if k not in _TRS:
        _TRS[k] = (pyproj.Transformer.from_crs(rs, rd, always_xy=xy), rs, rd)  # keep rs/rd alive with the key
    return _TRS[k][0]


def cache_history(R: Run, a, b, ra, rb, label: str):
    """Process-global cache state that user code may create BEFORE the call under test: transformers for the pair in
    both axis orders and both directions, in random order.  Each of them is itself compared with a fresh pyproj
    Transformer of the same axis order on a probe point (the transformer cache must keep them apart)."""
    import pyproj

    rng = R.rng
    steps = [(xy, rev) for xy in (False, True) for rev in (False, True)]
    rng.shuffle(steps)
    if not _REF4326:
        _fresh_tr(ra, rb, True)
    steps = steps[: rng.randint(0, 4)]
    if steps and rng.random() < 0.6:
        steps.sort(key=lambda t: t[0])  # the unusual axis order first, before anything else populates the cache
    for xy, rev in steps:
        s, d, rs, rd = (b, a, rb, ra) if rev else (a, b, ra, rb)
        try:
            tr = s.transformer_to_crs(d, always_xy=xy)
            fresh = _fresh_tr(rs, rd, xy)
            # a probe point (lon 14.25, lat 47.5) in the source CRS, in the axis order that `always_xy` asks for
            to_s = _fresh_tr(_REF4326[0], rs, xy)
            p0 = to_s.transform(14.25, 47.5) if xy else to_s.transform(47.5, 14.25)
            got, want = tr(p0[0], p0[1]), fresh.transform(p0[0], p0[1])
            ok = _eq_nan(got[0], want[0]) and _eq_nan(got[1], want[1])
            R.oracle(ok, "transformer-axis-order", {"fn": "transformer_to_crs", "pair": label, "reverse": rev,
                                                    "always_xy": xy, "point": list(p0)},
                     f"transformer_to_crs({label}{' reversed' if rev else ''}, always_xy={xy}) maps {p0} to {got}, "
                     f"a fresh pyproj Transformer with always_xy={xy} to {want}", sig=f"history|xy={xy}")
        except Exception as e:  # pylint: disable=broad-except
            R.oracle(False, "transformer-raises", {"pair": label, "always_xy": xy}, repr(e))
    return [(xy, rev) for xy, rev in steps]


def churn_defs(i: int) -> str:
    """per-tile ad-hoc projection: several hundred distinct CRS definitions that nobody keeps"""
    lat0 = -60 + (i % 50) * 2.0 + (i // 50) * 0.01
    lon0 = -170 + (i // 50) * 10.0
    return f"+proj=laea +lat_0={lat0:.2f} +lon_0={lon0:.2f} +datum=WGS84 +units=m +no_defs"


def run_crs_churn(R: Run, n: int) -> int:
    """Process-global caches as a history: `n` distinct CRS definitions are constructed, used once with the one
    long-lived CRS of the job and dropped; every conversion is still compared with a fresh pyproj Transformer."""
    import gc

    import pyproj

    gm, crsmod = _mods()
    CRS = crsmod.CRS
    wgs84 = CRS("EPSG:4326")
    ref84 = pyproj.CRS.from_epsg(4326)
    ring = [(-50_000.0, -30_000.0), (-50_000.0, 40_000.0), (60_000.0, 40_000.0), (60_000.0, -30_000.0)]
    hole = [(-10_000.0, -10_000.0), (10_000.0, -10_000.0), (0.0, 15_000.0)]
    nbad = 0
    for i in range(n):
        d = churn_defs(i)
        ref = pyproj.CRS.from_user_input(d)
        crs = CRS(d)
        poly = gm.polygon(ring, crs, hole)
        case = {"fn": "crs-churn", "tile": i, "n": n, "src": d, "dst": "EPSG:4326", "kind": "polygon+hole"}
        before = len(R.oracle_failures)
        out = judge_to_crs(R, gm, poly, wgs84, ref84, pyproj.Transformer.from_crs(ref, ref84, always_xy=True), False, {},
                           case, "churn|to-wgs84")
        if out is not None and out is not poly and i % 3 == 0:
            case2 = {"fn": "crs-churn", "tile": i, "n": n, "src": "EPSG:4326", "dst": d, "kind": "polygon+hole"}
            judge_to_crs(R, gm, out, crs, ref, pyproj.Transformer.from_crs(ref84, ref, always_xy=True), False, {}, case2,
                         "churn|from-wgs84")
        nbad += len(R.oracle_failures) > before
        del crs, poly, out, ref
        if i % 64 == 0:
            gc.collect()
        if nbad >= 5:
            break  # demonstrated
    return nbad


def spelling_case(R: Run, gm, dlab: str, d: str, near: int, reg, sname: str, mk, ident, direction: str, kind: str, shp,
                  rng, replaying: bool = False):
    import pyproj

    twin_def = f"EPSG:{near}" if d.upper() != f"EPSG:{near}" else "EPSG:3857"
    twin_ref = pyproj.CRS.from_user_input(twin_def)
    case = {"fn": "to_crs-spelling", "def": dlab, "spelling": sname, "direction": direction, "kind": kind, "twin": twin_def,
            "src": twin_def if direction == "as-target" else f"{dlab}@{sname}",
            "dst": f"{dlab}@{sname}" if direction == "as-target" else twin_def}
    try:
        if direction == "as-target":
            insrc = _place(shp, reg, rng, _fresh_tr(_ref4326(), twin_ref, True))
            g = gm.Geometry(insrc, twin_def)
            dst, dst_ref, fresh, same = mk(), ident, pyproj.Transformer.from_crs(twin_ref, ident, always_xy=True), twin_ref == ident
        else:
            insrc = _place(shp, reg, rng, pyproj.Transformer.from_crs("EPSG:4326", ident, always_xy=True))
            g = gm.Geometry(insrc, mk())
            dst, dst_ref, fresh, same = twin_def, twin_ref, pyproj.Transformer.from_crs(ident, twin_ref, always_xy=True), twin_ref == ident
    except Exception as e:  # pylint: disable=broad-except
        R.oracle(False, "to-crs-raises", case, f"building the {direction} case raised {e!r}")
        return
    case["wkt"] = insrc.wkt
    judge_to_crs(R, gm, g, dst, dst_ref, fresh, same, {}, case, f"spelling|{sname}|{direction}")


def _ref4326():
    if not _REF4326:
        import pyproj

        _REF4326.append(pyproj.CRS.from_epsg(4326))
    return _REF4326[0]


def run_spelling_matrix(R: Run):
    from .c01_spellings import NEAR_EPSG, spellings

    gm, _ = _mods()
    rng = R.rng
    kinds, _r = shapes_for(rng, "pyth")
    for k, (dlab, d, near, reg) in enumerate(NEAR_EPSG):
        sp = spellings(dlab, d, near)
        if k % 2 == 1:
            sp = sorted(sp, key=lambda t: 0 if (t[0].startswith("duck") or t[0] == "rasterio") else 1)
        for sname, mk, ident in sp:
            for direction in ("as-target", "as-source"):
                for kind in (("line",) if R.quick else ("line", "polygon+holes")):
                    spelling_case(R, gm, dlab, d, near, reg, sname, mk, ident, direction, kind, kinds[kind], rng)


def run_multipart_to_crs(R: Run, rounds: Optional[int] = None):
    import pyproj

    gm, crsmod = _mods()
    rng = R.rng
    for (a, origin, unit) in (("3857", (1.5e6, 6.0e6), 1024.0), ("32633", (4.0e5, 5.2e6), 256.0), ("3577", (1.0e5, -3.0e6), 512.0)):
        for b in ("4326", "3857" if a != "3857" else "6933"):
            ra, rb = pyproj.CRS.from_epsg(int(a)), pyproj.CRS.from_epsg(int(b))
            fresh = _fresh_tr(ra, rb, True)
            src, dst = crsmod.CRS(f"EPSG:{a}"), crsmod.CRS(f"EPSG:{b}")
            for _ in range(rounds if rounds is not None else R.pick(1, 4)):
                kinds, r = multipart_for(rng, origin=origin, unit=unit * 2.0 ** rng.randint(-1, 1))
                for kind, shp in kinds.items():
                    g = gm.Geometry(shp, src)
                    for wd in (False, True):
                        if wd and not rb.is_geographic:
                            continue
                        case = {"fn": "to_crs", "kind": kind, "wkt": shp.wkt, "src": a, "dst": b, "resolution": r,
                                "opts": {"wrapdateline": wd}}
                        out = judge_to_crs(R, gm, g, dst, rb, fresh, False, {"resolution": r, "wrapdateline": wd}, case,
                                           f"multipart|{a}->{b}|{kind}" + ("|wrapdateline" if wd else ""))
                        if out is not None:
                            # two-sided, per part: the number of projected vertices of every ring is what densifying that
                            # ring at `r` asks for (closed form on squares), however small the part is
                            for cin, cout in zip(rings_of(shp), rings_of(out.geom)):
                                if len(cin) < 2:
                                    continue
                                want = len(cin)
                                for p0, q0 in zip(cin[:-1], cin[1:]):
                                    D2 = d2(p0, q0)
                                    if D2 >= F(r) ** 2:
                                        k = int(math.sqrt(float(D2)) / r)
                                        while (k * F(r)) ** 2 >= D2:
                                            k -= 1
                                        while ((k + 1) * F(r)) ** 2 < D2:
                                            k += 1
                                        want += k
                                R.oracle(len(cout) == want, "densify-wrong-vertex-count",
                                         {**case, "ring": [list(map(float, p0)) for p0 in cin]},
                                         f"to_crs(resolution={r}): a part with ring {cin[:3]}... has {len(cout)} projected vertices, "
                                         f"densifying it at that resolution gives {want}", sig=f"multipart|count|{kind}")


BOUNDARY_DELTAS = (1e-3, 1e-4, 5e-5, 1e-5, 1e-7, 0.0)


def run_boundary(R: Run, deep: bool = False):
    """Vertices whose image lies within {1e-3 ... 1e-7} degrees of lon +-180 / the latitude limit of the target CRS, and
    world-extent boxes: built by inverse-projecting such lon/lat with a fresh Transformer into the source CRS.
    wrapdateline=False (the default): every vertex == fresh pyproj.  wrapdateline=True: the same, except that a
    longitude within 1e-4 of +-180 may come back as exactly +-180 (documented clip_lon180)."""
    import pyproj
    from shapely import geometry as sg

    gm, crsmod = _mods()
    rng = R.rng
    srcs = [("3857", 85.0, (20037508.342789244, 20048966.104014594)), ("6933", 84.0, (17367530.445161372, 7314540.830638599)),
            ("4087", 89.0, (20037508.342789244, 10018754.171394622))]
    dsts = ["4326", "4258"] if not deep else ["4326", "4258", "4283", "4269"]
    deltas = BOUNDARY_DELTAS if not deep else BOUNDARY_DELTAS + (2e-4, 9.9e-5, 1.01e-4, 1e-6, 1e-9)
    for a, latmax, (xw, yw) in srcs:
        ra = pyproj.CRS.from_epsg(int(a))
        inv = _fresh_tr(_ref4326(), ra, True)
        src = crsmod.CRS(f"EPSG:{a}")
        for b in dsts:
            rb = pyproj.CRS.from_epsg(int(b))
            dst = crsmod.CRS(f"EPSG:{b}")
            fresh = _fresh_tr(ra, rb, True)
            geoms = {}
            for dl in deltas:
                for sx in (1, -1):
                    lon = sx * (180.0 - dl)
                    lats = [0.0, 33.25, -61.5, latmax - dl, -(latmax - dl)]
                    pts = [inv.transform(lon, la) for la in lats]
                    inner = inv.transform(sx * 170.0, 10.0)
                    geoms[f"multipoint|dlon={sx * dl:g}"] = sg.MultiPoint(pts)
                    geoms[f"line|dlon={sx * dl:g}"] = sg.LineString(pts + [inner])
                    c = [inv.transform(sx * 170.0, -10.0), inv.transform(sx * 170.0, 10.0), inv.transform(lon, 10.0),
                         inv.transform(lon, -10.0)]
                    geoms[f"polygon|dlon={sx * dl:g}"] = sg.Polygon(c)
                    geoms[f"collection|dlon={sx * dl:g}"] = sg.GeometryCollection([sg.Point(pts[0]), sg.LineString(pts[:3]), sg.Polygon(c)])
            f = rng.choice([1.0, 0.999999, 0.99999])
            geoms["world-box"] = sg.box(-xw, -yw * 0.9, xw, yw * 0.9)
            geoms["world-box-shrunk"] = sg.box(-xw * f, -yw * 0.9, xw * f, yw * 0.9)
            for kind, shp in geoms.items():
                if not all(math.isfinite(v) for ring in rings_of(shp) for p0 in ring for v in p0):
                    continue
                g = gm.Geometry(shp, src)
                for wd in (False, True):
                    case = {"fn": "to_crs-boundary", "kind": kind, "wkt": shp.wkt, "src": a, "dst": b, "resolution": None,
                            "opts": {"wrapdateline": wd}}
                    if not wd:
                        judge_to_crs(R, gm, g, dst, rb, fresh, False, {}, case, f"boundary|{a}->{b}|default")
                        continue
                    if "dlon=0" in kind or "dlon=-0" in kind or kind.startswith("world"):
                        continue  # touches the antimeridian: wrapdateline=True is allowed to chop it
                    if not deep and R.quick and not (kind.startswith(("multipoint", "polygon")) and
                                                      any(kind.endswith(f"={sg_}{d_:g}") for sg_ in ("", "-") for d_ in (1e-4, 5e-5, 1e-7))):
                        continue  # wrapdateline=True re-projects the antimeridian on every call (18 ms): a subset in quick
                    try:
                        with warnings.catch_warnings():
                            warnings.simplefilter("ignore")
                            out = g.to_crs(dst, wrapdateline=True)
                    except BaseException as e:  # pylint: disable=broad-except
                        R.oracle(False, "to-crs-raises", case, repr(e))
                        continue
                    ok = skel_of(out.geom) == skel_of(shp)
                    bad = None if ok else "structure changed"
                    if ok:
                        for ci, co in zip(rings_of(shp), rings_of(out.geom)):
                            for (x, y), (u_, v_) in zip(ci, co):
                                eu, ev = fresh.transform(x, y)
                                snap = abs(eu) >= 180 - 1e-4 and abs(u_) == 180.0
                                if not ((_eq_nan(u_, eu) or snap) and _eq_nan(v_, ev)):
                                    ok, bad = False, f"({x},{y}) -> ({u_},{v_}), pyproj gives ({eu},{ev})"
                    R.oracle(ok, "to-crs-wrapdateline-differs-from-pyproj", case,
                             f"to_crs {a}->{b} wrapdateline=True ({kind}): {bad}", sig=f"boundary|{a}->{b}|wrapdateline")


def boundary_searcher(R: Run, mismatches):
    """the correspondence (or proof) broke without a failing input: look harder at the classes that only show on real
    projections — tail of to_crs next to the domain boundary of the target CRS, multi-part size classes"""
    before = len(R.oracle_failures)
    try:
        run_boundary(R, deep=True)
        run_multipart_to_crs(R, rounds=6)
    except Exception as e:  # pylint: disable=broad-except
        R.notes.append(f"searcher: {e!r}")
    new = R.oracle_failures[before:]
    if new:
        f = new[0]
        del R.oracle_failures[before:]
        return {"key": f["key"], "case": f["case"], "what": f["what"]}
    return None


def run_to_crs_pyproj(R: Run):
    """the real to_crs against fresh pyproj Transformers: EPSG pairs x every keyword, CRSs without EPSG code in every
    lazy state of `.epsg`, and after a churn of several hundred dropped CRS definitions"""
    import pyproj
    from pyproj.enums import WktVersion
    from shapely import affinity

    gm, crsmod = _mods()
    rng = R.rng
    CRS = crsmod.CRS

    # ---- A. EPSG pairs x option matrix (resolution x wrapdateline x check_and_fix), geographic and projected targets
    codes = {"4326": ("world",), "3857": ("world",), "6933": ("world",), "3577": ("australia",), "32633": ("utm33",),
             "4283": ("australia",), "4258": ("utm33",)}
    names = list(codes)
    optsets = [dict(wrapdateline=w, check_and_fix=c) for w in (False, True) for c in (False, True)
               if not (R.quick and w and c)]
    for a, b in itertools.permutations(names, 2):
        regs = set(codes[a]) | set(codes[b])
        regs.discard("world")
        if len(regs) > 1:
            continue  # no common valid area
        reg = regs.pop() if regs else "world"
        src, dst = CRS(f"EPSG:{a}"), CRS(f"EPSG:{b}")
        ra, rb = pyproj.CRS.from_epsg(int(a)), pyproj.CRS.from_epsg(int(b))
        to_src = pyproj.Transformer.from_crs("EPSG:4326", ra, always_xy=True)
        fresh = pyproj.Transformer.from_crs(ra, rb, always_xy=True)
        hist = cache_history(R, src, dst, ra, rb, f"EPSG:{a}->EPSG:{b}")
        for _ in range(R.pick(1, 6)):
            kinds, _r = shapes_for(rng, rng.choice(["axis", "pyth"]))
            for kind, shp in kinds.items():
                if R.quick and kind in ("ring", "polygon", "multipoint"):
                    continue  # covered by line / polygon+holes / point in the quick tier
                insrc = _place(shp, REGIONS[reg], rng, to_src)
                g = gm.Geometry(insrc, src)
                span = max(insrc.bounds[2] - insrc.bounds[0], insrc.bounds[3] - insrc.bounds[1], 1e-9)
                for res in (None, span / rng.choice([3, 7.5, 20])):
                    for o in optsets:
                        if (o["wrapdateline"] or o["check_and_fix"]) and kind in ("point", "multipoint") and res is not None:
                            continue
                        if R.quick and o["wrapdateline"] and kind not in ("line", "polygon+holes", "multipolygon", "collection"):
                            continue  # the antimeridian line is re-projected on every call (18 ms)
                        if R.quick and o["check_and_fix"] and kind not in ("line", "polygon+holes", "multipolygon", "collection"):
                            continue
                        opts = dict(o, resolution=res)
                        if o["check_and_fix"]:
                            # `maybe_fix` only leaves valid results alone: judge those
                            try:
                                exp = gm.Geometry(insrc, None).transform(lambda x, y: fresh.transform(x, y))
                                if not exp.is_valid:
                                    continue
                            except Exception:  # pylint: disable=broad-except
                                continue
                        case = {"fn": "to_crs", "kind": kind, "wkt": insrc.wkt, "src": a, "dst": b, "resolution": res,
                                "opts": {k: v for k, v in o.items()}, "history": hist}
                        judge_to_crs(R, gm, g, dst, rb, fresh, False, opts, case,
                                     f"pyproj|{a}->{b}|" + ("plain" if res is None else "densified") +
                                     ("|wrapdateline" if o["wrapdateline"] else "") + ("|fix" if o["check_and_fix"] else "") +
                                     ("|geographic" if rb.is_geographic else "|projected"),
                                     roundtrip=(res is None and not o["wrapdateline"] and not o["check_and_fix"]))

    # ---- B. CRSs WITHOUT an EPSG code, lossy / foreign spellings, every lazy state of `.epsg` on either side;
    #         the target is handed over as that very object
    p3857 = pyproj.CRS.from_epsg(3857)
    defs = [
        ("4326", "EPSG:4326"), ("32633", "EPSG:32633"), ("3857", "EPSG:3857"),
        ("3857esri", p3857.to_wkt(version=WktVersion.WKT1_ESRI)),
        ("sinu", "+proj=sinu +lon_0=0 +x_0=0 +y_0=0 +R=6371007.181 +units=m +no_defs"),
        ("sinu15", "+proj=sinu +lon_0=15 +x_0=0 +y_0=0 +R=6371007.181 +units=m +no_defs"),
        ("laea", "+proj=laea +lat_0=47.3 +lon_0=14.7 +x_0=1234.5 +y_0=-77 +ellps=GRS80 +units=m +no_defs"),
        ("laea-shift", "+proj=laea +lat_0=47.3 +lon_0=14.7 +x_0=1244.5 +y_0=-77 +ellps=GRS80 +units=m +no_defs"),
        ("utm33-nodatum", "+proj=utm +zone=33 +ellps=intl +units=m +no_defs"),
        ("moll", "+proj=moll +lon_0=0 +x_0=0 +y_0=0 +datum=WGS84 +units=m +no_defs"),
    ]
    refs = {lab: pyproj.CRS.from_user_input(d) for lab, d in defs}
    ents = []
    for lab, d in defs:
        ents.append((lab, lab, CRS(d), False))
        if not d.upper().startswith("EPSG:"):
            c = CRS(d)
            _ = c.epsg
            ents.append((lab + "+read", lab, c, True))
    trs: Dict[Tuple[str, str], Any] = {}
    to_srcs = {lab: pyproj.Transformer.from_crs("EPSG:4326", refs[lab], always_xy=True) for lab, _ in defs}
    kinds, _r = shapes_for(rng, "pyth")
    for (la, da, ca, lza), (lb, db, cb, lzb) in itertools.product(ents, ents):
        truth_same = refs[da] == refs[db]
        if (da, db) not in trs:
            trs[(da, db)] = pyproj.Transformer.from_crs(refs[da], refs[db], always_xy=True)
        # the one known way CRS.__eq__ errs on the unchanged tree (see C01): a lazily cached fuzzy EPSG code equal to the
        # other side's code; it gets its own key so that it can never hide anything else
        ea, eb = ca._epsg or 0, cb._epsg or 0  # pylint: disable=protected-access
        lazy_code = (lza and not ca._str.startswith("EPSG:")) or (lzb and not cb._str.startswith("EPSG:"))  # pylint: disable=protected-access
        known = "crs-eq-fuzzy-epsg-code-match" if (not truth_same and lazy_code and ea != 0 and ea == eb) else None
        if not truth_same and rng.random() < 0.5:
            cache_history(R, ca, cb, refs[da], refs[db], f"{la}->{lb}")
        for kind in ("polygon+holes", "line") if R.quick else ("polygon+holes", "line", "collection"):
            insrc = _place(kinds[kind], REGIONS["utm33"], rng, to_srcs[da])
            g = gm.Geometry(insrc, ca)
            span = max(insrc.bounds[2] - insrc.bounds[0], insrc.bounds[3] - insrc.bounds[1], 1e-9)
            for res in (None, span / 5.5):
                if res is not None and kind != "line":
                    continue
                case = {"fn": "to_crs", "kind": kind, "wkt": insrc.wkt, "src": la, "dst": lb, "resolution": res,
                        "src_def": defs[[x[0] for x in defs].index(da)][1], "dst_def": defs[[x[0] for x in defs].index(db)][1]}
                state = "both-read" if lza and lzb else "one-read" if lza or lzb else "unread"
                judge_to_crs(R, gm, g, cb, refs[db], trs[(da, db)], truth_same, {"resolution": res}, case,
                             f"codeless|{state}|" + ("same" if truth_same else "other"), known_key=known)

    # ---- A2. multi-part geometries with parts at every size class relative to the step, through to_crs(resolution=)
    run_multipart_to_crs(R)

    # ---- A3. vertices whose image lies next to the domain boundary of the target CRS (lon +-180, lat +-90)
    run_boundary(R)

    # ---- B2. the CRS spelling / type dimension: target (and source) CRS handed over as int / 'EPSG:n' / WKT1 / WKT2 /
    #          PROJ string / PROJJSON / dict / pyproj / odc / rasterio / duck-typed objects, for near-EPSG systems whose
    #          fuzzy to_epsg() names a different CRS; reference = fresh Transformer from the independent identities
    run_spelling_matrix(R)

    # ---- C. caches as a history
    nbad = run_crs_churn(R, R.pick(220, 1500))
    R.count("crs-churn-bad-tiles", nbad)

    # ---- D. resolution="auto" on every kind (zero-area kinds used to hang)
    src, dst = CRS("EPSG:3857"), CRS("EPSG:4326")
    kinds, _ = shapes_for(rng, "axis")
    for kind, shp in kinds.items():
        shp2 = affinity.scale(shp, 1000, 1000, origin=(0, 0))
        g = gm.Geometry(shp2, src)
        case = {"fn": "to_crs", "kind": kind, "wkt": shp2.wkt, "src": "3857", "dst": "4326", "resolution": "auto"}
        try:
            with warnings.catch_warnings():
                warnings.simplefilter("ignore")
                with time_limit(risky=True):
                    out = g.to_crs(dst, resolution="auto")
            R.oracle(skel_of(out.geom) == skel_of(shp2), "to-crs-changes-structure", case, "", sig=f"auto|{kind}")
        except Timeout:
            R.oracle(False, "densify-nonpositive-resolution-hangs", case,
                     f"to_crs(resolution='auto') on a {kind} (area {shp2.area}) did not return within {TIME_LIMIT}s: "
                     "automatic resolution 0 -> densify never leaves its loop")
        except BaseException as e:  # pylint: disable=broad-except
            R.oracle(False, "to-crs-raises", case, repr(e))


def run_growth(R: Run):
    """exact correspondence for clip_lon180, the wrapdateline tail of to_crs, Geometry.transform, sides and
    BoundingBox.to_crs (stand-in exact projection where a transformer is involved)"""
    from affine import Affine
    from shapely import geometry as sg

    from .c01 import Pool

    gm, crsmod = _mods()
    rng = R.rng
    pool = Pool(False)
    ents = pool.entries[:6]

    # ---- clip_lon180(geom, tol): dyadic tolerances (180 - tol exact), longitudes on / around the threshold
    for tol in (0.5, 0.125, 2.0 ** -10):
        th = 180 - tol
        xs = [180.0, -180.0, th, -th, th - 2.0 ** -12, -(th - 2.0 ** -12), th + 2.0 ** -12, 179.0 - tol, -170.0, 10.0, 0.0, -0.5,
              181.0, -185.5, 360.0]
        for _ in range(R.pick(12, 250)):
            def pts(n):
                return [(rng.choice(xs), rng.randint(-40, 40) / 4) for _ in range(n)]

            def ring(n):
                p = pts(n)
                return p + [p[0]]

            kinds = {
                "point": sg.Point(pts(1)[0]), "multipoint": sg.MultiPoint(pts(4)), "line": sg.LineString(pts(rng.randint(2, 6))),
                "ring": sg.LinearRing(ring(4)), "polygon+hole": sg.Polygon(ring(5), [ring(3)]),
                "multiline": sg.MultiLineString([pts(3), pts(2)]),
                "multipolygon": sg.MultiPolygon([sg.Polygon(ring(4)), sg.Polygon(ring(3), [ring(3)])]),
                "collection": sg.GeometryCollection([sg.Point(pts(1)[0]), sg.LineString(pts(3)), sg.Polygon(ring(4)),
                                                     sg.GeometryCollection([sg.MultiPoint(pts(2))])]),
            }
            for kind, shp in kinds.items():
                box: Dict[str, Any] = {}

                def f():
                    try:
                        with warnings.catch_warnings():
                            warnings.simplefilter("ignore")
                            out = gm.clip_lon180(gm.Geometry(shp, "EPSG:4326"), tol)
                    except BaseException as e:  # pylint: disable=broad-except
                        return err_s(e)
                    box["out"] = out
                    return enc_geom(out.geom)

                R.corr(f"c07 clip {frac_s(tol)} {enc_geom(shp)}", f, sig=f"clip|{kind}")
                if "out" in box:
                    out = box["out"]
                    ok = skel_of(out.geom) == skel_of(shp) and str(out.crs) == "EPSG:4326"
                    for ci, co in zip(rings_of(shp), rings_of(out.geom)):
                        for (x, y), (u, v) in zip(ci, co):
                            ok = ok and v == y and ((abs(x) < th and u == x) or (abs(x) >= th and abs(u) == 180))
                    R.oracle(ok, "clip-lon180-moves-wrong-vertex", {"fn": "clip_lon180", "tol": tol, "wkt": shp.wkt, "kind": kind},
                             "clip_lon180 changed a latitude / a longitude away from the antimeridian, or the structure",
                             sig=f"clip|{kind}")

    # ---- Geometry.transform / A * geom, sides
    crsargs = [("U", "unset"), ("N", None)] + [(pool.rec(e[2]), e[2]) for e in ents[1:4]]
    for _ in range(R.pick(6, 40)):
        kinds, _r = shapes_for(rng, rng.choice(["axis", "pyth"]))
        A = Affine(rng.choice([1, 2, -0.5]), rng.choice([0, 0.25]), rng.randint(-8, 8) / 2, rng.choice([0, -1]), rng.choice([1, -2, 0.5]),
                   rng.randint(-8, 8) / 4)
        atok = ";".join(frac_s(v) for v in tuple(A)[:6])
        for kind, shp in kinds.items():
            for e in ents[:4]:
                for tok, arg in crsargs:
                    g = gm.Geometry(shp, e[2])

                    def ft():
                        with warnings.catch_warnings():
                            warnings.simplefilter("ignore")
                            out = (A * g) if (tok == "U" and rng.random() < 0.5) else (
                                g.transform(A) if tok == "U" else g.transform(A, crs=arg))
                        return pool.rec(out.crs) + " " + enc_geom(out.geom)

                    R.corr(f"c07 transform {atok} {tok} {pool.rec(e[2])} {enc_geom(shp)}", ft, sig=f"transform|{kind}|{tok[:1]}")
        for kind in ("polygon", "polygon+holes"):
            shp = kinds[kind]

            def fs():
                return "[" + ",".join(f"{pt_s(s.coords[0])}>{pt_s(s.coords[1])}" for s in gm.sides(gm.Geometry(shp, "EPSG:3857"))) + "]"

            R.corr(f"c07 sides {pts_s(shp.exterior.coords)}", fs, sig="sides")

    # ---- wrapdateline tail of to_crs and BoundingBox.to_crs, with the exact stand-in projection as transformer
    eps_tok = frac_s(Fraction(180) - Fraction(180 - 1e-4))
    with fake_transformers(R, crsmod, lambda a, b: Fake(pool._obj[id(a)], pool._obj[id(b)])):  # pylint: disable=protected-access
        for rnd in range(R.pick(2, 16)):
            kinds, r0 = shapes_for(rng, "axis" if rnd % 2 == 0 else "pyth") if rnd % 2 else multipart_for(rng)
            for kind, shp in kinds.items():
                for es, et in itertools.product(ents, ents):
                    for res in (None, r0):
                        for wd in (False, True):
                            g = gm.Geometry(shp, es[2])
                            geo = bool(et[2] is not None and et[2].geographic)
                            if wd and geo and es[2] is not None and not (es[1] == et[1]):
                                try:
                                    with warnings.catch_warnings():
                                        warnings.simplefilter("ignore")
                                        l180 = gm.projected_lon(es[2], 180, step=0.1)
                                        dens = g if res is None else g.segmented(res)
                                        if dens.intersects(l180):
                                            continue  # would be chopped: `chop` is a parameter of the model
                                except Exception:  # pylint: disable=broad-except
                                    continue
                            line = (f"c07 tocrsfull {pool.rec(es[2])} {pool.rec(et[2])} {'T' if geo else 'F'} {'T' if wd else 'F'} "
                                    f"{eps_tok} {'N' if res is None else frac_s(res)} {enc_geom(shp)}")

                            def fw():
                                try:
                                    with warnings.catch_warnings():
                                        warnings.simplefilter("ignore")
                                        with time_limit():
                                            out = g.to_crs(et[2], resolution=res, wrapdateline=wd)
                                except BaseException as e:  # pylint: disable=broad-except
                                    return err_s(e)
                                return pool.rec(out.crs) + " " + enc_geom(out.geom)

                            R.corr(line, fw, sig=f"tocrsfull|{'wd' if wd else 'plain'}|{'geo' if geo else 'proj'}|{kind}")
        for _ in range(R.pick(20, 400)):
            s2 = 2.0 ** rng.randint(-2, 3)
            l, b = rng.randint(-16, 16) * s2, rng.randint(-16, 16) * s2
            w, h = 2.0 ** rng.randint(0, 4) * s2, 2.0 ** rng.randint(0, 4) * s2
            r_, t_ = (l + w, b + h) if rng.random() < 0.8 else (l - w, b - h)   # inverted boxes too
            for es, et in itertools.product(ents, ents):
                for res in (None, s2 * 2.0 ** rng.randint(-2, 2), 0.0):
                    bb = gm.BoundingBox(l, b, r_, t_, es[2])

                    def fb():
                        try:
                            with warnings.catch_warnings():
                                warnings.simplefilter("ignore")
                                with time_limit(risky=(res == 0.0)):
                                    out = bb.to_crs(et[2], resolution=res) if res is not None else bb.to_crs(et[2])
                        except BaseException as e:  # pylint: disable=broad-except
                            return err_s(e)
                        return pool.rec(out.crs) + " " + " ".join(frac_s(v) for v in out.bbox)

                    R.corr(f"c07 bboxtocrs {pool.rec(es[2])} {pool.rec(et[2])} {'N' if res is None else frac_s(res)} "
                           f"{frac_s(l)} {frac_s(b)} {frac_s(r_)} {frac_s(t_)}", fb, sig="bboxtocrs|" + ("none" if es[2] is None or et[2] is None else "ok"))


def run_extreme_ratio(R: Run):
    """1e5 ... pieces on ONE edge: closed-form count, first/last vertex, max/min gap via numpy (no per-vertex Fractions)"""
    import numpy as np

    gm, _ = _mods()
    rng = R.rng
    todo = [(140_000 + rng.randint(0, 999), "axis")] if R.quick else [
        (150_000 + rng.randint(0, 999), "axis"), (300_000 + rng.randint(0, 999), "diag"), (1_000_000 + rng.randint(0, 999), "axis"),
        (2_500_000 + rng.randint(0, 999), "diag")]
    for n, how in todo:
        r = rng.choice([1.0, 0.5, 0.25])
        L = n * r + r * rng.choice([0.25, 0.5, 0.75])          # n pieces of r and a rest: n added vertices
        if how == "axis":
            p, q = (1000.0, -500.0), (1000.0, -500.0 + L) if rng.random() < 0.5 else (1000.0 + L, -500.0)
        else:
            p, q = (0.0, 0.0), (0.6 * L, 0.8 * L)
        case = {"fn": "densify", "coords": [list(p), list(q)], "resolution": r, "pieces": n}
        try:
            with warnings.catch_warnings():
                warnings.simplefilter("ignore")
                with time_limit(120):
                    out = gm.densify([p, q], r)
        except BaseException as e:  # pylint: disable=broad-except
            R.oracle(False, "densify-raises", case, repr(e))
            continue
        a = np.asarray(out, dtype="float64")
        gaps = np.hypot(np.diff(a[:, 0]), np.diff(a[:, 1]))
        Lf = math.hypot(q[0] - p[0], q[1] - p[1])
        want = int(math.floor(Lf / r))
        if want * r >= Lf:
            want -= 1
        slack = 8 * float(np.abs(a).max()) * 2.0 ** -52
        R.oracle(len(out) == want + 2, "densify-wrong-vertex-count", case,
                 f"densify: one edge of length {Lf!r} at resolution {r} got {len(out) - 2} added vertices, {want} are needed",
                 sig=f"extreme|count|{how}")
        R.oracle(tuple(out[0]) == p and tuple(out[-1]) == q, "densify-drops-or-reorders-vertices", case,
                 "first / last vertex changed", sig="extreme|ends", trivial=True)
        R.oracle(float(gaps.max()) <= r * (1 + 1e-12) + slack, "densify-edge-longer-than-resolution", case,
                 f"densify: longest of {len(gaps)} output edges is {float(gaps.max())!r} > resolution {r}", sig=f"extreme|gap|{how}")
        # every added vertex k at arc length k*r along the edge
        k = np.arange(1, len(out) - 1, dtype="float64")
        ex = p[0] + (k * r / Lf) * (q[0] - p[0])
        ey = p[1] + (k * r / Lf) * (q[1] - p[1])
        if len(out) == want + 2:
            dev = float(max(np.abs(a[1:-1, 0] - ex).max(), np.abs(a[1:-1, 1] - ey).max()))
            R.oracle(dev <= 1e-9 * max(1.0, Lf), "densify-vertex-not-at-multiple-of-resolution", case,
                     f"added vertices are up to {dev:g} away from p + (k r / len)(q - p)", sig="extreme|position", trivial=True)


def run_numeric_spellings(R: Run):
    """every numeric SPELLING of the resolution must behave like the equal python float, through densify, segmented,
    to_crs and lonlat_bounds, and must not be modified by the call"""
    from decimal import Decimal

    import numpy as np

    gm, crsmod = _mods()
    CRS = crsmod.CRS
    coords = [(0.0, 0.0), (0.0, 7.0), (3.0, 11.0), (3.0, 11.5)]
    from shapely import geometry as sg

    shapes = {"line": sg.LineString(coords), "polygon": sg.Polygon([(0, 0), (0, 8), (8, 8), (8, 0)], [[(2, 2), (5, 2), (5, 5), (2, 5)]])}
    c3857, c4326 = CRS("EPSG:3857"), CRS("EPSG:4326")

    def spellings(v: float):
        sp = {"float": float(v), "np.float64": np.float64(v), "np.float32": np.float32(v), "np.float16": np.float16(v),
              "0-d float64 array": np.array(v, dtype="float64"), "0-d float32 array": np.array(v, dtype="float32"),
              "Fraction": Fraction(v), "Decimal": Decimal(v)}
        if float(v).is_integer():
            sp.update({"int": int(v), "np.int32": np.int32(v), "np.int64": np.int64(v), "np.uint8": np.uint8(v) if v >= 0 else np.int8(v),
                       "0-d int64 array": np.array(int(v), dtype="int64")})
        return sp

    def canon(x):
        if isinstance(x, gm.Geometry):
            return ("G", x.geom.wkb, str(x.crs))
        if isinstance(x, gm.BoundingBox):
            return ("B", tuple(x.bbox))
        return ("L", [tuple(map(float, p)) for p in x])

    calls = {
        "densify": lambda r: gm.densify(list(coords), r),
        "segmented[line]": lambda r: gm.Geometry(shapes["line"], c3857).segmented(r),
        "segmented[polygon]": lambda r: gm.Geometry(shapes["polygon"], c3857).segmented(r),
        "to_crs[line]": lambda r: gm.Geometry(shapes["line"], c3857).to_crs(c4326, resolution=r),
        "to_crs[polygon]": lambda r: gm.Geometry(shapes["polygon"], c3857).to_crs(c4326, r),
        "lonlat_bounds": lambda r: gm.lonlat_bounds(gm.Geometry(shapes["polygon"], c3857), resolution=r),
    }
    for v in (2.0, 0.5, 3.0, 1.0, 0.0, -1.0):
        for cname, fn in calls.items():
            def outcome(r):
                try:
                    with warnings.catch_warnings():
                        warnings.simplefilter("ignore")
                        with time_limit(risky=not v > 0):
                            return canon(fn(r))
                except BaseException as e:  # pylint: disable=broad-except
                    return err_s(e)

            want = outcome(float(v))
            for sk, sv in spellings(v).items():
                before = repr(sv)
                got = outcome(sv)
                exotic = sk in ("Fraction", "Decimal")
                ok = got == want or (exotic and got == "ERR:TypeError")
                nvert = (lambda o: len(o[1]) if isinstance(o, tuple) and o[0] == "L" else "-")
                R.oracle(ok, f"numeric-spelling:{cname.split('[')[0]}",
                         {"fn": "spelling", "call": cname, "resolution": repr(sv), "spelling": sk, "value": v},
                         f"{cname} with resolution {sv!r} ({sk}) differs from the same call with the python float {float(v)!r}"
                         + (f": {got}" if isinstance(got, str) else f" (vertices {nvert(got)} vs {nvert(want)})"),
                         sig=f"spelling|{sk}")
                R.oracle(repr(sv) == before, "resolution-argument-modified",
                         {"fn": "spelling", "call": cname, "resolution": before, "spelling": sk, "value": v},
                         f"{cname} changed its resolution argument from {before} to {sv!r}", sig="spelling|unmodified", trivial=True)


def run(R: Run):
    import time

    from .c07_options import run_options

    timing = {}
    for fn in (run_densify, run_segmented, run_many_vertices, run_to_crs_model, run_growth, run_options, run_float_stream, run_to_crs_pyproj,
               run_extreme_ratio, run_numeric_spellings):
        t0 = time.time()
        fn(R)
        timing[fn.__name__] = round(time.time() - t0, 2)
    R.extra["section_seconds"] = timing
    R.searchers.append(boundary_searcher)
    R.exhaustive = False
    R.assumptions.append("shapely: LineString.length is the Euclidean length and interpolate(d) = p1 + (d/len)(p2-p1) "
                         "(contract EdgeOk; exercised by the exact stream and the on-edge / max-gap oracles)")
    R.assumptions.append("pyproj numerics are a parameter (proj); to_crs is compared with a fresh Transformer vertex by "
                         "vertex; round-trip precision < 1e-6 units is sampled inside valid areas, not proved")
    R.assumptions.append("exact stream restricted to inputs on which binary64 is exact (dyadic vertices, rational edge length "
                         "with r/len dyadic); irrational edges compare loop counts only")


def replay(R: Run, rec) -> int:
    gm, _ = _mods()
    case = rec.get("case") or {}
    key = rec.get("key", "")
    print("replay case:", case, "key:", key)
    fn = case.get("fn")
    try:
        from .c07_options import replay_options

        rc = replay_options(R, rec)
        if rc >= 0:
            return rc
        if fn == "densify":
            coords = [tuple(p) for p in case["coords"]]
            r = case["resolution"]
            out = real_densify(gm, coords, r)
            worst = max((d2(a, b) for a, b in zip(out[:-1], out[1:])), default=Fraction(0))
            print("output:", out[:12], "..." if len(out) > 12 else "", "max edge", math.sqrt(float(worst)), "resolution", r)
            bad = worst > F(r) ** 2 * (1 + Fraction(1, 10**12)) ** 2 or counts_of(coords, out) is None
            return 1 if bad else 0
        if fn == "spelling":
            from decimal import Decimal

            import numpy as np

            v, sk = case["value"], case["spelling"]
            mk = {"float": float, "np.float64": np.float64, "np.float32": np.float32, "np.float16": np.float16,
                  "0-d float64 array": lambda x: np.array(x, dtype="float64"), "0-d float32 array": lambda x: np.array(x, dtype="float32"),
                  "Fraction": Fraction, "Decimal": Decimal, "int": int, "np.int32": np.int32, "np.int64": np.int64,
                  "np.uint8": np.uint8, "0-d int64 array": lambda x: np.array(int(x), dtype="int64")}[sk]
            coords = [(0.0, 0.0), (0.0, 7.0), (3.0, 11.0), (3.0, 11.5)]
            call = case["call"].split("[")[0]
            g = gm.Geometry({"type": "LineString", "coordinates": coords}, "EPSG:3857")
            fnc = {"densify": lambda r: gm.densify(list(coords), r), "segmented": lambda r: g.segmented(r).coords,
                   "to_crs": lambda r: g.to_crs("EPSG:4326", resolution=r).coords,
                   "lonlat_bounds": lambda r: tuple(gm.lonlat_bounds(g, resolution=r).bbox)}[call]
            sv = mk(v)
            with time_limit(5):
                a, b = fnc(float(v)), fnc(sv)
            print(f"{call} with {float(v)!r}: {len(a)} values; with {sk} {sv!r}: {len(b)} values; equal: {list(a) == list(b)}")
            return 0 if list(a) == list(b) else 1
        if fn == "to_crs-boundary" or (fn == "to_crs" and case.get("opts") and str(case.get("src", "")).isdigit()
                                       and str(case.get("dst", "")).isdigit()):
            import pyproj
            from shapely import wkt

            _, crsmod = _mods()
            ra, rb = pyproj.CRS.from_epsg(int(case["src"])), pyproj.CRS.from_epsg(int(case["dst"]))
            g = gm.Geometry(wkt.loads(case["wkt"]), crsmod.CRS(f"EPSG:{case['src']}"))
            opts = dict(case.get("opts") or {})
            if case.get("resolution") is not None:
                opts["resolution"] = float(case["resolution"])
            before = len(R.oracle_failures)
            judge_to_crs(R, gm, g, crsmod.CRS(f"EPSG:{case['dst']}"), rb, pyproj.Transformer.from_crs(ra, rb, always_xy=True),
                         False, opts, case, "replay")
            for f in R.oracle_failures[before:]:
                print(f["key"], f["what"][:400])
            return 1 if len(R.oracle_failures) > before else 0
        if fn == "to_crs-spelling":
            from .c01_spellings import NEAR_EPSG, spellings

            for dlab, d, near, reg in NEAR_EPSG:
                if dlab == case["def"]:
                    for sname, mk, ident in spellings(dlab, d, near):
                        if sname == case["spelling"]:
                            kinds, _r = shapes_for(R.rng, "pyth")
                            before = len(R.oracle_failures)
                            spelling_case(R, gm, dlab, d, near, reg, sname, mk, ident, case["direction"], case["kind"],
                                          kinds[case["kind"]], R.rng)
                            for f in R.oracle_failures[before:]:
                                print(f["key"], f["what"][:400])
                            return 1 if len(R.oracle_failures) > before else 0
            return 0
        if fn == "transformer_to_crs":
            print("history dependent (transformer cache): rerun `check.py C07` with the recorded seed; the record holds the "
                  "pair, the axis order and the probe point")
            return 1
        if fn == "crs-churn":
            before = len(R.oracle_failures)
            nbad = run_crs_churn(R, int(case.get("n", 1500)))
            for f in R.oracle_failures[before:][:3]:
                print("tile", f["case"].get("tile"), f["what"][:300])
            print(f"{nbad} tiles reprojected wrongly after the churn of CRS definitions")
            return 1 if nbad else 0
        if fn == "to_crs" and "src_def" in case:
            import pyproj
            from shapely import wkt

            _, crsmod = _mods()
            a, b = crsmod.CRS(case["src_def"]), crsmod.CRS(case["dst_def"])
            if case["src"].endswith("+read"):
                _ = a.epsg
            if case["dst"].endswith("+read"):
                _ = b.epsg
            ra, rb = pyproj.CRS.from_user_input(case["src_def"]), pyproj.CRS.from_user_input(case["dst_def"])
            g = gm.Geometry(wkt.loads(case["wkt"]), a)
            before = len(R.oracle_failures)
            judge_to_crs(R, gm, g, b, rb, pyproj.Transformer.from_crs(ra, rb, always_xy=True), ra == rb,
                         {"resolution": case.get("resolution")}, case, "replay")
            for f in R.oracle_failures[before:]:
                print(f["key"], f["what"][:300])
            return 1 if len(R.oracle_failures) > before else 0
        if fn in ("segmented", "to_crs"):
            from shapely import wkt

            shp = wkt.loads(case["wkt"])
            res = case.get("resolution")
            if fn == "segmented":
                out = seg_real(gm, shp, float(res))
                print("segmented ->", out.geom.wkt[:300])
                worst = max((d2(a, b) for c in rings_of(out.geom) if len(c) >= 2 for a, b in zip(c[:-1], c[1:])),
                            default=Fraction(0))
                return 1 if worst > F(float(res)) ** 2 * (1 + Fraction(1, 10**12)) ** 2 else 0
            from .c01 import Pool

            byl = {e[0]: e[2] for e in Pool(True).entries}
            src, dst = case.get("src"), case.get("dst")

            def crs_of(lab):
                if lab in byl:
                    return byl[lab]
                return f"EPSG:{lab}"

            if src is not None and dst is not None:
                g = gm.Geometry(shp, crs_of(src))
                rv = res if res in (None, "auto") else (None if res == "None" else float(res))
                try:
                    with time_limit(5):
                        out = g.to_crs(crs_of(dst), resolution=rv)
                except ValueError as e:
                    print("raised", repr(e))
                    return 0 if key == "to-crs-accepts-missing-crs" else 1
                print("to_crs ->", out.crs, out.geom.wkt[:300])
                if key == "to-crs-accepts-missing-crs":
                    return 1
                if key == "to-crs-same-crs-not-identity":
                    return 0 if out is g else 1
                if key == "to-crs-changes-structure":
                    return 0 if (skel_of(out.geom) == skel_of(shp) and out.crs == crs_of(dst)) else 1
                return 0
    except Timeout:
        print("the call did not return within the time limit (non-terminating densify loop)")
        return 1
    except Exception as e:  # pylint: disable=broad-except
        print("raised", repr(e))
        return 1
    print("nothing replayable on the real code for this record")
    return 1 if rec.get("kind") == "no-failing-input-found" else 0
