"""C03 — reprojection planning never drops a needed pixel."""
from __future__ import annotations

import math
from fractions import Fraction

import numpy as np
from affine import Affine

from .common import Run, bool_s, frac_s, guarded, list_s, opt_s, run_driver

META = {
    "claimed": True,
    "text": "Lean 4 theorems (all image sizes, scales of either sign, offsets, paddings, alignments) about a hand "
    "model of odc.geo.overlap: per-axis overlap stays inside both images, is well formed, contains every "
    "destination pixel whose centre maps into the source together with the source pixel it maps to (mirrored axes "
    "included), is empty when the images do not overlap; the same for box_overlap, for the sampled-corner path of "
    "any invertible affine (rotation/shear, padding, align, clip) and, under an explicit envelope hypothesis, for an "
    "abstract non-linear transform; read-shrink is a positive integer within the tolerance of the scale; the full "
    "compute_reproject_roi plan (paste / overview / padded path) inherits these.  The glue around that core is modelled "
    "and proved as well (Model/C03Top): compute_reproject_roi FROM ITS ARGUMENTS (classes of the two sides, CRS equality, "
    "the two pixel->world affines, geographic flags, the CRS transformers as parameters) with native_pix_transform's "
    "dispatch, GbxPointTransform.__call__ (pix2wld, lon/lat clamp, transformer, wld2pix, non-finite answers, lazy "
    "TransformNotInvertibleError), decompose_rws in full (A = R W S, R a proper rotation, W unit shear, S diagonal with the "
    "mirroring in the sign of S.e, LinAlgError exactly for singular matrices) and get_scale_from_linear_transform on top "
    "of it; end-to-end theorems state coverage / within / read-shrink / paste-only-for-same-CRS-GeoBoxes directly in terms "
    "of the two GeoBoxes with no hypothesis on intermediate values, and the overview path is tied to C02's model of "
    "GeoBox.zoom_out.  The model is tied to /repo on every run by an exact differential correspondence (exhaustive "
    "per-axis on small sizes, generated GeoBox pairs through compute_reproject_roi in both calling conventions, "
    "decompose_rws, native_pix_transform, GbxPointTransform and cross-CRS plans with an exact stand-in for the pyproj "
    "transformer: affine, axis swapping, quadratic, partially non-finite, clamps active) and independent "
    "numpy/pyproj/exact-rational oracles that map every destination pixel centre and judge separated rasters.  The envelope "
    "hypothesis of the cross-CRS branch is DISCHARGED for separable monotone pixel transforms (Props/C03Sep: axis-aligned "
    "grids under lon/lat <-> Mercator / cylindrical-equal-area / plate-carree style transformers, lon/lat clamp included, "
    "padding >= 1); the NaN branch of the scale estimate (a stencil point without image) is modelled with the behaviour of "
    "HEAD and of the repair on branch fix2-C03 (flag scaleFallback).",
    "note": "Trusted: Lean kernel + {propext, Classical.choice, Quot.sound}; IEEE rounding not modelled (exact stream "
    "restricted to dyadic inputs, doubles sampled by the oracle); cross-CRS coverage holds only under the envelope "
    "hypothesis (pyproj curvature) and is sampled; paste path coverage is proved for true transforms within half a "
    "pixel of the snapped one (scale residue * extent + shift residue < 1/2).  Observation (not a finding): the lon/lat "
    "clamp of a geographic SOURCE that really extends beyond +-180 (not just by rounding) collapses those columns onto "
    "lon=180 in tr but not in tr.back, so roi_dst then ends at the antimeridian; the coverage oracle does not judge "
    "such sources (real pyproj wraps such columns: they have no counterpart in the destination, checked by the family "
    "global-src-overhang).  Known findings met on real pyproj in this round: xcrs-boundary-off-domain-interior-dropped "
    "(full-disk geostationary / orthographic views vs lon/lat grids reaching beyond the horizon: boundary samples without "
    "image are dropped and with them the interior) and xcrs-scale-centre-off-domain-raises (AssertionError when the centre of "
    "roi_dst has no image; repaired on fix2-C03).  Where a clamp makes the local map at the centre of roi_dst exactly "
    "singular the real code lives on lstsq rounding noise: not reachable with real pyproj on axis-aligned grids, kept out of "
    "the exact stream and counted.  Private helpers (_pick_read_scale ...) are looked up defensively: a renamed / re-parameterised one "
    "is skipped (counted in the evidence), never failed; the transformer seam (public CRS.transformer_to_crs) is "
    "probed before it is used.",
    "technique": "Lean 4 proof over hand model + exhaustive/random differential correspondence with real code",
    "unmodelled": "overlap.py: the pyproj transformer itself (a parameter of the model; sampled by the pyproj oracle), CRS "
    "equality and crs.geographic (inputs of the model: C01/C19), GCPGeoBox.pix2wld/wld2pix (polynomial; only the dispatch "
    "on the class is modelled), "
    "compute_output_geobox (C11); math.py: numpy lstsq itself (its closed form on the 5-point stencil is modelled and "
    "proved to satisfy the normal equations), norm_xy, quasi_random_r2; roi.py: polygon_path with closed=True, the "
    "N-d / int / open-slice variants of the ROI helpers (C17); geobox.py: zoom_out beyond shape and affine (C02); "
    "float32 rounding of roi_boundary and numpy>=2 float32 arithmetic of LinearPointTransform (exact in the model; "
    "excluded from the exact stream).",
    "design_ref": "DESIGN.md §4 C03",
}
META["note"] += "  NOT MODELLED: " + META["unmodelled"]

CRS0 = "EPSG:3857"
TOL3 = Fraction(1e-3)


def ns(s) -> str:
    return f"{int(s.start)}:{int(s.stop)}"


def roi_s(r) -> str:
    return f"{ns(r[0])} {ns(r[1])}"


def aff_s(A) -> str:
    return ";".join(frac_s(v) for v in (A.a, A.b, A.c, A.d, A.e, A.f))


def _import():
    from odc.geo import overlap as O
    from odc.geo import roi as RO
    from odc.geo.geobox import GeoBox
    from odc.geo.types import wh_

    return O, RO, GeoBox, wh_


def faff(A):
    """exact Fraction 6-tuple of an Affine of doubles"""
    return tuple(Fraction(v) for v in (A.a, A.b, A.c, A.d, A.e, A.f))


def fmul(A, B):
    a, b, c, d, e, f = A
    a2, b2, c2, d2, e2, f2 = B
    return (a * a2 + b * d2, a * b2 + b * e2, a * c2 + b * f2 + c, d * a2 + e * d2, d * b2 + e * e2, d * c2 + e * f2 + f)


def finv(A):
    a, b, c, d, e, f = A
    det = a * e - b * d
    ra, rb, rd, re = e / det, -b / det, -d / det, a / det
    return (ra, rb, -c * ra - f * rb, rd, re, -c * rd - f * re)


def is_sq(q: Fraction) -> bool:
    return q >= 0 and math.isqrt(q.numerator) ** 2 == q.numerator and math.isqrt(q.denominator) ** 2 == q.denominator


def plan_s(r) -> str:
    return (f"{roi_s(r.roi_src)} {roi_s(r.roi_dst)} {bool_s(r.paste_ok)} {int(r.read_shrink)} "
            f"{frac_s(r.scale)} {frac_s(r.scale2.x)} {frac_s(r.scale2.y)}")


# ------------------------------------------------------------------ property oracle (does not use the model)
def oracle_axis(R: Run, Ns, Nd, s, t, src, dst):
    """axis-level predicate with exact rationals"""
    case = {"fn": "compute_axis_overlap", "Ns": Ns, "Nd": Nd, "s": str(s), "t": str(t)}
    within = 0 <= src.start <= src.stop <= Ns and 0 <= dst.start <= dst.stop <= Nd
    R.oracle(within, "axis-outside-image", case, f"src={src} dst={dst}", sig="axis-within")
    bad = None
    anyin = False
    for d in range(Nd):
        x = s * (d + Fraction(1, 2)) + t
        if 0 <= x < Ns:
            anyin = True
            if not (dst.start <= d < dst.stop and src.start <= math.floor(x) < src.stop):
                bad = (d, x)
                break
    R.oracle(bad is None, "axis-drops-pixel", case,
             f"dst pixel {bad and bad[0]} maps to {bad and float(bad[1])} inside the source, src={src} dst={dst}",
             sig="axis-covers", trivial=not anyin)
    lo, hi = min(t, s * Nd + t), max(t, s * Nd + t)
    if hi <= 0 or lo >= Ns:
        R.oracle(src.stop - src.start == 0 and dst.stop - dst.start == 0, "axis-disjoint-not-empty", case,
                 f"src={src} dst={dst}", sig="axis-disjoint")


def oracle_axis_tight(R: Run, Ns, Nd, s, t, src, dst):
    """two-sided: each region is exactly the set of pixels whose footprint overlaps the other image (positive length)"""
    if Ns == 0 or Nd == 0:
        return  # an empty image overlaps nothing; the code's answer for the other side is not pinned by the property
    case = {"fn": "compute_axis_overlap", "Ns": Ns, "Nd": Nd, "s": str(s), "t": str(t), "tight": True}
    lo, hi = min(t, s * Nd + t), max(t, s * Nd + t)  # image of the destination axis in source coordinates
    want_src = [k for k in range(Ns) if min(k + 1, hi) - max(k, lo) > 0]
    want_dst = []
    for d in range(Nd):
        a, b = sorted((s * d + t, s * (d + 1) + t))
        if min(b, Ns) - max(a, 0) > 0:
            want_dst.append(d)
    got_src, got_dst = list(range(src.start, src.stop)), list(range(dst.start, dst.stop))
    R.oracle(got_src == want_src and got_dst == want_dst, "axis-not-tight", case,
             f"src={src} dst={dst}; pixels overlapping the other image: src {want_src[:1]}..{want_src[-1:]}, "
             f"dst {want_dst[:1]}..{want_dst[-1:]}", sig="axis-tight")


def centres(shape, rows=None, cols=None):
    ny, nx = shape
    rows = np.arange(ny) if rows is None else rows
    cols = np.arange(nx) if cols is None else cols
    yy, xx = np.meshgrid(rows + 0.5, cols + 0.5, indexing="ij")
    return xx, yy


def sub_index(n, step):
    """every `step`-th index plus the two outermost on each side (all four borders stay in the sample)"""
    if step <= 1 or n <= 8:
        return np.arange(n)
    return np.unique(np.concatenate([np.arange(0, n, step), [0, 1, n - 2, n - 1]]))


def check_cover(R: Run, key: str, case, src_shape, dst_shape, px, py, r, eps, sig, src_limit=None, rows=None, cols=None,
                env=None):
    """px,py: source pixel coordinates of the destination pixel centres (rows x cols; all pixels by default)."""
    sny, snx = src_shape
    dny, dnx = dst_shape
    (ys, xs), (yd, xd) = r.roi_src, r.roi_dst
    lim_y, lim_x = src_limit if src_limit is not None else (sny, snx)
    within = (0 <= yd.start <= dny and 0 <= yd.stop <= dny and 0 <= xd.start <= dnx and 0 <= xd.stop <= dnx
              and 0 <= ys.start and ys.stop <= lim_y and 0 <= xs.start and xs.stop <= lim_x)
    R.oracle(within, key + "-outside-image", case,
             f"roi_src={r.roi_src} (limit {lim_y},{lim_x}) roi_dst={r.roi_dst} dst shape {dst_shape}", sig=sig + "|within")
    fin = np.isfinite(px) & np.isfinite(py)
    with np.errstate(invalid="ignore"):
        inside = fin & (px >= eps) & (px < snx - eps) & (py >= eps) & (py < sny - eps)
        rows = np.arange(dny) if rows is None else rows
        cols = np.arange(dnx) if cols is None else cols
        in_dst = (((rows >= yd.start) & (rows < yd.stop))[:, None]) & (((cols >= xd.start) & (cols < xd.stop))[None, :])
        miss_dst = inside & ~in_dst
        miss_src = inside & ((px < xs.start - eps) | (px >= xs.stop + eps) | (py < ys.start - eps) | (py >= ys.stop + eps))
    what = ""
    if miss_dst.any():
        iy, ix = np.argwhere(miss_dst)[0]
        what = (f"{int(miss_dst.sum())} checked dst pixels dropped, e.g. (row {rows[iy]}, col {cols[ix]}) maps to src "
                f"({px[iy, ix]:.6f}, {py[iy, ix]:.6f}) inside the source {src_shape} but is outside roi_dst={r.roi_dst}")
    kdst, ksrc = key + "-dst-pixel-dropped", key + "-src-pixel-dropped"
    if env is not None and (miss_dst.any() or miss_src.any()):
        # Cross-CRS plans are DESIGNED as the envelope of 5 boundary samples per side (roi_src: padded; roi_dst: unpadded).
        # What that design can miss where an edge maps to a curve is the known finding; `env` recomputes the two
        # envelopes independently (pyproj, float64).  A miss is routed to the known key only if EVERY missed pixel lies
        # outside the independent 5-point envelope; anything the 5-point design would have covered keeps the general key.
        try:
            (slo, shi, spad, sbad), dfun = env
            # The pixel transform is PARTIAL on the destination when some destination location - one of the 20 boundary
            # samples or one of the checked pixel centres - has no finite image in the source CRS (independent pyproj mapping).
            nfin = int((~fin).sum())
            sbad_samples = sbad
            sbad = sbad + nfin  # > 0: partial transform; used below wherever the class is decided
            tol_ = 2e-3 if not sbad else 1e-9  # a degenerate envelope of the few samples that survive is judged exactly
            # Boundary samples that the transformer can not convert (outside the other CRS's domain: beyond the horizon of a
            # geostationary / orthographic view ...) are dropped by the planner; when that happens the interior of the
            # raster can overlap although the surviving samples do not show it: own known key, same design limit.
            OFF = "xcrs-boundary-off-domain-interior-dropped"
            if miss_src.any():
                mx_, my_ = px[miss_src], py[miss_src]
                out = ((mx_ < slo[0] - spad - tol_) | (mx_ > shi[0] + spad + tol_) | (my_ < slo[1] - spad - tol_)
                       | (my_ > shi[1] + spad + tol_))
                if out.all():
                    ksrc = OFF if sbad else "xcrs-curved-edge-sliver-dropped"
                    what_s = " (every missed location lies outside the 5-samples-per-side envelope of the design" + (
                        f"; {sbad_samples} of the 20 boundary samples and {nfin} of the checked pixel centres of the destination have no image "
                        f"in the source CRS)" if sbad else ")")
                else:
                    what_s = f" ({int((~out).sum())} of them INSIDE the 5-samples-per-side envelope)"
            if miss_dst.any():
                dlo, dhi, dbad = dfun()
                ii, jj = np.nonzero(miss_dst)
                cx_, cy_ = cols[jj] + 0.5, rows[ii] + 0.5
                out = (cx_ < dlo[0] - tol_) | (cx_ > dhi[0] + tol_) | (cy_ < dlo[1] - tol_) | (cy_ > dhi[1] + tol_)
                if sbad and not out.all() and (ksrc == OFF or not miss_src.any()):
                    # the source region was built from the few boundary samples that have an image: the destination region
                    # inherits that loss whatever the envelope of ITS samples says
                    kdst = OFF
                    what += (f" ({sbad_samples} of the 20 boundary samples and {nfin} of the checked pixel centres of the destination "
                             f"have no image in the source CRS)")
                elif out.all() and not miss_src.any() or (out.all() and (ksrc.endswith("sliver-dropped") or ksrc == OFF)):
                    kdst = OFF if (sbad or dbad or ksrc == OFF) else "xcrs-curved-edge-sliver-dropped"
                    what += " (every dropped pixel lies outside the 5-samples-per-side envelope of the design" + (
                        f"; {sbad_samples} boundary samples and {nfin} checked pixel centres of the destination / {dbad} boundary samples of "
                        f"the source region have no image in the other CRS)"
                        if (sbad or dbad) else ")")
                else:
                    what += f" ({int((~out).sum())} of them INSIDE the 5-samples-per-side envelope)"
        except Exception as ex:  # pylint: disable=broad-except
            what += f" (envelope classification failed: {ex})"
            what_s = ""
    else:
        what_s = ""
    R.oracle(not miss_dst.any(), kdst, case, what, sig=sig + "|dst-covers", trivial=not inside.any())
    what = ""
    if miss_src.any():
        iy, ix = np.argwhere(miss_src)[0]
        what = (f"{int(miss_src.sum())} checked dst pixels, e.g. (row {rows[iy]}, col {cols[ix]}), map to src "
                f"({px[iy, ix]:.6f}, {py[iy, ix]:.6f}) inside the source {src_shape} but outside roi_src={r.roi_src}") + what_s
    R.oracle(not miss_src.any(), ksrc, case, what, sig=sig + "|src-covers", trivial=not inside.any())
    return bool(inside.any())


def check_scale(R: Run, key, case, r, true_scale2, rel, sig):
    """scale = min of per-axis ratios; read_shrink positive int within tolerance"""
    rs = r.read_shrink
    ok = isinstance(rs, (int, np.integer)) and rs >= 1
    sc = float(r.scale)
    if sc > 0:
        ok = ok and rs <= max(1.0, sc + 1e-3) * (1 + 1e-12) and rs > sc - 1 - 1e-9
    R.oracle(ok, key + "-read-shrink", case, f"read_shrink={rs!r} scale={sc!r}", sig=sig + "|read-shrink")
    if true_scale2 is not None:
        tx, ty = true_scale2
        ok = (abs(r.scale2.x - tx) <= rel * max(1, tx) and abs(r.scale2.y - ty) <= rel * max(1, ty)
              and r.scale == min(r.scale2.x, r.scale2.y))
        R.oracle(ok, key + "-scale", case, f"scale2={r.scale2} scale={r.scale} expected per-axis ratios {tx},{ty}",
                 sig=sig + "|scale")


def apply_np(A6, xx, yy):
    a, b, c, d, e, f = (float(v) for v in A6)
    return a * xx + b * yy + c, d * xx + e * yy + f


def oracle_linear(R: Run, case, src_shape, dst_shape, A6, r, pad, align, eps, tag, st_scale=None):
    """A6: exact dst→src pixel transform (Fractions).  Checks the C03 statement on the real result `r`."""
    sny, snx = src_shape
    dny, dnx = dst_shape
    step = 1 if dny * dnx <= 250_000 else max(2, int(math.sqrt(dny * dnx / 40_000)))
    rows, cols = sub_index(dny, step), sub_index(dnx, step)
    xx, yy = centres(dst_shape, rows, cols)
    px, py = apply_np(A6, xx, yy)
    rs = int(r.read_shrink)
    lim = None
    if r.paste_ok and rs > 1:
        lim = (-(-sny // rs) * rs, -(-snx // rs) * rs)
    # paste with a scale residue: the snapped transform drifts away from the true one
    key = "plan"
    if r.paste_ok:
        a, _, c, _, e, f = A6
        da = abs(abs(a) / rs - 1)
        de = abs(abs(e) / rs - 1)
        fr = lambda v: abs(v / rs - round(v / rs))  # noqa: E731
        drift = max(da * dnx + fr(c), de * dny + fr(f))
        # known class: NO rotation/shear, scale residue within the default stol, drift of half a pixel or more
        if (drift >= Fraction(1, 2) and (da != 0 or de != 0) and A6[1] == 0 and A6[3] == 0
                and da < Fraction(case.get("stol", 1e-3)) and de < Fraction(case.get("stol", 1e-3))):
            key = "paste-scale-drift"
    check_cover(R, key, case, src_shape, dst_shape, px, py, r, eps, f"plan|{tag}", src_limit=lim, rows=rows, cols=cols)
    # separated by more than the margin → both empty
    margin = 0 if r.paste_ok else (1 if pad is None else pad)
    if r.paste_ok and rs > 1:
        # overview path: the last overview pixel may reach up to rs-1 native pixels beyond the image and the
        # shift is snapped in overview pixels, so "separated" is judged with one overview pixel of margin
        margin = rs
    a, b, c, d, e, f = A6
    cx = [a * x + b * y + c for x in (0, dnx) for y in (0, dny)]
    cy = [d * x + e * y + f for x in (0, dnx) for y in (0, dny)]
    sep = (max(cx) + margin <= -eps or min(cx) - margin >= snx + eps or max(cy) + margin <= -eps
           or min(cy) - margin >= sny + eps)
    if sep and key == "plan":
        (ys, xs), (yd, xd) = r.roi_src, r.roi_dst
        zero = ((ys.stop - ys.start) * (xs.stop - xs.start) == 0 or ys.stop <= ys.start or xs.stop <= xs.start) and (
            (yd.stop - yd.start) * (xd.stop - xd.start) == 0 or yd.stop <= yd.start or xd.stop <= xd.start)
        R.oracle(zero, "plan-separated-not-empty", case,
                 f"footprints separated by more than the margin {margin} but roi_src={r.roi_src} roi_dst={r.roi_dst}",
                 sig=f"plan|{tag}|separated")
    check_scale(R, "plan", case, r, st_scale, 0 if eps == 0 else 1e-9, f"plan|{tag}")
    if r.paste_ok:  # paste contract on the RETURNED regions, whatever padding / align / tolerances were passed
        (ys, xs), (yd, xd) = r.roi_src, r.roi_dst
        R.oracle((ys.stop - ys.start, xs.stop - xs.start) == (rs * (yd.stop - yd.start), rs * (xd.stop - xd.start)),
                 "paste-src-shape-not-shrink-times-dst", case,
                 f"paste_ok read_shrink={rs} padding={pad} align={align} roi_src={r.roi_src} roi_dst={r.roi_dst}",
                 sig=f"plan|{tag}|paste-shape")
        R.oracle(align in (None, 0) and pad in (None, 0), "paste-ok-with-padding-or-align", case,
                 f"paste_ok reported although padding={pad} align={align} were requested", sig=f"plan|{tag}|paste-tight")


# ------------------------------------------------------------------ private helpers are looked up defensively
class Missing(Exception):
    """a private helper of odc-geo is gone, renamed or takes other arguments: the direct stream on it is skipped"""


def private(mod, name):
    fn = getattr(mod, name, None)
    if not callable(fn):
        raise Missing(name)
    return fn


def call_private(mod, name, *a, **kw):
    fn = private(mod, name)
    try:
        return fn(*a, **kw)
    except TypeError as ex:
        if "argument" in str(ex) or "positional" in str(ex):
            raise Missing(name) from ex
        raise


def corr_private(R, line, fn, sig):
    """a correspondence case that calls a PRIVATE helper directly: skipped and counted (never a mismatch) when the helper
    is missing / renamed / has another parameter list - such code is reached through the public entry points anyway"""
    from .common import err_s

    try:
        out = fn()
    except Missing as ex:
        R.count(f"private-helper-skipped|{ex}")
        note = f"direct stream on private helper {ex} skipped: not found with the expected parameters"
        if note not in R.notes:
            R.notes.append(note)
        return None
    except Exception as e:  # pylint: disable=broad-except
        out = err_s(e)
    R.corr(line, lambda: out, sig=sig)
    return out


# ------------------------------------------------------------------ calling conventions
PLAN_ORDER = ["ttol", "stol", "padding", "align"]          # documented order after (src, dst)
PLAN_DEFAULTS = {"ttol": 0.05, "stol": 1e-3, "padding": None, "align": None}


def call_plan(O, positional, src, dst, **kw):
    """compute_reproject_roi through one of its calling conventions: keyword arguments, or positional arguments in the
    documented order (src, dst, ttol, stol, padding, align) up to the last one given"""
    given = [PLAN_ORDER.index(k) for k in kw if k in PLAN_ORDER]
    if positional and given and all(k in PLAN_ORDER for k in kw):
        args = [kw.get(k, PLAN_DEFAULTS[k]) for k in PLAN_ORDER[: max(given) + 1]]
        return O.compute_reproject_roi(src, dst, *args)
    return O.compute_reproject_roi(src, dst, **kw)


def num_variant(rng, v, floats=True):
    """the same option value in another numeric type: python int, numpy integer, (for padding) float"""
    if v is None:
        return None
    return rng.choice([v, v, np.int64(v), np.int32(v)] + ([float(v)] if floats else []))


# ------------------------------------------------------------------ generators
def dy(rng, k, lo, hi):
    """random dyadic with denominator 2^k in [lo, hi]"""
    return rng.randint(lo * 2**k, hi * 2**k) / 2**k


# tolerance options are part of the input space: 0, tiny, usual, around 1/2, above 1/2 (loaders pass 0.9 for nearest), huge
TTOL_EXACT = [0.05, 0.05, 0.05, 2**-5, 2**-4 + 2**-8, 0.26, 0.0, 2.0**-40, 0.5, 0.5 + 2.0**-30, 0.625, 0.75, 0.9, 1.0, 1.5, 4.0, 2.0**20]
TTOL_FLOAT = [0.05, 0.05, 1e-2, 1e-3, 0.2, 0.0, 1e-12, 0.45, 0.5, 0.6, 0.9, 0.9, 1.0, 3.0, 1e6]
STOL_EXACT = [1e-3, 1e-3, 1e-3, 0.0, 1e-6, 2**-10, 1e-2, 2**-5, 0.125, 0.3]


PLACEMENTS = ["contained", "contained", "low", "high", "high", "both", "disjoint"]
SHRINKS = [1, 1, 2, 2, 3, 4, 5, 8, 11, 16, 32, 64]


def place_axis(rng, cls, Ls, Nd):
    """offset (in overview pixels) of destination pixel 0 for a placement class; Ls = source length in overview pixels"""
    if cls == "contained":
        return rng.randint(0, max(0, Ls - Nd))
    if cls == "low":
        return -rng.randint(1, max(1, Nd - 1))
    if cls == "high":
        return Ls - Nd + rng.randint(1, max(1, Nd - 1))
    if cls == "both":
        return -rng.randint(1, max(1, Nd - Ls - 1))
    return rng.choice([-Nd, -Nd - 2, Ls, Ls + 3])


def band_dev(rng, t, exact=False):
    """relative deviation d of a scale k(1+d): inside the band |d|<t, just inside / outside each band edge, at the band
    edge of the INVERSE scale (1/(1±t): s and 1/s are not symmetric), clearly outside, exact"""
    cls = rng.choice(["in", "in", "lo-in", "lo-in", "lo-out", "hi-in", "hi-out", "inv-lo", "inv-hi", "out", "exact"])
    if t <= 0:
        return rng.choice([0, 0, 2.0**-20, -(2.0**-20)]), cls
    tiny = rng.choice([t * t / 2, t * 2.0**-10] if exact else [t * t * 0.5, t * t * 0.9, t * 1e-3, 2.3e-16])
    sg = rng.choice([1, -1])
    d = {"in": t * (rng.choice([0.25, 0.5, 0.75]) if exact else rng.uniform(0.05, 0.9)) * sg, "lo-in": -t + tiny, "lo-out": -t - tiny,
         "hi-in": t - tiny, "hi-out": t + tiny,
         "inv-lo": (-t + t * t + sg * tiny) if exact else (1 / (1 + t) - 1 + sg * tiny * 0.5),
         "inv-hi": (t + t * t + sg * tiny) if exact else (1 / (1 - t) - 1 + sg * tiny * 0.5),
         "out": t * rng.choice([1.5, 2.5, 6]) * sg, "exact": 0}[cls]
    return d, cls


def tol_case(rng, exact=False):
    """scale class x placement class x read-shrink x shift residue x caller tolerances, for plans that may paste.
    Returns (sshape, dshape, M (dst->src pixel transform), stol, ttol, tag).  `exact`: every number is a short dyadic."""
    stol = rng.choice([2.0**-10, 2.0**-10, 2.0**-7, 2.0**-5] if exact else [1e-2, 1e-3, 1e-3, 1e-4, 1e-6])
    ttol = rng.choice([2.0**-4, 2.0**-4, 2.0**-2, 0.5 - 2.0**-10, 0.05, 0.75] if exact else [0.05, 0.05, 1e-2, 1e-3, 0.125, 0.2, 0.3, 0.5, 0.9])
    k = rng.choice([1, 1, 2, 4, 8, 16, 32, 64] if exact else SHRINKS)
    dx, cx = band_dev(rng, stol, exact)
    dy_, cy = (dx, cx) if rng.random() < 0.6 else band_dev(rng, stol, exact)
    px_, py_ = rng.choice(PLACEMENTS), rng.choice(PLACEMENTS)
    Ls = (rng.randint(4, 30), rng.randint(4, 30))
    Nd = tuple((L + rng.randint(2, 6)) if p_ == "both" else rng.randint(2, max(2, L)) for L, p_ in zip(Ls, (py_, px_)))
    Ns = tuple(k * L - rng.randint(0, k - 1) for L in Ls)
    oy, ox = place_axis(rng, py_, Ls[0], Nd[0]), place_axis(rng, px_, Ls[1], Nd[1])
    if exact:
        rt = rng.choice([0, ttol * (1 - 2.0**-4), ttol / 2, ttol * (1 + 2.0**-4), -ttol * (1 - 2.0**-4), 2.0**-5]) if ttol < 0.5 \
            else rng.choice([0, 0.25, -0.375, 0.5 - 2.0**-6])
    else:
        rt = min(ttol, 0.499) * rng.choice([0, 0.5, 0.8, 0.9, 0.95, 0.999, 1.001, 1.1, 3]) * rng.choice([1, -1])
        if ttol > 0.5 and rng.random() < 0.7:
            rt = rng.uniform(-0.5, 0.5)
    rty = rt if rng.random() < 0.5 else 0
    sg = (rng.choice([1, 1, -1]), rng.choice([1, 1, -1]))
    M = Affine(k * (1 + dx) * sg[0], 0, k * (ox + rt) + (k * Nd[1] if sg[0] < 0 else 0),
               0, k * (1 + dy_) * sg[1], k * (oy + rty) + (k * Nd[0] if sg[1] < 0 else 0))
    return Ns, Nd, M, stol, ttol, f"k{k}|{cx}|{px_}"


def gen_src_affine(rng):
    sx = rng.choice([1, 1, 2, 0.5, 4, 0.25, 8]) * rng.choice([1, 1, -1])
    sy = rng.choice([1, 1, 2, 0.5, 4, 0.25, 8]) * rng.choice([-1, -1, 1])
    # pixel size magnitudes from ~6e-8 to ~1.3e5 CRS units (a power of two keeps every float operation exact)
    mag = 2.0 ** rng.choice([0, 0, 0, -24, -20, -17, -13, -10, -7, 7, 10, 14, 17])
    return Affine.scale(mag) * Affine.translation(dy(rng, 2, -64, 64), dy(rng, 2, -64, 64)) * Affine.scale(sx, sy)


RES_CHOICES = [30, 10, 25, 0.00025, 1 / 3, 100, 2.5, 1e-5, 1e-7, 1e-6, 3e-6, 1e-4, 1e-3, 1e3, 1e5]


def float_src_affine(rng, res):
    """pixel -> world for a float-stream source grid of pixel size `res`: origin within a few thousand pixels of a
    plausible coordinate, so that sub-pixel structure survives in doubles"""
    if res >= 1:
        ox, oy = rng.uniform(-1e6, 1e6), rng.uniform(-1e6, 1e6)
    else:
        ox, oy = rng.uniform(-170, 100), rng.uniform(-60, 80)
    if rng.random() < 0.3:
        ox, oy = res * rng.randint(-3000, 3000), res * rng.randint(-3000, 3000)
    return Affine.translation(ox, oy) * Affine.scale(res, -res)


def gen_M_exact(rng, sshape, dshape):
    """dst→src pixel transform with power-of-two determinant (every float op of the code is exact)"""
    sny, snx = sshape
    dny, dnx = dshape
    kind = rng.choice(["shift", "shift", "subpix", "subpix", "scale", "scale", "mirror", "rot90", "shear", "rot45"])
    res = rng.choice([0, 0, 2**-6, -(2**-6), 2**-5, -(2**-5), 2**-4, -(2**-4), 0.25, -0.25, 0.5, 0.375,
                      2.0**-20, -(2.0**-30), 2.0**-34, -(2.0**-34), 2.0**-40, -(2.0**-40)])
    if kind == "shift":
        L = Affine.identity()
        res = 0
    elif kind == "subpix":
        L = Affine.identity()
    elif kind == "scale":
        k = rng.choice([0.125, 0.25, 0.5, 2, 2, 4, 4, 8, 16])
        k2 = k if rng.random() < 0.7 else rng.choice([0.5, 1, 2, 4])
        L = Affine.scale(k * rng.choice([1, 1, -1]), k2 * rng.choice([1, 1, -1]))
    elif kind == "mirror":
        L = Affine.scale(rng.choice([1, -1]), rng.choice([1, -1]))
    elif kind == "rot90":
        k = rng.choice([1, 1, 2, 0.5])
        L = Affine(0, -k, 0, k, 0, 0) if rng.random() < 0.5 else Affine(0, k, 0, -k, 0, 0)
    elif kind == "shear":
        L = Affine(1, rng.choice([0.5, -0.25, 1]), 0, 0, rng.choice([1, 2, -1]), 0)
    else:
        L = Affine(1, -1, 0, 1, 1, 0) if rng.random() < 0.5 else Affine(0.5, 0.5, 0, -0.5, 0.5, 0)
    # place: image of the dst rectangle anywhere from far left of the source to far right of it
    ex = abs(L.a) * dnx + abs(L.b) * dny
    ey = abs(L.d) * dnx + abs(L.e) * dny
    tx = rng.randint(-int(ex) - 4, snx + int(ex) + 4) + res
    ty = rng.randint(-int(ey) - 4, sny + int(ey) + 4) + (res if rng.random() < 0.7 else 0)
    if kind == "scale" and abs(L.a) >= 2 and rng.random() < 0.6:  # whole overview pixels (+ residue)
        k = int(abs(L.a))
        tx, ty = k * round(tx / k) + k * res, k * round(ty / k)
    if rng.random() < 0.15:  # touching / just separated placements
        tx = rng.choice([snx, snx + 1, snx + 3, -int(ex), -int(ex) - 1, -int(ex) - 3]) + (res if kind == "subpix" else 0)
    return Affine.translation(tx, ty) * L, kind


def gen_M_patched(rng, sshape, dshape, far=False):
    """exact dst→src transform with a scale that is not a power of two (only the paste path is compared)"""
    sny, snx = sshape
    dny, dnx = dshape
    kind = rng.choice(["int3", "int3", "int5", "int6", "int7", "near1", "near1", "near2", "near3", "edge"])
    sgn = (rng.choice([1, 1, -1]), rng.choice([1, 1, -1]))
    res = rng.choice([0, 0, 0, 2**-6, -(2**-6), 2**-5, -(2**-5)])
    if kind.startswith("int"):
        k = int(kind[3:])
        sx = sy = k
    elif kind == "near1":
        sx, sy = (1 + rng.choice([1, -1]) * 2.0**-rng.choice([11, 12, 14]) for _ in range(2))
        k = 1
    elif kind == "near2":
        sx, sy = (2 + rng.choice([1, -1]) * 2.0**-rng.choice([10, 11, 12]) for _ in range(2))
        k = 2
    elif kind == "near3":
        sx = sy = 3 - 2.0**-rng.choice([10, 11, 12])
        k = 3
    else:  # exactly at the scale tolerance (stol given as 2**-10)
        sx, sy = 1, 1 + rng.choice([1, -1]) * 2.0**-10
        if rng.random() < 0.5:
            sx, sy = sy, sx
        k = 1
    tx = k * rng.randint(-dnx - 2, snx // k + 2) + k * res
    ty = k * rng.randint(-dny - 2, sny // k + 2) + (k * res if rng.random() < 0.5 else 0)
    if far:
        tx = k * int(10 ** rng.uniform(2, 5)) + k * res
        ty = k * int(10 ** rng.uniform(2, 5))
    if sgn[0] < 0:
        tx += k * dnx
    if sgn[1] < 0:
        ty += k * dny
    return Affine(sx * sgn[0], 0, tx, 0, sy * sgn[1], ty), kind


def placement(r, sshape, dshape):
    (ys, xs), (yd, xd) = r.roi_src, r.roi_dst
    if yd.stop <= yd.start or xd.stop <= xd.start:
        return "empty"
    if (yd.start, yd.stop, xd.start, xd.stop) == (0, dshape[0], 0, dshape[1]):
        return "dst-full"
    if (ys.start, xs.start) == (0, 0) and ys.stop >= sshape[0] and xs.stop >= sshape[1]:
        return "src-full"
    return "partial"


def run(R: Run):
    O, RO, GeoBox, wh_ = _import()
    rng = R.rng

    def gb(shape, A, crs=CRS0):
        return GeoBox(wh_(shape[1], shape[0]), A, crs)

    # ================================================================ exact stream: compute_axis_overlap
    NMAX = R.pick(6, 8)
    scales = [Fraction(2) ** k * sg for k in range(-3, 4) for sg in (1, -1)]
    tq = R.pick(range(-40, 41), range(-48, 49))
    for Ns in range(0, NMAX + 1):
        for Nd in range(0, NMAX + 1):
            for s in scales:
                for k in tq:
                    t = Fraction(k, 4)
                    res = []

                    def f():
                        o = O.compute_axis_overlap(Ns, Nd, float(s), float(t))
                        res.append(o)
                        return f"{ns(o[0])} {ns(o[1])}"

                    sig = "axis|" + ("flip" if s < 0 else "pos") + ("|t<0" if t < 0 else "|t>=0")
                    R.corr(f"c03 axis {Ns} {Nd} {frac_s(s)} {frac_s(t)}", f, sig=sig)
                    if res and (R.quick is False or (k + Ns + Nd) % 3 == 0):
                        oracle_axis(R, Ns, Nd, s, t, *res[0])
                        oracle_axis_tight(R, Ns, Nd, s, t, *res[0])
    R.corr("c03 axis 5 5 0 1", lambda: ns(O.compute_axis_overlap(5, 5, 0.0, 1.0)[0]), sig="axis|s=0")
    for _ in range(R.pick(3000, 30000)):
        Ns, Nd = rng.randint(0, 10**rng.randint(1, 6)), rng.randint(0, 10**rng.randint(1, 6))
        s = Fraction(2) ** rng.randint(-6, 6) * rng.choice([1, -1])
        t = Fraction(rng.randint(-(Ns + Nd) * 70, (Ns + Nd) * 70 + 64), 64)
        res = []

        def f2():
            o = O.compute_axis_overlap(Ns, Nd, float(s), float(t))
            res.append(o)
            return f"{ns(o[0])} {ns(o[1])}"

        R.corr(f"c03 axis {Ns} {Nd} {frac_s(s)} {frac_s(t)}", f2, sig="axis|large")
        if res and Nd <= 3000:
            oracle_axis(R, Ns, Nd, s, t, *res[0])

    # --- offsets a hair away from integers / half-integers (dyadic, so still exact): k ± 2^-j
    for _ in range(R.pick(4000, 40000)):
        Ns, Nd = rng.randint(0, 12), rng.randint(0, 12)
        s = Fraction(2) ** rng.randint(-2, 2) * rng.choice([1, -1])
        base = Fraction(rng.randint(-2 * 12, 3 * 12), 2)
        t = base + rng.choice([1, -1]) * Fraction(1, 2 ** rng.choice([20, 30, 33, 34, 36, 40, 44]))
        res = []

        def f3():
            o = O.compute_axis_overlap(Ns, Nd, float(s), float(t))
            res.append(o)
            return f"{ns(o[0])} {ns(o[1])}"

        R.corr(f"c03 axis {Ns} {Nd} {frac_s(s)} {frac_s(t)}", f3, sig="axis|near-int")
        if res:
            oracle_axis(R, Ns, Nd, s, t, *res[0])
            oracle_axis_tight(R, Ns, Nd, s, t, *res[0])
    # --- huge image sizes (exactly representable; products stay below 2^53)
    HUGE = [2**24 + 1, 2**31 - 1, 2**31, 2**31 + 1, 2**32 + 1, 2**40 + 1, 2**50 + 3, 2**52 + 1]
    for _ in range(R.pick(600, 6000)):
        Ns, Nd = rng.choice(HUGE + [7, 1000]), rng.choice(HUGE + [7, 1000])
        s = Fraction(rng.choice([1, 1, 2, Fraction(1, 2)])) * rng.choice([1, -1])
        t = Fraction(rng.choice([0, 1, -1, 5, -7, 2**31, -(2**31) - 1, 2**40 + 1, Ns, Ns - 1, -Nd, 1 - Nd, Ns - Nd, Ns + 1]))
        if rng.random() < 0.3 and max(Ns, Nd) <= 2**41:
            t += Fraction(rng.choice([1, 3]), 4)
        if s < 0:
            t = Ns - t
        if Fraction(float(t)) != t or abs(Nd * s) + abs(t) + Ns > 2**53:
            continue  # some intermediate of the code would not be an exact double
        res = []

        def f4():
            o = O.compute_axis_overlap(Ns, Nd, float(s), float(t))
            res.append(o)
            return f"{ns(o[0])} {ns(o[1])}"

        R.corr(f"c03 axis {Ns} {Nd} {frac_s(s)} {frac_s(t)}", f4, sig="axis|huge")
        if res:  # closed-form check on the ends (no enumeration possible)
            src_, dst_ = res[0]
            ok = 0 <= src_.start <= src_.stop <= Ns and 0 <= dst_.start <= dst_.stop <= Nd
            for d in {dst_.start - 1, dst_.start, dst_.stop - 1, dst_.stop, 0, Nd - 1}:
                if 0 <= d < Nd:
                    x = s * (d + Fraction(1, 2)) + t
                    if 0 <= x < Ns:
                        ok = ok and dst_.start <= d < dst_.stop and src_.start <= math.floor(x) < src_.stop
            R.oracle(ok, "axis-drops-pixel", {"fn": "compute_axis_overlap", "Ns": Ns, "Nd": Nd, "s": str(s), "t": str(t)},
                     f"huge sizes: src={src_} dst={dst_}", sig="axis-huge")
    for sc in (2.0**31 + 0.5, 2.0**31 - 2.0**-12, 2.0**40 + 0.25, 2.0**52 + 1, 2.0**53, 2.0**63, 2.0**64, 2.0**100):
        corr_private(R, f"c03 pick {frac_s(sc)} {frac_s(1e-3)}", lambda: str(int(call_private(O, "_pick_read_scale", sc))), sig="pick|huge")

    # ================================================================ _pick_read_scale, scale, roi_boundary
    for m in range(1, 9):
        for off in (0, 2**-12, -(2**-12), 2**-11, -(2**-11), 2**-10, -(2**-10), 2**-9, -(2**-9), 0.25, 0.5, -0.25, -0.5):
            sc = m + off
            for tol in (1e-3, 2**-10, 2**-11):
                res = []

                def fp():
                    o = call_private(O, "_pick_read_scale", sc, tol)
                    res.append(o)
                    return str(int(o))

                corr_private(R, f"c03 pick {frac_s(sc)} {frac_s(tol)}", fp, sig="pick|" + ("lt1" if sc < 1 else "ge1"))
                if res:
                    rs = res[0]
                    R.oracle(rs >= 1 and rs <= max(1, sc + tol) and rs > sc - 1, "pick-read-scale-contract",
                             {"scale": sc, "tol": tol}, f"read_shrink {rs} for scale {sc}", sig="pick")
    for m in range(1, 6):  # default tolerance of _pick_read_scale (1e-3)
        for off in (2**-7, 2**-8, 2**-9, 2**-10, 2**-11, 0):
            sc = m - off
            corr_private(R, f"c03 pick {frac_s(sc)} {frac_s(1e-3)}", lambda: str(int(call_private(O, "_pick_read_scale", sc))), sig="pick|default-tol")
    for sc in (0.0, -1.0, 2**-20, 0.999):
        corr_private(R, f"c03 pick {frac_s(sc)} {frac_s(1e-3)}", lambda: str(int(call_private(O, "_pick_read_scale", sc))), sig="pick|edge")
    for _ in range(R.pick(300, 3000)):
        k = rng.choice(["st", "st", "rot90", "shear", "rot45"])
        a, e = (rng.choice([1, 2, 0.5, 3, 5, 0.75, 10]) * rng.choice([1, -1]) for _ in range(2))
        A = {"st": Affine(a, 0, 1, 0, e, 2), "rot90": Affine(0, -a, 0, e, 0, 0), "shear": Affine(a, a / 2, 0, 0, e, 0),
             "rot45": Affine(1, -1, 0, 1, 1, 0)}[k]

        def fs():
            s2 = O.get_scale_from_linear_transform(A)
            if not is_sq(Fraction(A.a) ** 2 + Fraction(A.d) ** 2):
                return "irr"
            return f"{frac_s(s2.x)} {frac_s(s2.y)}"

        R.corr(f"c03 scale2 {aff_s(A)}", fs, sig=f"scale2|{k}")
    for _ in range(R.pick(200, 2000)):
        y0, x0 = rng.randint(0, 2000), rng.randint(0, 2000)
        y1, x1 = y0 + rng.randint(0, 4000), x0 + rng.randint(0, 4000)
        pps = rng.choice([2, 2, 5, 5, 3])
        R.corr(f"c03 bnd {y0} {y1} {x0} {x1} {pps}",
               lambda: list_s([f"{frac_s(float(x))};{frac_s(float(y))}" for x, y in
                               RO.roi_boundary((slice(y0, y1), slice(x0, x1)), pps)]), sig=f"bnd|{pps}")

    # ================================================================ get_scale_at_point stencil / affine_from_pts
    from odc.geo.math import affine_from_pts
    from odc.geo.types import xy_

    def lat(v, k):  # nearest point of the 2^-k lattice (the fitted coefficients are exactly on it; lstsq is not bit-exact)
        return frac_s(round(float(v) * 2**k) / 2**k)

    for _ in range(R.pick(400, 4000)):
        far = rng.random() < 0.4
        x0 = float(rng.randint(-2**17, 2**17)) if far else rng.randint(-64, 64) + rng.choice([0, 0.5])
        y0 = float(rng.randint(-2**17, 2**17)) if far else rng.randint(-64, 64) + rng.choice([0, 0.5])
        rr = rng.choice([1, 1, 1, 2, 0.5])
        XX = [(x0, y0), (x0 - rr, y0), (x0, y0 - rr), (x0 + rr, y0), (x0, y0 + rr)]
        # images on the 2^-6 lattice, not necessarily affine; centre value chosen so that the mean is on the lattice too
        YY = [[rng.randint(-4000, 4000) / 64 for _ in range(2)] for _ in range(5)]
        for c_ in range(2):
            rest = sum(YY[i][c_] for i in range(1, 5))
            YY[0][c_] = 5 * rng.randint(-40, 40) / 64 - rest
        pts_s = list_s([f"{frac_s(a_)};{frac_s(b_)}" for a_, b_ in YY])

        def fst():
            f_ = affine_from_pts([xy_(*p_) for p_ in XX], [xy_(*p_) for p_ in YY])
            lin = f"{lat(f_.a, 10)};{lat(f_.b, 10)};{lat(f_.d, 10)};{lat(f_.e, 10)}"
            return lin + (" far" if far else f" {lat(f_.c, 10)};{lat(f_.f, 10)}")

        res_m = run_driver("C03", [f"c03 stencil {frac_s(x0)} {frac_s(y0)} {frac_s(rr)} {pts_s}"])[0] if False else None
        # offsets are compared near the origin only: far away the un-centred least-squares problem is ill conditioned and
        # the offset carries visible rounding (the linear part, which the scale uses, does not)
        line = f"c03 stencil {frac_s(x0)} {frac_s(y0)} {frac_s(rr)} {pts_s}"
        out = guarded(fst)
        if far:
            R.corr(line + " far", lambda: out, sig="stencil|far")
        else:
            R.corr(line, lambda: out, sig="stencil|near")

    # ================================================================ cross-CRS branch driven by an affine map flagged non-linear
    class FakeNonLinear:  # pylint: disable=too-few-public-methods
        """a PointTransform whose `.linear` is None: compute_reproject_roi takes the cross-CRS branch"""

        def __init__(self, A_, back=None):
            self.A_, self._back = A_, back

        @property
        def linear(self):
            return None

        @property
        def back(self):
            if self._back is None:
                self._back = FakeNonLinear(~self.A_, self)
            return self._back

        def __call__(self, pts):
            return [xy_(self.A_ * (float(p_.x), float(p_.y))) for p_ in pts]

    # Is replacing the module attribute `native_pix_transform` what compute_reproject_roi sees on this tree?  (the seam of
    # the two substituted-transform streams below; if a refactoring routes around it they are skipped, not failed)
    seam_calls = []
    npt_orig = getattr(O, "native_pix_transform", None)
    if callable(npt_orig):
        def npt_probe(a_, b_):
            seam_calls.append(1)
            return npt_orig(a_, b_)

        O.native_pix_transform = npt_probe
        try:
            O.compute_reproject_roi(gb((4, 4), Affine.identity()), gb((4, 4), Affine.translation(1, 1)))
        except Exception:  # pylint: disable=broad-except
            pass
        finally:
            O.native_pix_transform = npt_orig
    npt_seam = bool(seam_calls)
    if not npt_seam:
        R.count("plan|native-pix-transform-seam-not-reached")
        R.notes.append("compute_reproject_roi does not look up overlap.native_pix_transform on this tree: the substituted-transform "
                       "streams (nlplan, non power-of-two paste plans) were skipped")

    for _ in range(R.pick(500, 5000) if npt_seam else 0):
        sshape, dshape = (rng.randint(1, 40), rng.randint(1, 40)), (rng.randint(1, 40), rng.randint(1, 40))
        if rng.random() < 0.2:
            dshape = (rng.choice([1, 2, 3]), rng.randint(100, 3000))[:: rng.choice([1, -1])]
            sshape = (rng.randint(50, 3000), rng.randint(50, 3000))
        M, kind = gen_M_exact(rng, sshape, dshape)
        if not is_sq(Fraction(M.a) ** 2 + Fraction(M.d) ** 2) or any(Fraction(v) * 64 % 1 != 0 for v in (M.c, M.f)):
            continue
        pad = rng.choice([None, None, 0, 1, 2, 5])
        al = rng.choice([None, None, None, 0, 1, 2, 4, 16])
        src, dst = gb(sshape, Affine.identity()), gb(dshape, M)

        def fnl():
            back = FakeNonLinear(M)            # dst -> src
            tr = FakeNonLinear(~M, back)       # src -> dst
            back._back = tr                    # pylint: disable=protected-access
            O.native_pix_transform = lambda a_, b_: tr
            try:
                r_ = O.compute_reproject_roi(src, dst, padding=pad, align=al)
            finally:
                O.native_pix_transform = orig_npt0
            return f"{roi_s(r_.roi_src)} {roi_s(r_.roi_dst)} {bool_s(r_.paste_ok)} {int(r_.read_shrink)}"

        orig_npt0 = npt_orig
        R.corr(f"c03 nlplan {sshape[0]} {sshape[1]} {dshape[0]} {dshape[1]} {aff_s(M)} {opt_s(pad)} {opt_s(al)}", fnl,
               sig="nlplan|" + kind)

    # ================================================================ exact stream: compute_reproject_roi
    def options():
        if rng.random() < 0.4:  # tight: the paste path is allowed
            pad, al = rng.choice([None, None, 0]), rng.choice([None, None, 0])
        else:
            pad = rng.choice([None, None, None, 0, 0, 1, 2, 5])
            al = rng.choice([None, None, None, 0, 1, 2, 4, 16])
        ttol = rng.choice(TTOL_EXACT)
        return pad, al, ttol

    def shapes():
        if rng.random() < 0.85:
            return (rng.randint(1, 24), rng.randint(1, 24)), (rng.randint(1, 24), rng.randint(1, 24))
        return (rng.randint(1, 300), rng.randint(1, 300)), (rng.randint(1, 120), rng.randint(1, 120))

    n_pairs = R.pick(2500, 25000)
    for _ in range(n_pairs):
        sshape, dshape = shapes()
        S = gen_src_affine(rng)
        M, kind = gen_M_exact(rng, sshape, dshape)
        D = S * M
        pad, al, ttol = options()
        stol = rng.choice(STOL_EXACT)
        # a shift snapped by a tolerance of 1/2 or more can sit exactly half a pixel from the true one: such exact
        # ties at an image border are not judged (every other pixel is)
        eps_x = 0 if ttol < 0.5 else 1e-6
        src, dst = gb(sshape, S), gb(dshape, D)
        A6 = fmul(finv(faff(S)), faff(D))
        if A6 != faff(M):  # D = S*M was not exact in doubles: not an exact-stream case
            R.count("plan-skipped-inexact")
            continue
        rational_root = is_sq(A6[0] ** 2 + A6[3] ** 2)
        res = []
        conv = rng.random() < 0.3  # positional arguments in the documented order

        def fplan():
            r = call_plan(O, conv, src, dst, ttol=ttol, stol=stol, padding=pad, align=al)
            res.append(r)
            if not rational_root:
                return f"{roi_s(r.roi_src)} {roi_s(r.roi_dst)}"
            return plan_s(r)

        if rational_root:
            line = (f"c03 plan {sshape[0]} {sshape[1]} {dshape[0]} {dshape[1]} {aff_s(S)} {aff_s(D)} "
                    f"{frac_s(ttol)} {frac_s(stol)} {opt_s(pad)} {opt_s(al)}")
        else:
            line = (f"c03 relrois {sshape[0]} {sshape[1]} {dshape[0]} {dshape[1]} {aff_s(S)} {aff_s(D)} "
                    f"{1 if pad is None else pad} {opt_s(None if al == 0 else al)} 2")
        out = guarded(fplan)
        # under numpy >= 2 the sampled-boundary path maps the float32 boundary points in float32 (weak python
        # scalars), so offsets finer than 2^-6 px are not exact there: such cases are compared on the paste path only
        fine = any(Fraction(v) * 64 % 1 != 0 for v in (M.c, M.f))
        if fine and not (res and res[0].paste_ok):
            R.count("plan-not-compared-float32|" + kind)
            if res:
                st = (abs(A6[0]), abs(A6[4])) if (A6[1] == 0 and A6[3] == 0) else None
                oracle_linear(R, {"fn": "compute_reproject_roi", "src_shape": sshape, "dst_shape": dshape,
                                  "src_affine": list(S)[:6], "dst_affine": list(D)[:6], "ttol": ttol, "stol": stol, "padding": pad,
                                  "align": al, "crs": CRS0}, sshape, dshape, A6, res[0], pad, al, 1e-6, kind + "-fine", st_scale=st)
            continue
        tag = kind + ("|paste" if res and res[0].paste_ok else "|padded") + (
            f"|rs{min(int(res[0].read_shrink), 3)}" if res else "") + ("|" + placement(res[0], sshape, dshape) if res else "")
        R.corr(line, lambda: out, sig="plan|" + tag + ("|align" if al else "") + ("|pad" if pad else ""))
        case = {"fn": "compute_reproject_roi", "src_shape": sshape, "dst_shape": dshape, "src_affine": list(S)[:6],
                "dst_affine": list(D)[:6], "ttol": ttol, "stol": stol, "padding": pad, "align": al, "crs": CRS0, "positional": conv}
        if not res:
            R.oracle(False, "plan-raises", case, f"compute_reproject_roi raised {out}", sig="plan|raises")
            continue
        r = res[0]
        if not rational_root:
            R.oracle(not r.paste_ok, "paste-ok-for-rotation", case, "paste_ok for a rotated transform", sig="plan|rot-nopaste")
        st = (abs(A6[0]), abs(A6[4])) if (A6[1] == 0 and A6[3] == 0) else None
        oracle_linear(R, case, sshape, dshape, A6, r, pad, al, eps_x, kind, st_scale=st)

    # --- huge images, whole-pixel shifts (paste path: no float32 boundary sampling involved)
    for _ in range(R.pick(150, 1500)):
        sshape = (rng.choice(HUGE[:6] + [9]), rng.choice(HUGE[:6] + [9]))
        dshape = (rng.choice(HUGE[:6] + [5]), rng.choice(HUGE[:6] + [5]))
        k = rng.choice([1, 1, 2, 4])
        sg = (rng.choice([1, -1]), rng.choice([1, -1]))
        tx = k * rng.choice([0, 1, -3, 2**24, 2**31 + 1, -(2**31), sshape[1] // k - 1, -dshape[1] + 1])
        ty = k * rng.choice([0, 2, -1, 2**24 + 1, 2**31, sshape[0] // k - 2, -dshape[0] + 2])
        M = Affine(k * sg[0], 0, tx + (k * dshape[1] if sg[0] < 0 else 0), 0, k * sg[1], ty + (k * dshape[0] if sg[1] < 0 else 0))
        src, dst = gb(sshape, Affine.identity()), gb(dshape, M)
        R.corr(f"c03 plan {sshape[0]} {sshape[1]} {dshape[0]} {dshape[1]} 1;0;0;0;1;0 {aff_s(M)} {frac_s(0.05)} {frac_s(1e-3)} N N",
               lambda: plan_s(O.compute_reproject_roi(src, dst)), sig="plan|huge")

    # --- non power-of-two scales: exact dst→src transform substituted for native_pix_transform (paste path only)
    n_patched = R.pick(1200, 12000) if npt_seam else 0
    orig_npt = npt_orig
    for _ in range(n_patched):
        sshape, dshape = shapes()
        far = rng.random() < 0.25
        if far:  # small chip far inside a huge source
            dshape = (rng.randint(1, 40), rng.randint(1, 40))
        M, kind = gen_M_patched(rng, sshape, dshape, far)
        if far:
            sshape = (int(abs(M.f)) + rng.randint(1, 8) * max(1, int(abs(M.e))) * dshape[0] // 3 + 1,
                      int(abs(M.c)) + rng.randint(1, 8) * max(1, int(abs(M.a))) * dshape[1] // 3 + 1)
            kind += "-far"
        ttol = rng.choice([0.05, 0.05, 2**-5, 0.26] + TTOL_EXACT)
        stol = 2**-10 if kind == "edge" or rng.random() < 0.3 else rng.choice([1e-3, 1e-3, 1e-2, 1e-6, 2**-5, 0.125])
        if rng.random() < 0.4:  # dyadic scale class x placement class x read-shrink x residue x tolerances
            sshape, dshape, M, stol, ttol, tg = tol_case(rng, exact=True)
            kind = "tolx|" + tg
        src, dst = gb(sshape, Affine.identity()), gb(dshape, M)
        res = []

        def fpat():
            back = O.LinearPointTransform(M)
            tr = O.LinearPointTransform(~M, back)
            back._back = tr  # pylint: disable=protected-access
            O.native_pix_transform = lambda a, b: tr
            try:
                r = O.compute_reproject_roi(src, dst, ttol=ttol, stol=stol)
            finally:
                O.native_pix_transform = orig_npt
            res.append(r)
            return plan_s(r)

        out = guarded(fpat)
        case = {"fn": "compute_reproject_roi", "src_shape": sshape, "dst_shape": dshape, "src_affine": [1, 0, 0, 0, 1, 0],
                "dst_affine": list(M)[:6], "ttol": ttol, "stol": stol, "padding": None, "align": None, "crs": CRS0,
                "exact_back_transform": True}
        if not res:
            R.oracle(False, "plan-raises", case, f"compute_reproject_roi raised {out}", sig="plan|raises")
            continue
        r = res[0]
        tag = kind + ("|paste" if r.paste_ok else "|padded") + f"|rs{min(int(r.read_shrink), 3)}|" + placement(r, sshape, dshape)
        if r.paste_ok:  # the inverse (used by the padded path only) is not exact for these scales
            R.corr(f"c03 plan {sshape[0]} {sshape[1]} {dshape[0]} {dshape[1]} 1;0;0;0;1;0 {aff_s(M)} "
                   f"{frac_s(ttol)} {frac_s(stol)} N N", lambda: out, sig="plan|" + tag)
        else:
            R.count("plan-patched-not-compared|" + kind)
        A6 = faff(M)
        oracle_linear(R, case, sshape, dshape, A6, r, None, None, 0 if ttol < 0.5 else 1e-6, kind, st_scale=(abs(A6[0]), abs(A6[4])))
        if kind == "edge":
            (ys, xs), (yd, xd) = r.roi_src, r.roi_dst
            R.oracle(not r.paste_ok or (ys.stop - ys.start, xs.stop - xs.start) == (yd.stop - yd.start, xd.stop - xd.start),
                     "paste-ok-shape-mismatch", case, f"paste_ok but roi_src={r.roi_src} roi_dst={r.roi_dst}",
                     sig="plan|edge-stol")

    # --- fixed regressions (corpus): align=0 without paste; scale exactly stol from 1; align reviving an empty overlap
    for (sshape, dshape, D, kw) in [
        ((100, 100), (50, 50), Affine.translation(10.5, 10), dict(align=0)),
        ((100, 100), (50, 50), Affine.translation(10, 10), dict(align=0, padding=1)),
        ((100, 100), (50, 50), Affine.translation(103, 10), dict(align=16, padding=1)),
        ((100, 100), (50, 50), Affine.translation(-54, 10), dict(align=16, padding=1)),
        ((2000, 2000), (2000, 2000), Affine(1, 0, 0, 0, 1 + 2**-10, 0), dict(stol=2**-10)),
    ]:
        src, dst = gb(sshape, Affine.identity()), gb(dshape, D)
        res = []

        def fc():
            r = O.compute_reproject_roi(src, dst, **kw)
            res.append(r)
            return plan_s(r)

        out = guarded(fc)
        case = {"fn": "compute_reproject_roi", "src_shape": sshape, "dst_shape": dshape, "src_affine": [1, 0, 0, 0, 1, 0],
                "dst_affine": list(D)[:6], "crs": CRS0, **kw}
        if "stol" not in kw:
            R.corr(f"c03 plan {sshape[0]} {sshape[1]} {dshape[0]} {dshape[1]} 1;0;0;0;1;0 {aff_s(D)} "
                   f"{frac_s(0.05)} {frac_s(1e-3)} {opt_s(kw.get('padding'))} {opt_s(kw.get('align'))}", lambda: out,
                   sig="plan|corpus")
        if not res:
            R.oracle(False, "plan-raises", case, f"compute_reproject_roi raised {out}", sig="plan|raises")
            continue
        r = res[0]
        if "stol" in kw:
            (ys, xs), (yd, xd) = r.roi_src, r.roi_dst
            R.oracle(not r.paste_ok or (ys.stop - ys.start, xs.stop - xs.start) == (yd.stop - yd.start, xd.stop - xd.start),
                     "paste-ok-shape-mismatch", case, f"paste_ok but roi_src={r.roi_src} roi_dst={r.roi_dst}",
                     sig="plan|edge-stol")
        else:
            oracle_linear(R, case, sshape, dshape, faff(D), r, kw.get("padding"), kw.get("align"), 0, "corpus")

    # --- near-integer scale on wide images: the snapped transform drifts (known finding, own keys)
    for (sshape, dshape, sx) in [((4, 4000), (4, 4002), 0.9995), ((4, 5000), (4, 4000), 1.0005),
                                 ((3, rng.randint(1500, 5000)), (3, rng.randint(1500, 5000)), 1 + rng.choice([-1, 1]) * rng.uniform(4e-4, 9e-4))]:
        D = Affine(sx, 0, 0, 0, 1, 0)
        src, dst = gb(sshape, Affine.identity()), gb(dshape, D)
        case = {"fn": "compute_reproject_roi", "src_shape": sshape, "dst_shape": dshape, "src_affine": [1, 0, 0, 0, 1, 0],
                "dst_affine": list(D)[:6], "crs": CRS0}
        try:
            r = O.compute_reproject_roi(src, dst)
        except Exception as e:  # pylint: disable=broad-except
            R.oracle(False, "plan-raises", case, f"compute_reproject_roi raised {type(e).__name__}: {e}", sig="plan|raises")
            continue
        A6 = fmul(finv(faff(Affine.identity())), faff(D))
        oracle_linear(R, case, sshape, dshape, A6, r, None, None, 1e-6, "drift", st_scale=(abs(sx), 1.0))

    # ================================================================ float stream, same CRS (oracle only)
    for _ in range(R.pick(400, 4000)):
        sshape = (rng.randint(1, 200), rng.randint(1, 200))
        dshape = (rng.randint(1, 90), rng.randint(1, 90))
        res_s = rng.choice(RES_CHOICES)
        S = float_src_affine(rng, res_s)
        kind = rng.choice(["shift", "subpix", "frac", "int", "rot", "mirror"])
        k = {"shift": 1, "subpix": 1, "mirror": 1, "rot": rng.choice([1, 0.7, 2.3]), "frac": rng.choice([0.3, 0.77, 1.5, 2.8, 3.3, 7.1]),
             "int": rng.choice([2, 3, 4, 5, 10])}[kind]
        L = Affine.scale(k, k)
        if kind == "rot":
            L = Affine.rotation(rng.uniform(-180, 180)) * L
        if kind == "mirror":
            L = Affine.scale(rng.choice([1, -1]), rng.choice([1, -1]))
        ex = (abs(L.a) * dshape[1] + abs(L.b) * dshape[0], abs(L.d) * dshape[1] + abs(L.e) * dshape[0])
        tx = rng.uniform(-ex[0] - 3, sshape[1] + ex[0] + 3)
        ty = rng.uniform(-ex[1] - 3, sshape[0] + ex[1] + 3)
        if kind in ("shift", "int", "mirror"):
            tx, ty = round(tx), round(ty)
        if kind == "subpix":
            tx, ty = round(tx) + rng.uniform(-0.08, 0.08), round(ty) + rng.uniform(-0.08, 0.08)
        D = S * Affine.translation(tx, ty) * L
        pad = rng.choice([None, None, 0, 1, 2, 3, 5])
        al = rng.choice([None, None, None, 0, 1, 2, 4, 16])
        ttol_f = rng.choice([0.05, 0.05] + TTOL_FLOAT)
        stol_f = rng.choice([1e-3, 1e-3, 1e-3, 1e-2, 1e-4, 1e-6, 0.0, 0.1])
        if kind == "subpix" and rng.random() < 0.5:  # residues anywhere in the pixel, not only near whole numbers
            tx, ty = round(tx) + rng.uniform(-0.5, 0.5), round(ty) + rng.uniform(-0.5, 0.5)
            D = S * Affine.translation(tx, ty) * L
        src, dst = gb(sshape, S), gb(dshape, D)
        case = {"fn": "compute_reproject_roi", "src_shape": sshape, "dst_shape": dshape, "src_affine": list(S)[:6],
                "dst_affine": list(D)[:6], "padding": pad, "align": al, "ttol": ttol_f, "stol": stol_f, "crs": CRS0,
                "positional": rng.random() < 0.3}
        try:
            r = call_plan(O, case["positional"], src, dst, padding=pad, align=al, ttol=ttol_f, stol=stol_f)
        except Exception as e:  # pylint: disable=broad-except
            R.oracle(False, "plan-raises", case, f"compute_reproject_roi raised {type(e).__name__}: {e}", sig="plan|raises")
            continue
        A6 = fmul(finv(faff(S)), faff(D))
        st = (abs(A6[0]), abs(A6[4])) if kind != "rot" else (k, k)
        oracle_linear(R, case, sshape, dshape, A6, r, pad, al, 1e-6, "float-" + kind, st_scale=tuple(float(v) for v in st))

    # --- tiny rotations / shears on large rasters: the rotation tolerance of the paste test matters (oracle only)
    for _ in range(R.pick(60, 600)):
        N1, N2 = rng.randint(2000, 3200), rng.randint(2000, 3200)
        sshape = (N1, rng.randint(2000, 3200))
        dshape = (N2, rng.randint(2000, 3200)) if rng.random() < 0.7 else (rng.randint(300, 900), rng.randint(2000, 3200))
        res_s = rng.choice([10, 30, 0.00025, 1.0, 1e-5, 1e-7, 1e3, 1e5])
        S = float_src_affine(rng, res_s)
        # log-uniform, plus neighbourhoods of the two tolerances a rotation term could be compared with (1e-10, stol)
        th = rng.choice([1, -1]) * rng.choice([10 ** rng.uniform(-12, -2), 1e-10 * 10 ** rng.uniform(-1, 1),
                                               1e-3 * 10 ** rng.uniform(-1, 0.5), 1e-3 * 10 ** rng.uniform(-1, 0.5)])
        kind = rng.choice(["rot", "rot", "shear-x", "shear-y"])
        L = {"rot": Affine(math.cos(th), -math.sin(th), 0, math.sin(th), math.cos(th), 0), "shear-x": Affine(1, th, 0, 0, 1, 0),
             "shear-y": Affine(1, 0, 0, th, 1, 0)}[kind]
        if rng.random() < 0.3:
            L = L * Affine.scale(rng.choice([1, -1]), rng.choice([1, -1]))
        tx, ty = rng.randint(-400, 400), rng.randint(-400, 400)
        if rng.random() < 0.4:
            tx, ty = tx + rng.uniform(-0.04, 0.04), ty + rng.uniform(-0.04, 0.04)
        D = S * Affine.translation(tx, ty) * L
        pad = rng.choice([None, None, None, 0, 1])
        src, dst = gb(sshape, S), gb(dshape, D)
        case = {"fn": "compute_reproject_roi", "src_shape": sshape, "dst_shape": dshape, "src_affine": list(S)[:6],
                "dst_affine": list(D)[:6], "padding": pad, "align": None, "crs": CRS0}
        try:
            r = O.compute_reproject_roi(src, dst, padding=pad)
        except Exception as e:  # pylint: disable=broad-except
            R.oracle(False, "plan-raises", case, f"compute_reproject_roi raised {type(e).__name__}: {e}", sig="plan|raises")
            continue
        A6 = fmul(finv(faff(S)), faff(D))
        mag = int(round(-math.log10(abs(th))))
        oracle_linear(R, case, sshape, dshape, A6, r, pad, None, 1e-4, f"float-tiny-{kind}-1e-{mag}" + ("|paste" if r.paste_ok else ""),
                      st_scale=None)

    # --- fine zoom-in far from the source origin: source pixel coordinates of 1e4 .. 1e5 (float32 spacing 1e-3 .. 1e-2 px),
    #     destination 8 .. 64 times finer, window edges a small real overhang away from whole source pixels, padding 0 often
    for _ in range(R.pick(250, 2500)):
        z = rng.choice([8, 16, 16, 32, 64, 10, 25, 50])
        sshape = (rng.randint(40000, 120000), rng.randint(40000, 120000))
        dshape = (rng.randint(10, 160), rng.randint(10, 160))
        sg = (rng.choice([1, 1, -1]), rng.choice([1, 1, -1]))

        def edge(nsrc, nd, sgn):
            lo = rng.randint(10000, nsrc - 2000)
            # low edge just below / above a whole source pixel (a real overhang of 0.002 .. 0.06 px), or anywhere
            lo = lo + rng.choice([-1, 1]) * rng.uniform(0.002, 0.06) if rng.random() < 0.7 else lo + rng.random()
            if rng.random() < 0.6:  # make the high edge overhang a whole pixel by a similar small amount
                hi = math.ceil(lo + nd / z) + rng.choice([-1, 1]) * rng.uniform(0.002, 0.06)
                lo = hi - nd / z
            return (lo if sgn > 0 else lo + nd / z)

        M = Affine(sg[0] / z, 0, edge(sshape[1], dshape[1], sg[0]), 0, sg[1] / z, edge(sshape[0], dshape[0], sg[1]))
        S = float_src_affine(rng, rng.choice([2.0**-8, 1 / 256, 30, 10, 0.00025, 1.0, 1e-5, 1e3]))
        S = Affine.translation(*(S * (-sshape[1] / 2, -sshape[0] / 2))) * Affine.scale(S.a, S.e) if rng.random() < 0.5 else S
        D = S * M
        pad = rng.choice([0, 0, 0, 0, 1, 1, None])
        al = rng.choice([None, None, None, None, 0, 4])
        src, dst = gb(sshape, S), gb(dshape, D)
        case = {"fn": "compute_reproject_roi", "src_shape": sshape, "dst_shape": dshape, "src_affine": list(S)[:6],
                "dst_affine": list(D)[:6], "padding": pad, "align": al, "crs": CRS0}
        try:
            r = O.compute_reproject_roi(src, dst, padding=pad, align=al)
        except Exception as e:  # pylint: disable=broad-except
            R.oracle(False, "plan-raises", case, f"compute_reproject_roi raised {type(e).__name__}: {e}", sig="plan|raises")
            continue
        # judged on the exact transform of the two grids; a pixel centre is 1/(2z) >= 0.0078 px from the window edge, far
        # more than the planner's own double / float32 noise at these coordinates (<= 0.004 px)
        A6 = fmul(finv(faff(S)), faff(D))
        oracle_linear(R, case, sshape, dshape, A6, r, pad, al, 1e-4, f"float-zoomin-far-z{z}-pad{pad}",
                      st_scale=(float(abs(A6[0])), float(abs(A6[4]))))

    # --- caller supplied tolerances, scales straddling k ± stol (oracle only)
    for _ in range(R.pick(300, 3000)):
        stol = rng.choice([1e-2, 1e-3, 1e-4, 1e-6])
        ttol = rng.choice(TTOL_FLOAT)
        k = rng.choice([1, 2, 2, 3, 4, 5])
        dlt = stol * rng.choice([0.3, 0.9, 0.99, 1.01, 1.1, 2.5, 6.0]) * rng.choice([1, -1])
        dlt2 = dlt if rng.random() < 0.6 else stol * rng.choice([0.3, 1.5]) * rng.choice([1, -1])
        sshape = (rng.randint(8, 90), rng.randint(8, 90))
        dshape = (rng.randint(4, 50), rng.randint(4, 50))
        sg = (rng.choice([1, 1, -1]), rng.choice([1, 1, -1]))
        rt = min(ttol, 0.5) * rng.choice([0, 0.5, 0.9, 1.1, 3]) * rng.choice([1, -1])
        if ttol > 0.5 and rng.random() < 0.7:  # any residue is inside such a tolerance: both sides of the half pixel
            rt = rng.uniform(-0.5, 0.5) + rng.choice([0, 0, 1, -1])
        pad_t = rng.choice([None, None, None, 0, 0, 1, 2, 5])
        al_t = rng.choice([None, None, None, 0, 0, 1, 2, 4, 16])
        ox, oy = rng.randint(-dshape[1], sshape[1] // k), rng.randint(-dshape[0], sshape[0] // k)
        if rng.random() < 0.45:  # chips far from the origin of a large source: 1e2 .. 1e5 overview pixels, both axes
            dlt = stol * rng.choice([0.9, 0.4, 0.1, 1e-3, 0]) * rng.choice([1, -1]) if stol >= 1e-3 else dlt
            dlt2 = dlt
            ox, oy = int(10 ** rng.uniform(2, 5)), int(10 ** rng.uniform(2, 5))
            sshape = (k * (oy + rng.randint(dshape[0] // 2, 2 * dshape[0])), k * (ox + rng.randint(dshape[1] // 2, 2 * dshape[1])))
            rt = min(ttol, 0.5) * rng.choice([0, 0.3, 0.6]) * rng.choice([1, -1])
        tx = k * (ox + rt) + (k * dshape[1] if sg[0] < 0 else 0)
        ty = k * (oy + rt / 2) + (k * dshape[0] if sg[1] < 0 else 0)
        S = gen_src_affine(rng) if rng.random() < 0.4 else (float_src_affine(rng, rng.choice(RES_CHOICES)) if rng.random() < 0.6
                                                          else Affine.identity())
        D = S * Affine((k + dlt) * sg[0], 0, tx, 0, (k + dlt2) * sg[1], ty)
        tctag = ""
        if rng.random() < 0.55:  # scale class x placement class x read-shrink (up to 64) x top-of-band residues
            sshape, dshape, Mtc, stol, ttol, tctag = tol_case(rng)
            D = S * Mtc
            if rng.random() < 0.8:
                pad_t, al_t = rng.choice([None, None, 0]), rng.choice([None, None, 0])
            tctag = "|" + tctag
        src, dst = gb(sshape, S), gb(dshape, D)
        case = {"fn": "compute_reproject_roi", "src_shape": sshape, "dst_shape": dshape, "src_affine": list(S)[:6],
                "dst_affine": list(D)[:6], "stol": stol, "ttol": ttol, "padding": pad_t, "align": al_t, "crs": CRS0,
                "positional": rng.random() < 0.3}
        try:
            r = call_plan(O, case["positional"], src, dst, stol=stol, ttol=ttol, padding=pad_t, align=al_t)
        except Exception as e:  # pylint: disable=broad-except
            R.oracle(False, "plan-raises", case, f"compute_reproject_roi raised {type(e).__name__}: {e}", sig="plan|raises")
            continue
        A6 = fmul(finv(faff(S)), faff(D))
        oracle_linear(R, case, sshape, dshape, A6, r, pad_t, al_t, 1e-6, f"float-tol-{stol:g}{tctag}" + ("|paste" if r.paste_ok else ""),
                      st_scale=(float(abs(A6[0])), float(abs(A6[4]))))
        if r.paste_ok:  # two-sided: source region = read_shrink x destination region, and the scale is within the stated stol
            rs = int(r.read_shrink)
            (ys, xs), (yd, xd) = r.roi_src, r.roi_dst
            R.oracle((ys.stop - ys.start, xs.stop - xs.start) == (rs * (yd.stop - yd.start), rs * (xd.stop - xd.start)),
                     "paste-src-shape-not-shrink-times-dst", case,
                     f"paste_ok read_shrink={rs} roi_src={r.roi_src} roi_dst={r.roi_dst}", sig="plan|paste-shape")
            R.oracle(abs(abs(A6[0]) / rs - 1) < Fraction(stol) * (1 + Fraction(1, 10**6)) and
                     abs(abs(A6[4]) / rs - 1) < Fraction(stol) * (1 + Fraction(1, 10**6)),
                     "paste-ok-scale-outside-stol", case,
                     f"paste_ok with read_shrink={rs} for scales {float(A6[0])}, {float(A6[4])} and stol={stol}", sig="plan|paste-stol")

    # ================================================================ glue around the core: decompose_rws, GbxPointTransform,
    #     native_pix_transform, compute_reproject_roi across CRSs with an exact stand-in for the transformer (Model/C03Top)
    from . import c03_top

    c03_top.run_top(R)

    # ================================================================ cross-CRS (oracle only; pyproj is the reference)
    cross_crs(R, O, gb)

    R.exhaustive = False
    R.assumptions.append("float32 linspace of roi_boundary is exact for image sizes below 2^24 (exact stream stays below)")
    R.assumptions.append("non power-of-two integer / near-integer scales are compared on the paste path only, with the exact "
                         "dst→src affine substituted for native_pix_transform (its float inverse is not exact)")
    R.searchers.append(searcher)


# area of use (lon0, lat0, lon1, lat1) well inside the valid region, native pixel size
CRS_AREAS = {
    "EPSG:4326": ((-170, -80, 170, 80), 0.01),
    "EPSG:3857": ((-170, -75, 170, 75), 1000),
    "EPSG:3577": ((115, -42, 152, -12), 100),
    "EPSG:6933": ((-170, -75, 170, 75), 1000),
    "EPSG:32633": ((12.2, 2, 17.8, 78), 100),
    "EPSG:32755": ((144.2, -78, 149.8, -2), 100),
    "EPSG:32610": ((-125.8, 2, -120.2, 78), 100),
    "EPSG:27700": ((-6, 50.2, 1.5, 58), 100),
}

# CRSs without an EPSG code (custom proj strings)
SINU_0 = "+proj=sinu +lon_0=0 +x_0=0 +y_0=0 +R=6371007.181 +units=m +no_defs"
SINU_15 = "+proj=sinu +lon_0=15 +x_0=0 +y_0=0 +R=6371007.181 +units=m +no_defs"
LAEA_A = "+proj=laea +lat_0=52 +lon_0=10 +x_0=4321000 +y_0=3210000 +ellps=GRS80 +units=m +no_defs"
LAEA_B = "+proj=laea +lat_0=45 +lon_0=20 +x_0=0 +y_0=0 +ellps=GRS80 +units=m +no_defs"
NO_EPSG = [SINU_0, SINU_15, LAEA_A, LAEA_B]

# large extents: conic / polar / transverse far from the central meridian / sinusoidal / azimuthal
LARGE_AREAS = {
    "EPSG:4326": (-170, -78, 170, 78), "EPSG:3857": (-170, -75, 170, 75), "EPSG:6933": (-170, -75, 170, 75),
    "EPSG:3577": (112, -44, 154, -10), "EPSG:3031": (-170, -88, 170, -62), "EPSG:32633": (3, 25, 27, 72),
    "EPSG:32755": (135, -72, 159, -20), SINU_0: (-60, -55, 60, 55), SINU_15: (-45, -55, 75, 55),
    LAEA_A: (-12, 33, 32, 70), LAEA_B: (-5, 28, 45, 65),
}
RECTILINEAR = {"EPSG:4326", "EPSG:3857", "EPSG:6933"}


def crs_tag(c: str) -> str:
    if "+proj=geos" in c:
        return "geos"
    if "+proj=ortho" in c:
        return "ortho"
    return c[5:] if c.startswith("EPSG:") else {SINU_0: "sinu0", SINU_15: "sinu15", LAEA_A: "laeaA", LAEA_B: "laeaB"}.get(c, "custom")


HISTORY_OPS = ["tr-authority", "tr-authority-back", "tr-xy", "epsg-a", "epsg-b", "eq", "str", "hash"]


def apply_history(ops, ca, cb):
    for op in ops:
        try:
            if op == "tr-authority":
                ca.transformer_to_crs(cb, always_xy=False)(1.0, 2.0)
            elif op == "tr-authority-back":
                cb.transformer_to_crs(ca, always_xy=False)(1.0, 2.0)
            elif op == "tr-xy":
                ca.transformer_to_crs(cb, always_xy=True)(1.0, 2.0)
            elif op == "epsg-a":
                _ = ca.epsg
            elif op == "epsg-b":
                _ = cb.epsg
            elif op == "eq":
                _ = ca == cb
            elif op == "str":
                _ = str(ca), str(cb)
            else:
                _ = hash(ca), hash(cb)
        except Exception:  # pylint: disable=broad-except
            pass


def prior_history(rng, ca, cb):
    """Calls an application may have made earlier in the same process on the two CRSs; all of them are
    observationally irrelevant to planning (they only touch process-global caches / lazily filled fields)."""
    ops = [rng.choice(HISTORY_OPS) for _ in range(rng.choice([0, 0, 1, 2, 4]))]
    apply_history(ops, ca, cb)
    return ops


def cross_crs(R: Run, O, gb):
    from odc.geo.crs import CRS
    from pyproj import CRS as PCRS
    from pyproj import Transformer

    rng = R.rng
    names = sorted(CRS_AREAS)
    tcache = {}

    def tf(a, b):
        if (a, b) not in tcache:
            tcache[(a, b)] = Transformer.from_crs(PCRS.from_user_input(a), PCRS.from_user_input(b), always_xy=True)
        return tcache[(a, b)]

    def common_area(a, b, table):
        (x0, y0, x1, y1), (u0, v0, u1, v1) = table[a], table[b]
        return max(x0, u0), max(y0, v0), min(x1, u1), min(y1, v1)

    def make_box(crs, lon, lat, shape, res):
        x, y = tf("EPSG:4326", crs).transform(lon, lat)
        return shape, Affine.translation(x - res * shape[1] / 2, y + res * shape[0] / 2) * Affine.scale(res, -res)

    def make_box_ext(crs, lon, lat, ext_deg, shape):
        """footprint roughly ext_deg wide and high around (lon, lat)"""
        t = tf("EPSG:4326", crs)
        xs, ys = t.transform([lon - ext_deg / 2, lon + ext_deg / 2, lon, lon], [lat, lat, lat - ext_deg / 2, lat + ext_deg / 2])
        w, h = abs(xs[1] - xs[0]), abs(ys[3] - ys[2])
        # the rectangle spans exactly the projected end points (projections are not linear in lon/lat: centring the
        # box on the projected centre could push an edge beyond the valid domain of the projection)
        left, top = min(xs[0], xs[1]), max(ys[2], ys[3])
        if not all(map(math.isfinite, (w, h, left, top))) or w <= 0 or h <= 0:
            raise ValueError("degenerate")
        return shape, Affine.translation(left, top) * Affine.scale(w / shape[1], -h / shape[0])

    def one_case(a, b, sbox, dbox, pad, al, tag, step=1, rows=None, cols=None):
        (sshape, SA), (dshape, DA) = sbox, dbox
        ca, cb = CRS(a), CRS(b)  # fresh wrappers: lazily filled fields (.epsg) start unset
        hist = prior_history(rng, ca, cb)
        src, dst = gb(sshape, SA, ca), gb(dshape, DA, cb)
        case = {"fn": "compute_reproject_roi", "src_crs": a, "dst_crs": b, "src_shape": sshape, "dst_shape": dshape,
                "src_affine": list(SA)[:6], "dst_affine": list(DA)[:6], "padding": pad, "align": al, "history": hist}
        def env5(rect, A_from, c_from, c_to, A_to):
            """independent envelope (target pixel coords) of 5 samples per side of `rect` = (y0, y1, x0, x1)"""
            y0, y1, x0, x1 = rect
            ex, ey = np.linspace(x0, x1, 5), np.linspace(y0, y1, 5)
            bx = np.concatenate([ex, ex, np.full(5, x0), np.full(5, x1)])
            by = np.concatenate([np.full(5, y0), np.full(5, y1), ey, ey])
            wx_, wy_ = apply_np(faff(A_from), bx, by)
            if c_from == "EPSG:4326":
                wx_, wy_ = np.clip(wx_, -180, 180), np.clip(wy_, -90, 90)
            qx_, qy_ = tf(c_from, c_to).transform(wx_, wy_)
            qx_, qy_ = apply_np(finv(faff(A_to)), np.asarray(qx_, dtype="float64"), np.asarray(qy_, dtype="float64"))
            ok_ = np.isfinite(qx_) & np.isfinite(qy_)
            nbad_ = int((~ok_).sum())
            if not ok_.any():
                return (np.inf, np.inf), (-np.inf, -np.inf), nbad_
            return (qx_[ok_].min(), qy_[ok_].min()), (qx_[ok_].max(), qy_[ok_].max()), nbad_

        seen = []
        orig_rfp = O.roi_from_points

        def spy(xy, *a_, **k_):
            seen.append(int(xy.shape[0]))
            return orig_rfp(xy, *a_, **k_)

        O.roi_from_points = spy
        try:
            r = O.compute_reproject_roi(src, dst, padding=pad, align=al)
        except Exception as e:  # pylint: disable=broad-except
            key_ = "xcrs-raises"
            if isinstance(e, AssertionError):
                # `assert scale > 0` with a NaN scale: the centre of roi_dst, where the scale is estimated, has no image in
                # the source CRS.  Own key when part of the destination boundary is off the source CRS's domain as well.
                # Own key when part of the destination (boundary or interior) is off the source CRS's domain.
                try:
                    gy_, gx_ = np.meshgrid(np.linspace(0, dshape[0], 9), np.linspace(0, dshape[1], 9), indexing="ij")
                    wx_, wy_ = apply_np(faff(DA), gx_.ravel(), gy_.ravel())
                    qx_, qy_ = tf(b, a).transform(wx_, wy_)
                    if not (np.isfinite(qx_).all() and np.isfinite(qy_).all()):
                        key_ = "xcrs-scale-centre-off-domain-raises"
                except Exception:  # pylint: disable=broad-except
                    pass
            R.oracle(False, key_, case, f"compute_reproject_roi raised {type(e).__name__}: {e}", sig="xcrs|raises")
            return
        finally:
            O.roi_from_points = orig_rfp
        if len(seen) == 2 and rng.random() < 0.25:  # branch structure: boundary samples of BOTH roi_boundary calls
            R.corr(f"c03 nlsamples {dshape[0]} {dshape[1]}", lambda: f"{seen[0]} {seen[1]}", sig="xcrs|samples")
        # independent mapping of the destination pixel centres: dst pixel → dst world → src world → src pixel
        if rows is None:
            rows, cols = sub_index(dshape[0], step), sub_index(dshape[1], step)
        xx, yy = centres(dshape, rows, cols)
        wx, wy = apply_np(faff(DA), xx, yy)
        sx, sy = tf(b, a).transform(wx, wy)
        sx, sy = np.asarray(sx, dtype="float64"), np.asarray(sy, dtype="float64")
        sx[~np.isfinite(sx)] = np.nan
        sy[~np.isfinite(sy)] = np.nan
        px, py = apply_np(finv(faff(SA)), sx, sy)
        sig = f"xcrs|{crs_tag(a)}>{crs_tag(b)}|{tag}" + ("|hist" if hist else "")
        slo, shi, sbad = env5((0, dshape[0], 0, dshape[1]), DA, b, a, SA)
        (ys_, xs_) = r.roi_src
        env = ((slo, shi, 1 if pad is None else pad, sbad),
               lambda: env5((ys_.start, ys_.stop, xs_.start, xs_.stop), SA, a, b, DA))
        anyin = check_cover(R, "xcrs", case, sshape, dshape, px, py, r, 1e-6, sig, rows=rows, cols=cols, env=env)
        R.oracle(r.paste_ok is False and r.transform.linear is None, "xcrs-treated-as-same-crs", case,
                 f"different CRSs planned as a same-CRS pair (paste_ok={r.paste_ok}, linear={r.transform.linear is not None})",
                 sig="xcrs|nopaste", trivial=True)
        # scale: destination-to-source pixel size ratio at the centre of the overlap (finite differences via pyproj)
        (yd, xd) = r.roi_dst
        if yd.stop > yd.start and xd.stop > xd.start:
            cxp, cyp = (xd.start + xd.stop) / 2, (yd.start + yd.stop) / 2
            pts = np.array([[cxp, cyp], [cxp + 1, cyp], [cxp - 1, cyp], [cxp, cyp + 1], [cxp, cyp - 1]]).T
            wx, wy = apply_np(faff(DA), pts[0], pts[1])
            qx, qy = tf(b, a).transform(wx, wy)
            qx, qy = apply_np(finv(faff(SA)), np.asarray(qx), np.asarray(qy))
            if np.isfinite(qx).all() and np.isfinite(qy).all():
                jx = np.array([(qx[1] - qx[2]) / 2, (qy[1] - qy[2]) / 2])
                jy = np.array([(qx[3] - qx[4]) / 2, (qy[3] - qy[4]) / 2])
                n1 = float(np.hypot(*jx))
                det = abs(jx[0] * jy[1] - jx[1] * jy[0])
                want = (n1, det / n1)
                ok = (abs(r.scale2.x - want[0]) <= 0.02 * want[0] and abs(r.scale2.y - want[1]) <= 0.02 * want[1]
                      and r.scale == min(r.scale2.xy))
                R.oracle(ok, "xcrs-scale", case, f"scale2={r.scale2} local pixel-size ratios {want}", sig="xcrs|scale")
                true_sc = min(want)
                rs_ = int(r.read_shrink)
                R.oracle(1 <= rs_ <= max(1.0, true_sc * 1.02 + 1e-3) and rs_ >= math.floor(true_sc * 0.98) - (1 if true_sc >= 1 else 0) * 0
                         and (rs_ >= 1 if true_sc < 1.02 else rs_ >= math.floor(true_sc * 0.98)),
                         "xcrs-read-shrink-vs-true-scale", case,
                         f"read_shrink={rs_} but the destination/source pixel-size ratio at the overlap centre is {true_sc:.5f}",
                         sig="xcrs|read-shrink-true")
            check_scale(R, "xcrs", case, r, None, 0, "xcrs")
        elif anyin is False:
            R.oracle(r.read_shrink == 1 and r.scale == 0, "xcrs-empty-scale", case, f"{r.read_shrink} {r.scale}",
                     sig="xcrs|empty", trivial=True)

    # ---------------- corpus: curved source edge between boundary samples (known finding, own key)
    one_case(LAEA_A, "EPSG:3857",
             ((243, 436), Affine(3766.1889092199294, 0.0, 3704698.1302037463, 0.0, -10559.601883503692, 4296214.5262683)),
             ((381, 135), Affine(25424.821971303223, 0.0, -283748.52998290444, 0.0, -14796.826976711234, 9298944.42478392)),
             0, None, "corpus")

    # ---------------- global / hemispheric geographic grids with edges exactly on ±180 / ±90 (ROIs only, no rasters)
    RM = 20037508.342789244
    NCOLS = [360, 720, 1440, 3600, 5400, 7200, 10800, 21600, 43200, 86400, 1000, 4096]

    def geo_grid():
        lon0, lon1 = rng.choice([(-180, 180), (-180, 180), (0, 180), (-180, 0), (-90, 180), (-180, 45)])
        lat0, lat1 = rng.choice([(-90, 90), (-90, 90), (0, 90), (-90, 0), (-60, 90)])
        ncols = rng.choice(NCOLS)
        res = (lon1 - lon0) / ncols
        nrows = max(1, round((lat1 - lat0) / res))
        return (nrows, ncols), Affine(res, 0, lon0, 0, -(lat1 - lat0) / nrows, lat1)

    def proj_window(crs):
        """a destination / source window in a projected CRS that sees a large part of the globe"""
        n = rng.choice([256, 300, 512, 777])
        if crs in ("EPSG:3857", "EPSG:3395"):
            z = rng.choice([0, 0, 1, 1, 2])
            t = 2 ** z
            i, j = rng.randrange(t), rng.randrange(t)
            r = 2 * RM / (n * t)
            m = n if rng.random() < 0.7 else n // 2
            return (n, m), Affine(r, 0, -RM + i * 2 * RM / t, 0, -r, RM - j * 2 * RM / t)
        if crs == "EPSG:6933":
            w, h = 17367530.44, 7314540.83
            fx = rng.choice([(-1, 1), (0, 1), (-1, 0), (-0.5, 1)])
            return (n // 2, n), Affine((fx[1] - fx[0]) * w / n, 0, fx[0] * w, 0, -2 * h / (n // 2), h)
        # polar stereographic windows that do not contain the pole and stay on one side of the antimeridian
        sgn = 1 if crs == "EPSG:3413" else -1
        cx, cy = rng.choice([(2.0e6, 0.0), (1.5e6, 1.5e6 * sgn), (0.0, 2.2e6), (2.5e6, -1.0e6)])
        half = rng.choice([0.6e6, 1.0e6])
        return (n, n), Affine(2 * half / n, 0, cx - half, 0, -2 * half / n, cy + half)

    # corpus: standard EASE-Grid 2.0 global 36 km grid and a global 0.1 degree lat/lon raster, both directions
    m36 = ((406, 964), Affine(36032.220840584, 0, -17367530.445161372, 0, -36032.220840584, 7314540.8306386))
    g01 = ((1800, 3600), Affine(0.1, 0, -180, 0, -0.1, 90))
    one_case("EPSG:4326", "EPSG:6933", g01, m36, None, None, "corpus-global", step=4)
    one_case("EPSG:6933", "EPSG:4326", m36, g01, None, None, "corpus-global", step=12)

    for _ in range(R.pick(70, 700)):
        pcrs = rng.choice(["EPSG:3857", "EPSG:3857", "EPSG:3395", "EPSG:6933", "EPSG:3031", "EPSG:3413"])
        gbox, pbox = geo_grid(), proj_window(pcrs)
        if pcrs == "EPSG:3031" and gbox[1].f - gbox[0][0] * abs(gbox[1].e) > -60:
            continue
        if pcrs == "EPSG:3413" and gbox[1].f < 60:
            continue
        pad = rng.choice([None, None, 1, 0])
        if rng.random() < 0.6:
            tag_ = "global-src"
            if rng.random() < 0.4:
                # a geographic SOURCE that overhangs the +-180 / +-90 limits: by rounding dust (what the planner's lon/lat clamp is
                # for) or by whole pixels (those columns have no counterpart in the destination CRS: pyproj wraps them)
                (gny, gnx), GA = gbox
                ov = rng.choice([1e-9, 1e-7, 1e-5, 0.3 * GA.a, 2 * GA.a, 5 * GA.a])
                k_ = int(math.ceil(2 * ov / GA.a))
                gbox = ((gny + k_, gnx + k_), Affine(GA.a, 0, GA.c - ov, 0, GA.e, GA.f + ov))
                tag_ = "global-src-overhang" + ("-dust" if ov < 1e-3 else "-pixels")
            one_case("EPSG:4326", pcrs, gbox, pbox, pad, None, tag_, step=max(1, pbox[0][0] // 120))
        else:
            st = max(1, max(gbox[0]) // 160)
            one_case(pcrs, "EPSG:4326", pbox, gbox, pad, None, "global-dst",
                     rows=sub_index(gbox[0][0], st), cols=sub_index(gbox[0][1], st))

    # ---------------- partial transforms: part of one raster (its corners / edges) has no image in the other CRS - full-disk
    #                  geostationary and orthographic views against lon/lat grids that reach beyond the horizon, both ways
    GEOS = "+proj=geos +h=35785831 +lon_0={lon0} +sweep=y +ellps=GRS80 +units=m +no_defs"
    ORTHO = "+proj=ortho +lat_0={lat0} +lon_0={lon0} +datum=WGS84 +units=m +no_defs"

    def disk_view():
        lon0 = rng.choice([0, 0, -75.2, 140.7, 41.5])
        if rng.random() < 0.6:
            crs, rad = GEOS.format(lon0=lon0), 5.43e6
        else:
            crs, rad = ORTHO.format(lat0=rng.choice([0, 0, 30]), lon0=lon0), 6.37e6
        half = rad * rng.choice([1.01, 1.01, 0.62, 0.3])  # full disk (corners off the disk), inscribed square, inner window
        n = rng.choice([220, 350, 500])
        return crs, lon0, ((n, n), Affine(2 * half / n, 0, -half, 0, -2 * half / n, half)), ("full" if half > rad else "inside")

    def lonlat_window(lon0):
        kind = rng.choice(["global", "global", "hemisphere", "regional", "strip"])
        res = rng.choice([0.5, 1.0, 0.25])
        if kind == "global":
            x0, x1, y0, y1 = -180, 180, -90, 90
        elif kind == "hemisphere":
            c = ((lon0 + 180) % 360) - 180
            x0, x1, y0, y1 = max(-180, c - 100), min(180, c + 100), -90, 90
        elif kind == "regional":
            c = ((lon0 + 180) % 360) - 180
            x0, x1, y0, y1 = max(-180, c - 40), min(180, c + 40), -35, 45
        else:
            x0, x1, y0, y1 = -180, 180, 10, 10 + 3 * res
        return kind, ((max(1, int((y1 - y0) / res)), max(1, int((x1 - x0) / res))), Affine(res, 0, x0, 0, -res, y1))

    fd = ((1100, 1100), Affine(1e4, 0, -5.5e6, 0, -1e4, 5.5e6))
    g05 = ((360, 720), Affine(0.5, 0, -180, 0, -0.5, 90))
    one_case(GEOS.format(lon0=0), "EPSG:4326", fd, g05, None, None, "corpus-fulldisk", step=3)
    one_case("EPSG:4326", GEOS.format(lon0=0), g05, fd, None, None, "corpus-fulldisk", step=6)
    for _ in range(R.pick(24, 240)):
        crs, lon0, vbox, vk = disk_view()
        wk, wbox = lonlat_window(lon0)
        pad = rng.choice([None, None, 1, 0])
        if rng.random() < 0.55:
            one_case(crs, "EPSG:4326", vbox, wbox, pad, None, f"disk-src-{vk}|{wk}", step=max(1, max(wbox[0]) // 140))
        else:
            one_case("EPSG:4326", crs, wbox, vbox, pad, None, f"disk-dst-{vk}|{wk}", step=max(1, vbox[0][0] // 140))

    # ---------------- very large destination grids: the overlap sits 1e5 .. 1e7 pixels from the destination origin
    for _ in range(R.pick(50, 500)):
        b = rng.choice(["EPSG:3857", "EPSG:3857", "EPSG:3395"])
        z = rng.randint(6, 15)
        nn = 256 * 2 ** z
        rd = 2 * RM / nn
        dbox = ((nn, nn), Affine(rd, 0, -RM, 0, -rd, RM))
        a = rng.choice(["EPSG:32633", "EPSG:32755", "EPSG:3577", "EPSG:4326", "EPSG:27700", LAEA_A])
        area = {**{k: v[0] for k, v in CRS_AREAS.items()}, LAEA_A: (-5, 38, 28, 66)}[a]
        lon, lat = rng.uniform(area[0] + 0.5, area[2] - 0.5), rng.uniform(max(area[1], -80) + 0.5, min(area[3], 80) - 0.5)
        ratio = rng.choice([0.3, 1, 2.5, 6, 24, 60])  # destination / source pixel size
        res_s = rd * math.cos(math.radians(lat)) / ratio
        if a == "EPSG:4326":
            res_s /= 111000.0
        # keep the source footprint inside its area of use (a few degrees at most)
        span = min(4.0, (area[2] - area[0]) / 2, (area[3] - area[1]) / 2) * 111000.0 * (1 / 111000.0 if a == "EPSG:4326" else 1)
        maxpx = max(8, int(span * math.cos(math.radians(lat)) / res_s))
        sshape = (rng.randint(8, min(11000, maxpx)), rng.randint(8, min(11000, maxpx)))
        lon = min(max(lon, area[0] + 2.2), area[2] - 2.2) if area[2] - area[0] > 5 else (area[0] + area[2]) / 2
        lat = min(max(lat, area[1] + 2.2), area[3] - 2.2) if area[3] - area[1] > 5 else (area[1] + area[3]) / 2
        try:
            sbox = make_box(a, lon, lat, sshape, res_s)
        except Exception:  # pylint: disable=broad-except
            continue
        # check window: independent footprint of the source in destination pixels (pyproj), a few pixels around it
        (sh, SA) = sbox
        ex = np.linspace(0, sh[1], 40)
        ey = np.linspace(0, sh[0], 40)
        bx = np.concatenate([ex, ex, np.zeros(40), np.full(40, sh[1])])
        by = np.concatenate([np.zeros(40), np.full(40, sh[0]), ey, ey])
        wx, wy = apply_np(faff(SA), bx, by)
        qx, qy = tf(a, b).transform(wx, wy)
        qx, qy = apply_np(finv(faff(dbox[1])), np.asarray(qx), np.asarray(qy))
        if not (np.isfinite(qx).all() and np.isfinite(qy).all()):
            continue
        c0, c1 = int(max(0, math.floor(qx.min()) - 6)), int(min(nn, math.ceil(qx.max()) + 6))
        r0, r1 = int(max(0, math.floor(qy.min()) - 6)), int(min(nn, math.ceil(qy.max()) + 6))
        if c1 - c0 < 2 or r1 - r0 < 2:
            continue
        cols = c0 + sub_index(c1 - c0, max(1, (c1 - c0) // 150))
        rows = r0 + sub_index(r1 - r0, max(1, (r1 - r0) // 150))
        one_case(a, b, sbox, dbox, rng.choice([None, None, 1]), None, f"worldgrid-z{z}", rows=rows, cols=cols)

    # ---------------- numerically IDENTICAL grids (same shape, same affine numbers) in DIFFERENT CRSs: neighbouring UTM zones,
    #                  two geographic datums, Mercator variants, CRSs without EPSG codes - never a same-CRS / paste plan
    TWINS = [("EPSG:32755", "EPSG:32756", 30.0, (6.0e5, 6.1e6)), ("EPSG:32633", "EPSG:32634", 10.0, (4.2e5, 5.6e6)),
             ("EPSG:4326", "EPSG:4283", 0.00025, (146.0, -36.0)), ("EPSG:4326", "EPSG:4269", 0.01, (-100.0, 40.0)),
             ("EPSG:3857", "EPSG:3395", 100.0, (1.0e6, 5.0e6)), (SINU_0, SINU_15, 463.3127165, (1.0e6, 5.0e6)), (LAEA_A, LAEA_B, 500.0, (4.0e6, 3.0e6))]
    for a, b, res_, (x0_, y0_) in TWINS:
        for _ in range(R.pick(1, 4)):
            shp = (rng.randint(8, 60), rng.randint(8, 60))
            A_ = Affine(res_, 0, x0_ + res_ * rng.randint(-50, 50), 0, -res_, y0_ + res_ * rng.randint(-50, 50))
            if rng.random() < 0.5:
                a, b = b, a
            one_case(a, b, (shp, A_), (shp, A_), rng.choice([None, None, 0]), rng.choice([None, None, 0]), "twin-grids")

    # ---------------- disjoint rasters a fraction of a pixel beyond the padding margin, explicit / falsy paddings
    xcrs_near_touching(R, O, gb, R.pick(60, 600))

    # ---------------- small / wide rasters inside the areas of use
    n = R.pick(200, 2000)
    done = 0
    tries = 0
    while done < n and tries < 20 * n:
        tries += 1
        a, b = rng.choice(names), rng.choice(names)
        if a == b:
            continue
        lon0, lat0, lon1, lat1 = common_area(a, b, {k: v[0] for k, v in CRS_AREAS.items()})
        if lon1 - lon0 < 0.5 or lat1 - lat0 < 0.5:
            continue
        ext_deg = min(rng.choice([0.05, 0.2, 0.5, 1.0, 2.0]), (lon1 - lon0) / 2.5, (lat1 - lat0) / 2.5)
        wide = rng.random() < 0.25 and (lon1 - lon0) > 5 and (lat1 - lat0) > 5
        if wide:
            ext_deg = min(rng.choice([5.0, 8.0, 10.0, 12.0]), (lon1 - lon0) / 2.5, (lat1 - lat0) / 2.5)
        lon = rng.uniform(lon0 + ext_deg, lon1 - ext_deg)
        lat = rng.uniform(lat0 + ext_deg, lat1 - ext_deg)
        dshape = (rng.randint(8, 70), rng.randint(8, 70))
        if wide:
            dshape = (rng.randint(60, 110), rng.randint(60, 110))
        m_per_deg = 111000.0
        unit_b = 1.0 if b == "EPSG:4326" else m_per_deg
        unit_a = 1.0 if a == "EPSG:4326" else m_per_deg
        res_d = ext_deg * unit_b / max(dshape) * (math.cos(math.radians(lat)) if b in ("EPSG:6933",) else 1)
        rel = rng.choice([1, 1, 0.5, 2, 3.3, 0.31])
        sshape = (rng.randint(20, 160), rng.randint(20, 160))
        off = rng.choice([0, 0, 0.3, 0.6, 1.0, 1.6]) * ext_deg
        if wide:
            rel = rng.choice([1, 2, 4])
            k = int(max(dshape) * rel * rng.choice([1.5, 2.0]))
            sshape = (k, k)
            off = rng.choice([0, 0, 0.1]) * ext_deg
        res_s = res_d / unit_b * unit_a / rel
        ang = rng.uniform(0, 2 * math.pi)
        slon = min(max(lon + off * math.cos(ang), lon0), lon1)
        slat = min(max(lat + off * math.sin(ang), lat0), lat1)
        try:
            sbox = make_box(a, slon, slat, sshape, res_s)
            dbox = make_box(b, lon, lat, dshape, res_d)
        except Exception:  # pylint: disable=broad-except
            continue
        pad = rng.choice([None, None, 1, 2, 0]) if not wide else rng.choice([None, 1])
        al = rng.choice([None, None, 4, 16]) if not wide else None
        done += 1
        one_case(a, b, sbox, dbox, pad, al, "wide" if wide else "small")

    # ---------------- large extents, curved projections, partial coverage, CRSs without EPSG codes
    lnames = sorted(LARGE_AREAS)
    n = R.pick(110, 1100)
    done = 0
    tries = 0
    while done < n and tries < 30 * n:
        tries += 1
        a, b = rng.choice(lnames), rng.choice(lnames)
        if a == b or (a in RECTILINEAR and b in RECTILINEAR and rng.random() < 0.8):
            continue
        if rng.random() < 0.25:  # two different CRSs that both lack an EPSG code
            a, b = rng.sample(NO_EPSG, 2)
        lon0, lat0, lon1, lat1 = common_area(a, b, LARGE_AREAS)
        if lon1 - lon0 < 8 or lat1 - lat0 < 8:
            continue
        es = min(rng.choice([10, 16, 24, 30]), (lon1 - lon0) / 1.6, (lat1 - lat0) / 1.6)
        ed = min(es * rng.choice([0.6, 1.3, 1.8, 1.8, 2.5]), (lon1 - lon0) / 1.2, (lat1 - lat0) / 1.2)
        m = max(es, ed) / 2
        lon, lat = rng.uniform(lon0 + m, lon1 - m), rng.uniform(lat0 + m, lat1 - m)
        off = rng.choice([0, 0.2, 0.5]) * es
        ang = rng.uniform(0, 2 * math.pi)
        slon = min(max(lon + off * math.cos(ang), lon0 + es / 2), lon1 - es / 2)
        slat = min(max(lat + off * math.sin(ang), lat0 + es / 2), lat1 - es / 2)
        sshape = (rng.randint(100, 600), rng.randint(100, 600))
        dshape = (rng.randint(100, 400), rng.randint(100, 400))
        # aspect-ratio classes: square / moderately elongated / strips of 1-3 rows or columns by 1e3 .. 2e4 pixels
        asp = rng.choice(["square", "square", "elongated", "strip-dst", "strip-dst", "strip-dst", "strip-src"])
        tag = "large"
        try:
            sbox = make_box_ext(a, slon, slat, es, sshape)
            dbox = make_box_ext(b, lon, lat, ed, dshape)
            if asp == "elongated":
                dshape = (rng.randint(20, 60), rng.randint(400, 1500))[:: rng.choice([1, -1])]
                dbox = make_box_ext(b, lon, lat, ed, dshape)
                tag = "large-elongated"
            elif asp in ("strip-dst", "strip-src"):
                thin, long_ = rng.choice([1, 1, 2, 3]), rng.randint(1000, 20000)
                which, crs_ = (dbox, b) if asp == "strip-dst" else (sbox, a)
                (_, A0) = make_box_ext(crs_, lon if asp == "strip-dst" else slon, lat if asp == "strip-dst" else slat,
                                       ed if asp == "strip-dst" else es, (long_, long_))
                # square pixels of the long side's size; the strip lies somewhere inside that window
                if rng.random() < 0.5:
                    shp = (thin, long_)
                    Astrip = A0 * Affine.translation(0, rng.randint(0, long_ - thin))
                else:
                    shp = (long_, thin)
                    Astrip = A0 * Affine.translation(rng.randint(0, long_ - thin), 0)
                if asp == "strip-dst":
                    dbox, dshape = (shp, Astrip), shp
                    # a source that covers the strip with room to spare, fine enough that one pixel matters
                    sshape = (rng.randint(300, 900), rng.randint(300, 900))
                    sbox = make_box_ext(a, lon, lat, ed * 1.3, sshape)
                else:
                    sbox, sshape = (shp, Astrip), shp
                tag = "large-" + asp + f"-{thin}"
        except Exception:  # pylint: disable=broad-except
            continue
        done += 1
        st_ = 1 if dshape[0] * dshape[1] <= 120_000 else max(2, int(math.sqrt(dshape[0] * dshape[1] / 60_000)))
        one_case(a, b, sbox, dbox, rng.choice([None, None, 1, 0]), None, tag, step=st_)


FALSY_PADS = [0, 0, 0.0, "np.int64(0)", "np.int32(0)", None, 1, 2, "np.int64(1)"]


def xcrs_near_touching(R: Run, O, gb, n):
    """Rasters in DIFFERENT CRSs that do not overlap and are a fraction of a source pixel (or a little more than the
    requested padding) apart, on each of the four sides; padding given as 0 / 0.0 / numpy zero / None / 1 / 2.  The
    separation is measured independently (pyproj, dense grid of destination locations): when it exceeds the padding margin
    both regions must have zero area."""
    from pyproj import CRS as PCRS
    from pyproj import Transformer

    rng = R.rng
    pairs = [("EPSG:3857", "EPSG:4326", 1000.0, 0.005), ("EPSG:32633", "EPSG:3857", 100.0, 150.0), ("EPSG:3577", "EPSG:4326", 250.0, 0.002),
             ("EPSG:4326", "EPSG:3857", 0.01, 1200.0), ("EPSG:32755", "EPSG:3577", 30.0, 40.0), ("EPSG:3857", "EPSG:32633", 200.0, 100.0)]
    origin = {"EPSG:3857": (1.0e6, 5.0e6), "EPSG:32633": (4.2e5, 5.6e6), "EPSG:3577": (1.0e6, -3.0e6), "EPSG:4326": (14.0, 48.0),
              "EPSG:32755": (5.1e5, 6.1e6)}
    for _ in range(n):
        a, b, res_s, res_d = rng.choice(pairs)
        N = rng.randint(20, 120)
        X0, Y0 = origin[a]
        if a == "EPSG:32755" or b == "EPSG:3577" and a != "EPSG:32755":
            pass
        S = Affine(res_s, 0, X0, 0, -res_s, Y0)
        side = rng.choice(["right", "left", "below", "above"])
        pad_s = rng.choice(FALSY_PADS)
        pad = eval(pad_s, {"np": np}) if isinstance(pad_s, str) else pad_s  # pylint: disable=eval-used
        margin = 1 if pad is None else int(pad)
        gap = margin + rng.choice([0.25, 0.5, 0.5, 0.75, 0.9, 1.5])  # source pixels beyond the padding margin
        al = rng.choice([None, None, None, 4, 16])
        t_ab = Transformer.from_crs(PCRS.from_user_input(a), PCRS.from_user_input(b), always_xy=True)
        t_ba = Transformer.from_crs(PCRS.from_user_input(b), PCRS.from_user_input(a), always_xy=True)
        dny, dnx = rng.randint(8, 40), rng.randint(8, 40)
        # anchor corner of the destination: `gap` source pixels outside the source edge, somewhere along that edge
        along = rng.uniform(0.1, 0.9) * N
        if side == "right":
            ax, ay = t_ab.transform(X0 + (N + gap) * res_s, Y0 - along * res_s)
            D = Affine(res_d, 0, ax, 0, -res_d, ay)  # destination extends to the right of its left edge
        elif side == "left":
            ax, ay = t_ab.transform(X0 - gap * res_s, Y0 - along * res_s)
            D = Affine(res_d, 0, ax - dnx * res_d, 0, -res_d, ay)
        elif side == "below":
            ax, ay = t_ab.transform(X0 + along * res_s, Y0 - (N + gap) * res_s)
            D = Affine(res_d, 0, ax, 0, -res_d, ay)
        else:
            ax, ay = t_ab.transform(X0 + along * res_s, Y0 + gap * res_s)
            D = Affine(res_d, 0, ax, 0, -res_d, ay + dny * res_d)
        if not all(map(math.isfinite, list(D)[:6])):
            continue
        src, dst = gb((N, N), S, a), gb((dny, dnx), D, b)
        # independent measurement of the separation: corners, edge points and centres of every destination pixel
        yy, xx = np.meshgrid(np.arange(0, dny + 0.25, 0.5), np.arange(0, dnx + 0.25, 0.5), indexing="ij")
        wx, wy = apply_np(faff(D), xx.ravel(), yy.ravel())
        mx, my = t_ba.transform(wx, wy)
        px, py = apply_np(finv(faff(S)), np.asarray(mx), np.asarray(my))
        if not (np.isfinite(px).all() and np.isfinite(py).all()):
            continue
        sep = max(px.min() - N, -px.max(), py.min() - N, -py.max())  # > 0: every location is outside the source on one side
        case = {"fn": "compute_reproject_roi", "src_crs": a, "dst_crs": b, "src_shape": (N, N), "dst_shape": (dny, dnx),
                "src_affine": list(S)[:6], "dst_affine": list(D)[:6], "padding": pad_s if isinstance(pad_s, str) else pad, "align": al}
        try:
            r = O.compute_reproject_roi(src, dst, padding=pad, align=al)
        except Exception as e:  # pylint: disable=broad-except
            R.oracle(False, "xcrs-raises", case, f"compute_reproject_roi raised {type(e).__name__}: {e}", sig="xcrs|raises")
            continue
        if sep > margin + 0.05:
            (ys, xs), (yd, xd) = r.roi_src, r.roi_dst
            a_src = max(0, ys.stop - ys.start) * max(0, xs.stop - xs.start)
            a_dst = max(0, yd.stop - yd.start) * max(0, xd.stop - xd.start)
            R.oracle(a_src == 0 and a_dst == 0, "xcrs-separated-not-empty", case,
                     f"every destination location is at least {sep:.3f} source pixels outside the source ({side}), padding "
                     f"{pad!r} was requested, but roi_src={r.roi_src} (area {a_src}) roi_dst={r.roi_dst} (area {a_dst})",
                     sig=f"xcrs|near-touching|{side}|pad{pad_s}" + ("|align" if al else ""))
        else:
            R.count("xcrs|near-touching|not-separated-enough")


def rebuild(case):
    from odc.geo.crs import CRS

    O, RO, GeoBox, wh_ = _import()
    sa, da = Affine(*case["src_affine"]), Affine(*case["dst_affine"])
    ss, ds = case["src_shape"], case["dst_shape"]
    ca, cb = CRS(case.get("src_crs", case.get("crs", CRS0))), CRS(case.get("dst_crs", case.get("crs", CRS0)))
    apply_history(case.get("history", []), ca, cb)
    src = GeoBox(wh_(ss[1], ss[0]), sa, ca)
    dst = GeoBox(wh_(ds[1], ds[0]), da, cb)
    kw = {k: case[k] for k in ("ttol", "stol", "padding", "align") if k in case}
    if isinstance(kw.get("padding"), str):
        kw["padding"] = eval(kw["padding"], {"np": np})  # pylint: disable=eval-used
    return O, src, dst, kw


def searcher(R: Run, mismatches):
    """after a broken proof / correspondence: re-evaluate the property around the disagreeing inputs"""
    O, RO, GeoBox, wh_ = _import()
    for m in mismatches[:200]:
        toks = m["line"].split(" ")
        if toks[1] == "axis":
            Ns, Nd = int(toks[2]), int(toks[3])
            s, t = Fraction(toks[4]), Fraction(toks[5])
            for dt in (0, Fraction(1, 8), -Fraction(1, 8), Fraction(1, 2), -Fraction(1, 2)):
                for dN in (0, 1):
                    R2 = Run.__new__(Run)
                    R2.__dict__.update(R.__dict__)
                    R2.oracle_failures = []
                    try:
                        o = O.compute_axis_overlap(Ns + dN, Nd, float(s), float(t + dt))
                    except Exception:  # pylint: disable=broad-except
                        continue
                    oracle_axis(R2, Ns + dN, Nd, s, t + dt, *o)
                    if R2.oracle_failures:
                        return R2.oracle_failures[0]
    # planning lines (any branch): disjoint rasters just beyond the padding margin, same and different CRSs, falsy paddings
    if any(m["line"].split(" ")[1] in ("plan", "relrois", "nlplan", "top", "nlsamples") for m in mismatches[:400]):
        R2 = Run.__new__(Run)
        R2.__dict__.update(R.__dict__)
        R2.oracle_failures = []
        R2.dist = {}

        def gb(shape, A, crs=CRS0):
            return GeoBox(wh_(shape[1], shape[0]), A, crs)

        xcrs_near_touching(R2, O, gb, 250)
        if R2.oracle_failures:
            return R2.oracle_failures[0]
        from . import c03_top

        R2.lines, R2.real, R2.sigs = [], [], []
        c03_top.run_top(R2, only_plans=True)
        if R2.oracle_failures:
            return R2.oracle_failures[0]
    return None


def replay(R: Run, rec) -> int:
    case = rec.get("case") or {}
    print("replay case:", case)
    key = rec.get("key", "")
    if case.get("fn") == "compute_axis_overlap":
        O, *_ = _import()
        Ns, Nd, s, t = case["Ns"], case["Nd"], Fraction(case["s"]), Fraction(case["t"])
        o = O.compute_axis_overlap(Ns, Nd, float(s), float(t))
        print("compute_axis_overlap ->", o)
        oracle_axis(R, Ns, Nd, s, t, *o)
        if case.get("tight") and Ns <= 10**5 and Nd <= 10**5:
            oracle_axis_tight(R, Ns, Nd, s, t, *o)
    elif case.get("fn") == "compute_reproject_roi/fake-transformer":
        from . import c03_top

        c03_top.replay_top(R, case)
    elif case.get("fn") == "native_pix_transform":
        from . import c03_top

        c03_top.replay_npt(R, case)
    elif case.get("fn") == "decompose_rws":
        from odc.geo.math import decompose_rws

        print("decompose_rws ->", decompose_rws(Affine(*case["A"])))
        return 1
    elif case.get("fn") == "compute_reproject_roi" and key == "xcrs-separated-not-empty":
        from pyproj import CRS as PCRS
        from pyproj import Transformer

        O, src, dst, kw = rebuild(case)
        r = O.compute_reproject_roi(src, dst, **kw)
        dny, dnx = case["dst_shape"]
        N = case["src_shape"][0]
        yy, xx = np.meshgrid(np.arange(0, dny + 0.25, 0.5), np.arange(0, dnx + 0.25, 0.5), indexing="ij")
        wx, wy = apply_np(faff(dst.transform), xx.ravel(), yy.ravel())
        mx, my = Transformer.from_crs(PCRS.from_user_input(case["dst_crs"]), PCRS.from_user_input(case["src_crs"]),
                                      always_xy=True).transform(wx, wy)
        px, py = apply_np(finv(faff(src.transform)), np.asarray(mx), np.asarray(my))
        sep = max(px.min() - N, -px.max(), py.min() - N, -py.max())
        margin = 1 if kw.get("padding") is None else int(kw["padding"])
        (ys, xs), (yd, xd) = r.roi_src, r.roi_dst
        area = max(0, ys.stop - ys.start) * max(0, xs.stop - xs.start) + max(0, yd.stop - yd.start) * max(0, xd.stop - xd.start)
        print(f"separation {sep:.3f} source pixels, padding margin {margin}, roi_src {r.roi_src} roi_dst {r.roi_dst}")
        R.oracle(not (sep > margin + 0.05) or area == 0, key, case, "separated by more than the padding margin but regions not empty")
    elif case.get("fn") == "compute_reproject_roi":
        O, src, dst, kw = rebuild(case)
        try:
            if case.get("exact_back_transform"):
                M = dst.transform
                back = O.LinearPointTransform(M)
                tr = O.LinearPointTransform(~M, back)
                back._back = tr  # pylint: disable=protected-access
                orig = O.native_pix_transform
                O.native_pix_transform = lambda a, b: tr
                try:
                    r = O.compute_reproject_roi(src, dst, **kw)
                finally:
                    O.native_pix_transform = orig
            else:
                r = call_plan(O, case.get("positional", False), src, dst, **kw)
        except Exception as e:  # pylint: disable=broad-except
            print("raises", type(e).__name__, e)
            return 1
        print("roi_src", r.roi_src, "roi_dst", r.roi_dst, "paste_ok", r.paste_ok, "read_shrink", r.read_shrink, "scale", r.scale)
        if "src_crs" in case:
            from pyproj import Transformer

            xx, yy = centres(tuple(case["dst_shape"]))
            wx, wy = apply_np(faff(dst.transform), xx, yy)
            from pyproj import CRS as PCRS

            sx, sy = Transformer.from_crs(PCRS.from_user_input(case["dst_crs"]), PCRS.from_user_input(case["src_crs"]),
                                          always_xy=True).transform(wx, wy)
            px, py = apply_np(finv(faff(src.transform)), np.asarray(sx), np.asarray(sy))
            check_cover(R, "xcrs", case, tuple(case["src_shape"]), tuple(case["dst_shape"]), px, py, r, 1e-6, "replay")
        else:
            if key == "paste-ok-shape-mismatch":
                (ys, xs), (yd, xd) = r.roi_src, r.roi_dst
                R.oracle(not r.paste_ok or (ys.stop - ys.start, xs.stop - xs.start) == (yd.stop - yd.start, xd.stop - xd.start),
                         key, case, "shape mismatch")
            A6 = fmul(finv(faff(src.transform)), faff(dst.transform))
            oracle_linear(R, case, tuple(case["src_shape"]), tuple(case["dst_shape"]), A6, r, case.get("padding"),
                          case.get("align"), 1e-6, "replay")
    for f in R.oracle_failures:
        print("FAILS:", f["key"], f["what"])
    return 1 if R.oracle_failures else 0
