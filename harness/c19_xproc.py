"""
C19 worker for the cross-interpreter checks: values are hashed, tokenized and pickled in one interpreter
(`dump`) and unpickled in another one with a different PYTHONHASHSEED (`load`), where the same values are
built locally: an unpickled value must equal the locally built one, hash like it (hashable types), share its
dask token, and any received value equal to any local value must hash like it.

usage: c19_xproc.py dump|load <file>
"""
import json
import os
import pickle
import sys
import warnings


def main():
    warnings.filterwarnings("ignore")
    mode, path = sys.argv[1:3]
    from dask.base import tokenize

    from harness.c19 import (Enc, build_families, hash_eq, only_crs_spelling_differs,
                             only_mapping_identity_differs)

    B = build_families(True, Enc())
    fams = B["fams"] + [B["fam_crs"]]
    if mode == "dump":
        # use the values first (dict key, token, comparison): whatever an object memoises ends up in the pickle
        for fam in fams:
            for o in fam.items:
                hash_eq(o, o)
                tokenize(o)
                _ = o == o
        def dumps(o):
            try:
                return pickle.dumps(o)
            except Exception as e:  # pylint: disable=broad-except
                return repr(e)

        # one pickle per value, so that one value that cannot be pickled does not hide the others
        with open(path, "wb") as f:
            pickle.dump({fam.name: [dumps(o) for o in fam.items] for fam in fams}, f)
        json.dump({"seed": os.environ.get("PYTHONHASHSEED"), "families": {f.name: len(f.items) for f in fams}}, sys.stdout)
        return
    with open(path, "rb") as f:
        data = pickle.load(f)
    out = {"seed": os.environ.get("PYTHONHASHSEED"), "items": [], "pair_failures": [], "pairs": {}}
    for fam in fams:
        raw, loc = data[fam.name], fam.items
        assert len(raw) == len(loc), fam.name
        got = []
        for i, r in enumerate(raw):
            try:
                if isinstance(r, str):
                    raise RuntimeError("pickle.dumps raised " + r)
                got.append(pickle.loads(r))
            except Exception as e:  # pylint: disable=broad-except
                got.append(None)
                out["items"].append({"family": fam.name, "i": i, "obj": fam.desc[i][:200], "raises": repr(e)[:300]})
        for i, (g, b) in enumerate(zip(got, loc)):
            if g is None:
                continue
            eq = bool(g == b) and bool(b == g)
            out["items"].append({"family": fam.name, "i": i, "obj": fam.desc[i][:200], "eq": eq,
                                 "k2": (not eq) and only_mapping_identity_differs(g, b),
                                 "hash": hash_eq(g, b), "tok": tokenize(g) == tokenize(b)})
        n = 0
        for i, g in enumerate(got):
            if g is None or hash_eq(g, g) is None:
                continue
            for j, b in enumerate(loc):
                if hash_eq(b, b) is None or not g == b:
                    continue
                n += 1
                if not hash_eq(g, b):
                    out["pair_failures"].append({"family": fam.name, "i": i, "j": j, "a": fam.desc[i][:200],
                                                 "b": fam.desc[j][:200],
                                                 "k1": only_crs_spelling_differs(g, b)})
        out["pairs"][fam.name] = n
    json.dump(out, sys.stdout)


if __name__ == "__main__":
    main()
