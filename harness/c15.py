"""C15 — GeoTIFF/COG written through GDAL reads back identical."""
from __future__ import annotations

import hashlib
import math
import os
import random
import shutil
import tempfile
import time
import traceback
import warnings

import logging

import numpy as np

from .common import Run, bool_s, frac_s, guarded, list_s, opt_s, run_driver

META = {
    "claimed": True,
    "text": "GDAL round trip on every run: real write_cog / to_cog / write_cog_layers (files and memory) for "
    "generated shapes 1..1100, 2-D / band-first / band-last layouts, 8 dtypes incl. int8 and float64, nodata, "
    "several CRSs, north-up / south-up / rotated transforms, block sizes incl. non-multiples of 16, explicit and "
    "default overview lists, externally supplied overviews, windowed writes, intermediate compression and "
    "pre-existing destinations are read back with rasterio and judged by an independent oracle: pixels, dtype, band "
    "count and order, transform, CRS, nodata, internal tiling with block sizes multiple of 16, exactly the requested "
    "overview sizes ceil(w/l) x ceil(h/l) (none by default under 512 px), destination replaced only with overwrite=True "
    "and byte-identical (hash) with an OSError otherwise.  The decisions odc-geo itself takes (band-layout "
    "normalisation, default levels, block-size adjustment, overwrite table, compression-option normalisation) are a "
    "Lean model with theorems, compared with the real code exactly (exhaustive on small domains) and with the "
    "block shapes / overview counts found in the written files.  Since the growth round the glue of _rio.py (option "
    "dictionaries, order of effects, overview requests, windowed writes, the supplied-overviews path) is a Lean call-trace model with "
    "theorems, compared with the real module run against a recording stand-in for rasterio.",
    "note": "GDAL + rasterio encode AND decode are trusted entirely: the claim 'an independent reader decodes the same image' rests on "
    "the round trip, not on a theorem.  The ambiguous n x n x n layout is reported as ambiguous (always read as band-last), not judged.  "
    "Growth round: everything _rio.py does between its public entry points and the GDAL calls is now a Lean call-trace model with "
    "theorems (Model/C15Glue.lean, Props/C15Glue.lean): option dictionaries (precedence extra > nodata > defaults; first-pass options; "
    "the memory copy inherits exactly what it drops), order of effects (layout error first, overwrite guard leaves nothing, unlink iff "
    "exists and overwrite, an error never after a GDAL call, what is returned), which build_overviews request reaches GDAL (default "
    "pyramid end to end from any layout), window-by-window writes (the block windows partition the image; the windowed write equals "
    "the one-shot write of the normalised array), write_cog_layers (empty list, guard, nodata flow, .ovr side-car chain), write_cog "
    "/ to_cog dispatch.  It is tied to the code by running the REAL module against a recording stand-in for rasterio (external entry "
    "points rasterio.open / MemoryFile / Env / shutil.copy / uuid4 intercepted on the libraries and on whatever alias a loaded odc.geo "
    "module holds; a probe decides whether the stand-in fits the tree, else the stage is skipped with a note) and comparing the "
    "OBSERVABLE projection of the run: datasets opened with their options and the GDAL configuration in effect, that pixels were written "
    "(completeness and values judged on the recorded dataset content by an independent oracle), overview requests, copies, removal of "
    "the destination, the warning, result / exception.  rasterio reference semantics used by the model (block_windows, MemoryFile "
    "names, Resampling members, dict order) are validated against the real libraries each run.  The round trip now also varies HOW "
    "the geo-registered array was built (wrap_xr, 1-d coordinates dropped = GeoTransform only, CRS assigned for the first time / "
    "re-assigned under the default or a custom coordinate name / on the Dataset, a window sliced out of a larger array; north-up and "
    "rotated non-square grids) judged against the harness' own GeoBox and CRS definition, nodata=None spelled out, and decoy numbers "
    "in encoding['_FillValue'] / attrs['_FillValue'].  Finding F65 (repaired by 4344a79, found here): write_cog_layers let an explicit "
    "nodata=None override attrs['nodata'] (to_cog(xx, overviews=[..], nodata=None) lost the nodata); the model follows the repaired "
    "code (as-found witness explicit_none_overrides_attrs_asfound_cex, positive theorem layers_nodata_resolution) and the point is "
    "part of the correspondence.  Observations: assign_crs on an image with a 1-pixel side drops the only source of the pixel size (geobox None, "
    "the writers refuse loudly; C09's subject, not generated); write_cog reads attrs['nodata'] only (documented) while xx.odc.nodata and "
    "the dask writer also honour attrs['_FillValue'].  Props/C15C09.lean composes with C09's model of the accessor (xr_coords / _mk_crs_coord / wrap_xr / assign_crs / "
    "_extract_transform / the GeoTransform fall-back): for every provenance C09 models (wrapped; wrapped then sliced or computed on; "
    "registered later with assign_crs; axis coordinates dropped) the recovered georeference is the original GeoBox's, and every dataset "
    "_write_cog opens has its size and carries tokens that denote its affine and CRS (wrapped_array_written_with_its_geobox: no "
    "hypothesis about the accessor in between).  intermediate_compression dicts with dataset keys (the point excluded by "
    "mem_copy_agrees_with_file_copy) were run on the real code: file and memory destinations still agree (GDAL's copy takes the dataset "
    "description from the temporary image on both routes) — pinned each run, key mem-and-file-destinations-differ.  "
    "NOT mirrored in the Lean model (inventory of the anchor files): what GDAL does "
    "with the calls (encoding, overview resampling, copy_src_overviews, decoding); resampling_s2rio for names that are attributes but "
    "not members of the Resampling enum; the text parsing inside _extract_geo_transform and pyproj's CRS handling inside "
    "_mk_crs_coord (C09 models the parsed values; judged here by the provenance round trips; K22).  Final increment: GCP geoboxes as "
    "writer input are modelled (writeCogGcp: GCPGeoBox has no `transform`; the call fails with AttributeError after the overwrite guard "
    "— an existing destination asked to be overwritten is already removed, gcp_overwrite_removes_destination_cex — and GDAL is never "
    "called) and tied through _write_cog and the public to_cog / write_cog; intermediate_compression dicts carrying named parameters of "
    "_write_cog on the supplied-overviews path are modelled (writeCogLayersFull) and tied; a duplicate keyword (overview_levels) is a "
    "TypeError, pinned.",
    "technique": "Lean 4 proof over hand model of the decision core + differential correspondence + GDAL round trip",
    "design_ref": "DESIGN.md §4 C15",
}

logging.getLogger("tifffile").setLevel(logging.CRITICAL)

DTYPES = ["uint8", "int8", "int16", "uint16", "int32", "uint32", "float32", "float64"]


def _imp():
    # pylint: disable=import-outside-toplevel
    from odc.geo.cog import _rio as RIO
    from odc.geo.cog import _shared as S
    from odc.geo.geobox import GeoBox
    from odc.geo.xr import wrap_xr

    return RIO, S, GeoBox, wrap_xr


def comp_s(c) -> str:
    if isinstance(c, bool):
        return bool_s(c)
    if isinstance(c, str):
        return "s:" + c
    return "d:" + list_s([f"{k}={v}" for k, v in c.items()])


HUGE = [2**31 - 1, 2**31, 2**31 + 1, 2**32 + 7, 2**53 - 3, 2**53 - 1, 2**53, 2**53 + 1, 2**53 + 3, 2**63 - 1, 2**63,
        2**64, 2**64 + 1, 2**100, 2**100 + 12345, 10**30 + 7]


def huge(rng: random.Random) -> int:
    return rng.choice(HUGE) + rng.choice([0, 0, 1, -1, 3, 15, 16, 17, rng.randint(-1000, 1000)])


# CRS pool: EPSG-coded ones AND definitions without an EPSG code — several of which pyproj "recognises" with less than
# full confidence (datum-less UTM on GRS80 / WGS72 → MGA / WGS72 UTM codes, custom LAEA → 3035, custom Albers), an ESRI
# WKT, an ESRI authority code, MODIS sinusoidal.  The file's CRS is compared with the REQUESTED definition by pyproj.
CRS_POOL = [
    "epsg:3857", "epsg:4326", "epsg:32755", "epsg:3577", "epsg:6933",
    "+proj=utm +zone=55 +south +ellps=GRS80 +units=m +no_defs",
    "+proj=utm +zone=33 +ellps=WGS72 +units=m +no_defs",
    "+proj=laea +lat_0=52 +lon_0=10 +x_0=4321000 +y_0=3210000 +ellps=GRS80 +units=m +no_defs",
    "+proj=sinu +lon_0=0 +x_0=0 +y_0=0 +R=6371007.181 +units=m +no_defs",
    "+proj=aea +lat_1=-18 +lat_2=-36 +lat_0=0 +lon_0=132 +x_0=0 +y_0=0 +ellps=GRS80 +units=m +no_defs",
    'PROJCS["WGS_1984_Web_Mercator_Auxiliary_Sphere",GEOGCS["GCS_WGS_1984",DATUM["D_WGS_1984",SPHEROID["WGS_1984",6378137.0,'
    '298.257223563]],PRIMEM["Greenwich",0.0],UNIT["Degree",0.0174532925199433]],PROJECTION["Mercator_Auxiliary_Sphere"],'
    'PARAMETER["False_Easting",0.0],PARAMETER["False_Northing",0.0],PARAMETER["Central_Meridian",0.0],'
    'PARAMETER["Standard_Parallel_1",0.0],PARAMETER["Auxiliary_Sphere_Type",0.0],UNIT["Meter",1.0]]',
    "ESRI:54008",
]


def crs_same(file_crs, spec: str):
    """FULL comparison by pyproj (`CRS.__eq__`: same projection method, parameters, datum, ellipsoid, units), of what an
    independent reader finds in the file against the requested definition — not EPSG codes, not odc-geo's CRS.__eq__.
    (`is_exact_same` is stricter than GDAL's own GeoTIFF round trip: it fails on object names even for EPSG:4326.)"""
    import pyproj  # pylint: disable=import-outside-toplevel

    if file_crs is None:
        return False, "file has no CRS"
    return _crs_same_wkt(file_crs.to_wkt(), spec)


_CRS_CMP = {}


def _crs_same_wkt(wkt: str, spec: str):
    import pyproj  # pylint: disable=import-outside-toplevel

    if (wkt, spec) not in _CRS_CMP:
        got, want = pyproj.CRS.from_wkt(wkt), pyproj.CRS(spec)
        _CRS_CMP[wkt, spec] = (got == want, f"file: {got.name} / datum {got.datum.name}; requested: {want.name} / datum {want.datum.name}")
    return _CRS_CMP[wkt, spec]


def mk_gbox(rng: random.Random, h: int, w: int, GeoBox, allow_rot=True, force=None):
    """`force`: None | "northup" | "rot_nonsquare" (rotated AND non-square pixels: the two off-diagonal terms differ)"""
    from affine import Affine  # pylint: disable=import-outside-toplevel
    from odc.geo.crs import CRS  # pylint: disable=import-outside-toplevel

    spec = rng.choice(CRS_POOL)
    crs = CRS(spec)
    if rng.random() < 0.5:
        _ = crs.epsg  # some callers look at .epsg first (pyproj's fuzzy to_epsg) — must not change what is written
    crs_is_4326 = spec == "epsg:4326"
    if rng.random() < 0.25:
        # float stream: realistic non-dyadic doubles, origins a hair off integers / half-integers.  The file is
        # compared with the GeoBox the writer sees (`xx.odc.geobox`), exactly.
        res = rng.choice([30.000000001, 1 / 3, 0.1, 9.999999999, 25 + 1e-10, 2.5e-4, 0.00025, 1 / 3600, 12.3456789])
        x0 = rng.randint(-1000, 1000) + rng.choice([0, 1e-6, -1e-9, 1e-10, -1e-11, 1e-13, 2.0**-40, 0.5 - 1e-9, 0.1])
        y0 = rng.randint(-80, 80) + rng.choice([0, 1e-6, -1e-9, 1e-10, 2.0**-40, 0.5 + 1e-13, 1 / 3])
    elif crs_is_4326:
        res = rng.choice([0.25, 0.125, 1 / 1024, 0.00025])
        x0, y0 = rng.randint(-600, 500) * 0.25, rng.randint(-200, 300) * 0.25
    else:
        res = rng.choice([1, 10, 30, 0.5, 2.5, 25])
        x0, y0 = rng.randint(-100000, 100000) * 0.5, rng.randint(-100000, 100000) * 0.5
    r = rng.random()
    if force == "northup":
        r = min(r, 0.59)
    elif force == "rot_nonsquare" and min(h, w) >= 2:
        r = 0.6 + 0.15 * rng.random()
    if r < 0.6 or not allow_rot or min(h, w) < 2:
        A = Affine(res, 0, x0, 0, -res, y0) if r < 0.5 else Affine(res, 0, x0, 0, res, y0)
    elif r < 0.75:
        if force == "rot_nonsquare" and rng.random() < 0.5:
            A = Affine.translation(x0, y0) * Affine.rotation(rng.choice([30, -20, 7, 45])) * Affine.scale(res, -res * rng.choice([2, 1.5, 0.5]))
        else:
            A = Affine(res, res / 4, x0, res / 8, -res, y0)  # rotated / sheared
    else:
        # slightly rotated grids at every pixel-size scale (1e-6 deg ... 1e5 m) and small angles (0.01 ... 5 deg): the
        # off-diagonal terms span ~1e-10 ... 1e4.  (Below 1e-10 — the absolute tolerance of math.is_affine_st — the rotation
        # is dropped on the unchanged tree: known finding, probed once per run, not generated here.)
        sc = rng.choice([1e-6, 1e-5, 1e-4, 1e-3, 0.25]) if crs_is_4326 else rng.choice([1e-2, 0.1, 1, 30, 1e3, 1e5])
        ang = rng.choice([0.01, 0.05, 0.1, 0.5, 1, 2, 5]) * rng.choice([-1, 1])
        while abs(sc * math.sin(math.radians(ang))) < 3e-10:
            ang *= 2
        if crs_is_4326:
            x0, y0 = rng.randint(-170, 170) + 0.1, rng.randint(-60, 60) + 0.3
        A = Affine.translation(x0, y0) * Affine.rotation(ang) * Affine.scale(sc, -sc * rng.choice([1, 1, 1.5]))
    gb = GeoBox((h, w), A, crs)
    return gb, spec


def geo_registration_error(src, got, h, w):
    """the file's transform against the SOURCE GeoBox's affine (not the writer's view after the trip through xarray):
    every coefficient of the linear part within 1e-6 relative to the largest one, the origin within 1e-3 px, and all four
    image corners mapped within 1e-3 px of where the source GeoBox puts them"""
    lin = max(abs(v) for v in (src.a, src.b, src.d, src.e))
    for name in "abde":
        if abs(getattr(src, name) - getattr(got, name)) > 1e-6 * lin:
            return (f"coefficient {name}: file {getattr(got, name)!r}, source GeoBox {getattr(src, name)!r} "
                    f"(file {tuple(got)[:6]}, source {tuple(src)[:6]})")
    inv = ~src
    for cx_, cy_ in ((0, 0), (w, 0), (0, h), (w, h)):
        qx, qy = inv * (got * (cx_, cy_))
        err = math.hypot(qx - cx_, qy - cy_)
        if not err <= 1e-3:
            return f"image corner ({cx_},{cy_}) is {err:.3g} px away from where the source GeoBox puts it (file {tuple(got)[:6]}, source {tuple(src)[:6]})"
    return None


def mk_pix(prng, shp, dt):
    dt = np.dtype(dt)
    if dt.kind == "f":
        return prng.normal(size=shp).astype(dt)
    ii = np.iinfo(dt)
    return prng.integers(max(ii.min, -30000), min(ii.max, 30000), size=shp, endpoint=True).astype(dt)


# ambient GDAL / rasterio configurations a caller may be running under: the property must hold in all of them
ENVS = [
    {},
    {},
    {"GDAL_DISABLE_READDIR_ON_OPEN": "EMPTY_DIR"},
    {"GDAL_DISABLE_READDIR_ON_OPEN": "TRUE"},
    {"GDAL_CACHEMAX": 1},
    {"GDAL_NUM_THREADS": "2"},
    {"GDAL_NUM_THREADS": "ALL_CPUS", "GDAL_CACHEMAX": 16},
    {"CPL_VSIL_CURL_ALLOWED_EXTENSIONS": ".tif", "VSI_CACHE": "TRUE", "GDAL_HTTP_MAX_RETRY": "3",
     "GDAL_HTTP_MERGE_CONSECUTIVE_RANGES": "YES"},
    {"GDAL_DISABLE_READDIR_ON_OPEN": "EMPTY_DIR", "GDAL_CACHEMAX": 4, "GDAL_NUM_THREADS": "2",
     "CPL_VSIL_CURL_ALLOWED_EXTENSIONS": ".tif"},
]
ENTRIES = ["write_cog", "to_cog", "write_cog_layers", "acc_write_cog", "acc_to_cog"]
DESTS = ["mem", "file_new", "file_exists_overwrite", "file_exists_keep"]
OVR_MODES = ["none", "default", "levels", "supplied"]
CONTENTS = ["random", "random", "zeros", "tiles", "tiles", "checker"]


def nodata_candidates(dt: str):
    k = np.dtype(dt).kind
    if dt == "float64":
        return [-9999.0, float("nan"), 0.0, 1.7976931348623157e308, 5e-324, -1e308]
    if dt == "float32":
        return [-9999.0, float("nan"), 0.0, 3.4028234663852886e38, float(np.float32(1 / 3))]
    if k == "u":
        return [0, 255, 1]
    return [-1, 0, -128 if dt == "int8" else -9999, 127]


def valid_levels(levels, h, w):
    """rasterio refuses a level list in which more than one level collapses to 1x1 (user error, not judged)"""
    keep, ones = [], 0
    for l in levels:
        ones += (-(-h // l), -(-w // l)) == (1, 1)
        if ones > 1:
            break
        keep.append(l)
    return keep


def gen_cfg(rng: random.Random, big_ok: bool):
    """One point of the cross-product  entry point x destination x overview mode x nodata(attrs / keyword) x
    content pattern x ambient GDAL env x write options, sampled by seed."""
    layout = rng.choice(["YX", "YX", "SYX", "YXS"])
    nb = 1 if layout == "YX" else rng.randint(1, 4)
    r = rng.random()
    if r < 0.10 and big_ok:
        h, w = rng.randint(512, 1100), rng.randint(512, 1100)
        dt = rng.choice(["uint8", "int16", "int8", "uint16"])
        nb = min(nb, 2)
    elif r < 0.17 and big_ok:
        h, w = rng.choice([(511, 700), (512, 512), (700, 511), (513, 600), (512, 1100)])
        dt = rng.choice(["uint8", "int16", "float32"])
        nb = min(nb, 2)
    else:
        side = lambda: rng.choice([1, 2, 3, 5, 15, 16, 17, 33, 64, 96, 100, 128, rng.randint(1, 300), rng.randint(1, 300)])
        h, w = side(), side()
        dt = rng.choice(DTYPES)
    cands = nodata_candidates(dt)
    attrs_nd = rng.choice([None, rng.choice(cands)])
    kw_mode = rng.choice(["absent", "absent", "same", "different", "explicit_none"])
    if kw_mode == "same":
        kw_nd = attrs_nd
    elif kw_mode == "different":
        kw_nd = rng.choice([c for c in cands if not same_nodata(c, attrs_nd)])
    else:
        kw_nd = None
    entry = rng.choice(ENTRIES)
    dest = "mem" if entry in ("to_cog", "acc_to_cog") else rng.choice(DESTS)
    ovr_mode = rng.choice(["none", "supplied"]) if entry == "write_cog_layers" else rng.choice(OVR_MODES)
    levels = valid_levels(rng.choice([[2], [2, 4], [2, 4, 8], [3], [2, 8], [4]]), h, w) if ovr_mode == "levels" else None
    return dict(
        layout=layout, nb=nb, h=h, w=w, dtype=dt, attrs_nodata=attrs_nd, kw_nodata=kw_nd,
        entry=entry, dest=dest, ovr_mode=ovr_mode, overview_levels=levels, nlayers=rng.randint(0, 3),
        overwrite_new=rng.random() < 0.5,
        blocksize=rng.choice([None, None, 16, 32, 64, 100, 128, 17, 250, 256, 512, 1024]),
        ovr_blocksize=rng.choice([None, None, None, 64, 128]),
        windowed=rng.random() < 0.35, icomp=rng.choice([False, False, True, "zstd", "deflate", {"compress": "lzw"}]),
        resampling=rng.choice([None, None, "nearest", "average"]),
        content=rng.choice(CONTENTS), env=rng.randrange(len(ENVS)), seed=rng.randint(0, 10**6),
        container=rng.choice(CONTAINERS),
        nd_spell_attrs=rng.choice(SPELLINGS), nd_spell_kw=rng.choice(SPELLINGS),
        int_spell=rng.choice(["py", "py", "np_i64", "np_i32"]),
        prov=rng.choice(["wrap", "wrap"] + PROVS), gb_kind=rng.choice([None, None, None, "rot_nonsquare"]),
        kw_none_explicit=kw_mode == "explicit_none", nd_decoy=rng.choice([None, None, "enc", "attr_fill", "both"]),
    )


def same_nodata(a, b) -> bool:
    if a is None or b is None:
        return a is None and b is None
    if isinstance(b, float) and math.isnan(b):
        return isinstance(a, float) and math.isnan(a)
    if isinstance(a, float) and math.isnan(a):
        return False
    return float(a) == float(b)


def expected_nodata(cfg):
    """an explicit nodata= keyword wins, otherwise the array's attrs['nodata'] — on every entry point / overview path"""
    return cfg["kw_nodata"] if cfg["kw_nodata"] is not None else cfg["attrs_nodata"]


def block_of(cfg):
    b = 512 if cfg["blocksize"] is None else cfg["blocksize"]
    return tuple(-(-(d if 0 < d < b else b) // 16) * 16 for d in (cfg["h"], cfg["w"]))


def mk_content(prng, cfg, nodata):
    """band-first (nb, h, w) image.  Besides random pixels: constant zero images, whole internal tiles of 0 / of the
    nodata value / of the dtype's min / max, checkerboards aligned to the internal block size."""
    nb, h, w, dt = cfg["nb"], cfg["h"], cfg["w"], np.dtype(cfg["dtype"])
    kind = cfg["content"]
    if dt.kind == "f":
        base = prng.normal(size=(nb, h, w)).astype(dt) + dt.type(3)
        lo, hi = np.finfo(dt).min, np.finfo(dt).max
    else:
        ii = np.iinfo(dt)
        base = prng.integers(max(ii.min, -30000), min(ii.max, 30000), size=(nb, h, w), endpoint=True).astype(dt)
        lo, hi = ii.min, ii.max
    if kind == "zeros":
        return np.zeros((nb, h, w), dtype=dt)
    if kind == "random":
        if nodata is not None and base.size > 3 and prng.random() < 0.5:
            flat = base.reshape(-1)
            flat[prng.integers(0, flat.size, size=max(1, flat.size // 7))] = nodata
        return base
    by, bx = block_of(cfg)
    fills = [0, 0, lo, hi] + ([nodata, nodata] if nodata is not None else [])
    out = base
    for iy in range(-(-h // by)):
        for ix in range(-(-w // bx)):
            sl = (slice(None), slice(iy * by, (iy + 1) * by), slice(ix * bx, (ix + 1) * bx))
            if kind == "checker":
                out[sl] = fills[0] if (iy + ix) % 2 == 0 else fills[-1]
            elif prng.random() < 0.65:
                if prng.random() < 0.7:
                    out[sl] = fills[prng.integers(0, len(fills))]  # the whole internal tile, every band
                else:
                    for b in range(nb):
                        out[(b,) + sl[1:]] = fills[prng.integers(0, len(fills))]
    return out


# how the geo-registered array reached the writer.  Ground truth is always the GeoBox / CRS definition the HARNESS built
# (`gbox_src`, `_crs_spec`), never what the accessor reports.
PROVS = ["wrap", "nocoords", "reassign", "reassign_custom", "custom_both", "first_assign", "ds_assign", "sliced", "sliced_reassign"]


def other_crs(rng: random.Random, spec: str) -> str:
    return rng.choice([c for c in CRS_POOL if c != spec])


def build(cfg, GeoBox, wrap_xr):
    # pylint: disable=import-outside-toplevel,too-many-locals,too-many-branches
    import xarray as xr

    rng = random.Random(cfg["seed"])
    prng = np.random.default_rng(cfg["seed"])
    h, w, nb, layout = cfg["h"], cfg["w"], cfg["nb"], cfg["layout"]
    gbox, crs_spec = mk_gbox(rng, h, w, GeoBox, force=cfg.get("gb_kind"))
    cfg["_crs_spec"] = crs_spec
    want = mk_content(prng, cfg, expected_nodata(cfg))
    pix = want[0] if layout == "YX" else (want if layout == "SYX" else np.ascontiguousarray(want.transpose(1, 2, 0)))
    kw = {}
    if layout == "SYX":
        kw["time"] = [f"20{i:02d}-01-01" for i in range(nb)]
    nd = spell(cfg["attrs_nodata"], cfg.get("nd_spell_attrs", "py"), cfg["dtype"])
    prov = cfg.get("prov", "wrap")
    if min(h, w) < 2 and prov not in ("wrap", "nocoords", "sliced"):
        # assign_crs on an image with a 1-pixel side: the replaced CRS coordinate no longer carries the GeoTransform that
        # is the only source of the pixel size along a 1-pixel axis -> `.odc.geobox` is None and the writers refuse the
        # array loudly (ValueError); registration after array operations is property C09's subject, not generated here
        prov = "sliced" if prov == "sliced_reassign" else "wrap"
    ydim = 1 if layout == "SYX" else 0
    src_pix, src_gbox = pix, gbox
    if prov.startswith("sliced"):
        # the image is a window of a larger geo-registered array (a non-contiguous view of its data)
        py0, py1, px0, px1 = (rng.randint(0, 3) for _ in range(4))
        if py0 + py1 + px0 + px1 == 0:
            px0 = 1
        src_gbox = GeoBox((h + py0 + py1, w + px0 + px1), gbox.affine * type(gbox.affine).translation(-px0, -py0), gbox.crs)
        shp = list(pix.shape)
        shp[ydim], shp[ydim + 1] = h + py0 + py1, w + px0 + px1
        src_pix = mk_pix(prng, tuple(shp), cfg["dtype"])
        sl = [slice(None)] * pix.ndim
        sl[ydim], sl[ydim + 1] = slice(py0, py0 + h), slice(px0, px0 + w)
        src_pix[tuple(sl)] = pix
    wrong = GeoBox(src_gbox.shape, src_gbox.affine, other_crs(rng, crs_spec))
    right = gbox.crs
    if prov in ("wrap", "nocoords", "sliced"):
        xx = wrap_xr(src_pix, src_gbox, nodata=nd, **kw)
    elif prov in ("reassign", "sliced_reassign"):
        xx = wrap_xr(src_pix, wrong, nodata=nd, **kw).odc.assign_crs(right)
    elif prov == "reassign_custom":   # CRS coordinate under a custom name, corrected with the default call
        xx = wrap_xr(src_pix, wrong, nodata=nd, crs_coord_name="crs", **kw).odc.assign_crs(right)
    elif prov == "custom_both":
        xx = wrap_xr(src_pix, wrong, nodata=nd, crs_coord_name="crs", **kw).odc.assign_crs(right, crs_coord_name="crs")
    elif prov == "first_assign":      # no CRS coordinate at all, then assigned
        xx = wrap_xr(src_pix, wrong, nodata=nd, crs_coord_name=None, **kw).odc.assign_crs(right)
    elif prov == "ds_assign":         # assigned on the Dataset, variable taken out afterwards
        xx = xr.Dataset({"band_a": wrap_xr(src_pix, wrong, nodata=nd, **kw)}).odc.assign_crs(right)["band_a"]
    else:
        raise ValueError(prov)
    if prov == "nocoords":
        # rioxarray style for rotated sources: no 1-d axis coordinates, the grid is in spatial_ref.attrs['GeoTransform'] only
        xx = xx.drop_vars([d for d in xx.odc.spatial_dims if d in xx.coords])
    if prov.startswith("sliced"):
        xx = xx[tuple(sl)]
        pix = xx.data
    # other places a number that looks like a nodata value can sit in: the writer documents attrs['nodata'] (and the nodata=
    # keyword) as its sources; a DIFFERENT number in encoding['_FillValue'], or in attrs['_FillValue'] next to attrs['nodata'],
    # must not end up in the file
    decoy = cfg.get("nd_decoy")
    if decoy:
        other = 3 if not same_nodata(cfg["attrs_nodata"], 3) and not same_nodata(cfg["kw_nodata"], 3) else 5
        if decoy in ("enc", "both"):
            xx.encoding["_FillValue"] = other
        if decoy in ("attr_fill", "both") and cfg["attrs_nodata"] is not None:
            xx.attrs["_FillValue"] = other
    return xx, pix, want, gbox


CONTAINERS = ["list", "list", "tuple", "generator", "map", "iter", "zip"]
SPELLINGS = ["py", "py", "np_pix", "np_pix", "np_f32", "np_f64", "np_i64", "arr0d"]


def spell(v, kind: str, dt):
    """the same number in another spelling: python int / float, numpy scalar of the pixel type, np.float32 / float64 /
    int64, 0-d array (what attrs read from files, np.iinfo(...).min, arr.min() … hand over).  Falls back to the plain
    python value when the spelling cannot hold the value exactly."""
    if v is None or kind == "py":
        return v
    try:
        with warnings.catch_warnings():
            warnings.simplefilter("ignore")
            if kind == "np_pix":
                out = np.dtype(dt).type(v)
            elif kind == "np_f32":
                out = np.float32(v)
            elif kind == "np_f64":
                out = np.float64(v)
            elif kind == "np_i64":
                out = np.int64(v) if float(v).is_integer() else v
            else:
                out = np.array(v, dtype=dt)
        same = (float(out) == float(v)) or (math.isnan(float(out)) and math.isnan(float(v)))
        return out if same else v
    except (ValueError, OverflowError, TypeError):
        return v


def num_s(v) -> str:
    """a (spelled) number for the driver: N | nan | npnan:<dtype> | i:<int> | f:<rat> | np:<dtype>:<rat> | a0:<dtype>:<rat>"""
    if v is None:
        return "N"
    if isinstance(v, np.ndarray):
        return f"npnan:{v.dtype}" if v.dtype.kind == "f" and math.isnan(float(v)) else f"a0:{v.dtype}:{frac_s(float(v) if v.dtype.kind == 'f' else int(v))}"
    if isinstance(v, np.generic):
        if v.dtype.kind == "f" and math.isnan(float(v)):
            return f"npnan:{v.dtype}"
        return f"np:{v.dtype}:{frac_s(float(v) if v.dtype.kind == 'f' else int(v))}"
    if isinstance(v, float):
        return "nan" if math.isnan(v) else f"f:{frac_s(v)}"
    return f"i:{int(v)}"


def geotags_s(tags) -> str:
    """33550 / 33922 / 34264 of a tifffile page as the driver prints them"""
    out = []
    for code in (33550, 33922, 34264):
        t = tags.get(code)
        if t is not None:
            out.append(f"{code}=" + list_s([frac_s(float(x)) for x in t.value]))
    return " ".join(out)


def snapshot(obj):
    """structural fingerprint of a caller-owned argument (dicts / lists, nested; array-likes by identity)"""
    if isinstance(obj, dict):
        return ("dict", tuple((k, snapshot(v)) for k, v in obj.items()))
    if isinstance(obj, (list, tuple)):
        return (type(obj).__name__, tuple(snapshot(v) for v in obj))
    if isinstance(obj, (int, float, str, bool, type(None), np.generic)):
        return ("val", type(obj).__name__, repr(obj))
    return ("obj", id(obj))


def as_container(seq, kind: str, sized: bool = False):
    """the same items in another container kind: every sequence-valued argument is tried as list, tuple, generator, map,
    plain iterator, zip-derived iterator (sized=True: the parameter is documented as a list and gets len() taken — only
    list / tuple there)"""
    seq = list(seq)
    if kind == "tuple":
        return tuple(seq)
    if sized or kind == "list":
        return seq
    if kind == "generator":
        return (x for x in seq)
    if kind == "map":
        return map(lambda x: x, seq)
    if kind == "iter":
        return iter(seq)
    return (a for a, _ in zip(seq, range(len(seq))))


def band_first(arr, layout):
    return arr[None] if arr.ndim == 2 else (arr if layout == "SYX" else arr.transpose(2, 0, 1))


def one_case(cfg, workdir, tag, shared=None):
    """→ (facts for the correspondence lines, failures [(key, what)]).  `shared`: option OBJECTS (intermediate_compression
    dict, overview_levels list) that the caller re-uses across several writes."""
    # pylint: disable=import-outside-toplevel,too-many-locals,too-many-branches,too-many-statements
    import rasterio
    import tifffile
    from io import BytesIO

    RIO, _, GeoBox, wrap_xr = _imp()
    fails = []
    facts = {}
    xx, pix, want, gbox_src = build(cfg, GeoBox, wrap_xr)
    h, w, layout = cfg["h"], cfg["w"], cfg["layout"]
    gbox = xx.odc.geobox  # what the writer sees
    if gbox is None or gbox.shape != (h, w):
        return facts, [("harness-geobox", "input array lost its geobox")]
    entry, dest, ovr_mode = cfg["entry"], cfg["dest"], cfg["ovr_mode"]
    nodata = expected_nodata(cfg)
    kw = {}
    ispell = {"np_i64": np.int64, "np_i32": np.int32}.get(cfg.get("int_spell", "py"), int)
    for k in ("blocksize", "ovr_blocksize"):
        if cfg[k] is not None:
            kw[k] = ispell(cfg[k]) if k == "blocksize" else cfg[k]
    if cfg["windowed"]:
        kw["use_windowed_writes"] = True
    if cfg["icomp"] is not False:
        kw["intermediate_compression"] = dict(cfg["icomp"]) if isinstance(cfg["icomp"], dict) else cfg["icomp"]
        if shared and isinstance(cfg["icomp"], dict):
            kw["intermediate_compression"] = shared["icomp"]
    if cfg["kw_nodata"] is not None:
        kw["nodata"] = spell(cfg["kw_nodata"], cfg.get("nd_spell_kw", "py"), cfg["dtype"])
    elif cfg.get("kw_none_explicit"):
        kw["nodata"] = None  # the documented default spelled out (wrappers forward their own nodata=None): same as not given
    # explicit None on the supplied-overviews path: finding F65 (write_cog_layers let it override attrs; repaired by 4344a79)
    none_on_layers = "nodata" in kw and kw["nodata"] is None and (cfg["entry"] == "write_cog_layers" or cfg["ovr_mode"] == "supplied")
    ydim = 1 if layout == "SYX" else 0
    layers = [xx]
    if ovr_mode == "supplied":
        cur = xx
        for _ in range(cfg["nlayers"]):
            sl = [slice(None)] * cur.ndim
            sl[ydim] = slice(None, None, 2)
            sl[ydim + 1] = slice(None, None, 2)
            nxt = cur[tuple(sl)]
            if nxt.shape == cur.shape or nxt.odc.geobox is None:
                break
            layers.append(nxt)
            cur = nxt
    if entry != "write_cog_layers":
        if ovr_mode == "supplied":
            kw["overviews"] = as_container(layers[1:], cfg.get("container", "list"))
        elif ovr_mode == "none":
            kw["overview_levels"] = as_container([], cfg.get("container", "list"), sized=True)
        elif ovr_mode == "levels":
            kw["overview_levels"] = as_container([ispell(l) for l in cfg["overview_levels"]], cfg.get("container", "list"), sized=True)
        if ovr_mode in ("default", "levels") and cfg["resampling"] is not None:
            kw["overview_resampling"] = cfg["resampling"]

    path = os.path.join(workdir, f"{tag}.tif")
    pre_hash = None
    if dest in ("file_exists_overwrite", "file_exists_keep"):
        with open(path, "wb") as f:
            f.write(b"pre-existing destination " + os.urandom(64))
        pre_hash = hashlib.sha256(open(path, "rb").read()).hexdigest()
    dst_exists = pre_hash is not None
    is_mem = dest == "mem"
    overwrite = dest == "file_exists_overwrite" or (dest == "file_new" and cfg["overwrite_new"])
    facts["plan_line"] = f"c15 plan {bool_s(is_mem)} {bool_s(dst_exists)} {bool_s(overwrite)}"
    if not is_mem and entry not in ("to_cog", "acc_to_cog"):
        kw["overwrite"] = overwrite

    if shared and ovr_mode == "levels" and entry != "write_cog_layers" and list(cfg["overview_levels"]) == list(shared["levels"]):
        kw["overview_levels"] = shared["levels"]
    # caller-owned mutable arguments (and the arrays' attrs) must come back unchanged
    owned = {f"{k}=": v for k, v in kw.items() if isinstance(v, (dict, list))}
    owned["geo_im.attrs"] = xx.attrs
    for i_, l_ in enumerate(layers[1:]):
        owned[f"overviews[{i_}].attrs"] = l_.attrs
    if entry == "write_cog_layers":
        owned["layers"] = layers
    before = {k: snapshot(v) for k, v in owned.items()}

    out = None
    err = None
    with warnings.catch_warnings(record=True) as wlist:
        warnings.simplefilter("always")
        try:
            with rasterio.Env(**ENVS[cfg["env"]]):  # the caller's ambient GDAL configuration
                if entry == "to_cog":
                    out = RIO.to_cog(xx, **kw)
                elif entry == "acc_to_cog":
                    out = xx.odc.to_cog(**kw)
                elif entry == "write_cog":
                    out = RIO.write_cog(xx, ":mem:" if is_mem else path, **kw)
                elif entry == "acc_write_cog":
                    out = xx.odc.write_cog(":mem:" if is_mem else path, **kw)
                else:
                    lay = layers if cfg.get("container", "list") == "list" else as_container(layers, cfg["container"])
                    out = RIO.write_cog_layers(lay, ":mem:" if is_mem else path, **kw)
        except Exception as e:  # pylint: disable=broad-except
            err = e
    warned = any("multiple of 16" in str(x.message) for x in wlist)
    changed = [k for k, v in owned.items() if snapshot(v) != before[k]]
    if changed:
        fails.append(("caller-argument-mutated", f"{entry} modified the caller's own object(s) {changed}: now "
                      + "; ".join(f"{k} {owned[k]!r}"[:120] for k in changed)))

    # ---- overwrite guard
    if dst_exists and not overwrite:
        now = hashlib.sha256(open(path, "rb").read()).hexdigest() if os.path.exists(path) else None
        facts["plan"] = "[] ERR:OSError" if isinstance(err, OSError) and now == pre_hash else (
            f"changed={now != pre_hash} err={type(err).__name__ if err else None}")
        if not isinstance(err, OSError):
            fails.append(("overwrite-guard-no-error", f"existing destination, overwrite=False: no OSError ({err!r})"))
        if now != pre_hash:
            fails.append(("overwrite-guard-touched-file", "existing destination was modified or removed although overwrite=False"))
        if os.path.exists(path):
            os.unlink(path)
        return facts, fails
    if err is not None:
        fails.append((f"write-raises:{type(err).__name__}", f"{entry} raised {type(err).__name__}: {str(err)[:200]}"))
        return facts, fails
    if is_mem:
        facts["plan"] = "[] ok"
        if not isinstance(out, bytes):
            fails.append(("mem-result-not-bytes", f"{type(out)}"))
            return facts, fails
        opener = lambda **k: rasterio.MemoryFile(out).open(**k)
    else:
        replaced = os.path.exists(path) and hashlib.sha256(open(path, "rb").read()).hexdigest() != pre_hash
        facts["plan"] = ("[unlink,write] ok" if dst_exists else "[write] ok") if replaced else "not-written"
        if str(out) != path or not replaced:
            fails.append(("destination-not-written", f"returned {out!r}"))
            return facts, fails
        opener = lambda **k: rasterio.open(path, **k)

    # ---- read back with rasterio (GDAL), outside the writer's Env
    is_float = np.dtype(cfg["dtype"]).kind == "f"
    ambiguous = cube(pix.shape)
    try:
        with opener() as f:
            got = f.read()
            if got.shape != want.shape or got.dtype != want.dtype or f.count != want.shape[0]:
                fails.append(("dtype-count-or-shape", f"read {got.shape} {got.dtype}, wrote {want.shape} {want.dtype}"))
            elif ambiguous:
                facts["ambiguous"] = True  # n x n x n: always read as band-last; reported, not judged
            elif not np.array_equal(got, want, equal_nan=True):
                bad = ~((got == want) | ((np.isnan(got) & np.isnan(want)) if is_float else False))
                b_, y_, x_ = (int(v) for v in np.argwhere(bad)[0])
                perm = want.shape[0] > 1 and any(np.array_equal(got[0], want[k], equal_nan=True) for k in range(1, want.shape[0]))
                fails.append(("band-order" if perm else "pixels-differ",
                              f"{int(bad.sum())} values differ, e.g. band {b_ + 1} ({y_},{x_}): wrote {want[b_, y_, x_]!r} read {got[b_, y_, x_]!r}"))
            if tuple(f.transform)[:6] != tuple(gbox.transform)[:6]:
                fails.append(("transform-differs", f"{tuple(f.transform)[:6]} vs {tuple(gbox.transform)[:6]}"))
            else:
                msg = geo_registration_error(gbox_src.affine, f.transform, h, w)
                if msg:
                    fails.append(("transform-differs", msg))
            crs_ok, crs_msg = crs_same(f.crs, cfg["_crs_spec"])
            if not crs_ok:
                fails.append(("crs-differs", crs_msg))
            if not same_nodata(f.nodata, nodata):
                fails.append(("nodata-differs:explicit-none-with-supplied-overviews" if none_on_layers and cfg["attrs_nodata"] is not None else "nodata-differs",
                              f"file says {f.nodata}, requested {nodata} (attrs {cfg['attrs_nodata']}, keyword {cfg['kw_nodata']}"
                              + (", nodata=None passed explicitly" if "nodata" in kw and kw["nodata"] is None else "") + ")"))
            if len(set(f.block_shapes)) != 1:
                fails.append(("block-shapes-vary", f"{f.block_shapes}"))
            by, bx = f.block_shapes[0]
            # internal tiling judged on the TIFF structure itself (rasterio's is_tiled is a width heuristic)
            with tifffile.TiffFile(BytesIO(out) if is_mem else path) as tf:
                pg = tf.pages[0]
                if not pg.is_tiled or (pg.tilelength, pg.tilewidth) != (by, bx):
                    fails.append(("not-tiled", f"is_tiled={pg.is_tiled} tile {(pg.tilelength, pg.tilewidth)} blocks {(by, bx)}"))
            if by % 16 or bx % 16:
                fails.append(("block-not-mult16", f"block {by}x{bx}"))
            pred = f.tags(ns="IMAGE_STRUCTURE").get("PREDICTOR", "1")
            facts["opts_line"] = f"c15 opts {opt_s(cfg['blocksize'])} {w} {h} {bool_s(is_float)}"
            facts["opts"] = f"{bx} {by} {pred} {bool_s(warned)}"
            # nodata as resolved by the writer vs the model's resolution order (spellings as actually passed)
            m_entry = "write_cog_layers" if entry == "write_cog_layers" else ("write_cog_ovrs" if ovr_mode == "supplied" else
                                                                            ("to_cog" if entry in ("to_cog", "acc_to_cog") else "write_cog"))
            facts["nodata_line"] = f"c15 nodata {m_entry} {num_s(kw.get('nodata'))} {num_s(xx.attrs.get('nodata'))}"
            facts["nodata"] = "N" if f.nodata is None else ("nan" if math.isnan(f.nodata) else frac_s(float(f.nodata)))
            if all(abs(v) < 2.0**40 and float(v).as_integer_ratio()[1] <= 2**30 for v in tuple(gbox.transform)[:6]):
                a_ = gbox.transform
                facts["geotags_line"] = "c15 geotags " + ";".join(frac_s(float(v)) for v in (a_.a, a_.b, a_.c, a_.d, a_.e, a_.f))
                facts["geotags"] = geotags_s(pg.tags)
            ovs = [f.overviews(i + 1) for i in range(f.count)]
            n_ov = len(ovs[0])
            if any(len(o) != n_ov for o in ovs):
                fails.append(("overview-count-varies", f"{ovs}"))
        ov_sizes, ov_pix = [], []
        for i in range(n_ov):
            with opener(overview_level=i) as fo:
                ov_sizes.append((fo.height, fo.width))
                ov_pix.append(fo.read() if max(h, w) <= 400 or ovr_mode == "supplied" else None)
        if ovr_mode == "supplied" or entry == "write_cog_layers":
            want_sizes = [tuple(l.shape[ydim:ydim + 2]) for l in layers[1:]]
            if ov_sizes != want_sizes:
                fails.append(("overview-sizes", f"file {ov_sizes}, supplied layers {want_sizes}"))
            else:
                for i, l in enumerate(layers[1:]):
                    if cube(l.shape) or ambiguous:
                        continue
                    li = band_first(l.data, layout)
                    if ov_pix[i].shape != li.shape or not np.array_equal(ov_pix[i], li, equal_nan=True):
                        fails.append(("supplied-overview-pixels-differ", f"overview {i}: {ov_pix[i].shape} vs {li.shape}"))
                        break
        else:
            levels_req = None if ovr_mode == "default" else ([] if ovr_mode == "none" else cfg["overview_levels"])
            facts["levels_line"] = f"c15 levels {opt_s(levels_req, list_s)} {w} {h}"
            facts["alevels_line"] = f"c15 alevels {opt_s(levels_req, list_s)} {list_s(pix.shape)} {h} {w}"
            expect = levels_req if levels_req is not None else ([] if min(w, h) < 512 else [2, 4, 8, 16, 32])
            want_sizes = [(-(-h // l), -(-w // l)) for l in expect]
            # GDAL drops nothing and adds nothing: exactly the requested levels, judged by size
            facts["alevels"] = list_s(expect) if ov_sizes == want_sizes else f"sizes{ov_sizes}"
            if ov_sizes != want_sizes:
                fails.append(("overview-sizes", f"file {ov_sizes}, requested levels {expect} → {want_sizes}"))
            else:
                # nearest-neighbour overviews: every overview pixel is one of the pixels of its l x l source cell
                if cfg["resampling"] in (None, "nearest") and not ambiguous and not fails:
                    # (first level only: GDAL derives further levels from the previous overview, not from the base)
                    for l, op in list(zip(expect, ov_pix))[:1]:
                        if op is None or l not in (2, 4, 8) or h % l or w % l:
                            # partial source cells at the edge and non-power-of-two decimations are GDAL's business (plain
                            # rasterio build_overviews([3]) on a 3x3 / 9x9 image yields 0 / nodata cells by itself): not judged
                            continue
                        oh, ow = op.shape[1:]
                        # source cell of overview pixel (i, j): rows floor(i*h/oh) .. +l, cols floor(j*w/ow) .. +l (clipped)
                        ry = (np.arange(oh) * h) // oh
                        rx = (np.arange(ow) * w) // ow
                        hit = np.zeros(op.shape, dtype=bool)
                        for dy in range(l + 1):
                            for dx in range(l + 1):
                                cand = want[:, np.minimum(ry + dy, h - 1)][:, :, np.minimum(rx + dx, w - 1)]
                                hit |= (cand == op) | ((np.isnan(cand) & np.isnan(op)) if is_float else False)
                        if not hit.all():
                            fails.append(("overview-not-from-source-cell", f"level {l}: {int((~hit).sum())} overview pixels are none of their source pixels"))
                            break
            facts["levels_n"] = len(ov_sizes)
            facts["ovr_lines"] = [(f"c15 ovr {w} {h} {l}", f"{s[1]} {s[0]}") for l, s in zip(expect, ov_sizes)]
    except Exception as e:  # pylint: disable=broad-except
        fails.append(("gdal-cannot-read-back", f"{type(e).__name__}: {str(e)[:200]}"))
    if not is_mem and os.path.exists(path):
        os.unlink(path)
    return facts, fails


def cube(shape) -> bool:
    return len(shape) == 3 and shape[0] == shape[1] == shape[2]


def cfg_sig(cfg) -> str:
    size = "big" if min(cfg["h"], cfg["w"]) >= 512 else ("tiny" if min(cfg["h"], cfg["w"]) < 16 else "small")
    nd = "kw" if cfg["kw_nodata"] is not None else ("attrs" if cfg["attrs_nodata"] is not None else "none")
    if cfg.get("kw_none_explicit") and cfg["kw_nodata"] is None:
        nd += "+kwNone"
    env = "+".join(sorted(k.replace("GDAL_", "").lower()[:14] for k in ENVS[cfg["env"]])) or "default"
    return f"rt|{cfg['entry']}|{cfg['dest']}|ovr={cfg['ovr_mode']}|nodata={nd}|{cfg['content']}|{cfg['layout']}|{size}|env={env}" + (
        "|windowed" if cfg["windowed"] else "") + ("" if cfg.get("prov", "wrap") == "wrap" else f"|prov={cfg['prov']}")


def run_case(R: Run, cfg, workdir, tag, shared=None):
    try:
        facts, fails = one_case(cfg, workdir, tag, shared)
    except Exception:  # pylint: disable=broad-except
        facts, fails = {}, [("harness-exception", traceback.format_exc()[-800:])]
    sig = cfg_sig(cfg)
    if facts.get("ambiguous"):
        R.count("ambiguous-cube-not-judged")
    if "plan" in facts:
        R.corr(facts["plan_line"], lambda: facts["plan"], sig=sig + "|plan")
    if "opts" in facts:
        R.corr(facts["opts_line"], lambda: facts["opts"], sig=sig + "|blocks")
    if "nodata_line" in facts:
        R.corr(facts["nodata_line"], lambda: facts["nodata"], sig="nodata|" + facts["nodata_line"].split(" ")[2])
    if "geotags_line" in facts:
        R.corr(facts["geotags_line"], lambda: facts["geotags"], sig="geotags|" + facts["geotags"].split("=")[0])
    if "alevels" in facts:
        R.corr(facts["alevels_line"], lambda: facts["alevels"], sig="alevels|" + cfg["layout"])
    if "levels_line" in facts:
        # model's level list → its length must equal the number of overviews found in the file
        model = run_driver("C15", [facts["levels_line"]])[0]
        n_model = 0 if model == "[]" else model.count(",") + 1
        R.oracle(n_model == facts["levels_n"] or bool(fails), "overview-count-vs-model", cfg,
                 f"model levels {model}, file has {facts['levels_n']} overviews", sig=sig, trivial=True)
        for ln, out in facts.get("ovr_lines", []):
            R.corr(ln, lambda: out, sig="spec-ovr-size")
    R.oracle(not fails, fails[0][0] if fails else "round-trip", cfg, "; ".join(f"{k}: {w}" for k, w in fails[:4]), sig=sig)
    for k, w in fails[1:]:
        R.oracle(False, k, cfg, w, sig=sig)


def run(R: Run):
    # pylint: disable=too-many-locals,too-many-branches,too-many-statements
    RIO, S, GeoBox, wrap_xr = _imp()
    from affine import Affine  # pylint: disable=import-outside-toplevel

    rng = R.rng

    # ---- the glue of _rio.py as a call trace against a recording stand-in for rasterio (harness/c15_glue.py)
    from .c15_glue import run_glue  # pylint: disable=import-outside-toplevel

    run_glue(R)

    def private(name):
        """private helpers are looked up defensively: a tree without the name loses only the direct stream (note in the evidence)"""
        fn_ = getattr(RIO, name, None)
        if fn_ is None:
            R.notes.append(f"odc.geo.cog._rio.{name} not found: direct stream skipped, the behaviour is judged through the public entry points")
        return fn_

    default_cog_opts, write_cog_impl, norm_compression_opts = private("_default_cog_opts"), private("_write_cog"), private("_norm_compression_opts")

    # ---- _default_cog_opts / adjust_blocksize: exhaustive small, random large
    def opts_case(b, w, h, fl, sig):
        if default_cog_opts is None:
            return

        def f():
            with warnings.catch_warnings():
                warnings.simplefilter("ignore")
                o = default_cog_opts(blocksize=512 if b is None else b, shape=(h, w), is_float=fl)
            bb = 512 if b is None else b
            return f"{o['blockxsize']} {o['blockysize']} {o['predictor']} {bool_s(bb % 16 != 0)}"

        out = R.corr(f"c15 opts {opt_s(b)} {w} {h} {bool_s(fl)}", f, sig=sig)
        if not out.startswith("ERR"):
            bx, by = (int(v) for v in out.split(" ")[:2])
            bb = 512 if b is None else b
            # exact, two-sided: the governing size (image side if 0 < side < block, else the block) rounded up to 16
            want = tuple(-(-(d if 0 < d < bb else bb) // 16) * 16 for d in (w, h))
            R.oracle((bx, by) == want, "block-not-mult16", {"blocksize": b, "w": w, "h": h}, f"{out}, exact rule {want}",
                     trivial=sig != "opts|huge")

    for b in [None] + list(range(1, R.pick(40, 80))) + [100, 250, 256, 511, 512, 513, 1000]:
        for w in (0, 1, 15, 16, 17, 31, 33, 100, 511, 512, 513, 2000):
            for h in (1, 16, 40, 600):
                opts_case(b, w, h, (w + h) % 2 == 0, "opts|" + ("none" if b is None else "mult16" if b % 16 == 0 else "odd"))
    for _ in range(R.pick(400, 4000)):
        opts_case(rng.choice([None, rng.randint(1, 3000)]), rng.randint(0, 5000), rng.randint(0, 5000), rng.random() < 0.5, "opts|random")
    for _ in range(R.pick(400, 4000)):  # huge ints: a float detour in the rounding would show here
        opts_case(rng.choice([None, huge(rng), rng.randint(1, 3000)]), rng.choice([huge(rng), rng.randint(0, 5000)]),
                  rng.choice([huge(rng), rng.randint(0, 5000)]), rng.random() < 0.5, "opts|huge")

    # ---- band layout normalisation, through the real `_write_cog` (tiny images, memory)
    def layout_case(shape, g):
        if write_cog_impl is None:
            return
        gb = GeoBox(g, Affine(1, 0, 0, 0, -1, 0), "epsg:3857")
        pix = np.arange(int(np.prod(shape)), dtype="int16").reshape(shape)

        def f():
            import rasterio  # pylint: disable=import-outside-toplevel

            bb = write_cog_impl(pix, gb, ":mem:", blocksize=16, overview_levels=[])
            with rasterio.MemoryFile(bb).open() as src:
                got = src.read()
            tr = len(shape) == 3 and tuple(shape[:2]) == tuple(g)
            amb = len(shape) == 3 and tuple(shape[:2]) == tuple(g) and tuple(shape[1:]) == tuple(g)
            # which input element became output [k, y, x]?  (values are the flat input indices)
            ref_t = pix.transpose(2, 0, 1) if len(shape) == 3 else None
            if len(shape) == 2:
                moved = "F" if np.array_equal(got[0], pix) else "?"
            elif np.array_equal(got, ref_t) and (tr or amb):
                moved = "T"
            elif np.array_equal(got, pix):
                moved = "F"
            else:
                moved = "?"
            return f"{got.shape[0]} {got.shape[1]} {got.shape[2]} {moved} {bool_s(amb)}"

        kind = "2d" if len(shape) == 2 else ("cube" if len(set(shape)) == 1 else "3d")
        R.corr(f"c15 layout {list_s(shape)} {g[0]} {g[1]}", f, sig=f"layout|{kind}")

    dims = [1, 2, 3, 4, 5]
    for a in dims:
        for b in dims:
            for g in [(a, b), (b, a), (a, a), (9, 9)]:
                layout_case([a, b], g)
            for c in dims:
                if R.quick and (a + 2 * b + 3 * c) % 2:
                    continue
                for g in {(a, b), (b, c), (a, c), (7, 7)}:
                    layout_case([a, b, c], g)
    layout_case([2, 2, 2, 2], (2, 2))
    layout_case([6], (6, 1))
    # numpy transposition is the reference for `srcIndex`
    for _ in range(R.pick(100, 1000)):
        shp = (rng.randint(1, 5), rng.randint(1, 5), rng.randint(1, 5))
        arr = np.arange(int(np.prod(shp))).reshape(shp)
        k, y, x = rng.randrange(shp[2]), rng.randrange(shp[0]), rng.randrange(shp[1])
        v = int(arr.transpose([2, 0, 1])[k, y, x])
        R.corr(f"c15 src T {k} {y} {x}", lambda: "%d %d %d" % tuple(int(i) for i in np.argwhere(arr == v)[0]), sig="spec-transpose")

    # ---- default overview levels: boundary exhaustive (decision only; files below)
    def levels_case(req, w, h):
        def f():
            import rasterio  # pylint: disable=import-outside-toplevel

            # observe the decision through the overviews of a real (constant, highly compressible) file
            gb = GeoBox((h, w), Affine(1, 0, 0, 0, -1, 0), "epsg:3857")
            bb = RIO.to_cog(wrap_xr(np.zeros((h, w), dtype="uint8"), gb), overview_levels=req)
            sizes = []
            with rasterio.MemoryFile(bb).open() as src:
                n = len(src.overviews(1))
            for i in range(n):
                with rasterio.MemoryFile(bb).open(overview_level=i) as fo:
                    sizes.append((fo.height, fo.width))
            lv = req if req is not None else ([] if min(w, h) < 512 else [2, 4, 8, 16, 32])
            if sizes != [(-(-h // l), -(-w // l)) for l in lv]:
                return f"sizes {sizes}"
            return list_s(lv)

        R.corr(f"c15 levels {opt_s(req, list_s)} {w} {h}", f, sig="levels|" + ("default" if req is None else "explicit"))

    for w, h in [(511, 511), (512, 512), (511, 512), (512, 511), (513, 600), (600, 513), (511, 2000), (1, 1), (100, 700), (1100, 512)]:
        levels_case(None, w, h)
    for req in ([], [2], [2, 4], [32], [3, 5]):
        levels_case(req, 600, 513)
        levels_case(req, 40, 30)

    # ---- check_write_path table (real files) and _norm_compression_opts
    workdir = tempfile.mkdtemp(prefix="c15-")
    try:
        for exists in (False, True):
            for ow in (False, True):
                p = os.path.join(workdir, f"cwp-{exists}-{ow}.bin")
                if exists:
                    open(p, "wb").write(b"keep me")

                def f():
                    try:
                        r = RIO.check_write_path(p, ow)
                    except OSError:
                        still = os.path.exists(p) and open(p, "rb").read() == b"keep me"
                        return "[] ERR:OSError" if still else "[unlink] ERR:OSError"
                    acts = ["unlink"] if exists and not os.path.exists(p) else []
                    assert str(r) == p
                    return list_s(acts + ["write"]) + " ok"  # caller writes next

                R.corr(f"c15 plan F {bool_s(exists)} {bool_s(ow)}", f, sig=f"plan|exists={exists}|overwrite={ow}")
        for c in [True, False, "zstd", "lzw", "deflate", {"compress": "lzw"}, {"compress": "zstd", "zstd_level": 3}, {}] if norm_compression_opts is not None else []:
            R.corr(f"c15 ncompfresh {comp_s(c)}", lambda: bool_s(norm_compression_opts(c) is not c), sig="ncomp|fresh")
            R.corr(f"c15 ncomp {comp_s(c)}",
                   lambda: list_s([f"{k}={v}" for k, v in norm_compression_opts(c).items()]), sig="ncomp")

        # ---- the GDAL round trip (dominant part)
        n_cases = R.pick(220, 5000)
        t_budget = R.pick(25, 300)
        t0 = time.time()
        done = 0
        def mk(**over):
            base = dict(layout="YX", nb=1, h=96, w=80, dtype="int16", attrs_nodata=None, kw_nodata=None, entry="write_cog",
                        dest="mem", ovr_mode="none", overview_levels=None, nlayers=2, overwrite_new=False, blocksize=32,
                        ovr_blocksize=None, windowed=False, icomp=False, resampling=None, content="random", env=0, seed=1)
            base.update(over)
            return base

        fixed = [
            mk(layout="YXS", nb=3, h=600, w=513, dtype="uint8", ovr_mode="levels", overview_levels=[2, 32], blocksize=None,
               dest="file_new", seed=11),
            mk(layout="SYX", nb=2, h=520, w=700, dtype="int8", kw_nodata=-128, ovr_mode="default", blocksize=100, ovr_blocksize=64,
               windowed=True, icomp="zstd", resampling="nearest", entry="to_cog", seed=12),
            mk(h=1, w=1, dtype="float64", attrs_nodata=float("nan"), ovr_mode="default", blocksize=None, dest="file_exists_keep", seed=13),
            mk(h=77, w=33, dtype="float64", ovr_mode="levels", overview_levels=[2], blocksize=17, icomp=True,
               dest="file_exists_overwrite", seed=14),
            mk(h=256, w=200, dtype="uint16", attrs_nodata=0, blocksize=64, entry="write_cog_layers", ovr_mode="supplied",
               dest="file_new", seed=15),
        ]
        # supplied-but-EMPTY overviews (overviews=[] / ()) on images past the 512 px threshold with overview_levels left alone:
        # the file must contain exactly the supplied levels — none — not the default computed pyramid
        fixed += [
            mk(h=600, w=513, dtype="uint8", ovr_mode="supplied", nlayers=0, container="list", blocksize=None, entry="write_cog", dest="file_new", seed=16),
            mk(h=512, w=640, dtype="int16", ovr_mode="supplied", nlayers=0, container="tuple", blocksize=256, entry="to_cog", attrs_nodata=0, seed=17),
            mk(layout="YXS", nb=3, h=520, w=512, dtype="uint8", ovr_mode="supplied", nlayers=0, container="iter", blocksize=None, entry="acc_to_cog", seed=18),
        ]
        for i, cfg in enumerate(fixed):
            run_case(R, cfg, workdir, f"k{i}")
            done += 1

        # ---- pin: an intermediate_compression dict that carries dataset keys besides compression settings (the point excluded by
        # theorem mem_copy_agrees_with_file_copy: there the option dictionaries of the memory and the file copy differ).  GDAL's
        # copy takes the description of the dataset from the temporary image on BOTH routes, so the two destinations must
        # still agree with each other (what the misused option does to the file is the caller's business and not judged)
        def ic_pin(ic):
            import rasterio  # pylint: disable=import-outside-toplevel

            gb_ = GeoBox((64, 48), Affine(10, 0, 0, 0, -10, 0), "epsg:3857")
            xx_ = wrap_xr((np.arange(64 * 48) % 200).astype("int16").reshape(64, 48), gb_, nodata=-9999)
            p_ = os.path.join(workdir, "icpin.tif")
            RIO.write_cog(xx_, p_, overview_levels=[2], blocksize=32, intermediate_compression=dict(ic), overwrite=True)
            bb_ = RIO.to_cog(xx_, overview_levels=[2], blocksize=32, intermediate_compression=dict(ic))
            out_ = []
            with rasterio.open(p_) as f1, rasterio.MemoryFile(bb_) as mf, mf.open() as f2:
                for f_ in (f1, f2):
                    out_.append((f_.nodata, f_.dtypes, f_.shape, tuple(f_.transform)[:6], str(f_.crs), f_.read().tobytes(), f_.overviews(1)))
            os.unlink(p_)
            return "" if out_[0] == out_[1] else f"file {out_[0][:5]} {out_[0][6]} vs memory {out_[1][:5]} {out_[1][6]}"

        for ic_ in ({"compress": "lzw", "nodata": 7}, {"compress": "deflate", "dtype": "float32"}, {"nodata": 7}):
            msg = guarded(lambda: ic_pin(ic_))
            R.oracle(msg == "", "mem-and-file-destinations-differ", {"fn": "write_cog / to_cog", "intermediate_compression": ic_, "overview_levels": [2]},
                     f"same call to a file and to memory gives different datasets: {msg}", sig="rt|ic-with-dataset-keys")

        # ---- provenance of the geo-registered array x grid kind x destination, every run: built by wrap_xr, 1-d coordinates
        # dropped (GeoTransform only), CRS assigned for the first time / re-assigned (default and custom coordinate name, on
        # the DataArray or its Dataset), a window sliced out of a larger array; each on a north-up grid and on a rotated grid
        # with non-square pixels; transform and CRS read back are judged against the harness' own GeoBox / CRS definition
        k_ = 0
        for prov in PROVS:
            for gb_kind in ("northup", "rot_nonsquare"):
                for entry_ in (("to_cog", "acc_write_cog") if R.quick else ENTRIES):
                    k_ += 1
                    lay_ = ["YX", "SYX", "YXS"][k_ % 3]
                    cfg = mk(prov=prov, gb_kind=gb_kind, entry=entry_, dest="mem" if entry_ in ("to_cog", "acc_to_cog") else DESTS[k_ % 2],
                             layout=lay_, nb=1 if lay_ == "YX" else 1 + k_ % 3, h=[6, 12, 40, 7][k_ % 4], w=[9, 20, 33, 5][(k_ // 2) % 4],
                             dtype=DTYPES[k_ % len(DTYPES)], blocksize=[16, 32][k_ % 2], ovr_mode=["none", "levels", "supplied"][k_ % 3],
                             overview_levels=[2], seed=9000 + k_)
                    cfg["attrs_nodata"] = [None, nodata_candidates(cfg["dtype"])[0]][k_ % 2]
                    run_case(R, cfg, workdir, f"p{k_}")
                    done += 1

        # ---- layout x size-threshold x DEFAULT options: every axis layout the writer accepts (2-D, band-first, band-last with
        # 1 / 3 / 4 bands) with the smaller spatial side on both sides of the 512 px default-overview threshold, overview
        # options left at their defaults; the pyramid read back must be the documented default for the SPATIAL shape
        thr = []
        for lay_, nb_ in (("YX", 1), ("SYX", 1), ("SYX", 3), ("SYX", 4), ("YXS", 1), ("YXS", 3), ("YXS", 4)):
            for small in (511, 512, 513, 600):
                for tall in (False, True):
                    big_ = small + [0, 37, 188][(small + nb_) % 3]
                    thr.append(mk(layout=lay_, nb=nb_, h=big_ if tall else small, w=small if tall else big_, dtype="uint8",
                                  ovr_mode="default", blocksize=[None, 256, 512][(small + nb_) % 3], content=["tiles", "zeros", "checker"][nb_ % 3],
                                  entry=ENTRIES[(small + nb_ + tall) % 2 * 3], attrs_nodata=[None, 255][nb_ % 2], seed=7000 + small + nb_))
        for c_ in thr:
            if c_["entry"] in ("to_cog", "acc_to_cog"):
                c_["dest"] = "mem"
        must = [c_ for c_ in thr if c_["layout"] == "YXS" and c_["nb"] >= 3 and min(c_["h"], c_["w"]) in (512, 600)][:1] + \
               [c_ for c_ in thr if c_["layout"] == "SYX" and c_["nb"] >= 3 and min(c_["h"], c_["w"]) in (512, 513)][:1]
        pick_thr = thr if not R.quick else must + rng.sample([c_ for c_ in thr if c_ not in must], 8)
        for i, cfg in enumerate(pick_thr):
            run_case(R, cfg, workdir, f"t{i}")
            done += 1

        # ---- known finding probe: a rotation whose off-diagonal terms are below math.is_affine_st's ABSOLUTE tolerance
        # (1e-10) is dropped on the way through xarray coordinates (1e-6 deg pixels rotated 0.005 deg)
        def tiny_rotation_probe():
            import rasterio  # pylint: disable=import-outside-toplevel

            A = Affine.translation(150.1, -33.3) * Affine.rotation(0.005) * Affine.scale(1e-6, -1e-6)
            gb = GeoBox((200, 300), A, "epsg:4326")
            bb = RIO.to_cog(wrap_xr(np.zeros((200, 300), "uint8"), gb), blocksize=64)
            with rasterio.MemoryFile(bb).open() as f:
                return geo_registration_error(A, f.transform, 200, 300)

        msg = guarded(lambda: tiny_rotation_probe() or "")
        R.oracle(msg == "", "transform-differs:rotation-below-is_affine_st-tolerance",
                 {"fn": "to_cog", "shape": [200, 300], "affine": "translation(150.1,-33.3)*rotation(0.005)*scale(1e-6,-1e-6)", "crs": "epsg:4326"},
                 "to_cog of a GeoBox with 1e-6 deg pixels rotated by 0.005 deg (off-diagonal 8.7e-11 < 1e-10) writes a north-up transform: " + msg,
                 sig="probe|tiny-rotation")

        # ---- the keyword cross-product on small multi-tile images: every public entry point x destination x overview
        # mode x nodata (attrs absent/present x keyword absent/same/different) x windowed x ambient env; content pattern,
        # dtype, layout and block size cycle.  Thorough runs all of it, quick a seeded sample.
        matrix = []
        n = 0
        for entry in ENTRIES:
            for dest in (["mem"] if entry in ("to_cog", "acc_to_cog") else DESTS):
                for ovr_mode in (["none", "supplied"] if entry == "write_cog_layers" else OVR_MODES):
                    for attrs_has in (False, True):
                        for kw_mode in ("absent", "same", "different", "explicit_none"):
                            if kw_mode == "same" and not attrs_has:
                                continue
                            for windowed in (False, True):
                                for env in (0, 2, 3, 8):
                                    n += 1
                                    dt = DTYPES[n % len(DTYPES)]
                                    cands = nodata_candidates(dt)
                                    a = cands[n % len(cands)] if attrs_has else None
                                    others = [c for c in cands if not same_nodata(c, a)]
                                    k = None if kw_mode in ("absent", "explicit_none") else (a if kw_mode == "same" else others[(n // 3) % len(others)])
                                    layout = ["YX", "SYX", "YXS"][n % 3]
                                    matrix.append(mk(
                                        layout=layout, nb=1 if layout == "YX" else 1 + n % 3, h=[96, 70, 130, 48][n % 4],
                                        w=[80, 128, 33, 100][(n // 4) % 4], dtype=dt, attrs_nodata=a, kw_nodata=k, entry=entry,
                                        dest=dest, ovr_mode=ovr_mode, overview_levels=[[2], [2, 4]][n % 2] if ovr_mode == "levels" else None,
                                        nlayers=1 + n % 3, overwrite_new=bool(n % 2), blocksize=[16, 32, 48, None, 20][n % 5],
                                        windowed=windowed, icomp=[False, True, "zstd", {"compress": "lzw"}][(n // 2) % 4],
                                        resampling=[None, "nearest", "average"][n % 3], content=CONTENTS[n % len(CONTENTS)],
                                        env=env, seed=1000 + n, container=CONTAINERS[n % len(CONTAINERS)],
                                        nd_spell_attrs=SPELLINGS[n % len(SPELLINGS)], nd_spell_kw=SPELLINGS[(n // 2) % len(SPELLINGS)],
                                        int_spell=["py", "np_i64", "np_i32"][n % 3],
                                        prov=(["wrap"] + PROVS)[(n // 5) % (len(PROVS) + 1)], gb_kind=[None, "rot_nonsquare", None][(n // 7) % 3],
                                        kw_none_explicit=kw_mode == "explicit_none", nd_decoy=[None, "enc", "attr_fill", "both"][(n // 3) % 4]))
        R.extra["cross_product_size"] = len(matrix)
        pick = matrix if not R.quick else rng.sample(matrix, 260)
        t1 = time.time()
        for i, cfg in enumerate(pick):
            if time.time() - t1 > R.pick(25, 250):
                R.notes.append(f"cross-product loop stopped by time budget after {i} of {len(pick)} cases")
                break
            run_case(R, cfg, workdir, f"m{i}")
            done += 1

        # ---- sequences of 2-4 writes in this process that RE-USE the same option objects (one intermediate_compression
        # dict, one overview_levels list) across images with different nodata / dtype / block size, mixing supplied and
        # computed overviews and the entry points; every image must read back exactly as with fresh arguments, and the
        # shared objects must stay what the caller made them
        def sequence(k):
            shared = {"icomp": {"compress": rng.choice(["lzw", "deflate", "zstd"])}, "levels": rng.choice([[2], [2, 4]])}
            frozen = snapshot(shared)
            n_w = rng.randint(2, 4)
            modes = ["supplied", rng.choice(["levels", "default"])] + [rng.choice(OVR_MODES) for _ in range(2)]
            rng.shuffle(modes)
            for j in range(n_w):
                cfg = gen_cfg(rng, big_ok=False)
                big = k == 0 and j == 1  # one image >= 512 px (default computed overviews) in every run
                cfg.update(icomp=dict(shared["icomp"]), ovr_mode=modes[j], container="list",
                           entry=rng.choice(["write_cog", "to_cog", "acc_write_cog", "acc_to_cog"] + (["write_cog_layers"] if modes[j] in ("supplied", "none") else [])))
                if cfg["entry"] in ("to_cog", "acc_to_cog"):
                    cfg["dest"] = "mem"
                if big:
                    cfg.update(h=rng.randint(512, 640), w=rng.randint(512, 640), dtype=rng.choice(["uint8", "int16"]), nb=min(cfg["nb"], 2),
                               ovr_mode="default", entry="write_cog", kw_nodata=None)
                    cfg["attrs_nodata"] = rng.choice(nodata_candidates(cfg["dtype"]))
                elif cfg["h"] < 40 or cfg["w"] < 40:
                    cfg.update(h=rng.randint(40, 200), w=rng.randint(40, 200))
                cands = nodata_candidates(cfg["dtype"])
                if not big:
                    cfg["attrs_nodata"] = rng.choice([None, cands[(k + j) % len(cands)]])
                    cfg["kw_nodata"] = rng.choice([None, None, cands[(k + 2 * j + 1) % len(cands)]])
                cfg["overview_levels"] = valid_levels(list(shared["levels"]), cfg["h"], cfg["w"]) if cfg["ovr_mode"] == "levels" else None
                cfg["seq"] = [k, j]
                run_case(R, cfg, workdir, f"s{k}_{j}", shared=shared)
            R.oracle(snapshot(shared) == frozen, "caller-argument-mutated", {"sequence": k, "shared": repr(shared)},
                     f"option objects re-used across a sequence of writes were modified: {shared!r}", sig="rt|sequence|shared-objects")

        t_seq = time.time()
        for k in range(R.pick(10, 200)):
            if time.time() - t_seq > R.pick(12, 110):
                break
            sequence(k)
            done += 1

        t0 = time.time()
        for i in range(n_cases):
            if time.time() - t0 > t_budget:
                R.notes.append(f"round-trip loop stopped by time budget after {done} cases")
                break
            run_case(R, gen_cfg(rng, big_ok=(i % 2 == 0)), workdir, f"c{i}")
            done += 1
        R.extra["round_trips"] = done
    finally:
        shutil.rmtree(workdir, ignore_errors=True)

    R.assumptions += [
        "GDAL / rasterio encode and decode (GTiff driver, overview building, copy_src_overviews) are trusted entirely; "
        "the Lean part covers only odc-geo's own decisions",
        "overview size for decimation l is ceil(w/l) x ceil(h/l) (GDAL reference, validated against the files of this run)",
        "numpy transpose([2,0,1]) semantics (validated against numpy each run)",
    ]


def replay(R: Run, rec) -> int:
    case = rec.get("case") or {}
    print("replay key:", rec.get("key"))
    print("replay case:", case)
    if isinstance(case, dict) and "entry" in case:
        d = tempfile.mkdtemp(prefix="c15-")
        try:
            facts, fails = one_case(case, d, "replay")
        finally:
            shutil.rmtree(d, ignore_errors=True)
        print("facts:", {k: v for k, v in facts.items() if not k.endswith("_line")})
        for k, w in fails:
            print("FAIL", k, w)
        return 1 if fails else 0
    if isinstance(case, dict) and "line" in case:
        # a case of the call-trace stage: the model's projection for the recorded line, and — for the nodata class — the real
        # writer with real GDAL on an equivalent input
        try:
            print("model:", run_driver("C15", [case["line"]])[0][:600])
        except Exception as e:  # pylint: disable=broad-except
            print("driver unavailable:", e)
        if str(rec.get("key", "")).startswith("nodata-differs"):
            import rasterio  # pylint: disable=import-outside-toplevel
            from affine import Affine  # pylint: disable=import-outside-toplevel

            RIO, _, GeoBox, wrap_xr = _imp()
            xx = wrap_xr(np.ones((40, 48), "uint8"), GeoBox((40, 48), Affine(10, 0, 0, 0, -10, 0), "epsg:3857"), nodata=255)
            with rasterio.MemoryFile(RIO.to_cog(xx, overviews=[xx[::2, ::2]], nodata=None)) as m, m.open() as f:
                print("to_cog(xx, overviews=[...], nodata=None) with attrs nodata 255 -> file nodata", f.nodata)
                return 0 if f.nodata == 255 else 1
        print("re-run the check with the recorded seed/tier for the full trace")
        return 0
    if isinstance(case, dict) and "blocksize" in case and "w" in case:
        RIO, _, _, _ = _imp()
        fn_ = getattr(RIO, "_default_cog_opts", None)
        if fn_ is None:
            print("no _default_cog_opts in this tree; nothing to replay directly")
            return 0
        o = fn_(blocksize=case["blocksize"] or 512, shape=(case["h"], case["w"]))
        print("real:", o)
        return 0 if o["blockxsize"] % 16 == 0 and o["blockysize"] % 16 == 0 else 1
    print("no specific replay for this key; re-run the check with the recorded seed/tier")
    return 0
