"""C11 — the output grid computed for another CRS encloses the source."""
from __future__ import annotations

import math
from fractions import Fraction

import numpy as np

from .common import Run, bool_s, frac_s, list_s, opt_s
from .c09 import cache_history

META = {
    "claimed": True,
    "text": "Lean 4 theorems over a hand model of compute_output_geobox's decision structure (same-CRS "
    "short-circuit, resolution modes auto/same/fit/explicit, same-units rule, square-pixel averaging, "
    "round_resolution, shape requests), the from_bbox/snap_grid it ends in, norm_crs utm/utm-n/utm-s and "
    "_pick_best_crs: output is axis-aligned, covers the projected footprint bbox up to tol of a pixel and is "
    "minimal, pixel edges aligned to the requested anchor, same-units => source resolution, fit => positive "
    "square pixels, shape requests exact, same CRS + defaults => the source object, hemisphere arithmetic, "
    "best CRS = maximal overlap; enclosure of every projected pixel under the explicit hypothesis that the "
    "footprint bbox contains them.  Growth round (Model/Props C11Glue): the argument forms around that core — "
    "resolution= as number / Resolution / exact words / anything else, GCPGeoBox sources (behave as 'other CRS': "
    "every theorem carries over), the centre-pixel estimate computed by the model from the projected centre-pixel box "
    "(fit theorem without the cpRes hypothesis), keyword defaults of GeoBox.to_crs / .odc.output_geobox, argument "
    "dispatch of CRS.utm and norm_crs / norm_crs_or_error; composed with C09 in Props/C09C11 (xr_reproject from its "
    "arguments to the recovered GeoBox).  Tied to /repo each run: exact correspondence of snap_grid (exhaustive "
    "small domain), from_bbox and compute_output_geobox with the pyproj-derived inputs captured from the real "
    "run, CRS.utm's area of interest intercepted at the pyproj database boundary, norm_crs forms, plus an independent "
    "pyproj oracle projecting every source pixel corner on real CRS pairs and the same-units rule judged from the axis "
    "definitions over every axis pattern of the installed PROJ database.",
    "note": "Model follows the code incl. the repair on branch fix-C11 (footprint buffer uses the absolute pixel "
    "size).  Known findings: int-shape-longest-side-plus-one (integer shape + snapping anchor gives n+1); "
    "same-units-resolution|axes-same-direction (CRS.units of polar CRSs is ('metre',''): default resolution re-estimated "
    "although units are shared; repaired on branch fix2-C11).  Partial: curvature of real projections (that the buffered, "
    "100-point densified footprint's bbox contains every projected pixel) is a hypothesis, sampled by the oracle inside the "
    "CRSs' areas of use; known finding utm-zone-of-raster|buffer-crosses-antimeridian (a raster within one buffer width of "
    "+-180: the lon/lat footprint box spans the globe and the UTM zone is arbitrary; recorded input replayed every run, "
    "enclosure not judged there); pyproj/PROJ, shapely buffer and the UTM database query are trusted parameters; IEEE rounding sampled.  "
    "Spies sit at public names (GeoBox.from_bbox, overlap.get_scale_at_point, pyproj.database.query_utm_crs_info); private "
    "helpers are looked up defensively and their direct streams skipped with a note when absent.",
    "technique": "Lean 4 proof over hand model + differential correspondence with real code + pyproj oracle",
    "inventory": "Modelled (Model/C11.lean, C11Glue.lean): compute_output_geobox (fast path incl. the isinstance guard for GCP sources, "
    "resolution modes, same-units rule, fit average, round_resolution, shape precedence, forwarding to from_bbox), the resolution= "
    "argument forms (res_, Resolution.__init__), the centre-pixel box -> from_bbox(shape=(1,1), tight=True).resolution, "
    "from_bbox/_norm_anchor/snap_grid/_snap_edge/_snap_edge_pos/maybe_int/split_float (proved identical to the C08/C20 models in "
    "Props/C11C08.lean), Python round(x,0), GeoBox.to_crs and ODCExtension.output_geobox (defaults, forwarding, 'Not geo registered'), "
    "norm_crs / norm_crs_or_error dispatch on the argument form, utm/utm-n/utm-s incl. spelling rule, CRS.utm argument dispatch down "
    "to the query box, _pick_best_crs (as repaired), GeoBoxBase.footprint in the linear (own-CRS) case (linearFootprintBBox, "
    "extentCorners).  NOT modelled (parameters captured from the real run): Geometry.to_crs / densification (_reproject_resolution, "
    "segmentize), shapely buffer with rounded corners for generally rotated sources (bbox only bounded: contains the corners), "
    "gbox.resolution of rotated / GCP sources (decompose_rws, sqrt), center_pixel / native_pix_transform / get_scale_at_point / "
    "affine_from_pts (the fit scale), CRS.utm's pyproj database query and CRS.valid_region (candidate list and keys are inputs), "
    "CRS.units / CRS.__eq__ (sameUnits / sameCrs flags are inputs; judged independently with pyproj axis definitions by the harness), "
    "BoundingBox._norm_bbox for 'utm*' strings inside from_bbox, geographic CRSs in non-degree angular units.",
    "design_ref": "DESIGN.md §4 C11",
}

TOL_DEFAULT = 0.01


def _import():
    import warnings

    warnings.filterwarnings("ignore")
    from affine import Affine
    from odc.geo import overlap as ov
    from odc.geo import math as M
    from odc.geo import crs as _crs_mod
    from odc.geo.crs import CRS, norm_crs

    _pick_best_crs = getattr(_crs_mod, "_pick_best_crs", None)  # private helper: its stream is skipped when it is gone
    from odc.geo.geobox import GeoBox
    from odc.geo.types import resxy_, xy_, AnchorEnum

    return Affine, GeoBox, ov, M, CRS, norm_crs, _pick_best_crs, resxy_, xy_, AnchorEnum


def pair_s(p) -> str:
    return f"{frac_s(p[0])},{frac_s(p[1])}"


def grid_s(g) -> str:
    ny, nx = g.shape
    return f"{ny} {nx} " + ";".join(frac_s(v) for v in tuple(g.affine)[:6])


_ARNG = [None]  # spelling generator, seeded from R.rng in run()


def anchor_py(a, xy_, AnchorEnum):
    """a Python spelling of the canonical anchor `a`.  "default" is only ever the literal string (it is what the
    identity fast path of compute_output_geobox tests); every other anchor is spelled in one of the ways
    `_norm_anchor` accepts: strings, AnchorEnum members, floats 0 / 0.0 / 0.5 / f, XY tuples."""
    rng = _ARNG[0]
    pick = (lambda xs: xs[0]) if rng is None else rng.choice
    if isinstance(a, tuple):
        if a[0] == a[1] and a[0] not in (0, 0.5):
            return pick([xy_(a[0], a[1]), float(a[0])])
        return xy_(a[0], a[1])
    return pick({"default": ["default"],
                 "edge": ["edge", AnchorEnum.EDGE, 0, 0.0],
                 "center": ["center", "centre", AnchorEnum.CENTER, 0.5],
                 "floating": ["floating", AnchorEnum.FLOATING]}[a])


def anchor_s(a) -> str:
    if isinstance(a, tuple):
        return f"xy:{frac_s(a[0])}:{frac_s(a[1])}"
    return a


def shape_s(s) -> str:
    if s is None:
        return "N"
    if isinstance(s, int):
        return f"s:{s}"
    return f"x:{s[0]}:{s[1]}"


def mode_s(m) -> str:
    if isinstance(m, tuple):
        return f"e:{frac_s(m[0])}:{frac_s(m[1])}"
    return m if m in ("auto", "same", "fit") else "bad"


def rnd_s(r, captured=None) -> str:
    if r is None:
        return "N"
    if isinstance(r, bool):
        return "T" if r else "F"
    return f"c:{frac_s(captured)}"


# ------------------------------------------------------------------ independent exact reference of snap_grid
def _maybe_int_exact(x: Fraction, tol: Fraction) -> Fraction:
    w = Fraction(math.trunc(x))
    p = x - w
    if p > Fraction(1, 2):
        p -= 1
        w += 1
    elif p < Fraction(-1, 2):
        p += 1
        w -= 1
    return w if abs(p) < tol else x


def snap_exact(x0: Fraction, x1: Fraction, res: Fraction, off, tol: Fraction):
    """`(tx, n)` of the documented snap_grid algorithm in exact arithmetic (written from the
    docstrings of math.py, independent of the Lean model)"""
    r = abs(res)
    if off is None:
        n = max(1, math.ceil(_maybe_int_exact((x1 - x0) / r, tol)))
        return (x0 if res > 0 else x1), n
    d = Fraction(off) * r
    i0 = math.floor(_maybe_int_exact((x0 - d) / r, tol))
    i1 = math.ceil(_maybe_int_exact((x1 - d) / r, tol))
    n = max(1, i1 - i0)
    lo = i0 * r + d
    return (lo if res > 0 else lo + n * r), n


def near_decision(x0, x1, res, off, tol, eps=Fraction(1, 10 ** 9)) -> bool:
    """is some quotient within `eps` of a floor/ceil or tolerance decision boundary (doubles may differ)"""
    r = abs(res)
    d = Fraction(0) if off is None else Fraction(off) * r
    qs = [(x1 - x0) / r] if off is None else [(x0 - d) / r, (x1 - d) / r]
    for q in qs:
        fr = abs(q - round(q))
        if fr < eps or abs(fr - tol) < eps or abs(fr - Fraction(1, 2)) < eps:
            return True
    return False


def snap_float_part(R: Run, mods):
    """float stream for snap_grid: magnitudes up to 2**53, quotients at k +- tiny around integers,
    half-integers and the tolerance threshold; two-sided oracle against the exact reference"""
    M = mods[3]
    rng = R.rng
    tiny = [0.0, 1e-6, 1e-9, 1e-10, 1e-11, 1e-13, 2.0 ** -40]
    for _ in range(R.pick(1500, 15000)):
        res = rng.choice([1.0, 30.0, 0.25, 10.0, 1 / 3, 0.00025, 1e-3, 250.0, 2.0 ** 20]) * rng.choice([1, -1])
        r = abs(res)
        mag = rng.choice([1, 1, 1e3, 1e6, 1e9, 2.0 ** 31, 1e12, 2.0 ** 52])
        k0 = int(rng.uniform(-mag, mag))
        span = rng.choice([0, 1, 2, 7, 100, 4097])
        tol = rng.choice([0.01, 0.01, 0.0, 1e-12, 1e-6, 0.125, 0.3])
        off = rng.choice([None, 0, 0, 0.5, 0.25, 0.3])
        d = (off or 0) * r
        e0 = rng.choice(tiny) * rng.choice([1, -1]) + rng.choice([0, 0, 0.5, tol, -tol, 0.37])
        e1 = rng.choice(tiny) * rng.choice([1, -1]) + rng.choice([0, 0, 0.5, tol, -tol, 0.81])
        x0 = (k0 + e0) * r + d
        x1 = (k0 + span + e1) * r + d
        if rng.random() < 0.3:
            x0, x1 = math.nextafter(x0, math.inf), math.nextafter(x1, -math.inf)
        if not (x0 <= x1) or not math.isfinite(x0 + x1):
            continue
        case = {"fn": "snap_grid", "x0": x0, "x1": x1, "res": res, "off": off, "tol": tol}
        try:
            tx, n = M.snap_grid(x0, x1, res, off, tol)
        except Exception as e:  # pylint: disable=broad-except
            R.oracle(False, "snap-grid-raises", case, repr(e))
            continue
        F = Fraction
        fx0, fx1, fr, ft = F(x0), F(x1), F(res), F(tol)
        lo = F(tx) if res > 0 else F(tx) + n * fr
        hi = F(tx) + n * fr if res > 0 else F(tx)
        # rounding allowance: a few ulps of the coordinates (and of the quotient for decisions), nothing more,
        # so that a hidden "snap within 1e-10" shows up
        ulp = F(max(abs(x0), abs(x1), r)) * F(1, 2 ** 52)
        slack = 4 * ulp
        ok = lo <= fx0 + ft * F(r) + slack and hi >= fx1 - ft * F(r) - slack and n >= 1
        R.oracle(ok, "snap-cover", case, f"grid [{float(lo)}, {float(hi)}] n={n} does not cover [{x0}, {x1}] up to tol", sig="snapf")
        if not near_decision(fx0, fx1, fr, off, ft, eps=8 * ulp / F(r) + F(1, 2 ** 50)):
            wtx, wn = snap_exact(fx0, fx1, fr, off, ft)
            R.oracle(n == wn and abs(F(tx) - wtx) <= slack, "snap-grid-exact", case,
                     f"snap_grid -> ({tx}, {n}) but exact arithmetic gives ({float(wtx)}, {wn})", sig="snapf")


# ------------------------------------------------------------------ exact: snap_grid / from_bbox
def snap_part(R: Run, mods):
    Affine, GeoBox, ov, M, CRS, norm_crs, _pick, resxy_, xy_, AnchorEnum = mods
    rng = R.rng
    tols = [Fraction(0.01), Fraction(1, 8), Fraction(0)]
    grid = [Fraction(k, 8) for k in range(-20, 21)]
    ress = [1, -1, 2, -2, Fraction(1, 2), Fraction(-1, 4), 0]
    offs = [None, 0, Fraction(1, 2), Fraction(1, 4)]
    step = R.pick(3, 1)
    for i, x0 in enumerate(grid):
        for x1 in grid[i::step]:
            for res in ress:
                for off in offs:
                    tol = tols[(i + len(str(x1)) + (off is not None)) % 3] if R.quick else None
                    for t in ([tol] if tol is not None else tols):
                        def f():
                            tx, nx = M.snap_grid(float(x0), float(x1), float(res), None if off is None else float(off), float(t))
                            return f"{frac_s(tx)} {int(nx)}"

                        sig = f"snap|{'float' if off is None else 'snap'}|{'pos' if res > 0 else 'neg' if res < 0 else 'zero'}"
                        got = R.corr(f"c11 snap {frac_s(x0)} {frac_s(x1)} {frac_s(res)} {opt_s(off, frac_s)} {frac_s(t)}", f, sig=sig)
                        if res != 0 and not got.startswith("ERR"):
                            # two-sided: the real result equals the exact re-computation (incl. |part| == tol edges)
                            wtx, wn = snap_exact(Fraction(x0), Fraction(x1), Fraction(res), off, Fraction(t))
                            R.oracle(got == f"{frac_s(wtx)} {wn}", "snap-grid-exact",
                                     {"fn": "snap_grid", "x0": str(x0), "x1": str(x1), "res": str(res), "off": str(off), "tol": str(t)},
                                     f"snap_grid -> {got} but exact arithmetic gives {frac_s(wtx)} {wn}", sig="snap-exact")
    # error branches
    for x0, x1, res, off in [(1, 0, 1, 0), (0, 1, 1, 1), (0, 1, 1, -0.5), (0, 1, 0, 0.5), (0, 1, 0, None), (1, 0, -1, 0.25)]:
        R.corr(f"c11 snap {frac_s(x0)} {frac_s(x1)} {frac_s(res)} {opt_s(off, frac_s)} 1/100",
               lambda: "%s %d" % (lambda r: (frac_s(r[0]), r[1]))(M.snap_grid(float(x0), float(x1), float(res), off, 0.01)))
    # python round(x, 0)
    for k in range(-12, 13):
        R.corr(f"c11 round {frac_s(Fraction(k, 4))}", lambda: frac_s(round(k / 4, 0)), sig="round")

    # from_bbox on dyadic inputs
    anchors = ["default", "edge", "center", "floating", (0.25, 0.75), (0.5, 0.0), (0.25, 0.25)]
    for _ in range(R.pick(600, 6000)):
        r = rng.choice([1, 2, 0.5, 0.25, 30, 10, 1024])
        l = rng.randint(-4000, 4000) / 8 * r
        b = rng.randint(-4000, 4000) / 8 * r
        w = rng.randint(0, 400) / 8 * r
        h = rng.randint(0, 400) / 8 * r
        kind = rng.random()
        anchor = rng.choice(anchors)
        tight = rng.random() < 0.2
        tol = rng.choice([0.01, 0.125, 0.0, 0.01])
        shape, res = None, None
        if kind < 0.55:
            res = (r * rng.choice([1, -1]), r * rng.choice([1, -1, -1]))
        elif kind < 0.8:
            nx, ny = rng.choice([1, 2, 4, 8, 16]), rng.choice([1, 2, 4, 8])
            w, h = nx * r * rng.choice([1, 2, 0.5]), ny * r * rng.choice([1, 4, 0.25])
            shape = (ny, nx)
        elif kind < 0.95:
            n = rng.choice([1, 2, 4, 8, 16, 32])
            w, h = n * r * rng.choice([1, 2, 0.5, 3]), n * r * rng.choice([1, 2, 0.5])
            shape = n
        bbox = (l, b, l + w, b + h)

        def f():
            g = GeoBox.from_bbox(bbox, "EPSG:3857", shape=shape, resolution=None if res is None else resxy_(*res),
                                 tight=tight, anchor=anchor_py(anchor, xy_, AnchorEnum), tol=tol)
            return grid_s(g)

        line = (f"c11 bbox {','.join(frac_s(v) for v in bbox)} {shape_s(shape)} {'N' if res is None else pair_s(res)} "
                f"{bool_s(tight)} {anchor_s(anchor)} {frac_s(tol)}")
        sig = f"bbox|{'res' if res else 'int' if isinstance(shape, int) else 'shape' if shape else 'none'}|{anchor_s(anchor).split(':')[0]}" + ("|tight" if tight else "")
        R.corr(line, f, sig=sig)


# ------------------------------------------------------------------ compute_output_geobox with spies
class Spy:
    """records (or substitutes) the pyproj-derived intermediates of one compute_output_geobox call"""

    def __init__(self, mods, subst=None):
        self.mods = mods
        self.subst = subst  # (cp_rx, cp_ry, sx, sy) dyadic substitutes for the exact stream
        self.cp = None
        self.scale = None
        self.final = None
        self.rounded = None

    def __enter__(self):
        Affine, GeoBox, ov = self.mods[0], self.mods[1], self.mods[2]
        # interception at PUBLIC names only (GeoBox.from_bbox, overlap.get_scale_at_point); when one of them is not there
        # (moved / renamed) the spy records nothing for it and the callers skip what depends on the record
        self._fb_owner = next((k for k in GeoBox.__mro__ if "from_bbox" in k.__dict__), None)
        self._fb = self._fb_owner.__dict__["from_bbox"] if self._fb_owner is not None else None
        self._gs = getattr(ov, "get_scale_at_point", None)
        orig_fb = getattr(GeoBox, "from_bbox", None)
        spy = self

        def from_bbox(bbox, crs=None, **kw):
            if kw.get("shape") == (1, 1) and kw.get("tight") is True and spy.cp is None:
                g = orig_fb(bbox, crs, **kw)
                if spy.subst is not None:
                    g = GeoBox((1, 1), Affine(spy.subst[0], 0, g.affine.c, 0, -spy.subst[1], g.affine.f), g.crs)
                spy.cp = (g.resolution.x, g.resolution.y)
                return g
            spy.final = dict(bbox=bbox, crs=crs, **kw)
            return orig_fb(bbox, crs, **kw)

        def get_scale(pt, tr, r=None):
            out = spy._gs(pt, tr, r)
            if spy.subst is not None:
                out = self.mods[8](spy.subst[2], spy.subst[3])
            spy.scale = (out.x, out.y)
            return out

        if self._fb_owner is not None and orig_fb is not None:
            setattr(self._fb_owner, "from_bbox", staticmethod(from_bbox))
        if self._gs is not None:
            ov.get_scale_at_point = get_scale
        return self

    def __exit__(self, *a):
        ov = self.mods[2]
        if self._fb_owner is not None:
            setattr(self._fb_owner, "from_bbox", self._fb)
        if self._gs is not None:
            ov.get_scale_at_point = self._gs

    def fit_recorded(self) -> bool:
        return self.cp is not None and self.scale is not None


_FIT_PROBE = {}


def fit_interception_works(mods) -> bool:
    """probe (once per process and code tree): does a plain fit request run through the public names the spy patches"""
    Affine, GeoBox, ov = mods[0], mods[1], mods[2]
    key = id(ov)
    if key not in _FIT_PROBE:
        try:
            with Spy(mods) as spy:
                ov.compute_output_geobox(GeoBox((4, 5), Affine(0.25, 0, 14, 0, -0.25, 50), "EPSG:4326"), "EPSG:3857", resolution="fit")
            _FIT_PROBE[key] = spy.fit_recorded()
        except Exception:  # pylint: disable=broad-except
            _FIT_PROBE[key] = False
    return _FIT_PROBE[key]


def needs_fit(g, dst_crs, mode, shape) -> bool:
    """does this request take the centre-pixel fit (judged from the arguments and the axis definitions)"""
    if shape is not None:
        return False
    if mode == "fit":
        return True
    return mode == "auto" and not share_units(g.crs, dst_crs)


def call_cog(mods, g, crs, mode, shape, tight, anchor, tol, rnd, subst=None):
    Affine, GeoBox, ov, M, CRS, norm_crs, _pick, resxy_, xy_, AnchorEnum = mods
    rounded = []
    rr = rnd
    if callable(rnd):
        def rr(v, units):  # noqa: E306
            out = rnd(v, units)
            rounded.append(out)
            return out
    res = mode if not isinstance(mode, tuple) else resxy_(*mode)
    if isinstance(mode, tuple) and mode[1] == -mode[0] and _ARNG[0] is not None:
        # a number r means Resolution(r, -r) (res_): float, numpy float, int when integral, or the Resolution object
        forms = [resxy_(*mode), float(mode[0]), np.float64(mode[0])] + ([int(mode[0])] if float(mode[0]).is_integer() else [])
        res = _ARNG[0].choice(forms)
    with Spy(mods, subst) as spy:
        out = ov.compute_output_geobox(g, crs, resolution=res, shape=shape, tight=tight,
                                       anchor=anchor_py(anchor, xy_, AnchorEnum), tol=tol, round_resolution=rr)
    spy.rounded = rounded[0] if rounded else None
    return out, spy


def captured_line(mods, g, crs, mode, shape, tight, anchor, tol, rnd, spy):
    bbox = g.footprint(crs, buffer=0.9, npoints=100).boundingbox
    dst_crs = bbox.crs
    same_crs = dst_crs.proj == g.crs.proj  # pyproj equality, independent of odc-geo's CRS.__eq__ fast paths
    same_units = g.crs.units == dst_crs.units
    sr = g.resolution
    cp = spy.cp if spy.cp is not None else (1, -1)
    sc = spy.scale if spy.scale is not None else (1, 1)
    return (f"c11 out {bool_s(same_crs)} {bool_s(same_units)} {pair_s((sr.x, sr.y))} "
            f"{','.join(frac_s(v) for v in bbox.bbox)} {pair_s(cp)} {pair_s(sc)} {mode_s(mode)} {shape_s(shape)} "
            f"{bool_s(tight)} {anchor_s(anchor)} {frac_s(tol)} {rnd_s(rnd, spy.rounded)}"), bbox


def exact_cog_part(R: Run, mods):
    Affine, GeoBox, ov, M, CRS, norm_crs, _pick, resxy_, xy_, AnchorEnum = mods
    rng = R.rng
    anchors = ["default", "default", "edge", "edge", "center", "floating", (0.25, 0.75), (0.25, 0.25)]
    srcs = []
    for _ in range(R.pick(52, 900)):
        crs = rng.choice(["EPSG:32633", "EPSG:3857", "EPSG:4326", "EPSG:3577", "EPSG:6933", "ESRI:54009", "OGC:CRS84"])
        ny, nx = rng.randint(1, 60), rng.randint(1, 60)
        if crs in ("EPSG:4326", "OGC:CRS84"):
            r = rng.choice([0.25, 0.125, 2.0 ** -8])
            A = Affine(r, 0, 12 + rng.randint(0, 20) * r, 0, -r, 52 - rng.randint(0, 20) * r)
        elif crs == "EPSG:32633":
            r = rng.choice([30, 10, 64, 1024])
            A = Affine(r, 0, 399960 + 30 * rng.randint(0, 900), 0, -r, 5600040 - 30 * rng.randint(0, 900))
        elif crs == "EPSG:3577":
            r = rng.choice([25, 30, 256])
            A = Affine(r, 0, 1000000 + 25 * rng.randint(0, 999), 0, -r, -3000000 - 25 * rng.randint(0, 999))
        else:
            r = rng.choice([32, 10, 2048])
            A = Affine(r, 0, 1500000 + 32 * rng.randint(0, 999), 0, -r, 6500000 - 32 * rng.randint(0, 999))
        # not necessarily registered on the edge-aligned lattice: centre-registered and other dyadic sub-pixel offsets
        fx, fy = rng.choice([(0, 0), (0, 0), (0.5, 0.5), (0.25, 0.75), (0.5, 0)])
        A = Affine(A.a, 0, A.c + fx * r, 0, A.e, A.f + fy * r)
        k = rng.random()
        if k < 0.15:
            A = Affine(0, A.a, A.c, A.a, 0, A.f - 70 * r)  # exact 90-degree turned source
        elif k < 0.3:
            A = Affine(-A.a, 0, A.c + nx * r, 0, A.e, A.f)  # mirrored in x (what xx[:, ::-1] yields)
        elif k < 0.36:
            A = Affine(A.a, 0, A.c, 0, -A.e, A.f - ny * r)  # south-up
        srcs.append((GeoBox((ny, nx), A, mk_crs(rng, CRS, crs)), crs))
    for idx, (g, src_crs) in enumerate(srcs):
        if src_crs == "EPSG:3577":
            dsts = ["EPSG:3577", "EPSG:4326", "EPSG:3857", "utm"]
        elif src_crs in ("EPSG:4326", "OGC:CRS84"):
            dsts = ["EPSG:4326", "OGC:CRS84", "EPSG:3857", "EPSG:32633", "EPSG:6933", "ESRI:54009", "ESRI:54030"] + rng.sample(UTM_SPELLINGS, 3)
        else:
            dsts = (["EPSG:4326", "EPSG:3857", "EPSG:32633", "EPSG:6933", "OGC:CRS84", "ESRI:54009", src_crs, src_crs]
                    + rng.sample(UTM_SPELLINGS, 2))
        crs = rng.choice(dsts)
        if not crs.lower().startswith("utm") and rng.random() < 0.5:
            crs = mk_crs(rng, CRS, crs)
        k = rng.random()
        shape = None
        if k < 0.3:
            mode = "auto"
        elif k < 0.45:
            mode = "same"
        elif k < 0.65:
            mode = "fit"
        elif k < 0.9:
            r = rng.choice([16, 64, 0.25, 1024, 2.0 ** -6])
            mode = (r, -r) if rng.random() < 0.7 else (r, r * rng.choice([2, -0.5]))
        else:
            # spellings of the string options: only the exact lower-case words are accepted by the code
            mode = rng.choice(["bogus", "auto", "AUTO", "Fit", "Same", "auto ", "FIT"])
        if rng.random() < 0.12:
            shape = rng.choice([(3, 5), 7, (1, 1), 64])
        if idx < 12:
            # fixed corner of the option matrix: a shape request together with EVERY kind of resolution= (shape wins)
            shape = [(3, 5), 7, (2, 2)][idx % 3]
            mode = [(16.0, -16.0), "auto", "same", "fit", (0.25, -0.25), "AUTO"][idx % 6]
        tight = rng.random() < 0.15
        anchor = rng.choice(anchors)
        tol = rng.choice([0.01, 0.01, 0.125, 0.0])
        rnd = rng.choice([None, None, True, False, "fn"])
        if rnd == "fn":
            rnd = lambda v, units: float(2 ** math.ceil(math.log2(v)))  # noqa: E731
        # dyadic substitutes for the pyproj-derived centre-pixel fit (exact stream)
        subst = (2.0 ** rng.randint(-8, 10), 2.0 ** rng.randint(-8, 10), 2.0 ** rng.randint(-3, 3), 2.0 ** rng.randint(-3, 3))
        box = []
        cache_history(rng, g.crs, crs)

        def f():
            out, spy = call_cog(mods, g, crs, mode, shape, tight, anchor, tol, rnd, subst)
            box.append((out, spy))
            return "source" if out is g else grid_s(out)

        # the line needs what the spies saw: run first, then register
        real = None
        try:
            real = f()
        except Exception as e:  # pylint: disable=broad-except
            from .common import err_s

            real = err_s(e)
        spy = box[0][1] if box else Spy(mods, subst)
        if not box:
            # failed call: intermediates recorded up to the failure are unknown -> use substitutes
            spy.cp, spy.scale = (subst[0], -subst[1]), (subst[2], subst[3])
        try:
            line, bbox = captured_line(mods, g, crs, mode, shape, tight, anchor, tol, rnd, spy)
        except Exception:  # pylint: disable=broad-except
            continue
        if shape is not None and real and real.startswith("ERR"):
            R.oracle(False, "shape-request-raises", {"line": line},
                     f"shape={shape} with resolution={mode!r}: {real} (the resolution is documented as ignored when a shape is given)")
        if shape is not None and real and not real.startswith("ERR"):
            # span / n is not exact in doubles: shape requests are judged by the oracle (float stream)
            shape_oracle(R, shape, box[0][0], tight, anchor, {"line": line}, None, tol)
            continue
        sig = (f"out|{mode_s(mode).split(':')[0]}|{'same-crs' if ' T ' in line[:12] else 'x-crs'}|{anchor_s(anchor).split(':')[0]}"
               + ("|tight" if tight else "") + ("|rnd" if rnd is not None else ""))
        fit_path = not (box and box[0][0] is g) and mode_s(mode) != "bad" and needs_fit(g, bbox.crs, mode, shape)
        if fit_path and not (spy.fit_recorded() if box else fit_interception_works(mods)):
            # the centre-pixel fit ran but not through the public names the spy substitutes: the dyadic substitutes did
            # not (all) take effect, so the exact comparison has no meaning; the oracles below still judge the result
            R.count("exact:skipped-fit-not-intercepted")
            if not any("fit not intercepted" in n for n in R.notes):
                R.notes.append("fit not intercepted through GeoBox.from_bbox / overlap.get_scale_at_point: exact comparison of fit-mode "
                               "requests skipped, property oracles kept")
        else:
            R.corr(line, lambda: real, sig=sig)
        if box and not callable(rnd) and mode_s(mode) != "bad":
            # the property oracles on the exact stream as well (own-CRS fast-path corner, explicit anchors on sources
            # that are not aligned that way, ...)
            spec = crs if isinstance(crs, str) else str(crs)
            judge(R, mods, g, spec, mode, shape, tight, anchor, tol, rnd, box[0][0], box[0][1],
                  {"line": line, "class": "exact", "dst": spec, "anchor": anchor_s(anchor)}, None, None)
        if box and box[0][1].final is not None:
            # internal hand-over, not part of the property: recorded, never a violation
            fb = box[0][1].final.get("bbox")
            same = tuple(getattr(fb, "bbox", fb) or ()) == tuple(bbox.bbox)
            R.count("captured-bbox-consistent" if same else "captured-bbox-differs")



# ------------------------------------------------------------------ units, judged independently of odc-geo's CRS.units
def as_bb(b):
    """the bbox argument seen by the from_bbox spy, as an object with a `.bbox` 4-tuple (BoundingBox or plain sequence)"""
    import types

    if b is None:
        return None
    t = getattr(b, "bbox", b)
    try:
        t = tuple(float(v) for v in t)
    except Exception:  # pylint: disable=broad-except
        return None
    return types.SimpleNamespace(bbox=t, crs=getattr(b, "crs", None)) if len(t) == 4 else None


def close_rel(a, b, rel=1e-9) -> bool:
    return abs(a - b) <= rel * max(abs(a), abs(b))


def axis_units(pc):
    """unit names of the two horizontal axes of a pyproj CRS, order-free"""
    return tuple(sorted(str(a.unit_name) for a in pc.axis_info[:2]))


def share_units(a, b) -> bool:
    """do two CRSs (odc-geo wrappers) share units — read from the axis definitions with pyproj, not from CRS.units.
    Geographic CRSs share units with each other (angular; grads are not generated), never with projected ones."""
    pa, pb = a.proj, b.proj
    if pa.is_geographic or pb.is_geographic:
        return bool(pa.is_geographic and pb.is_geographic)
    return axis_units(pa) == axis_units(pb)


def axes_same_direction(c) -> bool:
    """both horizontal axes point the same way (polar stereographic CRSs: north/north or south/south)"""
    pc = c.proj
    d = [str(a.direction) for a in pc.axis_info[:2]]
    return pc.is_projected and len(d) == 2 and d[0] == d[1]


def units_key(base, *crss) -> str:
    return base + ("|axes-same-direction" if any(axes_same_direction(c) for c in crss) else "")


def units_part(R: Run, mods):
    """the same-units rule over the installed PROJ database: every distinct (axis abbreviation, direction, unit) pattern
    of the projected EPSG CRSs (scanned on every run) plus a per-run random sample, each paired with the UTM zone of
    its area of use, Web-Mercator and a database neighbour in the same unit — both directions.  Oracles: CRS.units
    equality agrees with the axis definitions; default resolution = source resolution iff units are shared."""
    import collections

    import pyproj
    from pyproj.database import query_crs_info
    from pyproj.enums import PJType

    Affine, GeoBox, ov, M, CRS, norm_crs, _pick, resxy_, xy_, AnchorEnum = mods
    rng = R.rng
    infos = [i for i in query_crs_info(auth_name="EPSG", pj_types=[PJType.PROJECTED_CRS]) if not i.deprecated and i.area_of_use is not None]
    pat = collections.defaultdict(list)
    unit_of, aou_of = {}, {}
    for i in infos:
        try:
            ai = pyproj.CRS.from_epsg(int(i.code)).axis_info[:2]
        except Exception:  # pylint: disable=broad-except
            continue
        code = int(i.code)
        pat["|".join(f"{a.abbrev}/{a.direction}/{a.unit_name}" for a in ai)].append(code)
        unit_of[code] = tuple(sorted(str(a.unit_name) for a in ai))
        aou_of[code] = i.area_of_use
    R.count("units:axis-patterns-in-proj-database", len(pat))
    R.count("units:projected-crs-scanned", len(unit_of))
    chosen = []
    for key in sorted(pat):
        codes = pat[key]
        chosen += [(c, "pattern") for c in rng.sample(codes, min(len(codes), R.pick(1, 3)))]
    allc = sorted(unit_of)
    chosen += [(c, "sample") for c in rng.sample(allc, R.pick(2, 160))]
    by_unit = collections.defaultdict(list)
    for c in allc:
        by_unit[unit_of[c]].append(c)

    def mk(code_or_spec, lon, lat, res=10.0):
        c = mk_crs(rng, CRS, code_or_spec if isinstance(code_or_spec, str) else f"EPSG:{code_or_spec}")
        cx, cy = pyproj.Transformer.from_crs("EPSG:4326", c.proj, always_xy=True).transform(lon, lat)
        if not (math.isfinite(cx) and math.isfinite(cy)):
            return None
        return GeoBox((40, 50), Affine(res, 0, round(cx / res) * res - 25 * res, 0, -res, round(cy / res) * res + 20 * res), c)

    for code, why in chosen:
        a = aou_of[code]
        if a.west > a.east:
            continue
        lon, lat = (a.west + a.east) / 2, (a.south + a.north) / 2
        partners = []
        if abs(lat) < 79:
            partners.append(f"EPSG:{utm_epsg(lon, lat)}")
        if abs(lat) < 75:
            partners.append("EPSG:3857")
        nb = [c for c in rng.sample(by_unit[unit_of[code]], min(40, len(by_unit[unit_of[code]])))
              if c != code and aou_of[c].west <= lon <= aou_of[c].east and aou_of[c].south <= lat <= aou_of[c].north]
        if nb:
            partners.append(f"EPSG:{nb[0]}")
        plist = (partners if why == "pattern" else partners[-1:] + partners[:1])[:3]
        if R.quick:
            plist = plist[:1]  # quick tier: one partner, both directions for the pattern representatives
        for pi, spec in enumerate(plist):
            for (s_spec, d_spec) in ((f"EPSG:{code}", spec), (spec, f"EPSG:{code}"))[:(1 if (R.quick and why == "sample") else 2)]:
                case = {"units": why, "src": s_spec, "dst": d_spec, "lonlat": [lon, lat]}
                try:
                    g = mk(s_spec, lon, lat)
                    if g is None:
                        continue
                    dc = mk_crs(rng, CRS, d_spec)
                    share = share_units(g.crs, dc)
                    R.oracle((g.crs.units == dc.units) == share, units_key("units-agree-with-axis-definitions", g.crs, dc), case,
                             f"CRS.units {g.crs.units} vs {dc.units} (equal: {g.crs.units == dc.units}) but the axis definitions say "
                             f"{axis_units(g.crs.proj)} vs {axis_units(dc.proj)}", sig=f"units|{why}|{'shared' if share else 'different'}")
                    dst_arg = rng.choice([d_spec, dc, int(d_spec.split(":")[1])])
                    out = ov.compute_output_geobox(g, dst_arg) if rng.random() < 0.5 else g.to_crs(dst_arg)
                except Exception as e:  # pylint: disable=broad-except
                    if type(e).__name__ == "ProjError" or "nan" in repr(e).lower() or "inf" in repr(e).lower():
                        R.count("units:skipped-no-transformation-available")  # PROJ grid files not installed, ...
                        continue
                    R.oracle(False, "compute-output-raises", case, f"{type(e).__name__}: {e}")
                    continue
                A, sr = out.affine, g.resolution
                if share:
                    R.oracle(close_rel(A.a, sr.x) and close_rel(A.e, sr.y) and A.b == 0 and A.d == 0, units_key("same-units-resolution", g.crs, dc), case,
                             f"both CRSs are in {axis_units(dc.proj)}: source resolution {sr.x},{sr.y} but output {A.a},{A.e}",
                             sig=f"units|{why}|shared")
                else:
                    R.oracle(A.a > 0 and A.e == -A.a, "fit-positive-square", case, f"output pixel {A.a},{A.e}", sig=f"units|{why}|different")



# ------------------------------------------------------------------ glue: argument dispatch of CRS.utm / norm_crs, centre-pixel box
def glue_part(R: Run, mods):
    """argument forms around the modelled core: (1) CRS.utm(x[, y]) / CRS.utm(XY) / CRS.utm(BoundingBox) / CRS.utm(Geometry)
    — the area of interest handed to pyproj's database query (intercepted at the pyproj boundary) is the model's box;
    (2) norm_crs / norm_crs_or_error on CRS objects, None, Unset, strings, EPSG ints, junk, 'utm*' without a context;
    (3) the centre-pixel estimate: resolution of from_bbox(cp_bbox, shape=(1,1), tight=True) is the span of the box."""
    import pyproj.database as pdb
    from odc.geo import geom
    from odc.geo.geom import BoundingBox
    from odc.geo.types import Unset

    Affine, GeoBox, ov, M, CRS, norm_crs, _pick, resxy_, xy_, AnchorEnum = mods
    from odc.geo.crs import norm_crs_or_error

    rng = R.rng
    orig = pdb.query_utm_crs_info
    rec = []

    def spy(*a, **kw):
        rec.append(kw.get("area_of_interest", a[1] if len(a) > 1 else None))
        return orig(*a, **kw)

    def bb_s(b):
        return ",".join(frac_s(v) for v in b)

    pdb.query_utm_crs_info = spy
    try:
        for _ in range(R.pick(14, 140)):
            lon = rng.randint(-170 * 4, 170 * 4) / 4
            lat = rng.randint(-70 * 4, 75 * 4) / 4
            w, h = rng.choice([0.25, 0.5, 2.0]), rng.choice([0.25, 1.0])
            kind = rng.choice(["bbox", "geomcrs", "geom", "num", "numy", "xy", "int"])
            if kind == "bbox":
                arg, line = (BoundingBox(lon, lat, lon + w, lat + h),), f"c11 utmarg bbox {bb_s((lon, lat, lon + w, lat + h))} N"
            elif kind == "geom":
                arg, line = (geom.box(lon, lat, lon + w, lat + h, None),), f"c11 utmarg geom {bb_s((lon, lat, lon + w, lat + h))} 0,0,0,0"
            elif kind == "geomcrs":
                src = rng.choice(["EPSG:4326", "EPSG:3857"])
                gm = geom.box(lon, lat, lon + w, lat + h, "EPSG:4326").to_crs(src)
                ll = gm.to_crs("epsg:4326").boundingbox  # the pyproj part, captured
                arg, line = (gm,), f"c11 utmarg geomcrs {bb_s(gm.boundingbox.bbox)} {bb_s(ll.bbox)}"
            elif kind == "num":
                arg, line = (lon,), f"c11 utmarg num {frac_s(lon)} N"
            elif kind == "int":
                arg, line = (int(lon),), f"c11 utmarg num {int(lon)} N"
            elif kind == "numy":
                arg, line = (lon, lat), f"c11 utmarg numy {frac_s(lon)} {frac_s(lat)}"
            else:
                arg, line = (xy_(lon, lat),), f"c11 utmarg xy {frac_s(lon)} {frac_s(lat)}"

            def f():
                rec.clear()
                CRS.utm(*arg)
                a = rec[-1]
                return bb_s((a.west_lon_degree, a.south_lat_degree, a.east_lon_degree, a.north_lat_degree))

            R.corr(line, f, sig=f"utmarg|{kind}")
    finally:
        pdb.query_utm_crs_info = orig
    # norm_crs dispatch
    pool = [("obj", CRS("EPSG:4326"), "x", 4326), ("obj", CRS("EPSG:32633"), "x", 32633), ("none", None, "x", None), ("unset", Unset(), "x", None),
            ("str", "EPSG:3857", "EPSG:3857", 3857), ("str", "epsg:32755", "epsg:32755", 32755), ("str", "bogus", "bogus", None),
            ("str", "utm", "utm", None), ("str", "UTM-N", "UTM-N", None), ("str", "utmost", "utmost", None), ("str", "Utm-s", "Utm-s", None),
            ("other", 3857, "x", 3857), ("other", 4326, "x", 4326), ("other", {"init": "junk"}, "x", None), ("other", 999999, "x", None)]
    for kind, arg, raw, parsed in pool:
        for ctx in (False, True):
            for orerr in (False, True):
                if ctx and kind == "str" and raw.lower().startswith("utm"):
                    continue  # resolved through CRS.utm(ctx): stream `utmtxt`
                fn = norm_crs_or_error if orerr else norm_crs

                def f():
                    r = fn(arg, geom.box(15, 47, 15.5, 47.25, "EPSG:4326")) if ctx else fn(arg)
                    if r is None:
                        return "none"
                    if kind == "obj" and r is not arg:
                        return "copy"
                    return f"crs:{r.epsg}"

                R.corr(f"c11 normcrs {kind} {raw} {opt_s(parsed)} {bool_s(ctx)} {bool_s(orerr)}", f, sig=f"normcrs|{kind}")
    # centre-pixel estimate through the public from_bbox
    for _ in range(R.pick(40, 400)):
        l, b = rng.randint(-4000, 4000) / 8, rng.randint(-4000, 4000) / 8
        w, h = rng.randint(0, 64) / 8, rng.randint(0, 64) / 8
        bb = (l, b, l + w, b + h)

        def f():
            g = GeoBox.from_bbox(bb, "EPSG:3857", shape=(1, 1), tight=True)
            return pair_s((g.resolution.x, g.resolution.y))

        R.corr(f"c11 cpres {bb_s(bb)}", f, sig="cpres|" + ("degenerate" if w == 0 or h == 0 else "plain"))



def gcp_source_part(R: Run, mods):
    """GCPGeoBox sources: compute_output_geobox never hands the source back (it is not a GeoBox), own CRS with default
    options included; the grid is the one the model computes from the captured footprint box."""
    from odc.geo.gcp import GCPGeoBox, GCPMapping

    Affine, GeoBox, ov, M, CRS, norm_crs, _pick, resxy_, xy_, AnchorEnum = mods
    rng = R.rng
    for _ in range(R.pick(16, 160)):
        ny, nx = rng.choice([4, 6, 9]), rng.choice([5, 8, 10])
        crs = rng.choice(["EPSG:4326", "EPSG:32633"])
        pix = [(x, y) for x in (0.0, nx * 0.5 + 0.25, float(nx)) for y in (0.0, ny * 0.25 + 0.125, float(ny))]
        if crs == "EPSG:4326":
            wld = [(14 + 0.25 * x + 0.03125 * y, 50 - 0.25 * y + 0.0625 * x) for x, y in pix]
        else:
            wld = [(500000 + 1024 * x + 128 * y, 5500000 - 1024 * y + 256 * x) for x, y in pix]
        g = GCPGeoBox((ny, nx), GCPMapping(np.asarray(pix, dtype="float64"), np.asarray(wld, dtype="float64"), crs))
        dst = crs if rng.random() < 0.6 else rng.choice(["EPSG:3857", "EPSG:4326", "EPSG:32633"])
        mode = rng.choice(["auto", "auto", "same", (1024.0, -1024.0) if crs != "EPSG:4326" or dst != crs else (0.25, -0.25)])
        if mode == "same" and not share_units(g.crs, CRS(dst)):
            mode = "auto"
        anchor = rng.choice(["default", "default", "center", "floating"])
        tight = rng.random() < 0.2
        tol = rng.choice([0.01, 0.0, 0.125])
        subst = (2.0 ** rng.randint(-4, 12), 2.0 ** rng.randint(-4, 12), 2.0 ** rng.randint(-1, 1), 2.0 ** rng.randint(-1, 1))
        case = {"gcp-source": True, "shape": [ny, nx], "crs": crs, "dst": dst, "mode": str(mode), "anchor": anchor, "tight": tight, "tol": tol}
        try:
            out, spy = call_cog(mods, g, dst, mode, None, tight, anchor, tol, None, subst)
        except Exception as e:  # pylint: disable=broad-except
            R.oracle(False, "compute-output-raises", case, f"GCP source: {type(e).__name__}: {e}")
            continue
        R.oracle(out is not g and isinstance(out, GeoBox), "gcp-source-gives-geobox", case,
                 f"compute_output_geobox(GCPGeoBox, {dst}) returned {type(out).__name__}{' (the source itself)' if out is g else ''}")
        if not isinstance(out, GeoBox):
            continue
        try:
            line, bbox = captured_line(mods, g, dst, mode, None, tight, anchor, tol, None, spy)
        except Exception:  # pylint: disable=broad-except
            continue
        line = line.replace("c11 out ", "c11 outany F ", 1)
        if needs_fit(g, bbox.crs, mode, None) and not spy.fit_recorded():
            R.count("exact:skipped-fit-not-intercepted")
            continue
        # the source resolution of a GCP box is an estimate in doubles: compare the grid only when it does not enter
        if mode == "same" or (mode == "auto" and share_units(g.crs, bbox.crs)):
            A = out.affine
            sr = g.resolution
            R.oracle(close_rel(A.a, sr.x) and close_rel(A.e, sr.y), "same-units-resolution", case, f"source resolution {sr.xy} output {A.a},{A.e}")
            continue
        R.corr(line, lambda: grid_s(out), sig=f"outany|gcp|{'own-crs' if dst == crs else 'x-crs'}|{mode_s(mode).split(':')[0]}")



def shape_corner_part(R: Run, mods):
    """the own-CRS x explicit shape x default-anchor corner, on EVERY run (fixed matrix): next to the identity fast path
    (own CRS, resolution auto / same, default anchor) a shape request — tuple or single integer, equal to the source's
    shape or not, tight or not — must give a grid of THAT shape / longest side, never the source handed back.
    Tuple shapes: exact correspondence of the outcome (`source` or the shape; op `outshape`) + oracle; integer
    shapes: oracle (n, or n + 1 under the known finding int-shape-longest-side-plus-one)."""
    Affine, GeoBox, ov, M, CRS, norm_crs, _pick, resxy_, xy_, AnchorEnum = mods
    rng = R.rng
    srcs = [GeoBox((6, 9), Affine(1024, 0, 400000, 0, -1024, 5600000), "EPSG:32633"),
            GeoBox((7, 4), Affine(0.25, 0, 14, 0, -0.25, 50), "EPSG:4326"),
            GeoBox((5, 5), Affine(-2048, 0, 1600000 + 5 * 2048, 0, -2048, 6500000), "EPSG:3857")]
    for g in srcs:
        ny, nx = g.shape
        spec = f"EPSG:{g.crs.epsg}"
        shapes = [(3, 5), (ny, nx), (ny + 2, nx), (nx, ny), 7, max(ny, nx), max(ny, nx) + 3, 1]
        for mode in ("auto", "same"):
            for shape in shapes:
                for tight in (False, True):
                    dst_arg = rng.choice([spec, spec.lower(), g.crs, int(spec.split(":")[1]), mk_crs(rng, CRS, spec)])
                    via_to_crs = rng.random() < 0.3
                    case = {"shape-corner": True, "src": f"{tuple(g.shape)} {tuple(g.affine)[:6]} {spec}", "dst": spec, "mode": mode,
                            "shape": shape, "tight": tight, "anchor": "default", "tol": TOL_DEFAULT, "how": type(dst_arg).__name__}
                    try:
                        if via_to_crs:
                            with Spy(mods) as spy:
                                out = g.to_crs(dst_arg, resolution=mode, shape=shape, tight=tight)
                        else:
                            out, spy = call_cog(mods, g, dst_arg, mode, shape, tight, "default", TOL_DEFAULT, None)
                    except Exception as e:  # pylint: disable=broad-except
                        R.oracle(False, "shape-request-raises", case, f"shape={shape} resolution={mode!r} on the own CRS: {type(e).__name__}: {e}")
                        continue
                    sig = f"shape-corner|{'tuple' if isinstance(shape, tuple) else 'int'}|{mode}" + ("|tight" if tight else "")
                    want_same = tuple(g.shape) == shape if isinstance(shape, tuple) else max(g.shape) == shape
                    R.oracle(out is not g or want_same, "shape-request-returns-source", case,
                             f"own CRS, resolution={mode!r}, shape={shape}: the source GeoBox {tuple(g.shape)} came back unchanged", sig=sig)
                    if out is not g or not want_same:
                        shape_oracle(R, shape, out, tight, "default", case, sig, TOL_DEFAULT)
                    if isinstance(shape, tuple):
                        try:
                            line, _ = captured_line(mods, g, spec, mode, shape, tight, "default", TOL_DEFAULT, None, spy)
                        except Exception:  # pylint: disable=broad-except
                            continue
                        real = "source" if out is g else f"{out.shape[0]} {out.shape[1]}"
                        R.corr(line.replace("c11 out ", "c11 outshape ", 1), lambda real=real: real, sig=sig)



def lookalike_part(R: Run, mods):
    """look-alike custom CRSs: near-copies of registry definitions (same name, same method, a shifted central meridian /
    origin / false easting, no authority code) as source or destination next to the registry CRS they resemble, with the
    `.epsg` of the custom wrapper already read (xr_zeros / wrap_xr / repr do that) or not.  Judged by pyproj equality
    (they are different CRSs: the source must not come back) and by the projected-pixel enclosure oracle."""
    import pyproj

    Affine, GeoBox, ov, M, CRS, norm_crs, _pick, resxy_, xy_, AnchorEnum = mods
    rng = R.rng
    pool = [(3035, 10.0, 52.0), (32633, 15.0, 47.0), (32755, 147.0, -35.0), (3577, 134.0, -25.0), (5070, -96.0, 38.0), (2193, 173.0, -41.0),
            (3857, 12.0, 45.0)]

    def lookalike(code, how):
        d = pyproj.CRS.from_epsg(code).to_json_dict()
        d.pop("id", None)
        d.get("conversion", {}).pop("id", None)
        for prm in d["conversion"]["parameters"]:
            nm = prm["name"].lower()
            if how == "meridian" and ("longitude of natural origin" in nm or "longitude of false origin" in nm or "longitude of projection centre" in nm):
                prm["value"] = prm["value"] + rng.choice([0.5, 1.5, -1.0])
            if how == "easting" and ("false easting" in nm or "easting at false origin" in nm):
                prm["value"] = prm["value"] + rng.choice([1000.0, 250000.0])
        return pyproj.CRS.from_json_dict(d)

    for _ in range(R.pick(10, 120)):
        code, lon, lat = rng.choice(pool)
        how = rng.choice(["meridian", "meridian", "easting"])
        try:
            lc = lookalike(code, how)
            if lc == pyproj.CRS.from_epsg(code):
                continue
            wkt = lc.to_wkt()
        except Exception:  # pylint: disable=broad-except
            continue
        reg = f"EPSG:{code}"
        custom_is_src = rng.random() < 0.7
        epsg_read = rng.random() < 0.75
        s_spec, d_spec = (wkt, reg) if custom_is_src else (reg, wkt)
        try:
            sc = mk_crs(rng, CRS, s_spec, epsg_read if custom_is_src else None)
            g = make_source(R, mods, lon + rng.uniform(-1, 1), lat + rng.uniform(-1, 1), sc, rng.choice([4e4, 2e5]), rng.choice([40, 120]), False)
            if custom_is_src and epsg_read and rng.random() < 0.5:
                from odc.geo import xr as oxr

                oxr.xr_zeros(g, dtype="uint8")  # the usual way a wrapper gets its code looked up
            dst_arg = d_spec if rng.random() < 0.5 else mk_crs(rng, CRS, d_spec, epsg_read if not custom_is_src else None)
        except Exception:  # pylint: disable=broad-except
            continue
        mode = rng.choice(["auto", "auto", "same", "fit"])
        case = {"src": f"{tuple(g.shape)} {tuple(g.affine)[:6]} {'look-alike of ' + reg if custom_is_src else reg} ({how})",
                "dst": (reg if custom_is_src else f"look-alike of {reg}"), "mode": mode, "shape": None, "tight": False, "anchor": "default",
                "tol": 0.01, "round": None, "class": "look-alike", "epsg_read": epsg_read, "custom_wkt": wkt[:400]}
        try:
            out, spy = call_cog(mods, g, dst_arg, mode, None, False, "default", 0.01, None)
        except Exception as e:  # pylint: disable=broad-except
            R.oracle(False, "compute-output-raises", case, f"{type(e).__name__}: {e}")
            continue
        judge(R, mods, g, d_spec, mode, None, False, "default", 0.01, None, out, spy, case, None, None)


# ------------------------------------------------------------------ utm / pick_best
def utm_part(R: Run, mods):
    Affine, GeoBox, ov, M, CRS, norm_crs, _pick, resxy_, xy_, AnchorEnum = mods
    from odc.geo import geom

    rng = R.rng
    for _ in range(R.pick(8, 120)):
        lon = rng.uniform(-179, 179)
        lat = rng.uniform(-79, 83)
        if 56 <= lat <= 64 and 0 <= lon <= 13 or lat >= 72 and 0 <= lon <= 42:
            continue  # Norway / Svalbard exceptions: still UTM, fine, but keep the zone formula simple
        w = rng.choice([0.01, 0.2, 1.0])
        poly = geom.box(lon, lat, min(lon + w, 180), min(lat + w, 84), "EPSG:4326")
        base = CRS.utm(poly)
        south = base.proj.utm_zone.endswith("S")
        for raw in ["utm", "utm-n", "utm-s"] + rng.sample(UTM_SPELLINGS[3:] + ["utm-x", "UTMN", "utm-"], R.pick(1, 3)):
            req = raw.lower() if raw.lower() in ("utm", "utm-n", "utm-s") else "utm"
            got = []

            def f():
                c = norm_crs(raw, poly)
                got.append(c)
                return str(c.epsg)

            # every spelling: which request the text is (case-insensitive; unknown suffixes behave like plain utm)
            R.corr(f"c11 utmtxt {raw} {base.epsg} {bool_s(south)}", f, sig=f"utm|{req}|{'S' if south else 'N'}" + ("" if raw == req else "|spelling"))
            if got and raw.lower() in ("utm", "utm-n", "utm-s"):
                c = got[0]
                zone = int(base.proj.utm_zone[:-1])
                want = (32700 if (req == "utm-s" or (req == "utm" and south)) else 32600) + zone
                R.oracle(c.epsg == want, "utm-hemisphere", {"req": req, "lon": lon, "lat": lat},
                         f"{req} at lon={lon:.3f} lat={lat:.3f} gave EPSG:{c.epsg}, expected EPSG:{want}")
                ctr_zone = int((lon + w / 2 + 180) // 6) + 1
                R.oracle(abs(zone - ctr_zone) <= 1 or abs(zone - ctr_zone) == 59, "utm-zone-covers", {"lon": lon, "lat": lat},
                         f"zone {zone} for lon {lon:.3f}")
                if req == "utm":
                    vr = c.valid_region
                    R.oracle(vr is None or (vr & poly).area > 0, "utm-valid-area-overlap", {"lon": lon, "lat": lat},
                             f"valid region of EPSG:{c.epsg} does not overlap the raster")
    # _pick_best_crs with real candidates: compare with the model given the overlap fractions
    if _pick is None:
        R.notes.append("odc.geo.crs._pick_best_crs (private helper) not found: its direct correspondence stream is skipped; "
                       "the UTM choice stays covered through norm_crs / CRS.utm / compute_output_geobox('utm*')")
    for _ in range(R.pick(30, 400) if _pick is not None else 0):
        lon = rng.uniform(-170, 170)
        lat = rng.uniform(-70, 70)
        w = rng.choice([0.0, 1e-5, 1e-5, 1.0, 4.0, 9.0])
        if w <= 1e-5 and rng.random() < 0.7:
            lon = -180 + 6 * rng.randint(1, 59) + rng.choice([-1, 1]) * rng.choice([2e-6, 1e-4])  # next to a zone boundary
        poly = geom.box(lon, lat, lon + w, lat + (rng.choice([0.5, 2.0]) if w >= 1 else w), "EPSG:4326")
        z = int((lon + 180) // 6) + 1
        zones = sorted({max(1, min(60, z + d)) for d in rng.sample([-1, 0, 1, 2], rng.randint(0, 3))})
        rng.shuffle(zones)
        cands = [CRS(f"EPSG:{(32600 if lat >= 0 else 32700) + zz}") for zz in zones]
        ovl = []
        big = poly.area > 1e-9
        for c in cands:
            # the ranking key: overlap fraction, or for point-like polygons whether the valid region contains the location
            ovl.append(Fraction((c.valid_region & poly).area / poly.area) if big
                       else Fraction(1 if c.valid_region.contains(poly.centroid) else 0))
        line = f"c11 pick {list_s([f'{c.epsg};{frac_s(o)}' for c, o in zip(cands, ovl)])} {bool_s(big)}"
        R.corr(line, lambda: str(_pick(poly, list(cands)).epsg), sig=f"pick|n{len(cands)}")
        if cands:
            try:
                best = _pick(poly, list(cands))
                if len(cands) > 1:
                    R.oracle(all(ovl[cands.index(best)] >= o for o in ovl), "pick-best-max-overlap", {"line": line},
                             f"picked EPSG:{best.epsg} with overlap {float(ovl[cands.index(best)]):.3f}, max is {float(max(ovl)):.3f}")
            except Exception as e:  # pylint: disable=broad-except
                R.oracle(False, "pick-best-raises", {"line": line}, repr(e))


# ------------------------------------------------------------------ float stream: real CRS pairs, pyproj oracle
def utm_epsg(lon, lat):
    return (32600 if lat >= 0 else 32700) + int((lon + 180) // 6) + 1


def make_source(R, mods, lon, lat, src_crs, extent_m, n_pix, rotated):
    """source GeoBox centred near (lon, lat), roughly `extent_m` metres wide, `n_pix` pixels wide"""
    from pyproj import Transformer

    Affine, GeoBox = mods[0], mods[1]
    proj = src_crs.proj if hasattr(src_crs, "proj") else src_crs
    tr = Transformer.from_crs("EPSG:4326", proj, always_xy=True)
    cx, cy = tr.transform(lon, lat)
    if (src_crs.geographic if hasattr(src_crs, "geographic") else src_crs == "EPSG:4326"):
        span = extent_m / 111000.0
    else:
        span = extent_m
    res = span / n_pix
    rng = R.rng
    res = float(f"{res:.3g}") if rng.random() < 0.7 else res
    ny = max(1, int(n_pix * rng.choice([1, 0.6, 1.5])))
    A = Affine.translation(cx - res * n_pix / 2, cy + res * ny / 2) * Affine.scale(res, -res)
    if rotated == "tiny":
        # tiny but non-zero rotation: off-diagonal terms 1e-14 .. 1e-4 around the tolerance of is_affine_st
        off = 10 ** rng.uniform(-14, -4)
        ang = math.degrees(min(off / res, 0.2)) * rng.choice([1, -1])
        A = Affine.translation(cx, cy) * Affine.rotation(ang) * Affine.translation(-res * n_pix / 2, res * ny / 2) * Affine.scale(res, -res)
    elif rotated == "mirror":
        A = Affine.translation(cx + res * n_pix / 2, cy + res * ny / 2) * Affine.scale(-res, -res)
    elif rotated:
        A = Affine.translation(cx, cy) * Affine.rotation(rng.uniform(-40, 40)) * Affine.translation(-res * n_pix / 2, res * ny / 2) * Affine.scale(res, -res)
    return GeoBox((ny, n_pix), A, src_crs)


_CHURN = [0]


def laea_def(lon0, lat0, wkt=False):
    """an ad-hoc (non-EPSG) CRS definition, e.g. a per-tile LAEA; as proj string or as WKT without ids"""
    txt = f"+proj=laea +lat_0={lat0:.4f} +lon_0={lon0:.4f} +x_0=0 +y_0=0 +datum=WGS84 +units=m +no_defs +type=crs"
    if wkt:
        import pyproj

        return pyproj.CRS.from_user_input(txt).to_wkt()
    return txt


def crs_churn(R: Run, mods, n):
    """CRS-construction churn between requests: `n` distinct ad-hoc definitions, each used once (so that
    transformers get cached for them), none kept by the harness"""
    from odc.geo import geom

    CRS = mods[4]
    for _ in range(n):
        i = _CHURN[0]
        _CHURN[0] += 1
        lat0 = -62 + (i * 0.3701) % 124
        lon0 = -172 + (i * 1.1303) % 344
        c = CRS(laea_def(lon0, lat0))
        try:
            geom.point(lon0 + 0.1, lat0 + 0.1, "EPSG:4326").to_crs(c)
            if i % 3 == 0:
                geom.point(10.0, 20.0, c).to_crs("EPSG:3857")
        except Exception:  # pylint: disable=broad-except
            pass
    R.count("history:crs-churn-definitions", n)


def crs_pool(rng, lon, lat, u, aus):
    epsg = ["EPSG:4326", "EPSG:3857", "EPSG:6933", f"EPSG:{u}"] + (["EPSG:3577"] if aus else [])
    non = ["OGC:CRS84", "ESRI:54009", "ESRI:54030",
           laea_def(lon + rng.uniform(-3, 3), lat + rng.uniform(-3, 3)),
           laea_def(lon + rng.uniform(-3, 3), lat + rng.uniform(-3, 3), wkt=True)]
    return epsg, non


def mk_crs(rng, CRS, spec, state=None):
    """CRS wrapper in a chosen lazy state: `.epsg` already read or not"""
    c = CRS(spec)
    if state if state is not None else rng.random() < 0.5:
        _ = c.epsg
    return c


UTM_SPELLINGS = ["utm", "utm-n", "utm-s", "UTM", "Utm", "UTM-N", "utm-N", "Utm-n", "UTM-S", "utm-S", "Utm-S", "uTm-s"]


def nonepsg_part(R: Run, mods):
    """non-EPSG CRSs (OGC:CRS84, ESRI:54009/54030, ad-hoc proj strings, WKT without ids) as source AND target,
    in every lazy-state combination of the two CRS wrappers"""
    Affine, GeoBox, ov, M, CRS, norm_crs, _pick, resxy_, xy_, AnchorEnum = mods
    rng = R.rng
    combos = []
    for _ in range(R.pick(7, 120)):
        lon, lat = rng.uniform(-150, 150), rng.uniform(-55, 60)
        _, non = crs_pool(rng, lon, lat, utm_epsg(lon, lat), False)
        a, b = rng.choice(non), rng.choice(non + ["EPSG:3857", "EPSG:4326"])
        if rng.random() < 0.15:
            b = a
        for sa in (False, True):
            for sb in (False, True):
                combos.append((lon, lat, a, b, sa, sb))
    for lon, lat, a, b, sa, sb in combos:
        sc = mk_crs(rng, CRS, a, sa)
        extent, npx = rng.choice([(4e4, 40), (3e5, 120), (1.5e6, 200)])
        try:
            g = make_source(R, mods, lon, lat, sc, extent, npx, rng.choice([False, False, True]))
        except Exception:  # pylint: disable=broad-except
            continue
        if not source_inside(g, a, b, False):
            R.count("float:skipped-outside-area-of-use")
            continue
        dc = mk_crs(rng, CRS, b, sb)
        mode = rng.choice(["auto", "auto", "fit", "same"]) if sc.units == dc.units else rng.choice(["auto", "fit"])
        anchor = rng.choice(["default", "default", "center", "floating"])
        tol = rng.choice([0.01, 0.0, 0.05])
        case = {"src": f"{tuple(g.shape)} {tuple(g.affine)[:6]} {a}", "dst": b, "mode": mode, "shape": None, "tight": False,
                "anchor": anchor, "tol": tol, "round": None, "class": "non-epsg", "epsg_read": [sa, sb], "lonlat": [lon, lat]}
        try:
            out, spy = call_cog(mods, g, dc, mode, None, False, anchor, tol, None)
        except Exception as e:  # pylint: disable=broad-except
            R.oracle(False, "compute-output-raises", case, f"{type(e).__name__}: {e}")
            continue
        judge(R, mods, g, b, mode, None, False, anchor, tol, None, out, spy, case, lon, lat)


def source_inside(g, src_crs, dst, utm_involved) -> bool:
    """is the whole source (a 13x13 lattice over it) inside the areas of use of both CRSs"""
    from pyproj import Transformer

    try:
        sny, snx = g.shape
        X, Y = np.meshgrid(np.linspace(0, snx, 13), np.linspace(0, sny, 13))
        sa = g.affine
        ll = Transformer.from_crs(g.crs.proj, "EPSG:4326", always_xy=True).transform(
            (sa.a * X + sa.b * Y + sa.c).ravel(), (sa.d * X + sa.e * Y + sa.f).ravel())
        lons, lats = np.asarray(ll[0]), np.asarray(ll[1])
        inside = (np.isfinite(lons).all() and np.isfinite(lats).all() and np.abs(lats).max() < (79 if utm_involved else 83)
                  and np.abs(lons).max() < 179 and (not utm_involved or lons.max() - lons.min() < 14))
        if src_crs == "EPSG:6933" or dst == "EPSG:6933":
            inside = inside and np.abs(lats).max() < 80
        if "laea" in src_crs.lower() or "laea" in dst.lower() or "Lambert_Azimuthal" in src_crs + dst:
            inside = inside and (lats.max() - lats.min() < 40) and (lons.max() - lons.min() < 60)
        return bool(inside)
    except Exception:  # pylint: disable=broad-except
        return False


def float_part(R: Run, mods):
    from pyproj import Transformer

    Affine, GeoBox, ov, M, CRS, norm_crs, _pick, resxy_, xy_, AnchorEnum = mods
    rng = R.rng
    anchors = ["default", "default", "default", "edge", "center", "floating", (0.3, 0.6), (0.3, 0.3)]
    for it in range(R.pick(28, 600)):
        aus = rng.random() < 0.2
        if aus:
            lon, lat = rng.uniform(118, 148), rng.uniform(-38, -15)
        else:
            lon, lat = rng.uniform(-165, 165), rng.uniform(-62, 68)
        u = utm_epsg(lon, lat)
        # extents: tile ... continental; UTM-related pairs stay within a zone's neighbourhood
        cls = rng.choice(["tile", "tile", "region", "continental"])
        if it % 30 == 15:
            crs_churn(R, mods, R.pick(40, 120))
        pool_e, pool_n = crs_pool(rng, lon, lat, u, aus)
        src_crs = rng.choice(pool_e + pool_e + pool_n)
        dst = rng.choice(pool_e + pool_n + rng.sample(UTM_SPELLINGS, 4))
        utm_involved = src_crs == f"EPSG:{u}" or dst.lower().startswith("utm") or dst == f"EPSG:{u}"
        if cls == "tile":
            extent, npx = rng.uniform(2e3, 1.2e5), rng.choice([1, 3, 64, 200, 512, 1000])
        elif cls == "region":
            extent, npx = rng.uniform(1.2e5, 4e5), rng.choice([50, 300, 1200])
        else:
            extent, npx = rng.uniform(1.0e6, 3.5e6), rng.choice([100, 400, 1500])
            if utm_involved:
                extent = rng.uniform(2e5, 5e5)
            if aus and (src_crs == "EPSG:3577" or dst == "EPSG:3577"):
                extent = min(extent, 1.5e6)
        # keep everything inside both areas of use
        half_deg = extent / 111000.0 / 2 * 1.6
        if abs(lat) + half_deg > (78 if utm_involved else 82):
            continue
        if abs(lon) + half_deg / max(0.2, math.cos(math.radians(abs(lat) + half_deg))) > 178:
            continue
        rotated = rng.choice([False, False, False, True, True, "mirror", "tiny"])
        try:
            g = make_source(R, mods, lon, lat, mk_crs(rng, CRS, src_crs), extent, npx, rotated)
        except Exception:  # pylint: disable=broad-except
            continue
        # the whole source (not just its centre) must lie inside the areas of use of both CRSs
        inside = source_inside(g, src_crs, dst, utm_involved)
        if not inside:
            R.count("float:skipped-outside-area-of-use")
            continue
        k = rng.random()
        shape = None
        if k < 0.4:
            mode = "auto"
        elif k < 0.55:
            mode = "fit"
        elif k < 0.65:
            mode = "same" if (CRS(src_crs).units == CRS(dst if not dst.lower().startswith("utm") else f"EPSG:{u}").units) else "fit"
        elif k < 0.85:
            mode = "explicit"
        else:
            mode = "auto"
            shape = rng.choice([(37, 91), 100, 257, (1, 1), 13])
        tight = rng.random() < 0.15
        anchor = rng.choice(anchors)
        tol = rng.choice([0.01, 0.01, 0.05, 0.0, 0.3])
        rnd = rng.choice([None, None, None, True])
        case = {"src": f"{tuple(g.shape)} {tuple(g.affine)[:6]} {src_crs}", "dst": dst, "mode": mode, "shape": shape,
                "tight": tight, "anchor": anchor_s(anchor), "tol": tol, "round": rnd, "class": cls}
        # the destination is given as a string or as a CRS wrapper whose `.epsg` was / was not read before
        is_utm = dst.lower().startswith("utm")
        dst_arg = dst if (is_utm or rng.random() < 0.4) else mk_crs(rng, CRS, dst)
        try:
            if mode == "explicit":
                out0 = ov.compute_output_geobox(g, dst)
                r = abs(out0.resolution.x) * rng.choice([1, 0.5, 3.7, 10])
                mode_arg = (r, -r) if rng.random() < 0.8 else (r, r)
                case["mode"] = f"explicit {mode_arg}"
            else:
                mode_arg = mode
            if rnd is True and (not is_utm and CRS(dst).geographic):
                rnd = None  # rounding degrees to whole numbers gives a zero pixel size: not a sensible request
                case["round"] = None
            # process-global cache histories user code may have created for this CRS pair
            cache_history(rng, g.crs, dst if not is_utm else f"EPSG:{u}")
            out, spy = call_cog(mods, g, dst_arg, mode_arg, shape, tight, anchor, tol, rnd)
        except Exception as e:  # pylint: disable=broad-except
            R.oracle(False, "compute-output-raises", case, f"{type(e).__name__}: {e}")
            continue
        judge(R, mods, g, dst, mode_arg, shape, tight, anchor, tol, rnd, out, spy, case, lon, lat)
        if it % 3 == 0 and not callable(rnd):
            forwarding_oracle(R, mods, g, dst_arg, mode_arg, shape, tight, anchor, tol, rnd, out, case)


def shape_oracle(R, shape, out, tight, anchor, case, sig, tol=TOL_DEFAULT):
    if isinstance(shape, tuple):
        R.oracle(tuple(out.shape) == shape, "shape-request", case, f"asked {shape} got {tuple(out.shape)}", sig=sig)
        return
    got = max(out.shape)
    snapping = not tight and anchor != "floating"
    if not snapping and tol < 2.0 ** -40 and got in (shape, shape + 1):
        # the pixel size is span / n, so the pixel count ceil(maybe_int(span / res, tol)) sits exactly ON a ceil
        # decision in exact arithmetic (quotient == n); only `tol` absorbs the ulp of noise of the double quotient
        # (13.000000000000002 -> 14).  With tol below a few ulps the outcome is IEEE rounding, not judged
        # (same ulp-based guard as near_decision for the grid oracles).
        R.count("oracle:shape-request-longest|skipped-zero-tol-at-ceil-decision")
        return
    if got == shape + 1 and snapping:
        # known finding (from_bbox int-shape branch derives the pixel size, then snaps the edges outward)
        R.oracle(False, "int-shape-longest-side-plus-one", case,
                 f"asked longest side {shape} got {tuple(out.shape)} (snapping anchor)", sig=sig)
    else:
        R.oracle(got == shape, "shape-request-longest", case, f"asked longest side {shape} got {tuple(out.shape)}", sig=sig)


def judge(R, mods, g, dst, mode, shape, tight, anchor, tol, rnd, out, spy, case, lon, lat):
    from pyproj import Transformer

    Affine, GeoBox, ov, M, CRS, norm_crs, _pick, resxy_, xy_, AnchorEnum = mods
    F = Fraction
    sig = f"{case['class']}|{'rot' if not g.axis_aligned else 'mirror' if g.affine.a < 0 else 'nup'}"
    import pyproj

    dl = dst.lower()
    # hemisphere / zone of utm requests (the request text is case-insensitive)
    if dl.startswith("utm"):
        e = out.crs.epsg
        ok = e is not None and (32601 <= e <= 32660 or 32701 <= e <= 32760)
        if ok and dl == "utm-n":
            ok = e < 32700
        if ok and dl == "utm-s":
            ok = e > 32700
        R.oracle(ok, "utm-hemisphere-out", case, f"{dst} resolved to EPSG:{e}", sig=sig)
        if ok and lat is not None and dl == "utm":
            R.oracle((e > 32700) == (lat < 0) or abs(lat) < 3, "utm-hemisphere-out", case, f"{dst} at lat {lat:.2f} resolved to EPSG:{e}")
        vr = out.crs.valid_region
        if dl == "utm" and vr is not None:
            R.oracle((vr & g.extent.to_crs("EPSG:4326")).area > 0, "utm-valid-area-overlap-out", case, f"EPSG:{e} does not overlap the raster")
        same_crs = g.crs.proj == out.crs.proj
    else:
        # the output CRS is the requested one — judged by pyproj on a freshly built CRS, not by odc-geo's CRS.__eq__
        want = pyproj.CRS.from_user_input(dst)
        same_crs = g.crs.proj == want
        R.oracle(out.crs.proj == want, "output-crs-is-requested", case,
                 f"requested {dst[:60]} but the output grid is in {str(out.crs)[:60]} (source {str(g.crs)[:40]})", sig=sig)
        if not same_crs:
            R.oracle(out is not g, "different-crs-returns-source", case, "a different CRS was requested but the source GeoBox itself came back", sig=sig)
            if out is g:
                return
    if same_crs and mode in ("auto", "same") and shape is None and anchor == "default":
        R.oracle(out is g, "same-crs-identity", case, "same CRS with default options did not return the source GeoBox", sig=sig)
        return
    A = out.affine
    R.oracle(A.b == 0 and A.d == 0, "axis-aligned", case, f"output affine {tuple(A)[:6]}", sig=sig)
    a, c, e, f = F(A.a), F(A.c), F(A.e), F(A.f)
    ny, nx = out.shape
    if a == 0 or e == 0 or nx < 1 or ny < 1:
        R.oracle(False, "degenerate-output", case, f"shape {out.shape} affine {tuple(A)[:6]}")
        return
    # units rule
    shared = share_units(g.crs, out.crs)  # from the axis definitions (pyproj), not from CRS.units
    if mode == "auto" and shape is None and shared:
        sr = g.resolution
        R.oracle(close_rel(A.a, sr.x) and close_rel(A.e, sr.y), units_key("same-units-resolution", g.crs, out.crs), case,
                 f"source resolution {sr.x},{sr.y} but output {A.a},{A.e}", sig=sig)
    if shape is None and (mode == "fit" or (mode == "auto" and not shared)):
        R.oracle(A.a > 0 and A.e == -A.a, "fit-positive-square", case, f"output pixel {A.a},{A.e}", sig=sig)
        if spy.cp is not None and spy.scale is not None and rnd is None:
            want = (abs(F(spy.cp[0]) / F(spy.scale[0])) + abs(F(spy.cp[1]) / F(spy.scale[1]))) / 2
            R.oracle(abs(F(A.a) - want) <= want * F(1, 10 ** 12), "fit-resolution-average", case,
                     f"output pixel {A.a} but the average of the two centre-pixel estimates is {float(want)}", sig=sig)
        if rnd is True:
            R.oracle(A.a == round(A.a, 0), "fit-rounded", case, f"round_resolution=True but pixel size {A.a}")
    if isinstance(mode, tuple) and shape is None:
        R.oracle((A.a, A.e) == (mode[0], mode[1]), "explicit-resolution", case, f"asked {mode} got {A.a},{A.e}", sig=sig)
    if shape is not None:
        shape_oracle(R, shape, out, tight, anchor, case, sig, tol)
    # footprint bbox the code used (captured) -> cover / minimal / alignment with exact rationals
    bb = as_bb(spy.final.get("bbox")) if spy.final is not None else None
    if bb is not None and same_crs:
        # the hypothesis of theorem out_encloses_every_pixel_linear, checked exactly: in the linear (own-CRS) case the
        # footprint box contains the four corners of the source extent
        sa = g.affine
        sny, snx = g.shape
        l_, b_, r_, t_ = (F(v) for v in bb.bbox)
        cs = [(F(sa.a) * x + F(sa.b) * y + F(sa.c), F(sa.d) * x + F(sa.e) * y + F(sa.f)) for x in (0, snx) for y in (0, sny)]
        R.oracle(all(l_ <= px_ <= r_ and b_ <= py_ <= t_ for px_, py_ in cs), "footprint-bbox-contains-corners", case,
                 f"own-CRS footprint bbox {bb.bbox} does not contain the source corners {[(float(a_), float(b2)) for a_, b2 in cs]}", sig=sig)
    xs = sorted([c, c + a * nx])
    ys = sorted([f, f + e * ny])
    pa, pe = abs(a), abs(e)
    t = F(tol)
    slack = F(1, 10 ** 9)
    if bb is not None:
        l, b, r, tp = (F(v) for v in bb.bbox)
        if shape is None:
            ok = xs[0] <= l + (t + slack) * pa and xs[1] >= r - (t + slack) * pa and ys[0] <= b + (t + slack) * pe and ys[1] >= tp - (t + slack) * pe
            R.oracle(ok, "covers-footprint-bbox", case, f"output x {float(xs[0])}..{float(xs[1])} y {float(ys[0])}..{float(ys[1])} vs footprint bbox {bb.bbox}", sig=sig)
            okm = (l - xs[0] < pa * (1 + t + slack) and xs[1] - r < pa * (1 + t + slack) and b - ys[0] < pe * (1 + t + slack) and ys[1] - tp < pe * (1 + t + slack))
            if r > l and tp > b:
                R.oracle(okm, "minimal-cover", case, f"output exceeds the footprint bbox by a pixel or more: x {float(xs[0])}..{float(xs[1])} y {float(ys[0])}..{float(ys[1])} vs {bb.bbox}", sig=sig)
        else:
            disp = max(abs(xs[0] - l) / pa, abs(ys[1] - tp) / pe)
            R.oracle(disp < 1 + slack, "shape-displacement", case, f"displaced by {float(disp):.3f} pixels from the footprint", sig=sig)
            if tight or anchor == "floating":
                R.oracle(disp <= slack, "shape-tight-no-displacement", case, f"tight/floating but displaced {float(disp):.3g} px")
    # two-sided: the grid equals the exact re-computation from the footprint bbox the code used, the pixel size,
    # the requested anchor and the *requested* tol (skipped within rounding distance of a floor/ceil/tol decision)
    if bb is not None and shape is None:
        snapping = not tight and anchor != "floating"
        offs = (None, None) if not snapping else ((0, 0) if anchor in ("default", "edge") else (F(1, 2), F(1, 2)) if anchor == "center"
                                                 else (F(anchor[0]), F(anchor[1])))
        for (x0, x1, res_, off, got_t, got_n, nm) in ((l, r, a, offs[0], c, nx, "x"), (b, tp, e, offs[1], f, ny, "y")):
            if x0 > x1:
                continue
            ulp = max(abs(x0), abs(x1), abs(res_)) * F(1, 2 ** 52)
            if near_decision(x0, x1, res_, off, t, eps=16 * ulp / abs(res_) + F(1, 2 ** 48)):
                R.count("oracle:output-grid-exact|skipped-near-decision")
                continue
            wt, wn = snap_exact(x0, x1, res_, off, t)
            R.oracle(got_n == wn and abs(got_t - wt) <= 8 * ulp + abs(res_) * F(1, 10 ** 12), f"output-grid-exact-{nm}", case,
                     f"{nm}: origin {float(got_t)} n={got_n}, but footprint bbox [{float(x0)}, {float(x1)}], pixel {float(res_)}, "
                     f"anchor {None if off is None else float(off)}, tol {float(t)} give origin {float(wt)} n={wn}", sig=sig)
    # alignment
    if not tight and anchor != "floating":
        ax, ay = (0, 0) if anchor in ("default", "edge") else (F(1, 2), F(1, 2)) if anchor == "center" else (F(anchor[0]), F(anchor[1]))
        for (edge, p, off, nm) in ((xs[0], pa, ax, "x"), (ys[0], pe, ay, "y")):
            q = edge / p - off
            d = abs(q - round(q))
            R.oracle(d <= F(1, 10 ** 6), f"alignment-{nm}", case, f"pixel edge {float(edge)} is {float(d):.3g} px off the requested anchor {float(off)}", sig=sig)
    # enclosure of every source pixel corner (independent pyproj transformer)
    if shape is None:
        sny, snx = g.shape
        stride = 1
        limit = 10 ** 6 if R.quick else 2 * 10 ** 6
        while ((sny // stride) + 2) * ((snx // stride) + 2) > limit:
            stride += 1
        jj = np.unique(np.concatenate([np.arange(0, snx + 1, stride), [snx]])).astype("float64")
        ii = np.unique(np.concatenate([np.arange(0, sny + 1, stride), [sny]])).astype("float64")
        X, Y = np.meshgrid(jj, ii)
        sa = g.affine
        wx = sa.a * X + sa.b * Y + sa.c
        wy = sa.d * X + sa.e * Y + sa.f
        tr = Transformer.from_crs(g.crs.proj, out.crs.proj, always_xy=True)
        px, py = tr.transform(wx.ravel(), wy.ravel())
        px, py = np.asarray(px), np.asarray(py)
        fin = np.isfinite(px) & np.isfinite(py)
        R.oracle(bool(fin.all()), "projection-finite", case, "pyproj returned non-finite positions inside the areas of use", trivial=True)
        if fin.any():
            px, py = px[fin], py[fin]
            tolx, toly = float((t + slack) * pa) + 1e-9 * abs(float(xs[0])), float((t + slack) * pe) + 1e-9 * abs(float(ys[0]))
            bad = (px < float(xs[0]) - tolx) | (px > float(xs[1]) + tolx) | (py < float(ys[0]) - toly) | (py > float(ys[1]) + toly)
            if bad.any():
                k = int(np.argmax(bad))
                over = max(float(xs[0]) - px[k], px[k] - float(xs[1]), 0) / float(pa), max(float(ys[0]) - py[k], py[k] - float(ys[1]), 0) / float(pe)
                R.oracle(False, "encloses-every-pixel", case,
                         f"{int(bad.sum())} of {bad.size} projected pixel corners fall outside the output grid; e.g. ({px[k]}, {py[k]}) is {max(over):.3f} output pixels outside", sig=sig)
            else:
                R.oracle(True, "encloses-every-pixel", case, "", sig=sig)


def footprint_part(R: Run, mods):
    """GeoBoxBase.footprint in the linear case (destination CRS = own CRS) against the model's linearFootprintBBox:
    axis-aligned, mirrored, south-up and right-angle-turned dyadic sources, buffers whose size in CRS units is dyadic"""
    Affine, GeoBox = mods[0], mods[1]
    rng = R.rng
    for _ in range(R.pick(150, 1500)):
        r = rng.choice([1, 2, 30 * 0.5, 0.25, 1024, 2.0 ** -8, 10])
        ry = r * rng.choice([1, 1, 2, 0.5])
        nx, ny = rng.randint(1, 40), rng.randint(1, 40)
        c, f = rng.randint(-4000, 4000) * r / 4, rng.randint(-4000, 4000) * r / 4
        k = rng.random()
        if k < 0.5:
            A = Affine(r * rng.choice([1, -1]), 0, c, 0, ry * rng.choice([-1, -1, 1]), f)
        else:
            A = Affine(0, r * rng.choice([1, -1]), c, ry * rng.choice([1, -1]), 0, f)
        g = GeoBox((ny, nx), A, rng.choice(["EPSG:3857", "EPSG:32633", "EPSG:4326"]))
        B = rng.choice([0, 0.25, 0.5, 1, 2, 4])
        buf = B * max(abs(v) for v in g.resolution.xy)
        line = f"c11 fpbbox {';'.join(frac_s(v) for v in tuple(A)[:6])} {nx} {ny} {frac_s(buf)}"
        R.corr(line, lambda: ",".join(frac_s(v) for v in g.footprint(g.crs, buffer=B, npoints=100).boundingbox.bbox),
               sig=f"fpbbox|{'aligned' if A.b == 0 else 'turned'}|{'mirror' if min(A.a, A.b) < 0 else 'plain'}|buf{B}")


def forwarding_oracle(R, mods, g, dst_arg, mode, shape, tight, anchor, tol, rnd, out, case):
    """every forwarding layer hands the options on unchanged, falsy-but-meaningful values included (tol=0, tight=False,
    shape=None, round_resolution=False/None): GeoBox.to_crs(crs, **kw) is compute_output_geobox(gbox, crs, **kw)"""
    Affine, GeoBox, ov, M, CRS, norm_crs, _pick, resxy_, xy_, AnchorEnum = mods
    res = mode if not isinstance(mode, tuple) else resxy_(*mode)
    try:
        out2 = g.to_crs(dst_arg, resolution=res, shape=shape, tight=tight, anchor=anchor_py(anchor, xy_, AnchorEnum), tol=tol,
                        round_resolution=rnd)
    except Exception as e:  # pylint: disable=broad-except
        R.oracle(False, "to-crs-forwards-options", case, f"to_crs raised {type(e).__name__}: {e}")
        return
    same = (out2 is out) or (tuple(out2.shape) == tuple(out.shape) and out2.affine == out.affine and out2.crs.proj == out.crs.proj)
    R.oracle(same, "to-crs-forwards-options", case,
             f"GeoBox.to_crs gives {tuple(out2.shape)} {tuple(out2.affine)[:6]} but compute_output_geobox with the same options "
             f"{tuple(out.shape)} {tuple(out.affine)[:6]}")


def fastpath_part(R: Run, mods):
    """the own-CRS corner (identity fast path): every explicit anchor spelling on sources that are NOT aligned that
    way (centre-registered, arbitrary sub-pixel offsets, mirrored, rotated), every spelling of the own CRS; the
    requested alignment is judged, and the result is compared with the slow path (same request with the resolution
    passed explicitly equal to the source's, and the CRS spelled differently)"""
    Affine, GeoBox, ov, M, CRS, norm_crs, _pick, resxy_, xy_, AnchorEnum = mods
    rng = R.rng
    for _ in range(R.pick(40, 400)):
        spec = rng.choice(["EPSG:32633", "EPSG:3857", "EPSG:4326", "EPSG:6933", "ESRI:54009", "OGC:CRS84", "EPSG:3577"])
        lon, lat = (rng.uniform(12.5, 17.5), rng.uniform(35, 60)) if spec != "EPSG:3577" else (rng.uniform(125, 145), rng.uniform(-35, -18))
        rotated = rng.choice([False, False, False, "mirror", True])
        try:
            g = make_source(R, mods, lon, lat, mk_crs(rng, CRS, spec), rng.choice([3e3, 4e4, 2e5]), rng.choice([1, 7, 40, 150]), rotated)
        except Exception:  # pylint: disable=broad-except
            continue
        # sub-pixel registration: centre-registered, quarter, arbitrary, or already edge-aligned
        px = abs(g.resolution.x)
        fx, fy = rng.choice([(0.5, 0.5), (0.5, 0.5), (0.25, 0.75), (rng.random(), rng.random()), (0.0, 0.0)])
        A = g.affine
        if not rotated or rotated == "mirror":
            A = Affine(A.a, 0, (math.floor(A.c / px) + fx) * px, 0, A.e, (math.floor(A.f / px) + fy) * px)
        g = GeoBox(g.shape, A, g.crs)
        spellings = [g.crs, mk_crs(rng, CRS, spec), spec, mk_crs(rng, CRS, g.crs.to_wkt())]
        if spec.startswith("EPSG:"):
            spellings += [int(spec.split(":")[1]), spec.lower()]  # authority names of other registries are case-sensitive in PROJ
        dst_arg = rng.choice(spellings)
        anchor = rng.choice(["edge", "edge", "center", "floating", (0.3, 0.6), (0.3, 0.3), "default"])
        mode = rng.choice(["auto", "auto", "same"])
        tol = rng.choice([0.01, 0.01, 0.0, 0.05])
        tight = rng.random() < 0.1
        case = {"src": f"{tuple(g.shape)} {tuple(g.affine)[:6]} {spec}", "dst": spec, "dst_spelling": type(dst_arg).__name__,
                "mode": mode, "shape": None, "tight": tight, "anchor": anchor_s(anchor), "tol": tol, "round": None, "class": "own-crs",
                "registration": [fx, fy]}
        try:
            out, spy = call_cog(mods, g, dst_arg, mode, None, tight, anchor, tol, None)
        except Exception as e:  # pylint: disable=broad-except
            R.oracle(False, "compute-output-raises", case, f"{type(e).__name__}: {e}")
            continue
        judge(R, mods, g, spec, mode, None, tight, anchor, tol, None, out, spy, case, None, None)
        if anchor != "default":
            # slow path: resolution given explicitly (equal to the source's), CRS spelled differently
            try:
                sr = g.resolution
                slow, _ = call_cog(mods, g, rng.choice(spellings), (sr.x, sr.y), None, tight, anchor, tol, None)
            except Exception as e:  # pylint: disable=broad-except
                R.oracle(False, "compute-output-raises", case, f"slow path: {type(e).__name__}: {e}")
                continue
            same = tuple(slow.shape) == tuple(out.shape) and slow.affine == out.affine and slow.crs.proj == out.crs.proj
            R.oracle(same, "own-crs-equals-explicit-resolution", case,
                     f"resolution={mode} gives {tuple(out.shape)} {tuple(out.affine)[:6]}{' (the source itself)' if out is g else ''}, "
                     f"but the same request with resolution={sr.x, sr.y} gives {tuple(slow.shape)} {tuple(slow.affine)[:6]}")


def antimeridian_corpus(R: Run, mods):
    """recorded failing input (kept every run): a raster wholly inside UTM zone 1, 2 m from the antimeridian; its 0.9 px
    footprint buffer crosses +-180 and 'utm-n' resolves to zone 2"""
    import pyproj

    Affine, GeoBox, ov = mods[0], mods[1], mods[2]
    g = GeoBox((100, 100), Affine(10.0, 0.0, 314901.1311582618, 0.0, -10.0, 3745609.640497205), "EPSG:32701")
    case = {"corpus": "antimeridian", "src": f"{tuple(g.shape)} {tuple(g.affine)[:6]} EPSG:32701", "dst": "utm-n"}
    try:
        out = ov.compute_output_geobox(g, "utm-n")
        back = pyproj.Transformer.from_crs("EPSG:32701", "EPSG:4326", always_xy=True)
        lons = [back.transform(g.affine.c + i * 1000.0, g.affine.f - j * 1000.0)[0] for i in (0, 1) for j in (0, 1)]
        z = {int((v + 180) // 6) + 1 for v in lons}
        R.oracle(len(z) != 1 or out.crs.epsg % 100 == min(60, z.pop()), "utm-zone-of-raster|buffer-crosses-antimeridian", case,
                 f"utm-n resolved to EPSG:{out.crs.epsg} for a raster spanning lon {min(lons):.7f}..{max(lons):.7f} (zone 1)")
    except Exception as e:  # pylint: disable=broad-except
        R.oracle(False, "compute-output-raises", case, repr(e))


def utm_matrix_part(R: Run, mods):
    """'utm' / 'utm-n' / 'utm-s' destinations over a position x size matrix: rasters from a single 0.5 m pixel to
    ~300 km, centred +-{0.1 px, 0.9 px, 10 px, 1 km} from every kind of zone boundary (lon = 6k deg, the equator,
    +-180, the 84N / 80S limits).  Oracle independent of odc-geo: the area of use of the chosen EPSG code (pyproj
    database) overlaps the raster, is THE zone when the raster lies entirely in one, hemisphere as requested / by
    latitude; plus enclosure etc. through judge(); a source already in its own best zone comes back unchanged."""
    import pyproj

    Affine, GeoBox, ov, M, CRS, norm_crs, _pick, resxy_, xy_, AnchorEnum = mods
    rng = R.rng
    sizes = [(1, 0.5), (6, 1.0), (100, 10.0), (1000, 30.0), (3000, 100.0)]
    # a fixed core of the matrix (the cells where a wrong pick does not overlap the raster at all: chips a few metres
    # across, less than a pixel / ten pixels from a boundary) and a random sample of the rest
    core = [(sz, k * f, kind) for sz in sizes[:3] for kind in ("zone", "equator") for f in (0.9, 10) for k in (1, -1)]
    cells = core + [None] * R.pick(8, 400)
    for cell in cells:
        npx, res = rng.choice(sizes) if cell is None else cell[0]
        off_m = (rng.choice([0.1 * res, 0.9 * res, 10 * res, 1000.0]) * rng.choice([1, -1])) if cell is None else cell[1] * res
        kind = rng.choice(["zone", "zone", "zone", "equator", "equator", "antimeridian", "limit"]) if cell is None else cell[2]
        lat = rng.choice([rng.uniform(-70, 75), rng.uniform(-5, 5), 47.3, -33.1])
        lon = -180 + 6 * rng.randint(1, 59) + rng.uniform(0.7, 5.3)
        m_lat = 1 / 110574.0
        if kind == "zone":
            lon = -180 + 6 * rng.randint(1, 59) + off_m / (111320.0 * math.cos(math.radians(lat)))
        elif kind == "equator":
            lat = off_m * m_lat
        elif kind == "antimeridian":
            # the 0.9 px footprint buffer must not cross +-180 (outside the valid area of the source CRS): 2 px margin
            half = (npx * res / 2 + abs(off_m) + 2 * res + 1) / (111320.0 * math.cos(math.radians(lat)))
            lon = rng.choice([180 - half, -180 + half])
        else:
            half = (npx * res / 2 + abs(off_m) + 1) * m_lat
            lat = rng.choice([84 - half, -80 + half])
        zone_c = min(60, int((lon + 180) // 6) + 1)
        src_kind = rng.choice(["4326", "4326", "3857", "own-utm", "next-utm"]) if abs(lat) < 80 else "4326"
        if src_kind == "4326":
            sc, r = "EPSG:4326", res * m_lat
        elif src_kind == "3857":
            sc, r = "EPSG:3857", res / max(0.05, math.cos(math.radians(lat)))
        else:
            z = zone_c if src_kind == "own-utm" else min(60, max(1, zone_c + rng.choice([-1, 1])))
            sc, r = f"EPSG:{(32600 if lat >= 0 else 32700) + z}", res
        try:
            tr = pyproj.Transformer.from_crs("EPSG:4326", sc, always_xy=True)
            cx, cy = tr.transform(lon, lat)
            g = GeoBox((npx, npx), Affine(r, 0, cx - r * npx / 2, 0, -r, cy + r * npx / 2), mk_crs(rng, CRS, sc))
            back = pyproj.Transformer.from_crs(sc, "EPSG:4326", always_xy=True)
            cs = [back.transform(g.affine.c + i * r * npx, g.affine.f - j * r * npx) for i in (0, 0.5, 1) for j in (0, 0.5, 1)]
        except Exception:  # pylint: disable=broad-except
            continue
        lons, lats = [c[0] for c in cs], [c[1] for c in cs]
        if not all(math.isfinite(v) for v in lons + lats) or max(lons) - min(lons) > 20:
            continue
        # a source given in a UTM CRS is turned against the meridians (grid convergence): a corner can come closer to +-180
        # than the centre-based margin above allows; the 0.9 px footprint buffer then crosses the antimeridian, the
        # footprint's lon/lat box spans the globe and the UTM choice is arbitrary — judged under its own key
        # (known finding `utm-zone-of-raster|buffer-crosses-antimeridian`), enclosure etc. not judged there
        near_am = (180 - max(abs(v) for v in lons)) * 111320.0 * math.cos(math.radians(lat)) < 2.0 * res
        req = rng.choice(UTM_SPELLINGS)
        rl = req.lower()
        case = {"utm-matrix": kind, "src": f"{tuple(g.shape)} {tuple(g.affine)[:6]} {sc}", "dst": req, "centre": [lon, lat],
                "offset_m": off_m, "pixel_m": res, "mode": "auto", "shape": None, "tight": False, "anchor": "default", "tol": 0.01,
                "round": None, "class": "utm-matrix"}
        try:
            out, spy = call_cog(mods, g, req, "auto", None, False, "default", 0.01, None)
        except Exception as e:  # pylint: disable=broad-except
            R.oracle(False, "compute-output-raises", case, f"{type(e).__name__}: {e}")
            continue
        e = out.crs.epsg
        if e is None or not (32601 <= e <= 32660 or 32701 <= e <= 32760):
            R.oracle(False, "utm-zone-of-raster", case, f"{req} resolved to {out.crs}")
            continue
        aou = pyproj.CRS.from_epsg(e).area_of_use  # west, south, east, north from the EPSG database
        lo, hi = min(lons), max(lons)
        ov_lon = min(hi, aou.east) - max(lo, aou.west)
        ok = ov_lon > 0 or (hi - lo == 0 and aou.west <= lo <= aou.east)
        # the raster lies entirely inside one zone -> that zone
        z_lo, z_hi = int((lo + 180) // 6) + 1, int((hi + 180 - 1e-12) // 6) + 1
        if z_lo == z_hi:
            ok = ok and (e % 100) == min(60, z_lo)
        R.oracle(ok, "utm-zone-of-raster" + ("|buffer-crosses-antimeridian" if near_am else ""), case,
                 f"{req} resolved to EPSG:{e} (area of use {aou.west}..{aou.east} E) for a raster spanning lon {lo:.7f}..{hi:.7f}", sig=f"utm-matrix|{kind}")
        if near_am:
            continue
        south = e > 32700
        if rl in ("utm-n", "utm-s"):
            R.oracle(south == (rl == "utm-s"), "utm-hemisphere-out", case, f"{req} resolved to EPSG:{e}")
        elif min(lats) > 0 or max(lats) < 0:
            R.oracle(south == (max(lats) < 0), "utm-hemisphere-of-raster", case,
                     f"{req} resolved to EPSG:{e} for a raster spanning lat {min(lats):.7f}..{max(lats):.7f}", sig=f"utm-matrix|{kind}")
        # a source already in the zone it lies in comes back unchanged
        if src_kind == "own-utm" and z_lo == z_hi and g.crs.epsg == e:
            R.oracle(out is g, "utm-own-zone-identity", case, "source already in its UTM zone was not returned unchanged")
        if npx * res <= 4e5 and abs(lat) < 79:
            judge(R, mods, g, req, "auto", None, False, "default", 0.01, None, out, spy, case, None, None)


def coarse_part(R: Run, mods):
    """coarse destinations (output pixel >= 100 source pixels) with small tol and footprint edges placed
    tol * {0.5, 2} before / past output pixel boundaries (captured-bbox construction: the pixel size and the
    anchor fractions are derived from the footprint bbox the code will see)"""
    Affine, GeoBox, ov, M, CRS, norm_crs, _pick, resxy_, xy_, AnchorEnum = mods
    rng = R.rng
    for _ in range(R.pick(12, 160)):
        k = rng.random()
        if k < 0.6:
            z = rng.randint(28, 37)
            n = rng.choice([1200, 2000, 5490])
            src = GeoBox((n, n), Affine(10, 0, 199980 + 10 * rng.randint(0, 30000), 0, -10, 4000020 + 10 * rng.randint(-30000, 60000)), f"EPSG:326{z}")
            dst = rng.choice(["EPSG:3857", "EPSG:4326", "EPSG:6933", f"EPSG:326{z + rng.choice([-1, 1])}"])
        elif k < 0.8:
            n = rng.choice([1500, 3000])
            src = GeoBox((n, n), Affine(1e-4, 0, rng.uniform(-120, 120), 0, -1e-4, rng.uniform(-55, 60)), "EPSG:4326")
            dst = rng.choice(["EPSG:3857", "EPSG:6933", "utm"])
        else:
            n = rng.choice([1000, 4000])
            src = GeoBox((n, n), Affine(-20, 0, 1500000 + 20 * n, 0, -20, 6500000), "EPSG:3857")  # mirrored
            dst = rng.choice(["EPSG:4326", "EPSG:6933"])
        tol = rng.choice([1e-2, 1e-3, 1e-4, 1e-6, 0, 0.0])
        try:
            bbox = src.footprint(dst, buffer=0.9, npoints=100).boundingbox
        except Exception:  # pylint: disable=broad-except
            continue
        N = rng.randint(2, 10)
        # tol = 0 (falsy but meaningful): edges 0.2 % / 0.8 % of a pixel before / past the boundaries
        fl, fr, fb = (rng.choice([0.5, 2, -0.5, -2]) * (tol if tol > 0 else 0.004) for _ in range(3))
        res = bbox.span_x / (N + fr - fl)
        ax = (bbox.left / res - fl) % 1.0
        ay = (bbox.bottom / res - fb) % 1.0
        if not (0 <= ax < 1 and 0 <= ay < 1) or res <= 0:
            continue
        anchor = (ax, ay)
        mode = (res, -res)
        case = {"coarse": True, "src": f"{tuple(src.shape)} {tuple(src.affine)[:6]} {src.crs}", "dst": dst, "mode": f"explicit {mode}",
                "shape": None, "tight": False, "anchor": anchor_s(anchor), "tol": tol, "round": None, "class": "coarse",
                "edge_fractions": [fl, fr, fb]}
        try:
            cache_history(rng, src.crs, dst)
            out, spy = call_cog(mods, src, dst, mode, None, False, anchor, tol, None)
        except Exception as e:  # pylint: disable=broad-except
            R.oracle(False, "compute-output-raises", case, f"{type(e).__name__}: {e}")
            continue
        judge(R, mods, src, dst, mode, None, False, anchor, tol, None, out, spy, case, None, None)
        forwarding_oracle(R, mods, src, dst, mode, None, False, anchor, tol, None, out, case)


def run(R: Run):
    mods = _import()
    _ARNG[0] = __import__("random").Random(R.rng.getrandbits(32))
    snap_part(R, mods)
    snap_float_part(R, mods)
    footprint_part(R, mods)
    exact_cog_part(R, mods)
    utm_part(R, mods)
    glue_part(R, mods)
    gcp_source_part(R, mods)
    units_part(R, mods)
    # more than 256 distinct ad-hoc CRS definitions pass through the process before the enclosure streams, on every run
    # (cache-eviction / object-id reuse histories need that scale: do not trim below ~300)
    crs_churn(R, mods, R.pick(330, 1600))
    nonepsg_part(R, mods)
    fastpath_part(R, mods)
    shape_corner_part(R, mods)
    lookalike_part(R, mods)
    antimeridian_corpus(R, mods)
    utm_matrix_part(R, mods)
    coarse_part(R, mods)
    float_part(R, mods)
    R.assumptions.append("pyproj/PROJ transformations, shapely buffer/densify and the pyproj UTM database query are parameters: "
                         "their outputs are captured from the real run and fed to the model; enclosure under projection "
                         "curvature is sampled by an independent pyproj Transformer, not proved")


def replay(R: Run, rec) -> int:
    mods = _import()
    print("replay key:", rec.get("key"))
    print("replay case:", rec.get("case"))
    print("recorded:", rec.get("what"))
    R3 = Run("C11", rec.get("tier", R.tier), int(rec.get("seed", R.seed)))
    run(R3)
    same = [f for f in R3.oracle_failures if f["key"] == rec.get("key")]
    for f in same[:3]:
        print("still fails:", f["case"], f["what"])
    case = rec.get("case") or {}
    if isinstance(case, dict) and "line" in case:
        from .common import run_driver

        try:
            print("model:", run_driver("C11", [case["line"]]))
        except Exception as e:  # pylint: disable=broad-except
            print("model driver unavailable:", e)
    return 1 if same else 0
